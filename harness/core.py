"""Shared machinery of the correspondence suites and checks (DESIGN §2.5, §2.6)."""
import fcntl
import hashlib
import json
import os
import random
import shutil
import signal
import subprocess
import sys
import tempfile
import time

HERE = os.path.dirname(os.path.abspath(__file__))
VERIF = os.path.dirname(HERE)
LEAN_DIR = os.path.join(VERIF, "lean")
REPO = os.environ.get("VERIF_REPO", "/repo")
GENERATED = os.path.join(LEAN_DIR, "PyProb", "Generated", "Repo.lean")
DRIVER_EXE = os.path.join(LEAN_DIR, ".lake", "build", "bin", "driver")

sys.dont_write_bytecode = True
os.environ.setdefault("PYTHONDONTWRITEBYTECODE", "1")
if REPO not in sys.path:
    sys.path.insert(0, REPO)


SEARCH_DEADLINE = [None]


def set_search_budget(seconds):
    SEARCH_DEADLINE[0] = time.time() + seconds


def search_expired():
    return SEARCH_DEADLINE[0] is not None and time.time() > SEARCH_DEADLINE[0]


class MachineryError(Exception):
    """our own tooling failed (exit 2) — never a violation"""


class BuildBroken(Exception):
    """a Lean obligation no longer builds (broken proof / tie)"""

    def __init__(self, target, log):
        super().__init__(f"lake build {target} failed")
        self.target = target
        self.log = log


# --------------------------------------------------------------------------------------------
# lake


class LakeLock:
    def __enter__(self):
        os.makedirs(os.path.join(LEAN_DIR, ".lake"), exist_ok=True)
        self.fh = open(os.path.join(LEAN_DIR, ".lake", "verif.lock"), "w")
        fcntl.flock(self.fh, fcntl.LOCK_EX)
        return self

    def __exit__(self, *a):
        fcntl.flock(self.fh, fcntl.LOCK_UN)
        self.fh.close()


def lake(args, timeout=3600):
    env = dict(os.environ)
    env.pop("LEAN_PATH", None)
    proc = subprocess.run(["lake"] + args, cwd=LEAN_DIR, capture_output=True, text=True, timeout=timeout, env=env)
    return proc.returncode, proc.stdout + proc.stderr


def lake_build(targets, timeout=3600):
    """build targets under the lock; raises BuildBroken"""
    with LakeLock():
        rc, out = lake(["build"] + list(targets), timeout=timeout)
    if rc != 0:
        raise BuildBroken(" ".join(targets), out)
    return out


def lean_run_file(relpath, timeout=1800):
    """`lake env lean <file>` (used for the axiom audit); returns output"""
    with LakeLock():
        rc, out = lake(["env", "lean", relpath], timeout=timeout)
    return rc, out


# --------------------------------------------------------------------------------------------
# driver


def run_driver(lines, timeout=1800):
    """pipe request lines through the compiled model driver, return reply lines"""
    if not os.path.exists(DRIVER_EXE):
        raise MachineryError("driver executable missing (lake build driver)")
    data = "".join(l + "\n" for l in lines)
    proc = subprocess.run([DRIVER_EXE], input=data, capture_output=True, text=True, timeout=timeout)
    if proc.returncode != 0:
        raise MachineryError(f"driver exited {proc.returncode}: {proc.stderr[-400:]}")
    out = proc.stdout.split("\n")
    if out and out[-1] == "":
        out.pop()
    if len(out) != len(lines):
        raise MachineryError(f"driver returned {len(out)} replies for {len(lines)} requests")
    return out


def parse_reply(reply):
    d = {}
    for part in reply.split(" | "):
        if "=" in part:
            k, v = part.split("=", 1)
            d[k] = v
        else:
            d["_raw"] = part
    return d


# --------------------------------------------------------------------------------------------
# canonical forms


def key_token(key):
    if isinstance(key, str):
        return "t:" + ",".join(str(ord(c)) for c in key)
    return "b:" + ",".join(str(b) for b in bytes(key))


def nats(seq):
    return ",".join(str(int(x)) for x in seq)


def hexs(b):
    return bytes(b).hex()


class Timeout(Exception):
    pass


def _alarm(signum, frame):
    raise Timeout()


def call(fn, *args, budget=None, **kwargs):
    """run fn; returns ('ok', value) or ('err', '!ExceptionClass'); a step budget maps to !DIVERGED.
    The budget is CPU time of this process (ITIMER_VIRTUAL), not wall-clock time: a call that does not
    terminate burns CPU and is stopped, while a busy machine that deschedules the process is not mistaken for
    non-termination."""
    if not budget:
        try:
            return "ok", fn(*args, **kwargs)
        except Exception as exc:  # noqa: BLE001 - the enum is the observation
            return "err", "!" + type(exc).__name__
    old = signal.signal(signal.SIGVTALRM, _alarm)
    result = None
    try:
        try:
            signal.setitimer(signal.ITIMER_VIRTUAL, budget)
            try:
                result = ("ok", fn(*args, **kwargs))
            except Timeout:
                result = ("err", "!DIVERGED")
            except Exception as exc:  # noqa: BLE001
                result = ("err", "!" + type(exc).__name__)
            finally:
                signal.setitimer(signal.ITIMER_VIRTUAL, 0)
        except Timeout:
            # the timer fired in the window between the end of fn and its disarming
            if result is None:
                result = ("err", "!DIVERGED")
    finally:
        signal.signal(signal.SIGVTALRM, old)
    return result


def show(v):
    if v is None:
        return "None"
    if v is True:
        return "True"
    if v is False:
        return "False"
    return str(v)


def ret_str(res):
    kind, val = res
    return val if kind == "err" else show(val)


# --------------------------------------------------------------------------------------------
# reading a structure's state: through the private attribute when it exists (cheapest, most direct),
# through the public surface otherwise — a refactoring that renames a private attribute no test and no
# other module touches must not blind the harness


def cms_bins(obj):
    """the counters of a count-min style sketch, row-major"""
    try:
        return list(obj._bins)
    except AttributeError:
        import struct as _struct

        data = bytes(obj)
        n = obj.width * obj.depth
        return list(_struct.unpack("<%di" % n, data[: 4 * n]))


def bloom_setbits(obj):
    """number of non-zero cells of a Bloom / counting Bloom filter"""
    try:
        return obj._cnt_number_bits_set()
    except AttributeError:
        cells = obj.bloom
        if getattr(cells, "typecode", "B") == "B" or isinstance(cells, (bytes, bytearray, memoryview)):
            return sum(bin(b).count("1") for b in bytes(cells)[: obj.bloom_length])
        return sum(1 for c in cells if c > 0)


def qf_internals(qf):
    """(occupied, continuation, shifted bit strings, remainders) or None when the representation is not the
    known one (the observable facets — hashes, count, size — are compared regardless)"""
    try:
        return (qf._is_occupied.as_string(), qf._is_continuation.as_string(), qf._is_shifted.as_string(), list(qf._filter))
    except AttributeError:
        return None


# --------------------------------------------------------------------------------------------
# suites


class Suite:
    """A correspondence suite.  Subclasses define:
    name, gen(rng, tier) -> list of sequences (lists of abstract ops),
    run_real(seq) -> list of (request line, {facet: value}) — executed on fresh real objects,
    nontrivial(seq, obs) -> bool, describe(op) -> str"""

    name = "?"

    def gen(self, rng, tier):
        raise NotImplementedError

    def run_real(self, seq):
        raise NotImplementedError

    def nontrivial(self, seq, pairs):
        return len(seq) > 1

    def corpus(self):
        path = os.path.join(HERE, "corpus", self.name + ".json")
        if os.path.exists(path):
            with open(path) as fh:
                return [[tuple(op) if isinstance(op, list) else op for op in seq] for seq in json.load(fh)]
        return []


def _untuple(x):
    if isinstance(x, (list, tuple)):
        return [_untuple(y) for y in x]
    if isinstance(x, bytes):
        return {"bytes": x.hex()}
    return x


class Disagreement:
    def __init__(self, suite, seq, index, line, facet_diffs, real, model):
        self.suite = suite
        self.seq = seq
        self.index = index
        self.line = line
        self.facets = facet_diffs  # list of facet names that differ
        self.real = real
        self.model = model

    def to_json(self):
        return {
            "suite": self.suite,
            "ops": _untuple(self.seq),
            "failing_line_index": self.index,
            "request": self.line,
            "facets": self.facets,
            "real": {k: self.real.get(k) for k in self.facets},
            "model": {k: self.model.get(k) for k in self.facets},
        }


# facets that are values a call returns or derives, as opposed to parts of the structure's state
PURE_OUTPUT = {"ret", "payload", "qtype", "trace", "estimate", "cfpr", "setbits"}
# request kinds that name more than one structure (result and operands / source)
MULTI_HANDLE = {"union", "inter", "jacc", "join", "load", "loadraw", "reopen", "loadmem", "view", "merge"}


def line_handles(line):
    """handles of the structures a request line reads or writes"""
    toks = line.split()
    if len(toks) < 2 or toks[0].startswith(("h.", "sz.")):
        return set()
    hs = {toks[1]}
    if toks[0].split(".", 1)[-1] in MULTI_HANDLE:
        hs |= {t for t in toks[2:4] if t.isdigit()}
    return hs


def compare_pairs(pairs, replies, accept=None):
    """first disagreement that counts -> (index, [facets], real, model) or None.

    A disagreement counts when accept(line, facets) holds (always, when accept is None) AND it is
    introduced at that line: once model and implementation disagree about the STATE of a structure at a
    line the caller does not look at, every later difference on that structure (and on structures derived
    from it) is a consequence of that earlier step, not evidence about the lines the caller does look at,
    so it is skipped.  Facets present on only one side are ignored unless the model answered
    bad-op/bad-handle."""
    diverged = False
    dirty = set()
    for i, ((line, real), rep) in enumerate(zip(pairs, replies)):
        model = parse_reply(rep)
        if "_raw" in model and model["_raw"] in ("bad-op", "bad-handle"):
            if diverged and model["_raw"] == "bad-handle":
                # a consequence of an earlier disagreement the caller does not look at (e.g. the constructor
                # succeeded on one side only): nothing further can be compared in this sequence
                return None
            raise MachineryError(f"driver rejected request {line!r}: {model['_raw']}")
        hs = line_handles(line)
        inherited = bool(hs & dirty)
        diffs = [k for k in real if k in model and real[k] != model[k]]
        if diffs:
            diverged = True
            if accept is None:
                return i, diffs, real, model
            if not inherited and accept(line, diffs):
                return i, diffs, real, model
            if inherited or any(k not in PURE_OUTPUT for k in diffs):
                dirty |= hs
        elif inherited:
            dirty |= hs
    return None


def run_suite(suite, seqs, accept=None):
    """execute all sequences on the real code and the model; returns (disagreements, stats).
    accept(line, facets) selects the disagreements that matter to the caller: per sequence the FIRST
    accepted disagreement is reported."""
    all_pairs = []
    lines = []
    t0 = time.time()
    unobservable = []
    for seq in seqs:
        try:
            pairs = suite.run_real(seq)
        except MachineryError:
            raise
        except Exception as exc:  # noqa: BLE001
            # the harness could not observe the implementation on this sequence (it never happens on the
            # unchanged tree): the correspondence cannot be checked there, which is a broken tie, not a crash
            import traceback

            where = traceback.extract_tb(exc.__traceback__)[-1]
            unobservable.append(Disagreement(suite.name, seq, 0, "<observation failed>", ["observation"], {"observation": f"{type(exc).__name__}: {exc} at {os.path.basename(where.filename)}:{where.lineno}"}, {"observation": "ok"}))
            pairs = []
        all_pairs.append(pairs)
        lines.append("reset")
        lines.extend(p[0] for p in pairs)
    t_real = time.time() - t0
    t0 = time.time()
    replies = run_driver(lines)
    t_model = time.time() - t0
    out = list(unobservable[:3])
    pos = 0
    nontrivial = set()
    n_lines = 0
    for seq, pairs in zip(seqs, all_pairs):
        pos += 1
        reps = replies[pos : pos + len(pairs)]
        pos += len(pairs)
        n_lines += len(pairs)
        res = compare_pairs(pairs, reps, accept)
        if res is not None:
            i, diffs, real, model = res
            out.append(Disagreement(suite.name, seq, i, pairs[i][0], diffs, real, model))
        if suite.nontrivial(seq, pairs):
            nontrivial.add(hashlib.sha1("\n".join(p[0] for p in pairs).encode()).hexdigest())
    stats = {
        "suite": suite.name,
        "sequences": len(seqs),
        "lines": n_lines,
        "distinct_nontrivial": len(nontrivial),
        "t_real_s": round(t_real, 2),
        "t_model_s": round(t_model, 2),
    }
    return out, stats


def still_disagrees(suite, seq, facets, accept=None):
    try:
        pairs = suite.run_real(seq)
        if not pairs:
            return None
        replies = run_driver(["reset"] + [p[0] for p in pairs])[1:]
        res = compare_pairs(pairs, replies, accept)
    except MachineryError:
        return None
    except Exception:  # noqa: BLE001 - a shrunk sequence may be ill-formed for the harness
        return None
    if res is None:
        return None
    i, diffs, real, model = res
    if facets is not None and not (set(diffs) & set(facets)):
        return None
    return Disagreement(suite.name, seq, i, pairs[i][0], diffs, real, model)


def shrink(suite, dis, facets=None, max_attempts=150, accept=None):
    """delta-debugging over the op list (ops after the failing line are dropped first)"""
    best = dis
    seq = list(dis.seq)
    attempts = 0
    n = 2
    while len(seq) >= 2 and attempts < max_attempts:
        chunk = max(1, len(seq) // n)
        reduced = False
        for start in range(0, len(seq), chunk):
            cand = seq[:start] + seq[start + chunk :]
            if not cand:
                continue
            attempts += 1
            got = still_disagrees(suite, cand, facets, accept)
            if got is not None:
                seq, best, reduced = cand, got, True
                n = max(n - 1, 2)
                break
            if attempts >= max_attempts:
                break
        if not reduced:
            if chunk == 1:
                break
            n = min(len(seq), n * 2)
    return best


# --------------------------------------------------------------------------------------------
# scratch space


class Scratch:
    def __enter__(self):
        base = "/dev/shm" if os.path.isdir("/dev/shm") and os.access("/dev/shm", os.W_OK) else None
        self.dir = tempfile.mkdtemp(prefix="pyprob-verif-", dir=base)
        return self.dir

    def __exit__(self, *a):
        shutil.rmtree(self.dir, ignore_errors=True)


def seeded(seed, *salt):
    h = hashlib.sha256(("%d|" % seed + "|".join(str(s) for s in salt)).encode()).digest()
    return random.Random(int.from_bytes(h[:8], "big"))
