#!/usr/bin/env python3
"""Write MANIFEST.json from the property table (keeps it valid and in step with props.py)."""
import json
import os
import sys

HERE = os.path.dirname(os.path.abspath(__file__))
sys.path.insert(0, HERE)
from manifest_meta import META, NOT_APPLICABLE  # noqa: E402

PY = "/venv/bin/python"

checks = []
for pid in sorted(META):
    m = META[pid]
    checks.append(
        {
            "property_id": pid,
            "quick_cmd": f"{PY} harness/check.py {pid} --tier quick",
            "thorough_cmd": f"{PY} harness/check.py {pid} --tier thorough",
            "evidence_file": f"evidence/{pid}.json",
            "replay_cmd_template": f"{PY} harness/check.py {pid} --replay {{path}}",
            "engine": "lean4-proof+correspondence",
            "level_claimed": {"category": "proof", "text": m["text"], "design_ref": m["design_ref"]},
            "level_note": m["note"],
            "technique": m["technique"],
        }
    )

manifest = {
    "version": 1,
    "setup_cmd": f"{PY} harness/extract_facts.py && cd lean && lake build PyProb driver",
    "hooks": {
        "guard": "PYPROBABLES_VERIF",
        "enable": "no hooks are needed: hashes/oracles are injected through public parameters and by wrapping functions of the `random` module object inside the harness process; checks import /repo (or $VERIF_REPO) in-process",
        "baseline_off_cmd": "cd /repo && /venv/bin/python -m pytest -ra -q -p no:cacheprovider --timeout=900 --continue-on-collection-errors",
        "source_commits": [],
        "add_only": True,
    },
    "engines": [
        {
            "name": "lean4-proof+correspondence",
            "path": "harness/check.py",
            "serves_properties": sorted(META),
            "kind_free_text": "Lean 4 theorems about hand-written executable models (lean/PyProb), tied to /repo on every run by (1) harness/extract_facts.py regenerating lean/PyProb/Generated/Repo.lean from the source and rebuilding the proofs against it and (2) differential correspondence suites driving the compiled Lean models and the real classes with the same operation sequences; a model-free search on the real code produces the replay when either breaks",
        }
    ],
    "checks": checks,
    "notes": "exit 2 = our own machinery failed (never a violation). VERIF_SEED seeds every random choice; VERIF_REPO overrides /repo.",
    "not_applicable": NOT_APPLICABLE,
}
with open(os.path.join(HERE, "..", "MANIFEST.json"), "w") as fh:
    json.dump(manifest, fh, indent=1)
    fh.write("\n")
print("MANIFEST.json written:", len(checks), "checks,", len(NOT_APPLICABLE), "not yet claimed")
