#!/usr/bin/env python3
"""Machinery self-test (DESIGN §2.11) — not a registered check.

For every seeded change under /verif/seeded/<id>/ (patch.diff, demo.py, meta.json):
  1. in a scratch worktree of /repo (outside /repo and /verif, removed afterwards): the demo passes on
     the clean tree, the patch applies, the whole test suite still passes, the demo fails;
  2. every property's quick check is run with VERIF_REPO pointing at the patched worktree (evidence and
     replays go to a scratch directory), and which properties report a violation — with a concrete
     failing input or as no-failing-input-found — is recorded.
Also runs all checks on the clean tree with several VERIF_SEED values (must be silent).
Usage: selftest.py [--only ID ...] [--clean-seeds 0 1 2] [--props C01 ...]"""
import argparse
import concurrent.futures
import json
import os
import shutil
import subprocess
import sys
import tempfile
import time

HERE = os.path.dirname(os.path.abspath(__file__))
VERIF = os.path.dirname(HERE)
PY = "/venv/bin/python"
sys.path.insert(0, HERE)


def sh(cmd, cwd=None, env=None, timeout=1800):
    p = subprocess.run(cmd, cwd=cwd, env=env, capture_output=True, text=True, timeout=timeout)
    return p.returncode, p.stdout + p.stderr


def run_check(pid, repo, scratch, seed, tier="quick"):
    env = dict(os.environ, VERIF_REPO=repo, VERIF_SEED=str(seed), VERIF_EVIDENCE_DIR=os.path.join(scratch, "ev"), VERIF_REPLAY_DIR=os.path.join(scratch, "rp"))
    t0 = time.time()
    try:
        rc, out = sh([PY, os.path.join(HERE, "check.py"), pid, "--tier", tier], cwd=VERIF, env=env, timeout=2400)
    except subprocess.TimeoutExpired:
        return pid, 2, "timeout", time.time() - t0
    lines = [l for l in out.split("\n") if l.startswith(("VIOLATION", "KNOWN-FINDING", "MACHINERY-ERROR", "failing input", "no longer checks"))]
    lines.sort(key=lambda l: 0 if l.startswith("VIOLATION") else 1)  # the verdict first: the text is truncated
    return pid, rc, " | ".join(l[:260] for l in lines)[:900], time.time() - t0


def all_checks(props, repo, scratch, seed, workers=8):
    res = {}
    with concurrent.futures.ThreadPoolExecutor(max_workers=workers) as ex:
        for pid, rc, text, dt in ex.map(lambda p: run_check(p, repo, scratch, seed), props):
            kind = "silent" if rc == 0 else ("machinery-error" if rc == 2 else ("no-failing-input-found" if "no-failing-input-found" in text else "failing-input"))
            res[pid] = {"exit": rc, "kind": kind, "text": text, "wall_s": round(dt, 1)}
    return res


def main():
    from props import PROPS

    ap = argparse.ArgumentParser()
    ap.add_argument("--only", nargs="*")
    ap.add_argument("--props", nargs="*")
    ap.add_argument("--clean-seeds", nargs="*", type=int, default=[])
    ap.add_argument("--harmless", action="store_true", help="also apply the behaviour-preserving rewrites of seeded_harmless/ (every check must stay silent)")
    ap.add_argument("--out", default=os.path.join(VERIF, "seeded", "RESULTS.json"))
    args = ap.parse_args()
    props = args.props or sorted(PROPS)
    base = tempfile.mkdtemp(prefix="pyprob-selftest-")
    wt = os.path.join(base, "wt")
    results = {}
    if os.path.exists(args.out):
        results = json.load(open(args.out))
    try:
        sh(["git", "-C", "/repo", "worktree", "prune"])
        rc, out = sh(["git", "-C", "/repo", "worktree", "add", "--detach", wt, "HEAD"])
        if rc != 0:
            print(out)
            return 2
        for seed in args.clean_seeds:
            r = all_checks(props, wt, base, seed)
            noisy = {p: v for p, v in r.items() if v["exit"] != 0}
            results.setdefault("_clean", {})[str(seed)] = {"noisy": noisy, "wall": {p: v["wall_s"] for p, v in r.items()}}
            print(f"clean tree seed={seed}: {'SILENT' if not noisy else 'NOISY ' + json.dumps(noisy)[:600]}")
        if args.harmless:
            hdir = os.path.join(VERIF, "seeded_harmless")
            for hid in sorted(os.listdir(hdir)):
                sh(["git", "-C", wt, "checkout", "--", "."])
                rc_apply, out = sh(["git", "-C", wt, "apply", os.path.join(hdir, hid, "patch.diff")])
                rc_tests, tout = sh([PY, "-m", "pytest", "-q", "-p", "no:cacheprovider", "-x"], cwd=wt, env=dict(os.environ, PYTHONDONTWRITEBYTECODE="1"), timeout=1200)
                if rc_apply != 0 or rc_tests != 0:
                    results.setdefault("_harmless", {})[hid] = {"error": "does not apply / tests fail"}
                    continue
                r = all_checks(props, wt, base, 0)
                noisy = {p: v for p, v in r.items() if v["exit"] != 0}
                results.setdefault("_harmless", {})[hid] = {"noisy": noisy}
                print(f"harmless rewrite {hid}: {'SILENT' if not noisy else 'NOISY ' + json.dumps(noisy)[:700]}")
            sh(["git", "-C", wt, "checkout", "--", "."])
        sdir = os.path.join(VERIF, "seeded")
        ids = sorted(d for d in os.listdir(sdir) if os.path.isfile(os.path.join(sdir, d, "patch.diff")))
        if args.only:
            ids = [i for i in ids if i in args.only]
        for mid in ids:
            mdir = os.path.join(sdir, mid)
            sh(["git", "-C", wt, "checkout", "--", "."])
            sh(["git", "-C", wt, "clean", "-fdq"])
            env = dict(os.environ, PYTHONPATH=wt, PYTHONDONTWRITEBYTECODE="1")
            demo = os.path.join(mdir, "demo.py")
            rc_clean, _ = sh([PY, demo], cwd=wt, env=env, timeout=600)
            rc_apply, out = sh(["git", "-C", wt, "apply", os.path.join(mdir, "patch.diff")])
            if rc_apply != 0:
                results[mid] = {"error": "patch does not apply: " + out[-300:]}
                print(mid, results[mid])
                continue
            rc_tests, tout = sh([PY, "-m", "pytest", "-q", "-p", "no:cacheprovider", "-x"], cwd=wt, env=dict(os.environ, PYTHONDONTWRITEBYTECODE="1"), timeout=1200)
            rc_demo, dout = sh([PY, demo], cwd=wt, env=env, timeout=600)
            confirmed = rc_clean == 0 and rc_tests == 0 and rc_demo != 0
            entry = {"demo_passes_clean": rc_clean == 0, "tests_pass_with_patch": rc_tests == 0, "demo_fails_with_patch": rc_demo != 0, "confirmed": confirmed, "tests_tail": tout.strip().split("\n")[-1][:120]}
            if confirmed:
                r = all_checks(props, wt, base, 0)
                entry["checks"] = r
                entry["reported_by"] = sorted(p for p, v in r.items() if v["exit"] == 1)
                entry["with_failing_input"] = sorted(p for p, v in r.items() if v["kind"] == "failing-input")
                entry["machinery_errors"] = sorted(p for p, v in r.items() if v["exit"] == 2)
            results[mid] = entry
            print(mid, "confirmed" if confirmed else f"NOT CONFIRMED {entry}", "reported_by=", entry.get("reported_by"), "with_input=", entry.get("with_failing_input"), "errors=", entry.get("machinery_errors"))
            with open(args.out, "w") as fh:
                json.dump(results, fh, indent=1)
    finally:
        sh(["git", "-C", "/repo", "worktree", "remove", "--force", wt])
        shutil.rmtree(base, ignore_errors=True)
        # put the generated facts back in step with /repo and rebuild
        sh([PY, os.path.join(HERE, "extract_facts.py")], cwd=VERIF)
        sh(["lake", "build", "PyProb", "driver"], cwd=os.path.join(VERIF, "lean"))
    with open(args.out, "w") as fh:
        json.dump(results, fh, indent=1)
    return 0


if __name__ == "__main__":
    sys.exit(main())
