#!/usr/bin/env python3
"""Render seeded/RESULTS.json as the markdown table of DESIGN.md §10."""
import json
import os

HERE = os.path.dirname(os.path.abspath(__file__))
VERIF = os.path.dirname(HERE)
r = json.load(open(os.path.join(VERIF, "seeded", "RESULTS.json")))
print("| seeded change | what it changes (needs) | target | reported with a failing input by | reported, no failing input found, by |")
print("|---|---|---|---|---|")
miss = []
for mid in sorted(k for k in r if not k.startswith("_")):
    v = r[mid]
    meta = json.load(open(os.path.join(VERIF, "seeded", mid, "meta.json")))
    target = meta.get("property", mid.split("-")[0])
    if not v.get("confirmed"):
        print(f"| {mid} | NOT CONFIRMED ({v}) | {target} | | |")
        continue
    wi = v.get("with_failing_input", [])
    nf = [p for p in v.get("reported_by", []) if p not in wi]
    summary = meta.get("summary", "").replace("|", "/")[:150]
    needs = meta.get("needs", "").replace("|", "/")[:110]
    mark = "" if target in v.get("reported_by", []) else " **(target silent)**"
    if target not in v.get("reported_by", []):
        miss.append(mid)
    print(f"| {mid} | {summary} ({needs}) | {target}{mark} | {', '.join(wi) or '—'} | {', '.join(nf) or '—'} |")
print()
print("target property silent for:", miss or "none")
for k in ("_clean", "_harmless"):
    if k in r:
        print(k, {kk: ("SILENT" if not vv.get("noisy") else sorted(vv["noisy"])) for kk, vv in r[k].items()})
