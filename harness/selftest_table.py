#!/usr/bin/env python3
"""Render self-test results (seeded/RESULTS.json, or several result files given as arguments, merged) as
the markdown of DESIGN.md §10: summary, per-round counts, one row per seeded change, harmless rewrites."""
import json
import os
import sys
from collections import Counter

HERE = os.path.dirname(os.path.abspath(__file__))
VERIF = os.path.dirname(HERE)
ROUND = {"a": 1, "b": 1, "c": 2, "d": 2, "e": 3, "f": 3, "g": 4, "h": 4, "i": 5, "j": 5, "k": 6, "l": 6, "m": 7, "n": 7}

files = sys.argv[1:] or [os.path.join(VERIF, "seeded", "RESULTS.json")]
r = {}
for f in files:
    part = json.load(open(f))
    for k, v in part.items():
        if k.startswith("_") and k in r:
            r[k].update(v)
        else:
            r[k] = v

ids = sorted(k for k in r if not k.startswith("_"))
rows = []
per_round = {}
collateral_inp = collateral_no = 0
errors = []
for mid in ids:
    v = r[mid]
    try:
        meta = json.load(open(os.path.join(VERIF, "seeded", mid, "meta.json")))
    except OSError:
        meta = {}
    target = meta.get("property", mid.split("-")[0])
    rnd = ROUND.get(mid.split("-")[1], 0)
    st = per_round.setdefault(rnd, Counter())
    st["changes"] += 1
    if not v.get("confirmed"):
        st["not confirmed"] += 1
        rows.append(f"| {mid} | NOT CONFIRMED | | |")
        continue
    rep = v.get("reported_by", [])
    wi = v.get("with_failing_input", [])
    nf = [p for p in rep if p not in wi]
    if v.get("machinery_errors"):
        errors.append((mid, v["machinery_errors"]))
    if target in rep:
        st["target reports"] += 1
    if target in wi:
        st["target with input"] += 1
    if wi:
        st["some check with input"] += 1
    collateral_inp += len([p for p in wi if p != target])
    collateral_no += len([p for p in nf if p != target])
    summary = " ".join(meta.get("summary", "").replace("|", "/").split())
    if len(summary) > 118:
        summary = summary[:115] + "…"
    mark = "" if target in wi else (" *(target: no input)*" if target in rep else " **(target silent)**")
    rows.append(f"| {mid}{mark} | {summary} | {', '.join(wi) or '—'} | {', '.join(nf) or '—'} |")

n = sum(s["changes"] for s in per_round.values())
print(f"Seeded changes: {n}; confirmed: {n - sum(s['not confirmed'] for s in per_round.values())}.")
print()
print("| round | changes | target property reports | target with its own failing input | some check with a failing input |")
print("|---|---|---|---|---|")
tot = Counter()
for rnd in sorted(per_round):
    s = per_round[rnd]
    tot.update(s)
    print(f"| {rnd} | {s['changes']} | {s['target reports']} | {s['target with input']} | {s['some check with input']} |")
print(f"| all | {tot['changes']} | {tot['target reports']} | {tot['target with input']} | {tot['some check with input']} |")
print()
print(f"Reports by checks other than the target's: {collateral_inp} with a failing input of their own, {collateral_no} without (`no-failing-input-found`).")
print(f"Machinery errors (exit 2): {errors or 'none'}.")
for k in ("_clean", "_harmless"):
    if k in r:
        noisy = {kk: sorted(vv["noisy"]) for kk, vv in r[k].items() if vv.get("noisy")}
        print(f"{'Clean tree, seeds' if k == '_clean' else 'Behaviour-preserving rewrites'}: {len(r[k])} run, {len(r[k]) - len(noisy)} silent" + (f"; noisy: {noisy}" if noisy else "."))
print()
print("| seeded change | what it changes | reported with a failing input by | reported, no failing input found, by |")
print("|---|---|---|---|")
for row in rows:
    print(row)
