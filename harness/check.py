#!/usr/bin/env python3
"""check.py Cxx --tier quick|thorough [--replay file]      (DESIGN §2.6)

exit 0  property held on everything explored (KNOWN-FINDING lines may be printed)
exit 1  VIOLATION property=<id> replay=<path>
exit 2  our own machinery is broken (never a violation)
"""
import argparse
import importlib
import json
import os
import re
import sys
import time
import traceback

import core
from core import BuildBroken, MachineryError
import extract_facts
from props import PROPS, SUITES, TRUSTED_BASE

ALLOWED_AXIOMS = {"propext", "Classical.choice", "Quot.sound"}
FORBIDDEN = re.compile(r"\bsorry\b|\badmit\b|^\s*axiom\s|native_decide|bv_decide|implemented_by|\bunsafe\s|maxHeartbeats\s+0\b|maxRecDepth|\bextern\b")


# ------------------------------------------------------------------------------------------
# audit


def strip_comments(text):
    out = []
    i, depth, n = 0, 0, len(text)
    while i < n:
        if text.startswith("/-", i):
            depth += 1
            i += 2
        elif depth and text.startswith("-/", i):
            depth -= 1
            i += 2
        elif depth:
            if text[i] == "\n":
                out.append("\n")
            i += 1
        elif text.startswith("--", i):
            while i < n and text[i] != "\n":
                i += 1
        elif text[i] == '"':
            j = i + 1
            while j < n and text[j] != '"':
                j += 2 if text[j] == "\\" else 1
            out.append('""')
            i = j + 1
        else:
            out.append(text[i])
            i += 1
    return "".join(out)


def lean_sources():
    for root, dirs, files in os.walk(core.LEAN_DIR):
        dirs[:] = [d for d in dirs if d not in (".lake",)]
        for f in files:
            if f.endswith(".lean"):
                yield os.path.join(root, f)


def audit_sources():
    hits = []
    for path in lean_sources():
        with open(path, encoding="utf-8") as fh:
            code = strip_comments(fh.read())
        for ln, line in enumerate(code.split("\n"), 1):
            if FORBIDDEN.search(line):
                hits.append(f"{os.path.relpath(path, core.LEAN_DIR)}:{ln}: {line.strip()[:100]}")
    if hits:
        raise MachineryError("forbidden construct in Lean sources:\n  " + "\n  ".join(hits))


THEOREM_RE = re.compile(r"^\s*(?:@\[[^\]]*\]\s*)?(?:protected\s+|private\s+)?theorem\s+([A-Za-z_][A-Za-z0-9_'.]*)", re.M)


def property_modules(pid):
    """Properties/Cxx.lean and any further module Properties/Cxx_<topic>.lean of the same property"""
    pdir = os.path.join(core.LEAN_DIR, "PyProb", "Properties")
    mods = [pid] if os.path.exists(os.path.join(pdir, pid + ".lean")) else []
    mods += sorted(f[:-5] for f in os.listdir(pdir) if f.startswith(pid + "_") and f.endswith(".lean"))
    return mods


def property_theorems(pid):
    # property theorems are the public ones named after the property (helpers are private and are
    # covered transitively by the axiom report of the theorems that use them)
    names = []
    for mod in property_modules(pid):
        with open(os.path.join(core.LEAN_DIR, "PyProb", "Properties", mod + ".lean"), encoding="utf-8") as fh:
            code = strip_comments(fh.read())
        names += [n for n in THEOREM_RE.findall(code) if n.startswith(pid + "_")]
    return names


def audit_axioms(pid):
    """#print axioms for every theorem of Properties/Cxx.lean; returns {theorem: [axioms]}"""
    names = property_theorems(pid)
    if not names:
        raise MachineryError(f"no theorems in Properties/{pid}.lean")
    adir = os.path.join(core.LEAN_DIR, ".lake", "audit")
    os.makedirs(adir, exist_ok=True)
    path = os.path.join(adir, f"{pid}_{os.getpid()}.lean")
    with open(path, "w") as fh:
        fh.write("".join(f"import PyProb.Properties.{m}\n" for m in property_modules(pid)) + f"namespace PyProb.{pid}\n")
        for nm in names:
            fh.write(f"#print axioms {nm}\n")
        fh.write(f"end PyProb.{pid}\n")
    try:
        rc, out = core.lean_run_file(os.path.relpath(path, core.LEAN_DIR))
    finally:
        os.unlink(path)
    if rc != 0:
        raise BuildBroken(f"axiom audit of {pid}", out)
    res = {}
    flat = re.sub(r"\s+", " ", out)
    for m in re.finditer(r"'([^']+)' (?:depends on axioms: \[([^\]]*)\]|does not depend on any axioms)", flat):
        short = m.group(1).split(".")[-1]
        res[short] = [a.strip() for a in m.group(2).split(",")] if m.group(2) else []
    missing = [n for n in names if n.split(".")[-1] not in res]
    if missing:
        raise MachineryError(f"axiom audit: no report for {missing}: {out[-300:]}")
    bad = {n: [a for a in ax if a not in ALLOWED_AXIOMS] for n, ax in res.items()}
    bad = {n: ax for n, ax in bad.items() if ax}
    if bad:
        raise MachineryError(f"theorems depend on axioms outside the trusted base: {bad}")
    return res


# ------------------------------------------------------------------------------------------
# known findings


def load_known():
    path = os.path.join(core.VERIF, "known_findings.json")
    if not os.path.exists(path):
        return []
    with open(path) as fh:
        return json.load(fh).get("findings", [])


def match_known(pid, finding, known):
    sig = finding.get("signature", {})
    for ent in known:
        if ent.get("property") != pid or ent.get("status") != "open":
            continue
        m = ent.get("match", {})
        if m and all(sig.get(k) == v for k, v in m.items()):
            return ent
    return None


# ------------------------------------------------------------------------------------------


def write_replay(pid, payload):
    rdir = os.environ.get("VERIF_REPLAY_DIR") or os.path.join(core.VERIF, "replays")
    os.makedirs(rdir, exist_ok=True)
    path = os.path.join(rdir, f"{pid}-{int(time.time())}-{os.getpid()}.json")
    with open(path, "w") as fh:
        json.dump(payload, fh, indent=1, default=str)
    return os.path.relpath(path, core.VERIF) if path.startswith(core.VERIF) else path


def do_replay(pid, path):
    with open(path) as fh:
        payload = json.load(fh)
    kind = payload.get("kind")
    if kind == "failing-input":
        mod = importlib.import_module(f"search.{pid}")
        ok, text = mod.replay(payload["finding"])
        print(text)
        print("replay: property FAILS on this input" if not ok else "replay: property holds on this input now")
        return 1 if not ok else 0
    print(json.dumps(payload, indent=1)[:4000])
    print("replay: this file names a broken obligation/correspondence, not a failing input")
    return 0


def main():
    ap = argparse.ArgumentParser()
    ap.add_argument("pid")
    ap.add_argument("--tier", default=os.environ.get("VERIF_TIER", "quick"), choices=["quick", "thorough"])
    ap.add_argument("--replay")
    args = ap.parse_args()
    pid = args.pid
    if pid not in PROPS:
        print(f"unknown property {pid}")
        return 2
    if args.replay:
        return do_replay(pid, args.replay)
    spec = PROPS[pid]
    tier = args.tier
    seed = int(os.environ.get("VERIF_SEED", "0") or 0)
    t0 = time.time()
    broken = []  # list of dicts naming obligations / correspondences that no longer check
    notes = []
    axioms = {}
    suite_stats = []
    disagreements = []
    samples = []

    # 0. audit of sources
    audit_sources()

    # 1. tie #1 and the proof obligations
    try:
        changed, _, missing = extract_facts.regenerate(core.REPO, core.GENERATED)
        if changed:
            notes.append("Generated/Repo.lean changed: facts differ from the committed copy")
        missing = identify_fnv_behaviourally(missing, notes)
        for name, why in missing.items():
            if fact_matters(pid, name):
                broken.append({"kind": "tie-extract", "what": f"extract_facts could not find the fact {name} this property depends on: {why}"})
            else:
                notes.append(f"fact {name} could not be read from the source ({why}); it is not one this property is about: the model keeps the previous definition and the correspondence suite is the tie for it in this run")
    except extract_facts.ExtractError as exc:
        broken.append({"kind": "tie-extract", "what": f"extract_facts could not find: {exc}"})
    driver_ok = True
    if not broken:
        try:
            core.lake_build(["driver"])
        except BuildBroken as exc:
            driver_ok = False
            broken.append({"kind": "model-build", "what": "the models no longer build against the extracted facts", "log": exc.log[-1500:]})
        try:
            core.lake_build([f"PyProb.Properties.{m}" for m in property_modules(pid)])
            axioms = audit_axioms(pid)
        except BuildBroken as exc:
            errs = re.findall(r"error: (\S+?:\d+:\d+): ([^\n]*)", exc.log)
            thms = guess_broken_theorems(pid, exc.log)
            broken.append({"kind": "proof-obligation", "what": f"lake build {exc.target} failed", "theorems": thms, "errors": errs[:8], "log": exc.log[-1500:]})
    else:
        driver_ok = os.path.exists(core.DRIVER_EXE)

    # thorough: independent re-check of the compiled property module
    if tier == "thorough" and not broken and spec.get("leanchecker", True):
        with core.LakeLock():
            rc, out = core.lake(["env", "leanchecker"] + [f"PyProb.Properties.{m}" for m in property_modules(pid)], timeout=3000)
        if rc != 0:
            raise MachineryError(f"leanchecker rejected PyProb.Properties.{pid}: {out[-500:]}")
        notes.append("leanchecker: PyProb.Properties.%s re-checked" % pid)

    # 2. correspondence
    n_traces = n_lines = n_nontrivial = 0
    if driver_ok:
        for sname, facets in spec["suites"]:
            suite = SUITES[sname]()
            rng = core.seeded(seed, sname, tier)
            seqs = suite.corpus() + suite.gen(rng, tier)
            accept = (lambda line, fs, rules=facets: relevant_line(line, fs, rules))
            dis, stats = core.run_suite(suite, seqs, accept)
            stats["facets_compared"] = facets if facets else "all"
            if hasattr(suite, "distribution"):
                stats["distribution"] = suite.distribution()
            suite_stats.append(stats)
            n_traces += stats["sequences"]
            n_lines += stats["lines"]
            n_nontrivial += stats["distinct_nontrivial"]
            if seqs:
                try:
                    first = suite.run_real(seqs[min(len(seqs) - 1, 3)])
                    samples.append({"suite": sname, "requests": [p[0][:160] for p in first[:6]]})
                except Exception:  # noqa: BLE001 - already recorded by run_suite as an unobservable sequence
                    pass
            rel = [d for d in dis if relevant(d, facets)]
            for d in rel[:3]:
                d = core.shrink(suite, d, flat_facets(facets), accept=accept)
                disagreements.append(d)
                broken.append({"kind": "correspondence", "what": f"suite {sname}: model and implementation differ on facets {d.facets}", "disagreement": d.to_json()})
            if len(rel) > 3:
                notes.append(f"suite {sname}: {len(rel)} disagreeing sequences in total")

    # 3/4. failing-input search on the real code (model-free oracle)
    findings = []
    search_stats = {}
    if spec.get("search"):
        mod = importlib.import_module(f"search.{pid}")
        hints = [d.to_json() for d in disagreements]
        core.set_search_budget((90 if tier == "quick" else 900) * (2 if broken else 1))
        findings, search_stats = mod.run(tier=tier, seed=seed, deep=bool(broken), hints=hints)

    known = load_known()
    unlisted = []
    for f in findings:
        ent = match_known(pid, f, known)
        if ent:
            print(f"KNOWN-FINDING: property={pid} {ent.get('what', f.get('what'))}")
        else:
            unlisted.append(f)

    violations = 0
    out_lines = []
    if unlisted:
        f = unlisted[0]
        path = write_replay(pid, {"property": pid, "kind": "failing-input", "finding": f, "broken": broken})
        out_lines.append(f"VIOLATION property={pid} replay={path}")
        print(f"failing input: {f.get('what')}")
        violations = len(unlisted)
    elif broken:
        path = write_replay(pid, {"property": pid, "kind": "broken-obligation", "broken": broken, "searched": search_stats})
        for b in broken:
            print(f"no longer checks: [{b['kind']}] {b['what']}" + (f" theorems={b['theorems']}" if b.get("theorems") else ""))
        out_lines.append(f"VIOLATION property={pid} replay={path} no-failing-input-found")
        violations = 1

    # evidence
    wall = time.time() - t0
    n_thm = len(axioms)
    try:
        n_obl = len(property_theorems(pid))
    except OSError:
        n_obl = max(n_thm, 1)
    evaluations = n_lines + int(search_stats.get("evaluations", 0))
    cov = {
        "obligations": max(n_obl, 1),
        "discharged": n_thm if n_thm else 0,
        "checker_cmd": f"cd lean && lake build PyProb.Properties.{pid} && lake env lean <generated #print axioms file>" + (" && lake env leanchecker PyProb.Properties.%s" % pid if tier == "thorough" else ""),
        "trusted_base": TRUSTED_BASE + spec.get("trusted_extra", []),
        "theorems": axioms,
        "traces_validated_against_impl": n_traces,
        "evaluations": max(evaluations, 1),
        "distinct_nontrivial": n_nontrivial + int(search_stats.get("distinct_nontrivial", 0)),
        "rule": spec.get("rule", "correspondence: seeded structured operation sequences executed on the real classes and on the Lean model through the line protocol, compared facet by facet; a sequence is non-trivial when the suite's own rule says so (see suites[].distribution) and distinct by the hash of its request lines; search: model-free oracle of the property on the real code"),
        "samples": samples + [{"theorem": t, "axioms": a} for t, a in list(axioms.items())[:4]] + search_stats.get("samples", [])[:3],
        "suites": suite_stats,
        "search": {k: v for k, v in search_stats.items() if k != "samples"},
        "notes": notes,
        "broken": [{k: v for k, v in b.items() if k != "log"} for b in broken],
    }
    ev = {
        "property_id": pid,
        "tier": tier,
        "seed": seed,
        "level": "proof",
        "coverage": cov,
        "assumptions": spec.get("assumptions", []),
        "wall_s": round(wall, 2),
        "violations": violations,
    }
    edir = os.environ.get("VERIF_EVIDENCE_DIR") or os.path.join(core.VERIF, "evidence")
    os.makedirs(edir, exist_ok=True)
    tmp = os.path.join(edir, f".{pid}.{os.getpid()}.tmp")
    with open(tmp, "w") as fh:
        json.dump(ev, fh, indent=1, default=str)
    os.replace(tmp, os.path.join(edir, pid + ".json"))

    for l in out_lines:
        print(l)
    print(f"{pid} {tier}: theorems={n_thm} traces={n_traces} lines={n_lines} search={search_stats.get('evaluations', 0)} wall={wall:.1f}s -> {'VIOLATION' if violations else 'ok'}")
    return 1 if violations else 0


def identify_fnv_behaviourally(missing, notes):
    """The FNV facts (offset basis, seed multiplier, prime, mask, masked start) that the translator could not
    READ from hashes.py are identified by what the functions DO: if fnv_1a / fnv_1a_32 of the tree under check
    agree with FNV-1a built from exactly the published constants — start (basis + 31·seed) mod 2^bits, then
    xor, multiply, reduce mod 2^bits per unit — on a battery of keys and seeds (empty key, single units 0 and
    255, longer keys, text; seeds 0, 1, around 2^bits/31, beyond 2^bits, negative), those five facts are what the
    previous definitions say, and they are kept.  This is the second kind of tie (behaviour), used only when the
    first (reading the source) gives no answer; any difference leaves the facts unread."""
    fams = {"fnv64": ("fnv_1a", 0xCBF29CE484222325, 0x100000001B3, 64), "fnv32": ("fnv_1a_32", 0x811C9DC5, 0x01000193, 32)}
    out = type(missing)(missing)
    for fam, (fname, basis, prime, bits) in fams.items():
        names = [n for n in missing if n.startswith(fam)]
        if not names:
            continue
        try:
            import importlib

            H = importlib.import_module("probables.hashes")
            fn = getattr(H, fname)
            mod = 1 << bits
            ok = True
            keys = [b"", b"\x00", b"\xff", b"a", b"foobar", b"\x00\xff\x80\x7f" * 5, "", "a", "hello world", "~\x7f\x00"]
            seeds = [0, 1, 2, 3, 31, mod // 31 - 1, mod // 31, mod // 31 + 1, mod - 1, mod, mod + 5, 2**80 + 12345, -1, -2, -(2**63), -(mod // 31) - 7]
            for key in keys:
                units = list(key) if isinstance(key, bytes) else [ord(c) for c in key]
                for seed in seeds:
                    h = (basis + 31 * seed) % mod
                    for u in units:
                        h = ((h ^ u) * prime) % mod
                    if fn(key, seed) != h:
                        ok = False
                        break
                if not ok:
                    break
        except Exception:  # noqa: BLE001
            ok = False
        if ok:
            for n in names:
                out.pop(n, None)
            notes.append(f"{fam} constants could not be read from the source; identified by behaviour instead: {fname} agrees with FNV-1a built from the published constants on {len(keys) * len(seeds)} (key, seed) pairs, the previous definitions are kept")
    return out


def fact_matters(pid, fact):
    """does property pid depend on the extracted fact? (through the structures its suites exercise)"""
    from props import FACT_EXTRA_PROPS, FACT_OWNERS, FACT_USERS, GUARD_INDEPENDENT

    owners = None
    for prefix in sorted(FACT_OWNERS, key=len, reverse=True):
        if fact.startswith(prefix):
            owners = FACT_OWNERS[prefix]
            break
    if owners is not None:
        return pid in owners
    if fact.endswith("Cmp") and pid in GUARD_INDEPENDENT:
        return False
    for prefix, pids in FACT_EXTRA_PROPS.items():
        if fact.startswith(prefix) and pid in pids:
            return True
    suites = {name for name, _ in PROPS[pid]["suites"]}
    for prefix, users in FACT_USERS.items():
        if fact.startswith(prefix):
            return bool(suites & users)
    return True


def relevant_line(line, diff_facets, rules):
    """rules: None (everything) | list of facet names | list of (line regex, facets or None)"""
    if rules is None:
        return True
    if rules and isinstance(rules[0], str):
        return bool(set(diff_facets) & set(rules))
    for rx, facets in rules:
        if re.search(rx, line) and (facets is None or set(diff_facets) & set(facets)):
            return True
    return False


def relevant(d, rules):
    if d.line == "<observation failed>":
        return True  # the implementation could not be observed at all on that sequence
    return relevant_line(d.line, d.facets, rules)


def flat_facets(rules):
    if rules is None:
        return None
    if rules and isinstance(rules[0], str):
        return rules
    out = set()
    for _, facets in rules:
        if facets is None:
            return None
        out |= set(facets)
    return sorted(out)


def guess_broken_theorems(pid, log):
    """map error positions in Properties/Cxx.lean to the enclosing theorem names"""
    names = []
    srcs = {}
    for mod in property_modules(pid):
        try:
            with open(os.path.join(core.LEAN_DIR, "PyProb", "Properties", mod + ".lean"), encoding="utf-8") as fh:
                srcs[mod] = fh.read().split("\n")
        except OSError:
            pass
    for m in re.finditer(r"error: \S*Properties/(%s\w*)\.lean:(\d+):\d+" % pid, log):
        src = srcs.get(m.group(1))
        if src is None:
            continue
        ln = int(m.group(2))
        for i in range(min(ln, len(src)) - 1, -1, -1):
            mm = re.match(r"\s*(?:theorem|example|def|lemma)\s+([A-Za-z0-9_'.]*)", src[i])
            if mm:
                if mm.group(1) and mm.group(1) not in names:
                    names.append(mm.group(1))
                break
    if not names:
        for m in re.finditer(r"error: \S*PyProb/(\S+?)\.lean:\d+:\d+", log):
            if m.group(1) not in names:
                names.append(m.group(1))
    return names[:8]


if __name__ == "__main__":
    try:
        sys.exit(main())
    except MachineryError as exc:
        print(f"MACHINERY-ERROR: {exc}")
        sys.exit(2)
    except Exception:  # noqa: BLE001
        traceback.print_exc()
        print("MACHINERY-ERROR: unexpected exception in the check itself")
        sys.exit(2)
