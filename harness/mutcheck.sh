#!/bin/bash
# mutcheck.sh <seeded-id | path/to/patch.diff> <prop> [<prop>...] : run checks against a scratch worktree with one seeded change applied
set -e
id=$1; shift
wt=$(mktemp -d /tmp/mutcheck-XXXXXX)
git -C /repo worktree add -q --detach $wt/wt HEAD
if [ -f "$id" ]; then patch=$id; else patch=/verif/seeded/$id/patch.diff; fi
git -C $wt/wt apply $patch
for p in "$@"; do
  VERIF_REPO=$wt/wt VERIF_EVIDENCE_DIR=$wt/ev VERIF_REPLAY_DIR=$wt/rp /venv/bin/python /verif/harness/check.py $p --tier ${TIER:-quick} 2>&1 | grep -E "VIOLATION|failing input|no longer|MACHINERY|-> " | cut -c1-400 || true
done
git -C /repo worktree remove --force $wt/wt; rm -rf $wt
/venv/bin/python /verif/harness/extract_facts.py > /dev/null
