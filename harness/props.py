"""Table of properties: Lean obligations, correspondence suites with the lines/facets each property
depends on (DESIGN §2.5 facet scoping), search oracle.

`suites` entries are (suite name, rules); rules is None (every facet of every line), a list of facet
names, or a list of (regex on the request line, facet names or None): a disagreement between model
and implementation counts for the property only if a rule matches it."""
from corr.bitarray import BitarraySuite
from corr.bloom import BloomSuite, CBFSuite
from corr.cms import CMSSuite
from corr.cuckoo import CuckooSuite
from corr.expanding import ExpandingSuite
from corr.hashes import HashesSuite
from corr.ondisk import OnDiskSuite
from corr.qf import QFSuite
from corr.sizing import SizingSuite

SUITES = {
    "bitarray": BitarraySuite,
    "hashes": HashesSuite,
    "bloom": BloomSuite,
    "cbf": CBFSuite,
    "expanding": ExpandingSuite,
    "cms": CMSSuite,
    "cuckoo": CuckooSuite,
    "qf": QFSuite,
    "ondisk": OnDiskSuite,
    "sizing": SizingSuite,
}

TRUSTED_BASE = [
    "Lean 4.33.0 kernel (leanchecker re-check in the thorough tier)",
    "axioms allowed: propext, Classical.choice, Quot.sound (audited with #print axioms on every run); no native_decide, no bv_decide, no sorry",
    "hand-written executable models lean/PyProb/Model/*.lean (modelled, not verified): tied to /repo by harness/extract_facts.py (declarative facts, regenerated every run) and by the correspondence suites harness/corr/*.py",
    "CPython 3.12 semantics assumed by the models: unbounded int, array range checks, struct native sizes on x86-64 LE, dict order",
    "the harness itself (generators, canonicalisation, comparison, search oracles): ordinary Python",
]

# which correspondence suites (structures) use an extracted fact, by name prefix of the fact
FACT_USERS = {
    "fnv32": {"hashes", "qf"},
    "fnv64": {"hashes", "bloom", "cbf", "expanding", "cms", "cuckoo", "ondisk"},
    # the sizing constants matter to the properties that look at derived geometry (the sizing suite); for the
    # others a constant that cannot be read leaves the model's previous value in place and the constructor
    # lines of their suites show whether the geometry still agrees
    "bloomLn": {"sizing"},
    "bloom": {"bloom", "cbf", "expanding", "ondisk"},
    "onDisk": {"ondisk"},
    "cbf": {"cbf"},
    "exp": {"expanding"},
    "rot": {"expanding"},
    "cmsLn": {"sizing"},
    "cms": {"cms"},
    "cuckoo": {"cuckoo"},
    "ccf": {"cuckoo"},
    "qf": {"qf"},
}

# properties whose statements are about code paths that evaluate none of the extracted guards (the
# operators of the growth / rotation / resize tests and of the saturation clamps in add and remove):
# export+load (C05), the set operations and their read-only operands (C13), queries and clear() (C19).
# When such a guard cannot be read any more, the models keep the previous operator and these
# properties stay tied to the code by the correspondence on the lines they look at.
GUARD_INDEPENDENT = {"C05", "C13", "C19"}
# properties that depend on a fact although none of their suites is listed for it in FACT_USERS
FACT_EXTRA_PROPS = {"bloomLn": {"C06"}}  # C06 pins the documented sizing doubles (C06_sizing_constants_documented)

# Which properties a fact is ABOUT (longest matching prefix wins).  When the translator can no longer read
# a fact, the models keep its previous definition.  For the properties the fact is about that is a broken
# tie (their theorems pin or use the very value that can no longer be read from the source).  Every other
# property that merely exercises the same structure stays tied to the code by its correspondence suite,
# which runs the model with the previous value against the code as it is now and reports any difference
# on the lines that property looks at; for those properties the unread fact is recorded in the evidence.
FACT_OWNERS = {
    "fnv": {"C18", "C06"},
    "bloomLn": {"C07", "C06"},
    "cmsLn": {"C07"},
    "expGrow": {"C09"},
    "rot": {"C10"},
    "cmsAddClamp": {"C16"},
    "cmsRemoveKeep": {"C16"},
    "cmsTotalMax": {"C16", "C14"},
    "cbfAddClamp": {"C16"},
    "qf": {"C04"},
    "onDisk": {"C11", "C06"},
    "bloom": {"C06", "C05"},
    "cbf": {"C06", "C05"},
    "cms": {"C06", "C05"},
    "exp": {"C06", "C05"},
    "cuckoo": {"C06", "C05"},
    "ccf": {"C06", "C05"},
}

READ_ONLY = r"\.(chk|stats|obs|export|hashes|jacc|view)\b"
COUNTERS = ["count", "added", "total", "unique", "subcounts", "estimate", "cfpr", "setbits", "nblooms"]
LOADS = r"\.(load|loadraw|reopen|loadmem|export)\b"
# facets that are part of a structure's state (as opposed to the value a call returns)
STATE = ["bits", "cells", "count", "bins", "total", "table", "subbits", "subcounts", "added", "nblooms", "file", "meta", "rems", "cap", "unique", "geom", "est", "fpr32", "q", "size", "raw"]
MINLIKE = r" k=(min|hh|st)\b"

PROPS = {
    "C01": {
        "suites": [("bloom", [(r"^bf\.", ["ret", "bits"])]), ("expanding", [(r"^xb\.", ["ret", "subbits"])]), ("ondisk", [(r"^od\.", ["ret", "file", "bits"])])],
        "search": True,
        "assumptions": ["hash strategies are arbitrary functions in the theorems; md5/sha256/custom strategies reach the model as supplied hash lists", "reload steps inside a history are theorems too (C01_history.lean) under explicit range hypotheses: fewer than 2^64 adds; for union inside a reloading history an estimator with values in [0, 2^64)"],
    },
    "C02": {
        "suites": [("cms", [(r"^cm\..*" + MINLIKE, ["ret"]), (r"^cm\.", ["bins", "total"])])],
        "search": True,
        "assumptions": ["claimed for legitimate removals and totals ≤ 2^31-1 (no clamp fires), as the property states"],
    },
    "C03": {
        "suites": [("cuckoo", [(r"^ck\.", ["fps", "cap", "oracle_left"]), (r"^ck\.(chk|add|rem|expand)\b", ["ret"])])],
        "search": True,
        "assumptions": ["the filter's random draws are an arbitrary oracle list in the theorems; the tie records the real draws by wrapping random.choice/randint in the harness process", "G = hash(str(fingerprint)) is an arbitrary function in the theorems"],
    },
    "C04": {
        "suites": [("qf", None)],
        "search": True,
        "assumptions": [
            "C04_exact_set speaks about histories in which no call raised; that add_alt/resize/merge never report `diverged` with the driver's budget is proved separately (C04_termination.lean)",
            "hashes are < 2^32; the three metadata Bitarrays are modelled as List Bool (C20 is the refinement)",
        ],
    },
    "C05": {
        "suites": [(s, [(LOADS, None)]) for s in ("bloom", "cbf", "expanding", "cms", "cuckoo", "ondisk")],
        "search": True,
        "assumptions": ["geometry re-derivation on load is a parameter `geom` of the theorems with the hypothesis that it returns the stored geometry (reload stability: C07_stable + sizing correspondence)", "channel plumbing (path / file object / bytes / hex / frombytes / filepath=) is carried by the tie"],
    },
    "C06": {
        "suites": [(s, [(r"\.export\b", ["payload"]), (r"\.(add|rem)\b", ["bits", "cells", "bins", "table", "subbits"])]) for s in ("bloom", "cbf", "cms", "expanding", "cuckoo")] + [("hashes", [(r"^h\.(default|md5|sha256|digest|utf8)\b", None)])],
        "search": True,
        "assumptions": ["the reference C reader/writer is rendered as an independent Lean specification (Spec/Layout.lean, Spec/Fnv.lean) and an independent Python reference in the search; a compiled C program is not part of the registered checks"],
    },
    "C07": {
        "suites": [("sizing", None), ("bloom", [(r"\.(new|load)\b", ["geom", "fpr32", "ret"])]), ("cms", [(r"\.new\b", ["geom", "ret"])]), ("cuckoo", [(r"\.(new|load)\b", ["fpbits", "ret"])])],
        "search": True,
        "assumptions": [
            "theorems are over the real numbers on the same generic definitions that the Float instance executes; IEEE-754 rounding between the two is NOT verified (the sizing suite compares the Float instance with the code bit-for-bit on sampled inputs, the search evaluates the inequalities exactly / with 50-digit decimals)",
        ],
    },
    "C08": {
        "suites": [("cbf", [(r"^cb\.(add|rem|chk)", ["ret", "cells", "count"])]), ("cuckoo", [(r"kind=cc|^ck\.", ["ret", "table", "count", "unique"])])],
        "search": True,
        "assumptions": ["claimed below saturation and for removals not exceeding the outstanding count, as the property states"],
    },
    "C09": {"suites": [("expanding", [(r"^xb\.", ["ret", "expansions", "subcounts", "added", "nblooms"])])], "search": True, "assumptions": ["the membership answer before each add is an arbitrary Boolean in the theorems (stronger than the code's answer)"]},
    "C10": {"suites": [("expanding", [(r"^rb\.", ["ret", "nblooms", "subcounts", "subbits"])])], "search": True, "assumptions": ["same max_queue_size is re-supplied on reload"]},
    "C11": {
        "suites": [("ondisk", None)],
        "search": True,
        "assumptions": [
            "crash points are process kills between micro-steps (one byte store through the mapping, one flushed 8-byte count); the tie checks that the file contents seen at every executed source line are exactly the model's micro-step trace; the thorough tier kills a child process with SIGKILL at every line event",
            "NOT modelled: power loss, fsync ordering, torn multi-byte stores; resolution of path names against the working directory is checked by the tie and the search only",
        ],
    },
    "C12": {
        "suites": [("bloom", [(r"\.(union|add)\b", ["ret", "bits"])]), ("cbf", [(r"\.(union|add)\b", ["ret", "cells"])]), ("cms", [(r"\.(join|add)\b", ["bins", "total"]), (r"\.join\b", ["ret"])]), ("ondisk", [(r"^(bf\.union|od\.view)", ["ret", "bits"])])],
        "search": True,
        "assumptions": ["claimed for unsaturated states, as the property states"],
    },
    "C13": {
        "suites": [("bloom", [(r"\.(inter|jacc|union|obs)\b", ["ret", "bits", "count"])]), ("cbf", [(r"\.(inter|jacc|union|obs)\b", ["ret", "cells", "count"])]), ("cms", [(r"\.(join|obs)\b", ["ret", "bins", "total"])]), ("ondisk", [(r"^(bf\.(inter|jacc|union)|od\.(view|obs))", ["ret", "bits", "file"])])],
        "search": True,
        "assumptions": ["'operands are not modified' and TypeError for foreign operand types are outside the model (purity is typing there): decided by the tie (operand observations after every set operation) and the search"],
    },
    "C14": {
        "suites": [(s, COUNTERS) for s in ("bloom", "cbf", "expanding", "cms", "cuckoo", "qf", "ondisk")],
        "search": True,
        "assumptions": ["float statistics: formula identity over the reals + bit-for-bit correspondence of the Float instance; IEEE rounding not verified", "quotient filter: count = number of stored hashes follows from C04 (partial, see there)"],
    },
    "C15": {"suites": [("cuckoo", ["fps", "zeros", "cap", "geom"])], "search": True, "assumptions": ["all oracles, arbitrary G; loading an export preserves the invariant by the C05 round trip"]},
    "C16": {"suites": [("cms", [(r"^cm\..*" + MINLIKE, ["ret"]), (r"^cm\.", ["bins", "total"])]), ("cbf", [(r"^cb\.", ["ret", "cells", "count"])])], "search": True, "assumptions": ["amounts are ints ≥ 1 (unbounded)"]},
    "C17": {"suites": [("cms", [(r"^cm\..* k=(hh|st)\b", ["table", "ret"]), (r"^cm\.", ["table"])])], "search": True, "assumptions": ["heavy hitters: adds only with n ≥ 1 (remove is not supported by the class)"]},
    "C18": {
        "suites": [("hashes", None)],
        "search": True,
        "assumptions": [
            "md5/sha256 digests are external (hashlib): theorems hold for the byte decorator applied to ANY pure function; the two shipped digests are exercised by the search oracle only",
            "purity/determinism is the function type in the model; on the real code it is checked by repeated calls in the search oracle",
        ],
    },
    "C19": {
        "suites": [(s, [(READ_ONLY, STATE), (r"\.clear\b", STATE + ["ret"])]) for s in ("bloom", "cbf", "expanding", "cms", "cuckoo", "qf", "ondisk")],
        "search": True,
        "assumptions": ["query purity is the function type in the models and therefore decided by the tie and the search; clear = fresh structure and the no-op of the on-disk count rewrite are theorems"],
    },
    "C20": {
        "suites": [("bitarray", None)],
        "search": True,
        "assumptions": [
            "indices and values are Python ints (the property quantifies over integer indices/values)",
            "size < 2^53 so that math.ceil(size / 8) is exact (the model uses (size+7)/8)",
        ],
    },
}
