"""Table of properties: Lean obligations, correspondence suites with the facets each property depends
on (DESIGN §2.5 facet scoping), search oracle."""
from corr.bitarray import BitarraySuite
from corr.hashes import HashesSuite

SUITES = {
    "bitarray": BitarraySuite,
    "hashes": HashesSuite,
}

TRUSTED_BASE = [
    "Lean 4.33.0 kernel (leanchecker re-check in the thorough tier)",
    "axioms allowed: propext, Classical.choice, Quot.sound (audited with #print axioms on every run); no native_decide, no bv_decide, no sorry",
    "hand-written executable models lean/PyProb/Model/*.lean (modelled, not verified): tied to /repo by harness/extract_facts.py (declarative facts, regenerated every run) and by the correspondence suites harness/corr/*.py",
    "CPython 3.12 semantics assumed by the models: unbounded int, array range checks, struct native sizes on x86-64 LE, dict order",
    "the harness itself (generators, canonicalisation, comparison, search oracles): ordinary Python",
]

PROPS = {
    "C20": {
        "suites": [("bitarray", None)],
        "search": True,
        "assumptions": [
            "indices and values are Python ints (the property quantifies over integer indices/values)",
            "size < 2^53 so that math.ceil(size / 8) is exact (the model uses (size+7)/8)",
        ],
    },
    "C18": {
        "suites": [("hashes", None)],
        "search": True,
        "assumptions": [
            "md5/sha256 digests are external (hashlib): theorems hold for the byte decorator applied to ANY pure function; the two shipped digests are exercised by the search oracle only",
            "purity/determinism is the function type in the model; on the real code it is checked by repeated calls in the search oracle",
        ],
    },
}
