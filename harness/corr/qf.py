"""Correspondence suite: QuotientFilter (direct 32-bit hashes)  vs  PyProb.Model.QF.
Every real call runs under a step budget: a non-terminating call is the observation !DIVERGED."""
from collections import Counter

import core
from core import Suite, call, nats, ret_str

BUDGET = 0.5


class QFSuite(Suite):
    name = "qf"

    def __init__(self):
        self.dist = Counter()

    def distribution(self):
        return dict(self.dist)

    def gen(self, rng, tier):
        n = 90 if tier == "quick" else 2500
        seqs = [self.gen_one(rng, i) for i in range(n)]
        seqs.append([("new", 1, 2, True), ("new", 1, 32, True), ("new", 1, 3, True), ("resize", 1, 2), ("resize", 1, 32)])
        # growth through several automatic resizes, and a large merge
        for _ in range(2 if tier == "quick" else 20):
            q0 = rng.choice([3, 4])
            seq = [("new", 1, q0, True), ("new", 2, 5, True)]
            for _ in range(rng.randint(60, 170)):
                seq.append(("add", 1, rng.randrange(1 << 32)))
            for _ in range(rng.randint(10, 25)):
                seq.append(("add", 2, rng.randrange(1 << 32)))
            seq.append(("merge", 1, 2))
            seq.append(("resize", 1, None))
            seqs.append(seq)
        return seqs

    def gen_one(self, rng, i):
        q = rng.choice([3, 3, 3, 4, 4, 5, 8]) if i % 9 else 8
        r = 32 - q
        n = 1 << q
        auto = rng.random() < 0.5
        rems = [rng.randrange(1 << r) for _ in range(rng.choice([1, 2, 3, 3, 30]))] + [0, (1 << r) - 1]
        if rng.random() < 0.5:
            quots = list(range(n))
        else:
            # few quotients → long runs and clusters; include the last slots → wrap-around
            quots = [rng.randrange(n) for _ in range(rng.randint(1, 3))] + [n - 1, n - 2, 0]

        def h():
            return (rng.choice(quots) << r) | rng.choice(rems)

        pool = [h() for _ in range(rng.randint(2, min(2 * n, 60)))]
        seq = [("new", 1, q, auto)]
        have = [1]
        for _ in range(rng.randint(4, min(4 * n, 90))):
            x = rng.random()
            t = rng.choice(have)
            if x < 0.58:
                seq.append(("add", t, rng.choice(pool)))
            elif x < 0.84:
                seq.append(("rem", t, rng.choice(pool)))
            elif x < 0.90:
                seq.append(("chk", t, rng.choice(pool) if rng.random() < 0.7 else rng.randrange(1 << 32)))
            elif x < 0.94:
                seq.append(("resize", t, rng.choice([None, None, q, q + 1, q + 2, max(3, q - 1), 3])))
            elif x < 0.955:
                seq.append(("merge", t, t))  # a filter merged into itself
            elif x < 0.97:
                if 2 not in have:
                    seq.append(("new", 2, rng.choice([3, 4, q]), True))
                    have.append(2)
                else:
                    seq.append(("merge", 1, 2))
            else:
                seq.append(("obs", t))
        return seq

    def obs(self, qf, ret):
        d = {"ret": ret, "count": str(qf.elements_added), "size": str(qf.size), "q": str(qf.quotient)}
        internals = core.qf_internals(qf)
        if internals is not None:
            d["meta"] = internals[0] + "/" + internals[1] + "/" + internals[2]
            d["rems"] = nats(internals[3])
        res = call(qf.get_hashes, budget=BUDGET)
        d["hashes"] = nats(sorted(res[1])) if res[0] == "ok" else res[1]
        # the real arrays must equal the canonical layout computed by the specification from the stored set
        if "meta" in d:
            d["layout"] = d["meta"] + "/" + d["rems"] if res[0] == "ok" and len(res[1]) < qf.size else ("full" if res[0] == "ok" else res[1])
        return d

    def run_real(self, seq):
        from probables import QuotientFilter

        objs = {}
        out = []
        D = self.dist
        for op in seq:
            D["op:" + op[0]] += 1
            if op[0] == "new":
                _, h, q, auto = op
                res = call(QuotientFilter, quotient=q, auto_expand=auto)
                line = f"qf.new {h} q={q} auto={int(auto)}"
                if res[0] == "ok":
                    objs[h] = res[1]
                    out.append((line, self.obs(res[1], "ok")))
                else:
                    out.append((line, {"ret": res[1]}))
                continue
            h = op[1]
            if h not in objs:
                continue
            qf = objs[h]
            if op[0] == "add":
                res = call(qf.add_alt, op[2], budget=BUDGET)
                if res[0] == "err":
                    D["err:" + res[1]] += 1
                d = self.obs(qf, ret_str(res))
                m = d.get("meta", "//").split("/")
                if m[2].endswith("1") or m[1].endswith("1"):
                    D["wraps-or-touches-end"] += 1
                if "11" in m[1]:
                    D["run>=3"] += 1
                out.append((f"qf.add {h} {op[2]}", d))
            elif op[0] == "rem":
                res = call(qf.remove_alt, op[2], budget=BUDGET)
                out.append((f"qf.rem {h} {op[2]}", self.obs(qf, ret_str(res))))
            elif op[0] == "chk":
                res = call(qf.check_alt, op[2], budget=BUDGET)
                out.append((f"qf.chk {h} {op[2]}", self.obs(qf, ret_str(res))))
            elif op[0] == "resize":
                res = call(qf.resize, op[2], budget=BUDGET * 4)
                if res[0] == "err":
                    D["err:resize:" + res[1]] += 1
                out.append((f"qf.resize {h} {op[2]}", self.obs(qf, ret_str(res))))
            elif op[0] == "merge":
                if op[2] not in objs:
                    continue
                res = call(qf.merge, objs[op[2]], budget=BUDGET * 4)
                if res[0] == "err":
                    D["err:merge:" + res[1]] += 1
                out.append((f"qf.merge {h} {op[2]}", self.obs(qf, ret_str(res))))
                out.append((f"qf.obs {op[2]}", self.obs(objs[op[2]], "None")))
            elif op[0] == "obs":
                out.append((f"qf.obs {h}", self.obs(qf, "None")))
        return out

    def nontrivial(self, seq, pairs):
        return any("1" in p[1].get("meta", "").split("/")[-1] for p in pairs if "meta" in p[1])
