"""Correspondence suite: sizing formulas and float statistics, bit-for-bit against the `Float`
instance of PyProb.Model.Sizing."""
import math
from collections import Counter

from core import Suite, call
from corr.bloom import dbl_bits


class SizingSuite(Suite):
    name = "sizing"

    def __init__(self):
        self.dist = Counter()

    def distribution(self):
        return dict(self.dist)

    def gen(self, rng, tier):
        n = 1500 if tier == "quick" else 40000
        seq = []
        rates = [0.5, 0.25, 0.125, 0.3, 0.2, 0.1, 0.05, 0.01, 0.001, 1e-6, 1e-12, 0.9, 0.99, 0.7071, 0.0, 1.0, 1e-60, 0.999999]
        for _ in range(n):
            r = rng.random()
            if r < 0.45:
                est = rng.choice([1, 2, 3, 10, 100, 1000, 141510, 10**6, 10**9]) if rng.random() < 0.4 else rng.randint(1, 10**rng.randint(1, 7))
                if rng.random() < 0.1:
                    est = rng.choice([0, -1, -100])
                p = rng.choice(rates) if rng.random() < 0.4 else (rng.random() if rng.random() < 0.7 else 10 ** rng.uniform(-30, 0))
                seq.append(("bloom", est, p))
            elif r < 0.65:
                conf = rng.choice([0.5, 0.75, 0.875, 0.9, 0.95, 0.99, 0.999, 1 - 2**-10]) if rng.random() < 0.5 else rng.uniform(1e-6, 0.999999)
                err = rng.choice([0.5, 0.25, 0.2, 0.1, 0.01, 0.001, 2 / 3, 2 / 7]) if rng.random() < 0.5 else rng.uniform(1e-5, 0.99)
                seq.append(("cms", conf, err))
            elif r < 0.8:
                er = rng.choice([0.5, 0.25, 0.1, 0.01, 0.001, 2**-10, 1e-6]) if rng.random() < 0.5 else 10 ** rng.uniform(-8, -0.1)
                seq.append(("ckfp", er, rng.choice([1, 2, 3, 4, 8, 16])))
            elif r < 0.86:
                seq.append(("cker", rng.choice([8, 16, 24, 32, 5, 13]), rng.choice([1, 2, 3, 4, 8])))
            elif r < 0.93:
                m = rng.randint(1, 5000)
                seq.append(("est", m, rng.randint(1, 20), rng.randint(0, m)))
            else:
                m = rng.randint(1, 5000)
                seq.append(("cfpr", m, rng.randint(1, 20), rng.randint(0, 3 * m)))
        return [seq[i : i + 100] for i in range(0, len(seq), 100)]

    def run_real(self, seq):
        from probables import BloomFilter, CountMinSketch, CuckooFilter

        out = []
        D = self.dist
        for op in seq:
            D["op:" + op[0]] += 1
            if op[0] == "bloom":
                _, est, p = op
                res = call(BloomFilter._get_optimized_params, est, p)
                if res[0] == "ok":
                    t, k, m = res[1]
                    ret = f"{dbl_bits(t)},{k},{m}"
                    if dbl_bits(t) != dbl_bits(p):
                        D["rate-changed-by-narrowing"] += 1
                else:
                    ret = res[1]
                    D["err:" + ret] += 1
                out.append((f"sz.bloom {est} {dbl_bits(p)}", {"ret": ret}))
            elif op[0] == "cms":
                _, conf, err = op
                c = CountMinSketch(confidence=conf, error_rate=err)
                if 2 / err == math.floor(2 / err):
                    D["cms:exact-width"] += 1
                out.append((f"sz.cms {dbl_bits(conf)} {dbl_bits(err)}", {"ret": f"{c.width},{c.depth}"}))
            elif op[0] == "ckfp":
                _, er, b = op
                c = CuckooFilter.init_error_rate(er, capacity=1, bucket_size=b)
                out.append((f"sz.ckfp {dbl_bits(er)} {b}", {"ret": str(c.fingerprint_size_bits)}))
            elif op[0] == "cker":
                _, fbits, b = op
                c = CuckooFilter(capacity=1, bucket_size=b)
                try:
                    c._fingerprint_size = fbits
                    if c.fingerprint_size_bits != fbits:
                        raise AttributeError("fingerprint width is not kept in _fingerprint_size")
                    er = c._calc_error_rate()
                except AttributeError:
                    # the private spelling is gone: this probe of the inverse formula does not apply (the direct
                    # formula, `sz.ckfp`, goes through the public constructor)
                    continue
                out.append((f"sz.cker {fbits} {b}", {"ret": str(dbl_bits(er))}))
            elif op[0] in ("est", "cfpr"):
                _, m, k, x = op

                class Fake:
                    number_bits = m
                    number_hashes = k
                    elements_added = x

                    def _cnt_number_bits_set(self):
                        return x

                # the two statistics are evaluated on a stand-in object that offers what the methods read; if they
                # read something else after a refactoring, the probe does not apply (the Bloom suite compares both
                # statistics on real filters after every step)
                try:
                    if op[0] == "est":
                        out.append((f"sz.est {m} {k} {x}", {"ret": str(BloomFilter.estimate_elements(Fake()))}))
                    else:
                        out.append((f"sz.cfpr {m} {k} {x}", {"ret": str(dbl_bits(BloomFilter.current_false_positive_rate(Fake())))}))
                except AttributeError:
                    continue
        return out

    def nontrivial(self, seq, pairs):
        return True
