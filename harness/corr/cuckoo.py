"""Correspondence suite: CuckooFilter / CountingCuckooFilter  vs  PyProb.Model.Cuckoo.
The filter's random draws are recorded by wrapping `random.choice` / `random.randint` in this
process and handed to the model as its oracle."""
import os
import random as pyrandom
from collections import Counter

from core import Scratch, Suite, call, key_token, nats, ret_str
from corr.bloom import dbl_bits


class Recorder:
    """records (or scripts) the draws of random.choice / random.randint"""

    def __init__(self, script=None):
        self.script = list(script) if script is not None else None
        self.draws = []
        self.exhausted = False

    def __enter__(self):
        self._c, self._r = pyrandom.choice, pyrandom.randint

        def choice(seq):
            if self.script is not None:
                d = self.script.pop(0) if self.script else self._miss()
                v = seq[0] if d == 0 else seq[-1]
            else:
                v = self._c(seq)
            self.draws.append(0 if v == seq[0] else 1)
            return v

        def randint(a, b):
            if self.script is not None:
                d = self.script.pop(0) if self.script else self._miss()
                v = a + d % (b - a + 1)
            else:
                v = self._r(a, b)
            self.draws.append(v)
            return v

        pyrandom.choice, pyrandom.randint = choice, randint
        return self

    def _miss(self):
        self.exhausted = True
        return 0

    def __exit__(self, *a):
        pyrandom.choice, pyrandom.randint = self._c, self._r


def hash_fn(name):
    from probables.hashes import fnv_1a

    if name == "fnv":
        return None
    return lambda key: fnv_1a(key, 5)


class CuckooSuite(Suite):
    name = "cuckoo"

    def __init__(self):
        self.dist = Counter()

    def distribution(self):
        return dict(self.dist)

    def gen(self, rng, tier):
        n = 80 if tier == "quick" else 2000
        return [self.gen_one(rng) for _ in range(n)]

    def gen_one(self, rng):
        kind = rng.choice(["ck", "cc"])
        tiny = rng.random() < 0.7
        cap = rng.choice([1, 2, 2, 3, 3, 4, 5]) if tiny else rng.choice([10, 20, 100])
        b = rng.choice([1, 1, 2, 2, 3]) if tiny else rng.choice([2, 4])
        swaps = rng.choice([1, 2, 3, 5]) if tiny else rng.choice([10, 500])
        rate = rng.choice([2, 2, 2, 3, 1])
        auto = rng.random() < 0.6
        if rng.random() < 0.8:
            size = ("fsz", rng.choice([1, 1, 1, 2, 4]))
        else:
            size = ("er", rng.choice([0.1, 0.01, 0.001, 0.05, 0.3]))
        hname = rng.choice(["fnv", "fnv", "fnv5"])
        nkeys = rng.randint(2, 3 * cap * b + 3)
        universe = ["%d" % rng.randrange(3000) for _ in range(nkeys)]
        seq = [("new", 1, kind, cap, b, swaps, rate, auto, size, hname, rng.randrange(2**32), tuple(universe))]
        have = [1]
        for _ in range(rng.randint(4, 60)):
            h = rng.choice(have)
            key = rng.choice(universe)
            k = rng.random()
            if k < 0.55:
                seq.append(("add", h, key))
            elif k < 0.68:
                seq.append(("chk", h, key))
            elif k < 0.78:
                seq.append(("rem", h, key))
            elif k < 0.82:
                seq.append(("expand", h))
            elif k < 0.88:
                seq.append(("export", h, rng.choice(["bytes", "file", "fileobj"])))
            elif k < 0.94:
                seq.append(("load", 2, rng.choice(["bytes", "file", "errrate"]), h))
                if 2 not in have:
                    have.append(2)
            else:
                seq.append(("chkall", h))
        seq.append(("chkall", 1))
        return seq

    def obs(self, kind, obj, ret):
        d = {"ret": ret, "count": str(obj.elements_added), "cap": str(obj.capacity), "geom": f"{obj.bucket_size},{obj.max_swaps}", "fpbits": str(obj.fingerprint_size_bits)}
        if kind == "cc":
            d["table"] = "/".join(".".join(f"{b.finger}x{b.count}" for b in bkt) for bkt in obj.buckets)
            d["fps"] = "/".join(".".join(str(int(b.finger)) for b in bkt) for bkt in obj.buckets)
            d["zeros"] = str(sum(1 for bkt in obj.buckets for b in bkt if b.count == 0))
            d["unique"] = str(obj.unique_elements)
        else:
            d["table"] = "/".join(".".join(str(int(f)) for f in bkt) for bkt in obj.buckets)
            d["fps"] = d["table"]
            d["zeros"] = "0"
        return d

    def run_real(self, seq):
        state = pyrandom.getstate()
        try:
            with Scratch() as tmp:
                return self._run_real(seq, tmp)
        finally:
            pyrandom.setstate(state)

    def _run_real(self, seq, tmp):
        from probables import CountingCuckooFilter, CuckooFilter

        objs = {}
        out = []
        D = self.dist
        universe = ()
        for op in seq:
            D["op:" + op[0]] += 1
            if op[0] == "new":
                _, h, kind, cap, b, swaps, rate, auto, size, hname, rseed, universe = op
                pyrandom.seed(rseed)
                cls = CuckooFilter if kind == "ck" else CountingCuckooFilter
                fn = hash_fn(hname)
                if size[0] == "fsz":
                    res = call(cls, capacity=cap, bucket_size=b, max_swaps=swaps, expansion_rate=rate, auto_expand=auto, finger_size=size[1], hash_function=fn)
                    sz = f"fsz={size[1]}"
                else:
                    res = call(cls.init_error_rate, error_rate=size[1], capacity=cap, bucket_size=b, max_swaps=swaps, expansion_rate=rate, auto_expand=auto, hash_function=fn)
                    sz = f"er={dbl_bits(size[1])}"
                line = f"ck.new {h} kind={kind} cap={cap} b={b} swaps={swaps} rate={rate} auto={int(auto)} {sz} hash={hname}"
                if res[0] == "ok":
                    objs[h] = (kind, res[1], size, hname)
                    d = self.obs(kind, res[1], "ok")
                    out.append((line, d))
                else:
                    out.append((line, {"ret": res[1]}))
                continue
            if op[0] == "load":
                _, r, chan, src = op
                if src not in objs:
                    continue
                kind, obj, size, hname = objs[src]
                cls = CuckooFilter if kind == "ck" else CountingCuckooFilter
                fn = hash_fn(hname)

                def finish(new):
                    if size[0] == "fsz":
                        new.fingerprint_size = size[1]
                    else:
                        new._set_error_rate(size[1])
                    return new

                if chan == "bytes":
                    if size[0] == "er":
                        res = call(lambda: cls.frombytes(bytes(obj), error_rate=size[1], hash_function=fn))
                    else:
                        res = call(lambda: finish(cls.frombytes(bytes(obj), hash_function=fn)))
                elif chan == "file":
                    path = os.path.join(tmp, f"k{len(out)}.cko")
                    res = call(lambda: (obj.export(path), finish(cls(filepath=path, hash_function=fn)))[1])
                else:
                    path = os.path.join(tmp, f"k{len(out)}.cko")
                    if size[0] == "er":
                        res = call(lambda: (obj.export(path), cls.load_error_rate(error_rate=size[1], filepath=path, hash_function=fn))[1])
                    else:
                        res = call(lambda: (obj.export(path), finish(cls(filepath=path, hash_function=fn)))[1])
                sz = f"fsz={size[1]}" if size[0] == "fsz" else f"er={dbl_bits(size[1])}"
                line = f"ck.load {r} {chan} {src} {sz}"
                if res[0] == "ok":
                    objs[r] = (kind, res[1], size, hname)
                    d = self.obs(kind, res[1], "ok")
                    out.append((line, d))
                else:
                    out.append((line, {"ret": res[1]}))
                continue
            h = op[1]
            if h not in objs:
                continue
            kind, obj, size, hname = objs[h]
            if op[0] == "add":
                key = op[2]
                cap0 = obj.capacity
                with Recorder() as rec:
                    res = call(obj.add, key)
                if rec.draws:
                    D["kick-chain"] += 1
                    D["kick-len:%s" % ("1-3" if len(rec.draws) <= 4 else "4+")] += 1
                if obj.capacity != cap0:
                    D["expanded"] += 1
                if res[0] == "err":
                    D["err:" + res[1]] += 1
                d = self.obs(kind, obj, ret_str(res))
                d["oracle_left"] = "0"
                out.append((f"ck.add {h} {key_token(key)} or={nats(rec.draws) or '-'}", d))
            elif op[0] == "chk":
                key = op[2]
                res = call(obj.check, key)
                res2 = call(lambda: key in obj)
                r = ret_str(res)
                if res2[0] == "ok" and res[0] == "ok" and bool(res[1]) != res2[1]:
                    r = f"INCONSISTENT({r},{res2[1]})"
                out.append((f"ck.chk {h} {key_token(key)}", self.obs(kind, obj, r)))
            elif op[0] == "chkall":
                for key in universe:
                    out.append((f"ck.chk {h} {key_token(key)}", {"ret": ret_str(call(obj.check, key))}))
            elif op[0] == "rem":
                key = op[2]
                out.append((f"ck.rem {h} {key_token(key)}", self.obs(kind, obj, ret_str(call(obj.remove, key)))))
            elif op[0] == "expand":
                if obj.capacity * obj.expansion_rate > 5000:
                    continue
                with Recorder() as rec:
                    res = call(obj.expand)
                if res[0] == "err":
                    D["err:expand:" + res[1]] += 1
                d = self.obs(kind, obj, ret_str(res))
                d["oracle_left"] = "0"
                out.append((f"ck.expand {h} or={nats(rec.draws) or '-'}", d))
            elif op[0] == "export":
                chan = op[2]
                if chan == "bytes":
                    res = call(lambda: bytes(obj).hex())
                else:
                    path = os.path.join(tmp, f"k{len(out)}.bin")

                    def f():
                        if chan == "file":
                            obj.export(path)
                        else:
                            with open(path, "wb") as fh:
                                obj.export(fh)
                        with open(path, "rb") as fh:
                            return fh.read().hex()

                    res = call(f)
                d = self.obs(kind, obj, "ok")
                d["payload"] = ret_str(res)
                out.append((f"ck.export {h} {chan}", d))
        return out

    def nontrivial(self, seq, pairs):
        return any("or=" in p[0] and "or=-" not in p[0] for p in pairs)
