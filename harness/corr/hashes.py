"""Correspondence suite: probables.hashes  vs  PyProb.Model.Hashes."""
from core import Suite, call, key_token, nats, ret_str


def _units(key):
    return list(key) if not isinstance(key, str) else [ord(c) for c in key]


def inner_int(name):
    from probables.hashes import fnv_1a

    return {
        "fnvseed": lambda key, idx: fnv_1a(key, 7 * idx + 3),
        "sumlen": lambda key, idx: (sum(_units(key)) * 2654435761 + len(key) * 97 + idx) % 2**64,
        "small": lambda key, idx: (sum(_units(key)) + idx) % 251,
    }[name]


def inner_bytes(name):
    from probables.hashes import fnv_1a, fnv_1a_32

    return {
        "fnvle": lambda b, idx: fnv_1a(b, idx).to_bytes(8, "little") + bytes(b[:3]),
        "chain": lambda b, idx: fnv_1a(b, 0).to_bytes(8, "little") + fnv_1a_32(b, idx).to_bytes(4, "little"),
    }[name]


BYTE_ALPHABET_QUICK = [0, 1, 0x2F, 0x41, 0x61, 0x7F, 0x80, 0xC3, 0xFF]
SEEDS = [0, 1, 2, 3, 5, 17, 2**64 // 31 - 1, 2**64 // 31, 2**64 // 31 + 1, 2**64, 2**64 + 5, 2**32 // 31, 2**32 // 31 + 1, -1, -2, -(2**63), 2**80 + 12345]


def random_key(rng):
    r = rng.random()
    n = rng.choice([0, 1, 2, 3, 5, 8, 13, 40]) if rng.random() < 0.7 else rng.randint(0, 120)
    if r < 0.35:
        return bytes(rng.randrange(256) for _ in range(n))
    if r < 0.65:
        return "".join(chr(rng.randint(0x20, 0x7E)) for _ in range(n))
    if r < 0.8:
        return "".join(chr(rng.randint(0, 0xFF)) for _ in range(n))
    pool = [0x7F, 0x80, 0x7FF, 0x800, 0xFFFF, 0x10000, 0x10FFFF, 0x20AC, 0x1F600, 0xD7FF, 0xE000]
    return "".join(chr(rng.choice(pool) if rng.random() < 0.5 else rng.choice([rng.randint(0, 0xD7FF), rng.randint(0xE000, 0x10FFFF)])) for _ in range(n))


class HashesSuite(Suite):
    name = "hashes"
    facets = ["ret"]

    def gen(self, rng, tier):
        seqs = []
        alphabet = BYTE_ALPHABET_QUICK if tier == "quick" else list(range(256))
        short = [b""] + [bytes([a]) for a in alphabet] + [bytes([a, b]) for a in alphabet for b in alphabet]
        # exhaustive short byte keys and their latin-1 text twins
        seq = []
        for k in short:
            seq.append(("fnv64", k, 0))
            seq.append(("fnv32", k, 0))
            seq.append(("fnv64", k.decode("latin-1"), 0))
            seq.append(("fnv32", k.decode("latin-1"), 0))
            if len(k) < 2 or tier == "quick":
                seq.append(("default", k, 3))
                seq.append(("utf8", k.decode("latin-1")))
        seqs.append(seq)
        # digest padding boundaries: 55, 56, 63, 64, 119, 120 bytes
        pad = []
        for ln in (0, 1, 54, 55, 56, 57, 63, 64, 65, 118, 119, 120, 121, 128, 200):
            k = bytes((7 * i + ln) % 256 for i in range(ln))
            pad += [("digest-md5", k, 1), ("digest-sha256", k, 1), ("md5", k, 3), ("sha256", k, 3)]
        seqs.append(pad)
        n_rand = 400 if tier == "quick" else 8000
        for _ in range(n_rand // 20):
            seq = []
            for _ in range(20):
                key = random_key(rng)
                depth = rng.choice([1, 1, 2, 3, 4, 5, 8, 13, 64]) if rng.random() < 0.9 else rng.randint(1, 64)
                r = rng.random()
                if r < 0.2:
                    seq.append(("fnv64", key, rng.choice(SEEDS)))
                elif r < 0.4:
                    seq.append(("fnv32", key, rng.choice(SEEDS)))
                elif r < 0.6:
                    seq.append(("default", key, depth))
                elif r < 0.78:
                    seq.append(("dint", rng.choice(["fnvseed", "sumlen", "small"]), key, depth))
                elif r < 0.88:
                    seq.append(("dbytes", rng.choice(["fnvle", "chain"]), key, depth))
                elif r < 0.95:
                    seq.append((rng.choice(["md5", "sha256", "digest-md5", "digest-sha256"]), key, min(depth, 6)))
                else:
                    if isinstance(key, str):
                        seq.append(("utf8", key))
                    else:
                        seq.append(("default", key, 0))
            seqs.append(seq)
        return seqs

    def run_real(self, seq):
        from probables import hashes as H

        out = []
        for op in seq:
            kind = op[0]
            if kind == "fnv64":
                out.append((f"h.fnv64 {key_token(op[1])} {op[2]}", {"ret": ret_str(call(H.fnv_1a, op[1], op[2]))}))
            elif kind == "fnv32":
                out.append((f"h.fnv32 {key_token(op[1])} {op[2]}", {"ret": ret_str(call(H.fnv_1a_32, op[1], op[2]))}))
            elif kind == "default":
                res = call(H.default_fnv_1a, op[1], op[2])
                out.append((f"h.default {key_token(op[1])} {op[2]}", {"ret": nats(res[1]) if res[0] == "ok" else res[1]}))
            elif kind == "dint":
                fn = H.hash_with_depth_int(inner_int(op[1]))
                res = call(fn, op[2], op[3])
                out.append((f"h.dint {op[1]} {key_token(op[2])} {op[3]}", {"ret": nats(res[1]) if res[0] == "ok" else res[1]}))
            elif kind == "dbytes":
                fn = H.hash_with_depth_bytes(inner_bytes(op[1]))
                res = call(fn, op[2], op[3])
                out.append((f"h.dbytes {op[1]} {key_token(op[2])} {op[3]}", {"ret": nats(res[1]) if res[0] == "ok" else res[1]}))
            elif kind in ("md5", "sha256"):
                fn = H.default_md5 if kind == "md5" else H.default_sha256
                res = call(fn, op[1], op[2])
                out.append((f"h.{kind} {key_token(op[1])} {op[2]}", {"ret": nats(res[1]) if res[0] == "ok" else res[1]}))
            elif kind in ("digest-md5", "digest-sha256"):
                import hashlib

                data = op[1].encode("utf-8") if isinstance(op[1], str) else op[1]
                alg = kind.split("-")[1]
                out.append((f"h.digest {alg} {key_token(op[1])}", {"ret": getattr(hashlib, alg)(data).hexdigest()}))
            elif kind == "utf8":
                out.append((f"h.utf8 {key_token(op[1])}", {"ret": nats(op[1].encode("utf-8"))}))
        return out

    def nontrivial(self, seq, pairs):
        return True
