"""Correspondence suite: CountMinSketch family  vs  PyProb.Model.CMS."""
import os
from collections import Counter

from core import Scratch, Suite, call, cms_bins, key_token, nats, ret_str
from corr.bloom import STRATS, dbl_bits, make_universe, strategy

KINDS = ["min", "min", "min", "mean", "meanmin", "hh", "st"]
BIG = [2**31 - 2, 2**31 - 1, 2**31, 2**31 + 1, 2**32, 2**63 - 1, 2**63, 2**64 + 3]


def ints(seq):
    return ",".join(str(int(x)) for x in seq)


class CMSSuite(Suite):
    name = "cms"

    def __init__(self):
        self.dist = Counter()

    def distribution(self):
        return dict(self.dist)

    def gen(self, rng, tier):
        n = 70 if tier == "quick" else 1800
        seqs = [self.gen_one(rng, i) for i in range(n)]
        # additions and removals that cancel in the total while bins are non-zero: the total is a signed net
        # count, so "total is 0" must not be taken for "sketch is empty" (clear, load, join fast paths)
        for _ in range(8 if tier == "quick" else 120):
            seqs.append(self.gen_netzero(rng))
        seqs.append([("new", 1, "min", {"w": 0, "d": 3}, "fnv", None), ("new", 1, "min", {"w": 3, "d": -1}, "fnv", None), ("new", 1, "min", {"conf": 0.0, "err": 0.1}, "fnv", None)])
        return seqs

    def gen_one(self, rng, i):
        kind = rng.choice(KINDS)
        if rng.random() < 0.2:
            dims = {"conf": rng.choice([0.5, 0.75, 0.9, 0.95, 0.99, 0.999, rng.uniform(0.01, 0.999)]), "err": rng.choice([0.5, 0.2, 0.1, 0.05, 0.01, rng.uniform(0.004, 0.9)])}
        else:
            dims = {"w": rng.choice([1, 1, 2, 2, 3, 3, 5, 17, 100, 1000]), "d": rng.choice([1, 2, 3, 4, 5, 8])}
        if kind == "meanmin" and dims.get("w") == 1:
            dims["w"] = 2
        strat = rng.choice(STRATS)
        extra = rng.choice([1, 2, 3, 5]) if kind == "hh" else (rng.choice([1, 2, 3, 5, 10]) if kind == "st" else None)
        universe = make_universe(rng, rng.randint(3, 12))
        if kind in ("hh", "st"):
            universe = [k for k in universe if isinstance(k, str)] or ["a", "b", "c"]
        seq = [("new", 1, kind, dims, strat, extra)]
        have = [1]
        if rng.random() < 0.5 and kind in ("min", "mean", "meanmin"):
            r = rng.random()
            if r < 0.75:
                seq.append(("new", 2, kind, dims, strat, extra))
            elif r < 0.9:
                seq.append(("new", 2, kind, {"w": 4, "d": 2}, strat, extra))
            else:
                seq.append(("new", 2, kind, dims, rng.choice(STRATS), extra))
            have.append(2)
        saturating = rng.random() < 0.15
        for _ in range(rng.randint(5, 50)):
            h = rng.choice(have)
            key = rng.choice(universe)
            k = rng.random()
            n = rng.choice(BIG) if (saturating and rng.random() < 0.4) else rng.choice([1, 1, 1, 2, 3, 7])
            if k < 0.45:
                seq.append(("add", h, key, n))
            elif k < 0.60:
                seq.append(("rem", h, key, n))
            elif k < 0.72:
                seq.append(("chk", h, key))
            elif k < 0.78 and len(have) > 1:
                a, b = (1, 2) if rng.random() < 0.5 else (2, 1)
                seq.append(("join", a, b))
            elif k < 0.84:
                seq.append(("export", h, rng.choice(["bytes", "file", "fileobj"])))
            elif k < 0.91:
                seq.append(("load", 3, rng.choice(["bytes", "file"]), h))
                if 3 not in have:
                    have.append(3)
            elif k < 0.93:
                seq.append(("clear", h))
            elif k < 0.96:
                seq.append(("str", h))
            else:
                seq.append(("chkall", h))
        if kind in ("hh", "st") and rng.random() < 0.5:
            # clear() in the middle, then the table has to fill up again exactly like a fresh one
            mid = len(seq) // 2
            seq.insert(mid, ("clear", 1))
            for _ in range(rng.randint(5, 15)):
                seq.append(("add", 1, rng.choice(universe), rng.choice([1, 1, 2, 3])))
        seq.append(("chkall", 1))
        seq[0] = seq[0] + (tuple(universe),)
        return seq

    def gen_netzero(self, rng):
        kind = rng.choice(["min", "min", "mean", "meanmin", "st"])
        dims = {"w": rng.choice([2, 3, 5, 17]), "d": rng.choice([1, 2, 3, 4])}
        strat = rng.choice(["fnv", "fnv", "md5", "custom"])
        extra = rng.choice([1, 2, 3]) if kind == "st" else None
        u = [k for k in make_universe(rng, 8) if isinstance(k, str)] or ["a", "b", "c"]
        while len(u) < 3:
            u.append("x%d" % len(u))
        seq = [("new", 1, kind, dims, strat, extra), ("new", 2, kind, dims, strat, extra)]
        total = 0
        for _ in range(rng.randint(1, 4)):
            n = rng.choice([1, 2, 3, 7])
            seq.append(("add", 1, rng.choice(u[:2]), n))
            total += n
        seq.append(("rem", 1, u[2], total))  # total is 0 now, bins are not
        tail = [("chk", 1, u[0]), ("export", 1, "bytes"), ("load", 3, "bytes", 1), ("chk", 3, u[0]), ("load", 3, "file", 1), ("chk", 3, u[2]), ("str", 1)]
        if kind != "st":
            tail += [("add", 2, u[1], 2), ("join", 2, 1), ("chk", 2, u[0]), ("join", 1, 2)]
        rng.shuffle(tail)
        seq += tail
        seq += [("clear", 1), ("chk", 1, u[0]), ("add", 1, u[1], 1), ("chk", 1, u[1]), ("export", 1, "bytes"), ("chkall", 1)]
        seq[0] = seq[0] + (tuple(u),)
        return seq

    def cls(self, kind):
        import probables as P

        return {"min": P.CountMinSketch, "mean": P.CountMeanSketch, "meanmin": P.CountMeanMinSketch, "hh": P.HeavyHitters, "st": P.StreamThreshold}[kind]

    def obs(self, kind, obj, ret):
        d = {"ret": ret, "total": str(obj.elements_added), "bins": ints(cms_bins(obj)), "geom": f"{obj.width},{obj.depth}"}
        if kind == "hh":
            d["table"] = ";".join(f"{key_token(k)}={v}" for k, v in obj.heavy_hitters.items())
        elif kind == "st":
            d["table"] = ";".join(f"{key_token(k)}={v}" for k, v in obj.meets_threshold.items())
        return d

    def run_real(self, seq):
        with Scratch() as tmp:
            return self._run_real(seq, tmp)

    def _run_real(self, seq, tmp):
        objs = {}
        out = []
        D = self.dist
        universe = ()

        def tok(h, key):
            kind, obj, sname, extra = objs[h]
            _, _, ext = strategy(sname)
            t = key_token(key)
            if ext:
                t += " hs=" + nats(obj.hashes(key))
            return t

        def kind_args(kind, extra, sname, obj):
            _, token, ext = strategy(sname)
            a = f"kind={kind} strat={token}"
            if kind == "hh":
                a += f" num={extra}"
            if kind == "st":
                a += f" thr={extra}"
            if ext:
                a += " probe=" + nats(obj.hashes("test"))
            return a

        for op in seq:
            D["op:" + op[0]] += 1
            if op[0] == "new":
                _, h, kind, dims, sname, extra = op[:6]
                if len(op) > 6:
                    universe = op[6]
                fn, token, ext = strategy(sname)
                kw = dict(hash_function=fn)
                if "w" in dims:
                    kw.update(width=dims["w"], depth=dims["d"])
                    line = f"cm.new {h} w={dims['w']} d={dims['d']} "
                else:
                    kw.update(confidence=dims["conf"], error_rate=dims["err"])
                    line = f"cm.new {h} conf={dbl_bits(dims['conf'])} err={dbl_bits(dims['err'])} "
                if kind == "hh":
                    kw["num_hitters"] = extra
                if kind == "st":
                    kw["threshold"] = extra
                res = call(self.cls(kind), **kw)
                if res[0] == "ok":
                    objs[h] = (kind, res[1], sname, extra)
                    D["kind:" + kind] += 1
                    D["w=%s" % ("1-3" if res[1].width <= 3 else "big")] += 1
                    out.append((line + kind_args(kind, extra, sname, res[1]), self.obs(kind, res[1], "ok")))
                else:
                    D["err:" + res[1]] += 1
                    out.append((line + f"kind={kind if kind not in ('hh', 'st') else 'min'} strat=fnv", {"ret": res[1]}))
                continue
            if op[0] == "load":
                _, r, chan, src = op
                if src not in objs:
                    continue
                kind, obj, sname, extra = objs[src]
                fn, token, ext = strategy(sname)
                cls = self.cls(kind)
                kw = dict(hash_function=fn)
                if kind == "hh":
                    kw["num_hitters"] = extra
                if kind == "st":
                    kw["threshold"] = extra
                if chan == "bytes":
                    res = call(lambda: cls.frombytes(bytes(obj), **kw))
                else:
                    path = os.path.join(tmp, f"c{len(out)}.cms")
                    res = call(lambda: (obj.export(path), cls(filepath=path, **kw))[1])
                line = f"cm.load {r} {chan} {src} "
                if res[0] == "ok":
                    new = res[1]
                    real_kind = kind
                    # the loaded object must be of the receiver's class and answer with its query
                    if type(new) is not cls:
                        real_kind = {"CountMinSketch": "min", "CountMeanSketch": "mean", "CountMeanMinSketch": "meanmin"}.get(type(new).__name__, kind)
                        D["load:class-mismatch"] += 1
                    # later lines are addressed to what the caller asked for (the receiver's class): a loader that
                    # returns another class is a C05 matter and shows in the `qtype` facet of this line
                    objs[r] = (kind, new, sname, extra)
                    d = self.obs(real_kind, new, "ok")
                    d["qtype"] = new.query_type
                    out.append((line + kind_args(kind, extra, sname, new), d))
                else:
                    D["err:" + res[1]] += 1
                    out.append((line + kind_args(kind, extra, sname, obj), {"ret": res[1]}))
                continue
            h = op[1]
            if h not in objs:
                continue
            kind, obj, sname, extra = objs[h]
            if op[0] in ("add", "rem"):
                key, n = op[2], op[3]
                fn = obj.add if op[0] == "add" else obj.remove
                res = call(fn, key, n)
                if res[0] == "err":
                    D["err:" + res[1]] += 1
                if any(v in (2**31 - 1, -(2**31)) for v in cms_bins(obj)):
                    D["saturated-step"] += 1
                out.append((f"cm.{op[0]} {h} {tok(h, key)} n={n} k={kind}", self.obs(kind, obj, ret_str(res))))
            elif op[0] == "chk":
                key = op[2]
                res = call(obj.check, key)
                out.append((f"cm.chk {h} {tok(h, key)} k={kind}", self.obs(kind, obj, ret_str(res))))
            elif op[0] == "chkall":
                for key in universe:
                    res = call(obj.check, key)
                    out.append((f"cm.chk {h} {tok(h, key)} k={kind}", {"ret": ret_str(res)}))
            elif op[0] == "join":
                a, b = op[1], op[2]
                if b not in objs:
                    continue
                kb, ob, sb, eb = objs[b]
                res = call(obj.join, ob)
                if res[0] == "err":
                    D["err:" + res[1]] += 1
                out.append((f"cm.join {a} {b}", self.obs(kind, obj, ret_str(res))))
                out.append((f"cm.obs {b}", self.obs(kb, ob, "None")))
            elif op[0] == "clear":
                out.append((f"cm.clear {h}", self.obs(kind, obj, ret_str(call(obj.clear)))))
            elif op[0] == "str":
                res = call(str, obj)
                out.append((f"cm.obs {h}", self.obs(kind, obj, "None" if res[0] == "ok" else res[1])))
            elif op[0] == "export":
                chan = op[2]
                if chan == "bytes":
                    res = call(lambda: bytes(obj).hex())
                else:
                    path = os.path.join(tmp, f"c{len(out)}.bin")

                    def f():
                        if chan == "file":
                            obj.export(path)
                        else:
                            with open(path, "wb") as fh:
                                obj.export(fh)
                        with open(path, "rb") as fh:
                            return fh.read().hex()

                    res = call(f)
                d = self.obs(kind, obj, "ok")
                d["payload"] = ret_str(res)
                out.append((f"cm.export {h} {chan}", d))
        return out

    def nontrivial(self, seq, pairs):
        return any(p[1].get("total", "0") != "0" for p in pairs)
