"""Correspondence suite: BloomFilterOnDisk  vs  PyProb.Model.OnDisk.

While add/close/export run, a `sys.settrace` line tracer reads the backing file through a separate
descriptor at every executed source line of the library: the de-duplicated sequence of file contents
must equal the model's micro-step trace (facet `trace`), i.e. every crash point of the model is a
state the real file actually goes through, and there are no others."""
import os
import sys
from collections import Counter

import core
from core import Scratch, Suite, call, key_token, nats, ret_str
from corr.bloom import RATES, dbl_bits, f32_bits, make_universe, strategy

STRATS = ["fnv", "fnv", "md5", "custom", "dint:fnvseed", "dbytes:fnvle"]


class FileTracer:
    """collects the distinct successive contents of `path` seen at line events inside probables/"""

    def __init__(self, path):
        self.path = path
        self.snaps = []
        self.events = 0
        self.prefix = os.path.join(core.REPO, "probables")
        self.fd = os.open(path, os.O_RDONLY)
        self.last = self._read()

    def _read(self):
        size = os.fstat(self.fd).st_size
        return os.pread(self.fd, size, 0)

    def snap(self):
        cur = self._read()
        if cur != self.last:
            self.snaps.append(cur)
            self.last = cur

    def _local(self, frame, event, arg):
        if event == "line":
            self.events += 1
            self.snap()
        return self._local

    def _global(self, frame, event, arg):
        if frame.f_code.co_filename.startswith(self.prefix):
            return self._local
        return None

    def run(self, fn, *a):
        old = sys.gettrace()
        sys.settrace(self._global)
        try:
            res = call(fn, *a)
        finally:
            sys.settrace(old)
        self.snap()
        os.close(self.fd)
        return res


class OnDiskSuite(Suite):
    name = "ondisk"

    def __init__(self):
        self.dist = Counter()

    def distribution(self):
        return dict(self.dist)

    def gen(self, rng, tier):
        n = 50 if tier == "quick" else 1200
        return [self.gen_one(rng) for _ in range(n)]

    def gen_one(self, rng):
        est = rng.choice([1, 2, 3, 5, 8, 12, 30])
        fpr = rng.choice(RATES)
        strat = rng.choice(STRATS)
        where = rng.choice(["rel", "abs", "subrel"])
        universe = make_universe(rng, rng.randint(3, 15))
        seq = [("new", 1, est, fpr, strat, where), ("mem", 5, est, fpr, strat)]
        live = 1
        for _ in range(rng.randint(4, 40)):
            k = rng.random()
            key = rng.choice(universe)
            if k < 0.5:
                seq.append(("add", live, key))
            elif k < 0.62:
                seq.append(("chk", live, key))
            elif k < 0.70:
                seq.append(("memadd", 5, key))
            elif k < 0.78:
                seq.append(("setop", rng.choice(["union", "inter", "jacc"]), 6, rng.choice([(live, 5), (5, live), (live, live)])))
            elif k < 0.84:
                seq.append(("export", live))
            elif k < 0.90:
                seq.append(("loadmem", 7, live))
            elif k < 0.97:
                # close and reopen, from another working directory
                seq.append(("close", live))
                new = 3 - live if live in (1, 2) else 1
                mode = rng.choice(["abs-other-cwd", "rel-same-cwd", "abs", "rel-dotdot", "rel-other-cwd"])
                if mode == "rel-other-cwd":
                    # refused: try again properly so that the history goes on
                    seq.append(("reopen", 9, live, mode))
                    mode = "abs-other-cwd"
                seq.append(("reopen", new, live, mode))
                live = new
            elif rng.random() < 0.4:
                seq.append(("clear", live))
            else:
                seq.append(("obs", live))
        seq.append(("close", live))
        seq.append(("loadmem", 7, live))
        return seq

    def obs(self, obj, path, ret):
        with open(path, "rb") as fh:
            data = fh.read()
        return {
            "ret": ret,
            "count": str(obj.elements_added),
            "file": data.hex(),
            "geom": f"{obj.number_bits},{obj.number_hashes},{obj.bloom_length},{obj.export_size()}",
            "est": str(obj.estimated_elements),
            "fpr32": str(f32_bits(obj.false_positive_rate)),
        }

    def mem_obs(self, obj, ret):
        return {
            "ret": ret,
            "count": str(obj.elements_added),
            "bits": bytes(obj.bloom).hex(),
            "geom": f"{obj.number_bits},{obj.number_hashes},{obj.bloom_length},{obj.export_size()}",
            "est": str(obj.estimated_elements),
            "fpr32": str(f32_bits(obj.false_positive_rate)),
        }

    def run_real(self, seq):
        cwd = os.getcwd()
        with Scratch() as tmp:
            try:
                return self._run_real(seq, tmp)
            finally:
                os.chdir(cwd)

    def _run_real(self, seq, tmp):
        from probables import BloomFilter, BloomFilterOnDisk

        os.makedirs(os.path.join(tmp, "work", "sub"), exist_ok=True)
        os.makedirs(os.path.join(tmp, "elsewhere"), exist_ok=True)
        work = os.path.join(tmp, "work")
        os.chdir(work)
        objs = {}  # handle -> dict(kind, obj, path(abs), sname)
        out = []
        D = self.dist

        def tok(h, key):
            o = objs[h]
            _, _, ext = strategy(o["sname"])
            t = key_token(key)
            if ext:
                t += " hs=" + nats(o["obj"].hashes(key))
            return t

        def strat_args(sname, obj):
            _, token, ext = strategy(sname)
            a = f"strat={token}"
            if ext:
                a += " probe=" + nats(obj.hashes("test"))
            return a

        try:
            for op in seq:
                D["op:" + op[0]] += 1
                if op[0] == "new":
                    _, h, est, fpr, sname, where = op
                    fn, token, ext = strategy(sname)
                    rel = {"rel": "disk.blm", "abs": os.path.join(work, "disk.blm"), "subrel": os.path.join("sub", "disk.blm")}[where]
                    res = call(BloomFilterOnDisk, rel, est_elements=est, false_positive_rate=fpr, hash_function=fn)
                    vpath = "/" + os.path.relpath(os.path.abspath(rel), tmp)
                    line = f"od.new {h} est={est} fpr={dbl_bits(fpr)} path={vpath} "
                    if res[0] == "ok":
                        path = os.path.abspath(rel)
                        objs[h] = {"kind": "od", "obj": res[1], "path": path, "sname": sname, "rel": rel}
                        out.append((line + strat_args(sname, res[1]), self.obs(res[1], path, "ok")))
                    else:
                        out.append((line + "strat=fnv", {"ret": res[1]}))
                    continue
                if op[0] == "mem":
                    _, h, est, fpr, sname = op
                    fn, token, ext = strategy(sname)
                    res = call(BloomFilter, est_elements=est, false_positive_rate=fpr, hash_function=fn)
                    if res[0] == "ok":
                        objs[h] = {"kind": "bf", "obj": res[1], "sname": sname}
                        out.append((f"bf.new {h} est={est} fpr={dbl_bits(fpr)} " + strat_args(sname, res[1]), self.mem_obs(res[1], "ok")))
                    continue
                if op[0] == "memadd":
                    _, h, key = op
                    if h in objs:
                        res = call(objs[h]["obj"].add, key)
                        out.append((f"bf.add {h} {tok(h, key)}", self.mem_obs(objs[h]["obj"], ret_str(res))))
                    continue
                if op[0] == "setop":
                    _, kind, r, (a, b) = op
                    if a not in objs or b not in objs:
                        continue
                    if any(objs[x]["kind"] == "od" and objs[x].get("closed") for x in (a, b)):
                        continue
                    # on-disk operands appear to the model as views
                    names = {}
                    for x, vh in ((a, 8), (b, 9)):
                        if objs[x]["kind"] == "od":
                            out.append((f"od.view {vh} {x}", {"ret": "None", "bits": bytes(objs[x]["obj"].bloom[: objs[x]["obj"].bloom_length]).hex(), "count": str(objs[x]["obj"].elements_added)}))
                            names[x] = vh
                        else:
                            names[x] = x
                    meth = {"union": "union", "inter": "intersection", "jacc": "jaccard_index"}[kind]
                    res = call(getattr(objs[a]["obj"], meth), objs[b]["obj"])
                    line = f"bf.{kind} {r} {names[a]} {names[b]}"
                    if kind == "jacc":
                        out.append((line, {"ret": res[1] if res[0] == "err" else ("None" if res[1] is None else str(dbl_bits(res[1])))}))
                    elif res[0] == "err":
                        out.append((line, {"ret": res[1]}))
                    elif res[1] is None:
                        out.append((line, {"ret": "None"}))
                    else:
                        D["setop-with-ondisk:ok"] += 1
                        out.append((line, self.mem_obs(res[1], "ok")))
                    # operands unchanged
                    for x in (a, b):
                        if objs[x]["kind"] == "od":
                            out.append((f"od.obs {x}", self.obs(objs[x]["obj"], objs[x]["path"], "None")))
                        else:
                            out.append((f"bf.obs {x}", self.mem_obs(objs[x]["obj"], "None")))
                    continue
                if op[0] == "reopen":
                    _, r, src, mode = op
                    if src not in objs:
                        continue
                    o = objs[src]
                    fn, token, ext = strategy(o["sname"])
                    if mode == "abs-other-cwd":
                        os.chdir(os.path.join(tmp, "elsewhere"))
                        arg = o["path"]
                    elif mode == "rel-same-cwd":
                        os.chdir(work)
                        arg = os.path.relpath(o["path"], work)
                    elif mode == "rel-other-cwd":
                        # a relative name that does not designate the file from here: nothing to open
                        os.chdir(os.path.join(tmp, "elsewhere"))
                        arg = os.path.relpath(o["path"], work)
                    elif mode == "rel-dotdot":
                        os.chdir(os.path.join(work, "sub"))
                        arg = os.path.join("..", os.path.relpath(o["path"], work))
                    else:
                        arg = o["path"]
                    res = call(BloomFilterOnDisk, arg, hash_function=fn)
                    vcwd = "/" + os.path.relpath(os.getcwd(), tmp)
                    varg = ("/" + os.path.relpath(arg, tmp)) if os.path.isabs(arg) else arg
                    line = f"od.reopen {r} {src} cwd={vcwd} arg={varg} "
                    if res[0] == "ok":
                        D["reopen:" + mode] += 1
                        objs[r] = {"kind": "od", "obj": res[1], "path": o["path"], "sname": o["sname"]}
                        out.append((line + strat_args(o["sname"], res[1]), self.obs(res[1], o["path"], "ok")))
                    else:
                        D["err:reopen:" + res[1]] += 1
                        out.append((line + "strat=fnv", {"ret": res[1]}))
                    continue
                if op[0] == "loadmem":
                    _, r, src = op
                    if src not in objs:
                        continue
                    o = objs[src]
                    fn, token, ext = strategy(o["sname"])
                    res = call(BloomFilter, filepath=o["path"], hash_function=fn)
                    line = f"od.loadmem {r} {src} "
                    if res[0] == "ok":
                        objs[r] = {"kind": "bf", "obj": res[1], "sname": o["sname"]}
                        out.append((line + strat_args(o["sname"], res[1]), self.mem_obs(res[1], "ok")))
                    else:
                        out.append((line + "strat=fnv", {"ret": res[1]}))
                    continue
                h = op[1]
                if h not in objs or objs[h]["kind"] != "od" or objs[h].get("closed"):
                    continue
                o = objs[h]
                obj, path = o["obj"], o["path"]
                if op[0] == "add":
                    key = op[2]
                    t = tok(h, key)
                    tr = FileTracer(path)
                    res = tr.run(obj.add, key)
                    D["line-events"] += tr.events
                    D["crash-points"] += len(tr.snaps)
                    d = self.obs(obj, path, ret_str(res))
                    d["trace"] = ",".join(s.hex() for s in tr.snaps)
                    out.append((f"od.add {h} {t}", d))
                elif op[0] == "chk":
                    key = op[2]
                    res = call(obj.check, key)
                    out.append((f"od.chk {h} {tok(h, key)}", self.obs(obj, path, ret_str(res))))
                elif op[0] == "close":
                    tr = FileTracer(path)
                    res = tr.run(obj.close)
                    d = self.obs(obj, path, ret_str(res))
                    d["trace"] = ",".join(s.hex() for s in tr.snaps)
                    o["closed"] = True
                    out.append((f"od.close {h}", d))
                elif op[0] == "export":
                    dst = os.path.join(tmp, "elsewhere", f"copy{len(out)}.blm")
                    here = os.getcwd()
                    os.chdir(os.path.join(tmp, "elsewhere"))
                    tr = FileTracer(path)
                    res = tr.run(obj.export, dst)
                    os.chdir(here)
                    d = self.obs(obj, path, ret_str(res))
                    d["trace"] = ",".join(s.hex() for s in tr.snaps)
                    if res[0] == "ok":
                        with open(dst, "rb") as fh:
                            d["payload"] = fh.read().hex()
                    else:
                        D["err:export:" + res[1]] += 1
                        d["payload"] = res[1]
                    out.append((f"od.export {h}", d))
                elif op[0] == "clear":
                    tr = FileTracer(path)
                    res = tr.run(obj.clear)
                    d = self.obs(obj, path, ret_str(res))
                    d["trace"] = ",".join(s.hex() for s in tr.snaps)
                    out.append((f"od.clear {h}", d))
                elif op[0] == "obs":
                    out.append((f"od.obs {h}", self.obs(obj, path, "None")))
        finally:
            for o in objs.values():
                if o["kind"] == "od":
                    try:
                        o["obj"].close()
                    except Exception:  # noqa: BLE001
                        pass
        return out

    def nontrivial(self, seq, pairs):
        return any(p[1].get("trace") for p in pairs)
