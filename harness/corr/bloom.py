"""Correspondence suite: BloomFilter / CountingBloomFilter  vs  PyProb.Model.Bloom (Bloom, CBF)."""
import io
import os
import struct
from collections import Counter

from core import Scratch, Suite, call, key_token, nats, ret_str
from core import bloom_setbits as core_bloom_setbits
from corr.hashes import inner_bytes, inner_int


def dbl_bits(x):
    return struct.unpack("<Q", struct.pack("<d", float(x)))[0]


def f32_bits(x):
    return struct.unpack("<I", struct.pack("<f", float(x)))[0]


def custom_strategy(key, depth=1):
    """a hand-written strategy (not built by the decorators): one base hash stepped by an odd stride"""
    data = key.encode("utf-8") if isinstance(key, str) else bytes(key)
    base = 1469598103934665603
    for b in data:
        base = ((base ^ b) * 1099511628211 + 12345) % 2**64
    return [(base + i * 0x9E3779B97F4A7C15) % 2**64 for i in range(depth)]


def strategy(name):
    """(hash_function argument, protocol strat token, is_ext)"""
    from probables import hashes as H

    if name == "fnv":
        return None, "fnv", False
    if name == "md5":
        return H.default_md5, "md5", False
    if name == "sha256":
        return H.default_sha256, "sha256", False
    if name == "custom":
        return custom_strategy, "ext", True
    kind, inner = name.split(":")
    if kind == "dint":
        return H.hash_with_depth_int(inner_int(inner)), name, False
    return H.hash_with_depth_bytes(inner_bytes(inner)), name, False


STRATS = ["fnv", "fnv", "fnv", "md5", "sha256", "custom", "dint:fnvseed", "dint:sumlen", "dbytes:fnvle", "dbytes:chain"]
RATES = [0.5, 0.3, 0.2, 0.1, 0.05, 0.01, 0.001, 1e-6, 0.7, 0.9, 0.05, 0.05]


def gen_key(rng, universe):
    return rng.choice(universe)


def make_universe(rng, n):
    out = []
    for i in range(n):
        r = rng.random()
        ln = rng.randint(0, 9)
        if r < 0.4:
            out.append("".join(chr(rng.randint(0x20, 0x7E)) for _ in range(ln)) + str(i))
        elif r < 0.6:
            out.append(bytes(rng.randrange(256) for _ in range(ln)) + bytes([i % 256]))
        elif r < 0.8:
            out.append("".join(chr(rng.choice([0xE9, 0x20AC, 0x1F600, 0x7FF, 0x800, rng.randint(0x80, 0x2FF)])) for _ in range(ln)) + str(i))
        else:
            out.append(str(i))
    return out


class BloomSuite(Suite):
    name = "bloom"
    kinds = ("bf",)

    def __init__(self):
        self.dist = Counter()

    def distribution(self):
        return dict(self.dist)

    # ---------------------------------------------------------------- generation
    def gen(self, rng, tier):
        seqs = []
        n = 60 if tier == "quick" else 1500
        for i in range(n):
            seqs.append(self.gen_one(rng, big=(i % 15 == 14)))
        # results of set operations on nearly empty filters: their elements_added is an estimate that truncates
        # to 0 while cells are set, so no code path may take "count is 0" for "structure is empty"
        for i in range(10 if tier == "quick" else 150):
            seqs.append(self.gen_sparse(rng))
        # malformed constructor stream
        bad = []
        for est, fpr in [(0, 0.05), (-3, 0.05), (10, 0.0), (10, 1.0), (10, 1.5), (10, -0.1), (10, 1e-60), (1, 0.9999), (3, 0.99)]:
            bad.append(("new", 1, self.kinds[0], est, fpr, "fnv"))
        seqs.append(bad)
        return seqs

    def gen_one(self, rng, big=False):
        kind = rng.choice(self.kinds)
        est = rng.randint(1, 2000) if big else (rng.randint(1, 12) if rng.random() < 0.5 else rng.randint(1, 80))
        fpr = rng.choice(RATES) if rng.random() < 0.7 else rng.uniform(0.0005, 0.95)
        strat = rng.choice(STRATS)
        universe = make_universe(rng, rng.randint(3, 25))
        seq = [("new", 1, kind, est, fpr, strat)]
        have = {1}
        # a second structure: mostly compatible (so set operations do something), sometimes not
        r = rng.random()
        if r < 0.55:
            seq.append(("new", 2, kind, est, fpr, strat))
            have.add(2)
        elif r < 0.7:
            seq.append(("new", 2, kind, est + rng.randint(1, 5), fpr, strat))
            have.add(2)
        elif r < 0.8:
            seq.append(("new", 2, kind, est, fpr, rng.choice(STRATS)))
            have.add(2)
        n_ops = rng.randint(5, 60) if not big else rng.randint(5, 25)
        for _ in range(n_ops):
            h = rng.choice(sorted(have))
            k = rng.random()
            key = gen_key(rng, universe)
            if k < 0.40:
                seq.append(self.gen_add(rng, h, key, kind))
            elif k < 0.55:
                seq.append(("chk", h, key))
            elif k < 0.60 and kind == "cb":
                seq.append(("rem", h, key, self.gen_amount(rng)))
            elif k < 0.66 and len(have) > 1:
                a, b = rng.sample(sorted(have), 2) if rng.random() < 0.8 else (h, h)
                r = rng.choice([3, 6])
                seq.append((rng.choice(["union", "inter", "jacc", "jacc"]), r, a, b))
                if seq[-1][0] != "jacc":
                    have.add(r)
            elif k < 0.74:
                seq.append(("export", h, rng.choice(["bytes", "file", "fileobj", "hex", "cheader"])))
            elif k < 0.82:
                seq.append(("load", 4, rng.choice(["bytes", "file", "hex"]), h))
                have.add(4)
            elif k < 0.87:
                seq.append(("stats", h))
            elif k < 0.90:
                seq.append(("str", h))
            elif k < 0.92:
                seq.append(("clear", h))
            elif k < 0.95:
                seq.append(("hashes", h, key, rng.randint(1, 9)))
            elif k < 0.97:
                seq.append(("addalt", h, [rng.randrange(2**64) for _ in range(30)], 1))
            else:
                seq.append(("obs", h))
        if rng.random() < 0.5:
            # malformed stream: a hash list shorter than number_hashes. Only the error kind is compared, and it
            # is the last operation of the sequence: what a rejected call leaves behind is outside every property
            seq.append(("addalt-short", rng.choice(sorted(have)), [rng.randrange(2**64) for _ in range(rng.choice([0, 1]))], 1))
        return seq

    def gen_sparse(self, rng):
        kind = rng.choice(self.kinds)
        est, fpr = rng.choice([(1, 0.3), (2, 0.3), (2, 0.1), (3, 0.2), (4, 0.05), (5, 0.1)])
        strat = rng.choice(["fnv", "fnv", "md5", "custom", "dint:fnvseed"])
        u = make_universe(rng, 8)
        seq = [("new", 1, kind, est, fpr, strat), ("new", 2, kind, est, fpr, strat), ("new", 5, kind, est, fpr, strat)]
        seq.append(self.gen_add(rng, 1, u[0], kind))
        seq.append(self.gen_add(rng, 2, u[1], kind))
        if rng.random() < 0.5:
            seq.append(self.gen_add(rng, 2, u[0], kind))
        seq.append(("inter", 3, 1, 2))
        seq.append(("union", 6, 1, 5))  # the filter fed one key, united with an empty one
        tail = []
        for r in (3, 6):
            tail += [("stats", r), ("chk", r, u[0]), ("chk", r, u[1]), ("union", 4, 2, r), ("union", 4, r, 2), ("union", 4, 5, r), ("union", 4, r, 5), ("jacc", 4, r, 5), ("jacc", 4, 5, r),
                     ("inter", 4, r, 1), ("export", r, rng.choice(["bytes", "hex", "file"])), ("load", 4, rng.choice(["bytes", "hex", "file"]), r), ("chk", 4, u[0])]
        rng.shuffle(tail)
        seq += tail
        for r in (3, 6):
            seq += [("clear", r), ("stats", r), ("chk", r, u[0]), self.gen_add(rng, r, u[2], kind), ("chk", r, u[2]), ("chk", r, u[0])]
        return seq

    def gen_add(self, rng, h, key, kind):
        return ("add", h, key)

    def gen_amount(self, rng):
        return 1

    # ---------------------------------------------------------------- real execution
    def cls(self, kind):
        from probables import BloomFilter, CountingBloomFilter

        return {"bf": BloomFilter, "cb": CountingBloomFilter}[kind]

    def obs(self, kind, obj, ret):
        d = {"ret": ret, "count": str(obj.elements_added), "est": str(obj.estimated_elements), "fpr32": str(f32_bits(obj.false_positive_rate))}
        d["geom"] = f"{obj.number_bits},{obj.number_hashes},{obj.bloom_length},{obj.export_size()}"
        if kind == "bf":
            d["bits"] = bytes(obj.bloom).hex()
        else:
            d["cells"] = nats(obj.bloom)
        return d

    def run_real(self, seq):
        with Scratch() as tmp:
            return self._run_real(seq, tmp)

    def _run_real(self, seq, tmp):
        objs = {}  # handle -> (kind, obj, strat name)
        out = []
        D = self.dist

        def tok(h, key):
            kind, obj, sname = objs[h]
            _, _, ext = strategy(sname)
            t = key_token(key)
            if ext:
                t += " hs=" + nats(obj.hashes(key))
            return t

        def strat_args(sname, obj):
            _, token, ext = strategy(sname)
            a = f"strat={token}"
            if ext:
                a += " probe=" + nats(obj.hashes("test"))
            return a

        for op in seq:
            kind_op = op[0]
            D["op:" + kind_op] += 1
            if kind_op == "new":
                _, h, kind, est, fpr, sname = op
                fn, token, ext = strategy(sname)
                res = call(self.cls(kind), est_elements=est, false_positive_rate=fpr, hash_function=fn)
                line = f"{kind}.new {h} est={est} fpr={dbl_bits(fpr)} "
                if res[0] == "ok":
                    objs[h] = (kind, res[1], sname)
                    D["m%%8=%d" % (res[1].number_bits % 8)] += 1
                    D["strat:" + sname] += 1
                    out.append((line + strat_args(sname, res[1]), self.obs(kind, res[1], "ok")))
                else:
                    D["err:" + res[1]] += 1
                    out.append((line + "strat=fnv", {"ret": res[1]}))
                continue
            if kind_op in ("union", "inter", "jacc"):
                _, r, a, b = op
                if a not in objs or b not in objs:
                    continue
                ka, oa, sa = objs[a]
                kb, ob, sb = objs[b]
                if ka != kb:
                    continue
                meth = {"union": "union", "inter": "intersection", "jacc": "jaccard_index"}[kind_op]
                res = call(getattr(oa, meth), ob)
                line = f"{ka}.{kind_op} {r} {a} {b}"
                if kind_op == "jacc":
                    ret = res[1] if res[0] == "err" else ("None" if res[1] is None else str(dbl_bits(res[1])))
                    out.append((line, {"ret": ret}))
                elif res[0] == "err":
                    out.append((line, {"ret": res[1]}))
                elif res[1] is None:
                    D["setop:None"] += 1
                    out.append((line, {"ret": "None"}))
                else:
                    D["setop:ok"] += 1
                    objs[r] = (ka, res[1], sa)
                    out.append((line, self.obs(ka, res[1], "ok")))
                # operands must be unchanged
                if a not in objs or objs[a][1] is oa:
                    out.append((f"{ka}.obs {a}", self.obs(ka, oa, "None")))
                if b not in objs or objs[b][1] is ob:
                    out.append((f"{kb}.obs {b}", self.obs(kb, ob, "None")))
                continue
            if kind_op == "load":
                _, r, chan, src = op
                if src not in objs:
                    continue
                kind, obj, sname = objs[src]
                fn, token, ext = strategy(sname)
                cls = self.cls(kind)
                if chan == "bytes":
                    res = call(lambda: cls.frombytes(bytes(obj), hash_function=fn))
                elif chan == "file":
                    path = os.path.join(tmp, f"exp{len(out)}.blm")
                    res = call(lambda: (obj.export(path), cls(filepath=path, hash_function=fn))[1])
                else:
                    res = call(lambda: cls(hex_string=obj.export_hex(), hash_function=fn))
                line = f"{kind}.load {r} {chan} {src} "
                if res[0] == "ok":
                    objs[r] = (kind, res[1], sname)
                    out.append((line + strat_args(sname, res[1]), self.obs(kind, res[1], "ok")))
                else:
                    D["err:" + res[1]] += 1
                    out.append((line + "strat=fnv", {"ret": res[1]}))
                continue
            h = op[1]
            if h not in objs:
                continue
            kind, obj, sname = objs[h]
            if kind_op == "add":
                key = op[2]
                n = op[3] if len(op) > 3 else None
                t = tok(h, key)
                if kind == "bf":
                    res = call(obj.add, key)
                    out.append((f"bf.add {h} {t}", self.obs(kind, obj, ret_str(res))))
                else:
                    res = call(obj.add, key, n if n is not None else 1)
                    out.append((f"cb.add {h} {t} n={n if n is not None else 1}", self.obs(kind, obj, ret_str(res))))
                if res[0] == "err":
                    D["err:" + res[1]] += 1
            elif kind_op == "addalt-short":
                hs, n = op[2], op[3]
                if len(hs) >= obj.number_hashes:
                    continue
                res = call(obj.add_alt, hs) if kind == "bf" else call(obj.add_alt, hs, n)
                D["err:" + ret_str(res)] += 1
                line = f"bf.add {h} hs={nats(hs) or '-'}" if kind == "bf" else f"cb.add {h} hs={nats(hs) or '-'} n={n}"
                out.append((line, {"ret": ret_str(res)}))
                break
            elif kind_op == "addalt":
                hs, n = op[2], op[3]
                if kind == "bf":
                    res = call(obj.add_alt, hs)
                    out.append((f"bf.add {h} hs={nats(hs) or '-'}", self.obs(kind, obj, ret_str(res))))
                else:
                    res = call(obj.add_alt, hs, n)
                    out.append((f"cb.add {h} hs={nats(hs) or '-'} n={n}", self.obs(kind, obj, ret_str(res))))
                if res[0] == "err":
                    D["err:" + res[1]] += 1
            elif kind_op == "rem":
                key, n = op[2], op[3]
                t = tok(h, key)
                res = call(obj.remove, key, n)
                out.append((f"cb.rem {h} {t} n={n}", self.obs(kind, obj, ret_str(res))))
            elif kind_op == "chk":
                key = op[2]
                t = tok(h, key)
                res = call(obj.check, key)
                res2 = call(lambda: key in obj)
                r = ret_str(res)
                if kind == "bf" and ret_str(res2) != r:
                    r = f"INCONSISTENT({r},{ret_str(res2)})"
                out.append((f"{kind}.chk {h} {t}", self.obs(kind, obj, r)))
            elif kind_op == "clear":
                out.append((f"{kind}.clear {h}", self.obs(kind, obj, ret_str(call(obj.clear)))))
            elif kind_op == "export":
                chan = op[2]
                if chan == "bytes":
                    res = call(lambda: bytes(obj).hex())
                elif chan == "file":
                    path = os.path.join(tmp, f"exp{len(out)}.blm")

                    def f():
                        obj.export(path)
                        with open(path, "rb") as fh:
                            return fh.read().hex()

                    res = call(f)
                elif chan == "fileobj":

                    def g():
                        path = os.path.join(tmp, f"exp{len(out)}.blm")
                        with open(path, "wb") as fh:
                            obj.export(fh)
                        with open(path, "rb") as fh:
                            return fh.read().hex()

                    res = call(g)
                elif chan == "cheader":

                    def c_header():
                        import re

                        path = os.path.join(tmp, f"exp{len(out)}.h")
                        obj.export_c_header(path)
                        with open(path, encoding="utf-8") as fh:
                            text = fh.read()
                        body = text[text.index("bloom[] = {") :]
                        data = "".join(re.findall(r"0x([0-9a-f]{2})", body))
                        m = re.search(r"number_bits = (\d+);", text)
                        k = re.search(r"number_hashes = (\d+);", text)
                        if int(m.group(1)) != obj.number_bits or int(k.group(1)) != obj.number_hashes:
                            return "BAD-HEADER-CONSTANTS"
                        return data

                    res = call(c_header)
                else:
                    res = call(obj.export_hex)
                d = self.obs(kind, obj, "ok")
                d["payload"] = ret_str(res)
                out.append((f"{kind}.export {h} {'hex' if chan == 'cheader' else chan}", d))
            elif kind_op == "stats":
                d = self.obs(kind, obj, "None")
                d["setbits"] = str(core_bloom_setbits(obj))
                d["estimate"] = ret_str(call(obj.estimate_elements))
                r = call(obj.current_false_positive_rate)
                d["cfpr"] = str(dbl_bits(r[1])) if r[0] == "ok" else r[1]
                out.append((f"{kind}.stats {h}", d))
            elif kind_op == "str":
                res = call(str, obj)
                out.append((f"{kind}.obs {h}", self.obs(kind, obj, "None" if res[0] == "ok" else res[1])))
            elif kind_op == "obs":
                out.append((f"{kind}.obs {h}", self.obs(kind, obj, "None")))
            elif kind_op == "hashes":
                key, depth = op[2], op[3]
                _, _, ext = strategy(sname)
                if ext:
                    continue
                out.append((f"{kind}.hashes {h} {key_token(key)} {depth}", {"ret": nats(obj.hashes(key, depth))}))
        return out

    def nontrivial(self, seq, pairs):
        return any(p[1].get("count", "0") not in ("0",) for p in pairs)


class CBFSuite(BloomSuite):
    name = "cbf"
    kinds = ("cb",)

    AMOUNTS = [1, 1, 1, 2, 3, 5, 2**31 - 2, 2**31 + 1, 2**32 - 2, 2**32 - 1, 2**32, 2**32 + 1, 2**63, 2**64 - 1, 2**64 + 7]

    def gen_add(self, rng, h, key, kind):
        return ("add", h, key, self.gen_amount(rng))

    def gen_amount(self, rng):
        return rng.choice(self.AMOUNTS) if rng.random() < 0.25 else rng.randint(1, 4)
