"""Correspondence suite: ExpandingBloomFilter / RotatingBloomFilter  vs  PyProb.Model.Expanding."""
import os
from collections import Counter

from core import Scratch, Suite, call, key_token, nats, ret_str
from corr.bloom import RATES, STRATS, dbl_bits, f32_bits, make_universe, strategy


class ExpandingSuite(Suite):
    name = "expanding"

    def __init__(self):
        self.dist = Counter()

    def distribution(self):
        return dict(self.dist)

    def gen(self, rng, tier):
        n = 70 if tier == "quick" else 1800
        seqs = [self.gen_one(rng) for _ in range(n)]
        # growth moments of larger geometries: distinct keys only, est+few insertions
        for _ in range(3 if tier == "quick" else 40):
            est = rng.choice([44, 50, 64, 100, 250]) if rng.random() < 0.7 else rng.randint(20, 300)
            fpr = rng.choice([0.4, 0.3, 0.2, 0.1, 0.05])
            kind = rng.choice(["xb", "rb"])
            seq = [("new", 1, kind, est, fpr, "fnv", rng.choice([2, 3]))]
            for i in range(est + rng.randint(2, 6)):
                seq.append(("add", 1, "g%d-%d" % (i, rng.randrange(10**6)), False))
            seqs.append(seq)
        return seqs

    def gen_one(self, rng):
        kind = rng.choice(["xb", "rb"])
        est = rng.choice([1, 1, 2, 2, 3, 4, 5, 7, 10])
        fpr = rng.choice(RATES)
        strat = rng.choice(STRATS)
        q = rng.choice([1, 1, 2, 2, 3, 4, 10])
        universe = make_universe(rng, rng.randint(4, 40))
        seq = [("new", 1, kind, est, fpr, strat, q)]
        have = [1]
        for _ in range(rng.randint(5, 70)):
            h = rng.choice(have)
            k = rng.random()
            key = rng.choice(universe)
            if k < 0.55:
                seq.append(("add", h, key, rng.random() < 0.15))
            elif k < 0.70:
                seq.append(("chk", h, key))
            elif k < 0.76:
                seq.append(("push", h))
            elif k < 0.82 and kind == "rb":
                seq.append(("pop", h))
            elif k < 0.88:
                seq.append(("export", h, rng.choice(["bytes", "file", "fileobj"])))
            elif k < 0.94:
                seq.append(("load", 2, rng.choice(["bytes", "file"]), h))
                if 2 not in have:
                    have.append(2)
            elif k < 0.97:
                seq.append(("chkall", h))
            else:
                seq.append(("obs", h))
        # every key of the universe is probed at the end (C10: every key of the history)
        seq.append(("chkall", 1))
        seq[0] = seq[0] + (tuple(universe),)
        return seq

    def obs(self, obj, ret):
        blooms = obj._blooms
        return {
            "ret": ret,
            "added": str(obj.elements_added),
            "nblooms": str(len(blooms)),
            "expansions": str(obj.expansions),
            "subcounts": nats(b.elements_added for b in blooms),
            "subbits": ",".join(bytes(b.bloom).hex() for b in blooms),
            "est": str(obj.estimated_elements),
            "fpr32": str(f32_bits(obj.false_positive_rate)),
        }

    def run_real(self, seq):
        with Scratch() as tmp:
            return self._run_real(seq, tmp)

    def _run_real(self, seq, tmp):
        from probables import ExpandingBloomFilter, RotatingBloomFilter

        objs = {}
        out = []
        D = self.dist
        universe = ()

        hashers = {}

        def hasher(obj, like=None):
            # the first sub-filter's bound hashes(), captured when the structure is created or loaded (a
            # loaded structure shares its source's: same strategy, same geometry): the request tokens
            # must not depend on the queue still being well-formed later on
            if id(obj) not in hashers:
                if like is not None and id(like) in hashers:
                    hashers[id(obj)] = (obj, hashers[id(like)][1])
                else:
                    hashers[id(obj)] = (obj, obj._blooms[0].hashes)
            return hashers[id(obj)][1]

        def tok(h, key):
            kind, obj, sname, q = objs[h]
            _, _, ext = strategy(sname)
            t = key_token(key)
            if ext:
                t += " hs=" + nats(hasher(obj)(key))
            return t

        def strat_args(sname, obj):
            _, token, ext = strategy(sname)
            a = f"strat={token}"
            if ext:
                a += " probe=" + nats(hasher(obj)("test"))
            return a

        for op in seq:
            D["op:" + op[0]] += 1
            if op[0] == "new":
                _, h, kind, est, fpr, sname, q = op[:7]
                universe = op[7] if len(op) > 7 else ()
                fn, token, ext = strategy(sname)
                if kind == "xb":
                    res = call(ExpandingBloomFilter, est_elements=est, false_positive_rate=fpr, hash_function=fn)
                    line = f"xb.new {h} est={est} fpr={dbl_bits(fpr)} "
                else:
                    res = call(RotatingBloomFilter, est_elements=est, false_positive_rate=fpr, max_queue_size=q, hash_function=fn)
                    line = f"rb.new {h} est={est} fpr={dbl_bits(fpr)} q={q} "
                if res[0] == "ok":
                    objs[h] = (kind, res[1], sname, q)
                    hasher(res[1])
                    D[f"{kind}:est={est}"] += 1
                    out.append((line + strat_args(sname, res[1]), self.obs(res[1], "ok")))
                else:
                    out.append((line + "strat=fnv", {"ret": res[1]}))
                continue
            if op[0] == "load":
                _, r, chan, src = op
                if src not in objs:
                    continue
                kind, obj, sname, q = objs[src]
                fn, token, ext = strategy(sname)
                if kind == "xb":
                    if chan == "bytes":
                        res = call(lambda: ExpandingBloomFilter.frombytes(bytes(obj), hash_function=fn))
                    else:
                        path = os.path.join(tmp, f"x{len(out)}.ebf")
                        res = call(lambda: (obj.export(path), ExpandingBloomFilter(filepath=path, hash_function=fn))[1])
                    line = f"xb.load {r} {chan} {src} "
                else:
                    if chan == "bytes":
                        res = call(lambda: RotatingBloomFilter.frombytes(bytes(obj), max_queue_size=q, hash_function=fn))
                    else:
                        path = os.path.join(tmp, f"x{len(out)}.rbf")
                        res = call(lambda: (obj.export(path), RotatingBloomFilter(filepath=path, max_queue_size=q, hash_function=fn))[1])
                    line = f"rb.load {r} {chan} {src} q={q} "
                if res[0] == "ok":
                    objs[r] = (kind, res[1], sname, q)
                    hasher(res[1], like=obj)
                    out.append((line + strat_args(sname, res[1]), self.obs(res[1], "ok")))
                else:
                    out.append((line + "strat=fnv", {"ret": res[1]}))
                continue
            h = op[1]
            if h not in objs:
                continue
            kind, obj, sname, q = objs[h]
            if op[0] == "add":
                key, force = op[2], op[3]
                before = len(obj._blooms)
                res = call(obj.add, key, force)
                if len(obj._blooms) > before:
                    D["grew"] += 1
                elif kind == "rb" and before == q and obj._blooms[-1].elements_added == 1:
                    D["rotated?"] += 1
                out.append((f"{kind}.add {h} {tok(h, key)} force={int(force)}", self.obs(obj, ret_str(res))))
            elif op[0] == "chk":
                key = op[2]
                res = call(obj.check, key)
                out.append((f"{kind}.chk {h} {tok(h, key)}", self.obs(obj, ret_str(res))))
            elif op[0] == "chkall":
                for key in universe:
                    res = call(lambda: key in obj)
                    out.append((f"{kind}.chk {h} {tok(h, key)}", {"ret": ret_str(res)}))
            elif op[0] == "push":
                out.append((f"{kind}.push {h}", self.obs(obj, ret_str(call(obj.push)))))
            elif op[0] == "pop":
                res = call(obj.pop)
                if res[0] == "err":
                    D["err:" + res[1]] += 1
                out.append((f"rb.pop {h}", self.obs(obj, ret_str(res))))
            elif op[0] == "export":
                chan = op[2]
                if chan == "bytes":
                    res = call(lambda: bytes(obj).hex())
                else:
                    path = os.path.join(tmp, f"x{len(out)}.bin")

                    def f():
                        if chan == "file":
                            obj.export(path)
                        else:
                            with open(path, "wb") as fh:
                                obj.export(fh)
                        with open(path, "rb") as fh:
                            return fh.read().hex()

                    res = call(f)
                d = self.obs(obj, "ok")
                d["payload"] = ret_str(res)
                out.append((f"{kind}.export {h} {chan}", d))
            elif op[0] == "obs":
                out.append((f"{kind}.obs {h}", self.obs(obj, "None")))
        return out

    def nontrivial(self, seq, pairs):
        return any(int(p[1].get("nblooms", "1")) > 1 for p in pairs)
