"""Correspondence suite: probables.utilities.Bitarray  vs  PyProb.Model.Bitarray."""
from core import Suite, call, ret_str


class BitarraySuite(Suite):
    name = "bitarray"
    facets = ["ret", "bits", "cnt", "nbytes", "raw"]

    def gen(self, rng, tier):
        seqs = []
        # exhaustive (size, index) for small sizes: every single-op outcome incl. errors
        top = 20 if tier == "quick" else 40
        for size in range(1, top + 1):
            seq = [("new", size)]
            for idx in range(-2, size + 2):
                seq += [("set", idx), ("get", idx), ("put", idx, 0), ("put", idx, 1), ("clr", idx), ("get", idx)]
            seqs.append(seq)
        for size in (0, -1, -7):
            seqs.append([("new", size)])
        n_rand = 150 if tier == "quick" else 3000
        for _ in range(n_rand):
            size = rng.choice([1, 2, 7, 8, 9, 15, 16, 17, 31, 33, 63, 64, 65, 100, 257]) if rng.random() < 0.5 else rng.randint(1, 300)
            seq = [("new", size)]
            for _ in range(rng.randint(5, 60)):
                r = rng.random()
                if r < 0.75:
                    idx = rng.randrange(size)
                elif r < 0.9:
                    idx = rng.choice([-1, -size, size, size + 1, -size - 1, size - 1, 0])
                else:
                    idx = rng.choice([-(10**20), 10**20, 8 * ((size + 7) // 8), 8 * ((size + 7) // 8) - 1, 2**63])
                k = rng.random()
                if k < 0.3:
                    seq.append(("set", idx))
                elif k < 0.5:
                    seq.append(("clr", idx))
                elif k < 0.75:
                    val = rng.choice([0, 1, 0, 1, 0, 1, -1, 2, 5, -(10**12)])
                    seq.append(("put", idx, val))
                elif k < 0.95:
                    seq.append(("get", idx))
                elif k < 0.98:
                    seq.append(("clear",))
                else:
                    seq.append(("obs",))
            seqs.append(seq)
        return seqs

    def run_real(self, seq):
        from probables.utilities import Bitarray

        out = []
        ba = None

        def obs(ret):
            d = {"ret": ret}
            if ba is not None:
                d.update(bits=ba.as_string(), cnt=str(ba.num_bits_set()), nbytes=str(ba.size_bytes), raw=bytes(ba.bitarray).hex())
            return d

        for op in seq:
            kind = op[0]
            if kind == "new":
                res = call(Bitarray, op[1])
                if res[0] == "ok":
                    ba = res[1]
                    out.append((f"ba.new 1 {op[1]}", obs("ok")))
                else:
                    out.append((f"ba.new 1 {op[1]}", {"ret": res[1]}))
                continue
            if ba is None:
                continue
            if kind == "set":
                out.append((f"ba.set 1 {op[1]}", obs(ret_str(call(ba.set_bit, op[1])))))
            elif kind == "clr":
                out.append((f"ba.clr 1 {op[1]}", obs(ret_str(call(ba.clear_bit, op[1])))))
            elif kind == "put":
                out.append((f"ba.put 1 {op[1]} {op[2]}", obs(ret_str(call(ba.__setitem__, op[1], op[2])))))
            elif kind == "get":
                # check_bit, __getitem__ and is_bit_set must agree
                a = call(ba.check_bit, op[1])
                b = call(ba.__getitem__, op[1])
                c = call(ba.is_bit_set, op[1])
                r = ret_str(a)
                if ret_str(b) != r or (c[0] == "ok" and str(int(c[1])) != r) or (c[0] == "err" and c[1] != r):
                    r = f"INCONSISTENT({ret_str(a)},{ret_str(b)},{ret_str(c)})"
                out.append((f"ba.get 1 {op[1]}", obs(r)))
            elif kind == "clear":
                out.append(("ba.clear 1", obs(ret_str(call(ba.clear)))))
            elif kind == "obs":
                out.append(("ba.obs 1", obs("None")))
        return out

    def nontrivial(self, seq, pairs):
        return any(p[1].get("cnt", "0") != "0" for p in pairs) or any(p[1]["ret"].startswith("!") for p in pairs)
