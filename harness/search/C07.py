"""Failing-input search for C07 on the real code: the derived geometry honours the requested
accuracy (evaluated exactly / with 50-digit decimals, 4-ulp allowance on the float-evaluated side)
and is stable across reloads."""
import struct
from decimal import Decimal, getcontext
from fractions import Fraction

import core
from search.common import drive

getcontext().prec = 60
EPS = Fraction(4, 2**52)


def f32(x):
    return struct.unpack("<f", struct.pack("<f", x))[0]


def gen(rng):
    kind = rng.choice(["bloom", "bloom", "cms", "cuckoo"])
    if kind == "bloom":
        est = rng.choice([1, 2, 3, 10, 100, 1000, 141510, 10**6]) if rng.random() < 0.5 else rng.randint(1, 10**rng.randint(1, 6))
        p = rng.choice([0.5, 0.25, 0.3, 0.1, 0.05, 0.01, 0.001, 1e-6, 0.7071, 0.9, 0.6]) if rng.random() < 0.5 else (rng.random() if rng.random() < 0.6 else 10 ** rng.uniform(-20, 0))
        if rng.random() < 0.08:
            # rates near the bottom of the 32-bit float range: below 1.18e-38 the stored rate is subnormal
            est = rng.choice([1, 2, 10, 50])
            p = rng.choice([1e-37, 1.2e-38, 1e-39, 3e-41, 1e-43, 1e-44, 1.5e-45, 10 ** rng.uniform(-45, -20)])
        return {"kind": kind, "est": est, "p": p}
    if kind == "cms":
        return {"kind": kind, "conf": rng.choice([0.5, 0.75, 0.9, 0.95, 0.99, 0.999]) if rng.random() < 0.5 else rng.uniform(1e-4, 0.9999), "err": rng.choice([0.5, 0.25, 0.1, 0.01, 0.001]) if rng.random() < 0.5 else rng.uniform(1e-4, 0.99)}
    return {"kind": kind, "er": rng.choice([0.5, 0.1, 0.01, 0.001, 1e-6]) if rng.random() < 0.5 else 10 ** rng.uniform(-8.5, -0.05), "b": rng.choice([1, 2, 3, 4, 5, 6, 7, 8, 12])}


def check(case):
    import probables as P

    if case["kind"] == "bloom":
        est, p = case["est"], case["p"]
        try:
            b = P.BloomFilter(est_elements=est, false_positive_rate=p)
        except (P.exceptions.InitializationError, ValueError):
            return None
        t = f32(p)
        m, k = b.number_bits, b.number_hashes
        if b.false_positive_rate != t:
            return f"rate is not taken as a 32-bit float: {b.false_positive_rate!r} vs {t!r}"
        lnp = Decimal(t).ln()
        need = -Decimal(est) * lnp / Decimal("0.4804530139182")
        if Decimal(m) < need * (1 - Decimal(10) ** -14) or Decimal(m) > need + 1 + need * Decimal(10) ** -14:
            return f"number_bits {m} is not ceil(-n ln p / ln^2 2) = ceil({need:.6f})"
        want_k = Decimal("0.6931471805599453") * m / est
        if k < 1 or abs(Decimal(k) - want_k) > Decimal("0.5000001"):
            return f"number_hashes {k} is not round(ln2 m/n) = round({want_k:.6f})"
        theo = (1 - (-(Decimal(k) * est / m)).exp()) ** k
        if theo > Decimal(t) * Decimal("1.07"):
            return f"theoretical rate {theo:.6g} exceeds the request {t!r} by more than 7%"
        again = P.BloomFilter(est_elements=est, false_positive_rate=p)
        loaded = P.BloomFilter.frombytes(bytes(b))
        for o, nm in ((again, "a second construction"), (loaded, "the reloaded filter")):
            if (o.number_bits, o.number_hashes, o.bloom_length, o.export_size()) != (m, k, b.bloom_length, b.export_size()):
                return f"{nm} has a different geometry"
    elif case["kind"] == "cms":
        conf, err = case["conf"], case["err"]
        c = P.CountMinSketch(confidence=conf, error_rate=err)
        if Fraction(2, c.width) > Fraction(err) * (1 + EPS):
            return f"2/width = 2/{c.width} exceeds the error rate {err!r}"
        if Fraction(1, 2**c.depth) > (1 - Fraction(conf)) * (1 + EPS):
            return f"1 - 2^-{c.depth} is below the confidence {conf!r}"
        d = P.CountMinSketch(confidence=conf, error_rate=err)
        l = P.CountMinSketch.frombytes(bytes(c))
        if (d.width, d.depth) != (c.width, c.depth) or (l.width, l.depth) != (c.width, c.depth):
            return "count-min geometry not stable"
    else:
        er, bsz = case["er"], case["b"]
        c = P.CuckooFilter.init_error_rate(er, capacity=2, bucket_size=bsz)
        f = c.fingerprint_size_bits
        if f > 32:
            return None
        if Fraction(2 * bsz, 2**f) > Fraction(er) * (1 + EPS):
            return f"2*bucket_size/2^{f} exceeds the error rate {er!r} (bucket_size {bsz})"
        d = P.CuckooFilter.init_error_rate(er, capacity=2, bucket_size=bsz)
        if d.fingerprint_size_bits != f:
            return "cuckoo fingerprint size not stable"
        for cls in (P.CuckooFilter, P.CountingCuckooFilter):
            o = cls.init_error_rate(er, capacity=2, bucket_size=bsz)
            l = cls.frombytes(bytes(o), error_rate=er)
            if l.fingerprint_size_bits != o.fingerprint_size_bits or l.bucket_size != bsz:
                return f"{cls.__name__} reloaded from bytes with the same error rate has {l.fingerprint_size_bits} fingerprint bits, the original {o.fingerprint_size_bits} (bucket_size {bsz})"
    return None


def run(tier, seed, deep, hints):
    from search.common import geometry_scan

    n_max = 300000 if (tier == "quick" and not deep) else 30000000
    hit, scanned, calls = geometry_scan(n_max)
    if hit:
        what = f"BloomFilter(est_elements={hit['est']}, false_positive_rate={hit['fpr']}) gets (hashes, bits) = {tuple(hit['got'])}; ceil(-n ln p / ln^2 2) bits and round(ln2 m/n) hashes with the documented constants are {tuple(hit['documented'])}"
        return [{"what": what, "case": {"kind": "geometry", **hit}, "signature": {"structure": "bloom", "failure": "sizing departs from the documented rule"}}], {
            "evaluations": scanned, "distinct_nontrivial": calls, "samples": [{"search_case": hit}]}
    f, st = _run_random(tier, seed, deep, hints)
    st["geometry_scan"] = {"est_values_scanned": scanned, "real_calls": calls}
    st["evaluations"] += calls
    return f, st


def _run_random(tier, seed, deep, hints):
    return drive(tier, seed, deep, "search-C07", gen, check, None, lambda c, b: {"structure": c["kind"], "failure": "".join(ch for ch in b if not ch.isdigit())[:40]}, n_quick=400, n_thorough=8000)


def replay(finding):
    if finding["case"].get("kind") == "geometry":
        from probables import BloomFilter

        c = finding["case"]
        got = BloomFilter._get_optimized_params(c["est"], c["fpr"])
        return [got[1], got[2]] == c["documented"], f"est_elements={c['est']} fpr={c['fpr']}: library (hashes, bits) = {(got[1], got[2])}, documented rule {tuple(c['documented'])}"
    bad = check(finding["case"])
    return bad is None, f"{finding['case']} -> {bad or 'accuracy honoured'}"
