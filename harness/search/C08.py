"""Failing-input search for C08 on the real code: counting Bloom lower bound / add-remove undo /
absent remove; counting cuckoo exact counts through evictions and expansions (scripted oracle)."""
import core
from search.common import drive, keys_pool, make_twin, noise_touch, shrink_ops
from search.cuckoo_common import all_scripts, fingerprint, gen_case, shrink_case, walk

U32 = 2**32 - 1


def gen_cbf(rng):
    est, fpr = rng.choice([(1, 0.5), (1, 0.3), (2, 0.3), (3, 0.1), (5, 0.05), (20, 0.01)])
    keys = ["k%d" % i for i in range(rng.randint(1, 8))]
    if rng.random() < 0.3:
        keys = [k for k in keys_pool(rng, len(keys) + 2) if isinstance(k, str)] or keys
    ops = [(rng.choice(["add", "add", "rem", "undo", "absent"]), rng.choice(keys), rng.choice([1, 1, 2, 3, 9])) for _ in range(rng.randint(1, 30))]
    # a user-supplied strategy may return any Python ints (negative ones included): position = hash mod size
    signed = rng.random() < 0.3
    return {"kind": "cbf", "est": est, "fpr": fpr, "keys": keys, "ops": ops, "signed": signed}


def signed_strategy(key, depth=1):
    import hashlib

    data = key.encode("utf-8") if isinstance(key, str) else bytes(key)
    out = []
    for i in range(depth):
        d = hashlib.sha256(bytes([i]) + data).digest()
        # negative values and values far wider than 64 bits: any Python int is a legal hash value
        out.append(int.from_bytes(d[:8], "big", signed=True) if i % 2 == 0 else int.from_bytes(d, "big"))
    return out


def check_cbf(case):
    from probables import CountingBloomFilter

    c = CountingBloomFilter(est_elements=case["est"], false_positive_rate=case["fpr"], hash_function=signed_strategy if case.get("signed") else None)
    cnt = {}
    twin = make_twin(lambda: CountingBloomFilter(est_elements=case["est"] + 2, false_positive_rate=case["fpr"] * 0.6, hash_function=signed_strategy if case.get("signed") else None))
    for step, (kind, key, n) in enumerate(case["ops"]):
        noise_touch(twin, step)
        if kind == "add":
            c.add(key, n)
            cnt[key] = cnt.get(key, 0) + n
        elif kind == "rem":
            n = min(n, cnt.get(key, 0))
            if n <= 0:
                continue
            c.remove(key, n)
            cnt[key] -= n
        elif kind == "undo":
            before = bytes(c)
            c.add(key, n)
            c.remove(key, n)
            if bytes(c) != before:
                return f"step {step}: add({key!r},{n}) then remove({key!r},{n}) does not restore the exported state"
        else:
            probe = "absent-" + key
            if c.check(probe) == 0:
                before = bytes(c)
                r = c.remove(probe, n)
                if r != 0 or bytes(c) != before:
                    return f"step {step}: removing {probe!r} (reported absent) returned {r} / changed the filter"
        for k, v in cnt.items():
            if c.check(k) < v:
                return f"step {step}: {k!r} reports {c.check(k)}, below its {v} outstanding additions"
    return None


def check_ccf(case):
    live = {}

    def on_step(step, op, ret, obj, info):
        if ret[0] == "err":
            return None if ret[1] == "!CuckooFilterFullError" else f"step {step}: raised {ret[1]}"
        if op[0] == "add":
            fp = fingerprint(obj, op[1])
            live[fp] = live.get(fp, 0) + 1
        elif op[0] == "rem":
            fp = fingerprint(obj, op[1])
            if ret[1]:
                if live.get(fp, 0) <= 0:
                    return f"step {step}: remove({op[1]!r}) returned True for an absent fingerprint"
                live[fp] -= 1
            elif live.get(fp, 0) > 0:
                return f"step {step}: remove({op[1]!r}) returned False although {live[fp]} additions are outstanding"
        for k in case["keys"]:
            fp = fingerprint(obj, k)
            if obj.check(k) != live.get(fp, 0):
                return f"step {step} after {op[0]}{op[1:]!r}: check({k!r}) = {obj.check(k)}, outstanding additions of its fingerprint = {live.get(fp, 0)}"
        return None

    return walk(case, on_step)


def run(tier, seed, deep, hints):
    f1, s1 = drive(tier, seed, deep, "search-C08-cbf", gen_cbf, check_cbf, shrink_ops, lambda c, b: {"structure": "cbf", "failure": "".join(ch for ch in b.split(":")[1] if not ch.isdigit())[:40]}, n_quick=300, n_thorough=6000)
    rng = core.seeded(seed, "search-C08-ccf")
    findings, evals, distinct, seen = list(f1), s1["evaluations"], s1["distinct_nontrivial"], set()
    n_script = 40 if tier == "quick" else 600
    n_seeded = 150 if tier == "quick" else 4000
    if deep:
        n_script, n_seeded = n_script * 3, n_seeded * 3

    def report(case, bad):
        case = shrink_case(case, lambda c: check_ccf(c))
        bad = check_ccf(case)[0] or bad
        sig = {"structure": "ccf", "failure": "count-mismatch" if "outstanding additions of its fingerprint" in bad else "".join(ch for ch in bad if not ch.isdigit())[:40]}
        if repr(sig) not in seen:
            seen.add(repr(sig))
            findings.append({"what": f"CountingCuckooFilter cap={case['cap']} b={case['b']} swaps={case['swaps']} auto={case['auto']} rate={case['rate']}: {bad}", "case": case, "signature": sig})

    for _ in range(n_script):
        if core.search_expired():
            break
        case = gen_case(rng, counting=True, tiny=True, reload=False)
        # counts above 1 are what the eviction path has to carry
        case["ops"] = [op for op in case["ops"] for _ in (range(2) if op[0] == "add" and rng.random() < 0.5 else range(1))]
        case.pop("seed", None)
        res, runs = all_scripts(case, check_ccf, alphabet=max(2, case["b"]), limit=250 if tier == "quick" else 3000)
        evals += runs
        distinct += 1
        if res:
            report(*res)
            if len(findings) >= 4:
                break
    for _ in range(n_seeded):
        if core.search_expired():
            break
        if len(findings) >= 4:
            break
        case = gen_case(rng, counting=True, tiny=rng.random() < 0.5, reload=False)
        case["ops"] = [op for op in case["ops"] for _ in (range(2) if op[0] == "add" and rng.random() < 0.5 else range(1))]
        bad, _ = check_ccf(case)
        evals += 1
        distinct += 1
        if bad:
            report(case, bad)
    return findings, {"evaluations": evals, "distinct_nontrivial": distinct, "samples": s1["samples"]}


def replay(finding):
    case = finding["case"]
    bad = check_cbf(case) if case.get("kind") == "cbf" else check_ccf(case)[0]
    return bad is None, f"{ {k: v for k, v in case.items() if k != 'keys'} } -> {bad or 'counts exact'}"
