"""Failing-input search for C15 on the real code: cuckoo table invariants after every operation."""
import core
from search.cuckoo_common import all_scripts, gen_case, shrink_case, table, walk


def invariant(obj, counting, cap_before, rate):
    tb = table(obj, counting)
    if len(tb) != obj.capacity:
        return f"{len(tb)} buckets for capacity {obj.capacity}"
    seen = set()
    for i, bkt in enumerate(tb):
        if len(bkt) > obj.bucket_size:
            return f"bucket {i} holds {len(bkt)} > bucket_size {obj.bucket_size}"
        for fp, cnt in bkt:
            i1, i2 = obj._indicies_from_fingerprint(fp)
            if i not in (i1, i2):
                return f"fingerprint {fp} sits in bucket {i}, its candidates are {i1},{i2}"
            if fp in seen:
                return f"fingerprint {fp} stored twice"
            seen.add(fp)
            if counting and cnt < 1:
                return f"bin of fingerprint {fp} has count {cnt}"
    if cap_before is not None and obj.capacity != cap_before:
        c = cap_before
        ok = False
        for _ in range(40):
            c *= rate
            if c == obj.capacity:
                ok = True
                break
            if rate <= 1 or c > obj.capacity:
                break
        if not ok:
            return f"capacity went from {cap_before} to {obj.capacity}, not a power of the expansion rate {rate}"
    return None


def check(case):
    counting = case["kind"] == "cc"

    def on_step(step, op, ret, obj, info):
        bad = invariant(obj, counting, info["cap_before"] if op[0] != "reload" else None, case["rate"])
        if op[0] == "reload" and not bad and obj.capacity != info["cap_before"]:
            bad = f"reload changed the capacity {info['cap_before']} -> {obj.capacity}"
        if bad:
            return f"step {step} after {op[0]}{op[1:]!r} ({'raised ' + ret[1] if ret[0] == 'err' else 'returned'}): {bad}"
        return None

    return walk(case, on_step)


def run(tier, seed, deep, hints):
    rng = core.seeded(seed, "search-C15")
    n_script = 25 if tier == "quick" else 700
    n_seeded = 120 if tier == "quick" else 4000
    if deep:
        n_script *= 3
        n_seeded *= 3
    findings, evals, distinct, sample, seen = [], 0, set(), None, set()

    def report(case, bad):
        case = shrink_case(case, check)
        bad = check(case)[0] or bad
        what = bad.split("): ")[-1]
        tag = "".join(ch for ch in what if not ch.isdigit())[:40]
        sig = {"structure": case["kind"], "failure": tag}
        if repr(sig) in seen:
            return
        seen.add(repr(sig))
        findings.append({"what": f"{case['kind']} cap={case['cap']} b={case['b']} swaps={case['swaps']} auto={case['auto']}: {bad}", "case": case, "signature": sig})

    for _ in range(n_script):
        if core.search_expired():
            break
        case = gen_case(rng, tiny=True)
        case.pop("seed", None)
        res, runs = all_scripts(case, check, alphabet=max(2, case["b"]), limit=120 if tier == "quick" else 3000)
        evals += runs
        distinct.add(repr(case["ops"]))
        sample = case
        if res:
            report(*res)
            if len(findings) >= 3:
                break
    for _ in range(n_seeded):
        if core.search_expired():
            break
        if len(findings) >= 3:
            break
        case = gen_case(rng, tiny=rng.random() < 0.4)
        bad, _ = check(case)
        evals += 1
        distinct.add(repr(case["ops"]) + str(case["seed"]))
        if bad:
            report(case, bad)
    return findings, {"evaluations": evals, "distinct_nontrivial": len(distinct), "samples": [{"search_case": {k: v for k, v in (sample or {}).items() if k != "keys"}}]}


def replay(finding):
    bad, _ = check(finding["case"])
    return bad is None, f"{ {k: v for k, v in finding['case'].items() if k != 'keys'} } -> {bad or 'invariants hold'}"
