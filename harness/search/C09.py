"""Failing-input search for C09 on the real code: expanding Bloom growth bookkeeping."""
import core
from corr.bloom import strategy
from search.common import drive, keys_pool, make_twin, noise_touch, shrink_ops


def gen(rng):
    est = rng.choice([1, 1, 2, 3, 4, 7])
    keys = ["k%d" % i for i in range(rng.randint(1, 6 * est + 3))]
    if rng.random() < 0.35:
        # text beyond ASCII and bytes keys: add and check have to hash a key the same way
        keys = keys_pool(rng, len(keys) + 1)
    ops = []
    pushes = rng.random() < 0.3
    for _ in range(rng.randint(1, 12 * est + 5)):
        r = rng.random()
        if r < 0.75:
            ops.append(("add", rng.choice(keys), False))
        elif r < 0.88:
            ops.append(("add", rng.choice(keys), True))
        elif r < 0.94 and pushes:
            ops.append(("push",))
        else:
            ops.append(("reload",))
    return {"est": est, "fpr": rng.choice([0.3, 0.1, 0.05, 0.01]), "ops": ops, "strat": rng.choice(["fnv", "fnv", "md5", "custom"])}


def check(case):
    from probables import ExpandingBloomFilter

    est = case["est"]
    fn = strategy(case.get("strat", "fnv"))[0]
    try:
        e = ExpandingBloomFilter(est_elements=est, false_positive_rate=case["fpr"], hash_function=fn)
    except Exception:  # noqa: BLE001 - sizing rejected by the constructor
        return None
    calls = effective = 0
    pushed = False
    twin = make_twin(lambda: ExpandingBloomFilter(est_elements=est + 2, false_positive_rate=case["fpr"] * 0.6, hash_function=fn)) if not case.get("sweep") else None
    for step, op in enumerate(case["ops"]):
        noise_touch(twin, step)
        if op[0] == "add":
            present = e.check(op[1])
            before = [b.elements_added for b in e._blooms]
            e.add(op[1], op[2])
            calls += 1
            eff = op[2] or not present
            if eff:
                effective += 1
            after = [b.elements_added for b in e._blooms]
            if not eff and after != before:
                return f"step {step}: add of a key already reported present (not forced) changed the filters {before} -> {after}"
            if eff and sum(after) != sum(before) + 1:
                return f"step {step}: an effective add changed the per-filter counts {before} -> {after}"
            if len(after) > len(before) and before[-1] < est:
                return f"step {step}: grew although the newest filter held {before[-1]} < est_elements {est}"
            if not e.check(op[1]):
                return f"step {step}: {op[1]!r} was just added and is reported absent"
        elif op[0] == "push":
            e.push()
            pushed = True
        else:
            e = ExpandingBloomFilter.frombytes(bytes(e), hash_function=fn)
        counts = [b.elements_added for b in e._blooms]
        if any(c > est for c in counts):
            return f"step {step}: an internal filter holds {max(counts)} > est_elements {est} insertions"
        if e.elements_added != calls:
            return f"step {step}: elements_added {e.elements_added} != number of add calls {calls}"
        if not pushed:
            want = max(0, -(-effective // est) - 1)
            if e.expansions != want:
                return f"step {step}: {e.expansions} expansions after {effective} effective insertions, expected max(0, ceil(I/est)-1) = {want}"
    return None


def gen_sweep(rng):
    """one geometry, distinct keys only: the growth moments of many (est_elements, rate) pairs"""
    est = rng.choice([1, 2, 5, 10, 25, 44, 50, 64, 100, 250, 500, 1000]) if rng.random() < 0.6 else int(10 ** rng.uniform(0, 3.1))
    fpr = rng.choice([0.5, 0.4, 0.3, 0.2, 0.1, 0.05, 0.02, 0.01, 0.001])
    n = min(2 * est + 3, 2200)
    return {"est": est, "fpr": fpr, "ops": [("add", "s%d-%d" % (i, rng.randrange(10**9)), False) for i in range(n)], "sweep": True}


def run(tier, seed, deep, hints):
    f2, s2 = drive(tier, seed, deep, "search-C09-sweep", gen_sweep, check, None, lambda c, b: {"failure": "".join(ch for ch in b.split(":")[1] if not ch.isdigit())[:40], "sweep": True}, n_quick=40, n_thorough=600)
    if f2:
        f2[0]["case"] = dict(f2[0]["case"], ops=f2[0]["case"]["ops"])
        return f2, s2
    f1, s1 = _run_histories(tier, seed, deep, hints)
    s1["evaluations"] += s2["evaluations"]
    s1["distinct_nontrivial"] += s2["distinct_nontrivial"]
    return f1, s1


def _run_histories(tier, seed, deep, hints):
    return drive(tier, seed, deep, "search-C09", gen, check, shrink_ops, lambda c, b: {"failure": "".join(ch for ch in b.split(":")[1] if not ch.isdigit())[:40]}, n_quick=300, n_thorough=6000)


def replay(finding):
    bad = check(finding["case"])
    return bad is None, f"{finding['case']} -> {bad or 'growth as specified'}"
