"""Failing-input search for C14 on the real code: elements_added (and relatives) equal their
documented meaning after every single step of every structure; Bloom statistics are the standard
functions of the set-bit count and the element counter."""
import math
import os
import random as pyrandom

import core
from search.common import drive, shrink_ops
from search.cuckoo_common import gen_case, table, walk


def gen(rng):
    kind = rng.choice(["bloom", "ondisk", "expanding", "rotating", "cbf", "cms", "cuckoo", "ccf", "qf", "stats"])
    keys = ["k%d" % rng.randrange(3000) for _ in range(rng.randint(2, 14))]
    ops = []
    for _ in range(rng.randint(1, 35)):
        r = rng.random()
        ops.append((("add" if r < 0.6 else "rem" if r < 0.8 else rng.choice(["reload", "special"])), rng.choice(keys), rng.choice([1, 1, 2, 4])))
    case = {"kind": kind, "est": rng.choice([1, 2, 3, 5, 12]), "fpr": rng.choice([0.3, 0.1, 0.05]), "ops": ops, "q": rng.choice([1, 2, 3]), "seed": rng.randrange(2**32)}
    if kind == "qf" and case["q"] == 2:
        # a filter that does not expand, filled until insertions are refused: a refused call counts nothing
        extra = ["f%d" % i for i in range(12)]
        case["ops"] = [("add", k, 1) for k in extra] + ops
    if kind in ("cuckoo", "ccf"):
        case["ck"] = gen_case(rng, counting=(kind == "ccf"), tiny=rng.random() < 0.6)
    return case


def check(case):
    import probables as P

    kind, est, fpr = case["kind"], case["est"], case["fpr"]
    if kind in ("cuckoo", "ccf"):
        ck = case["ck"]
        counting = kind == "ccf"

        def on_step(step, op, ret, obj, info):
            tb = table(obj, counting)
            total = sum(c for bkt in tb for _, c in bkt)
            bins = sum(len(bkt) for bkt in tb)
            if obj.elements_added != total:
                return f"step {step} after {op[0]}: elements_added {obj.elements_added}, the table holds {total}" + (" (sum of bin counts)" if counting else " fingerprints")
            if counting and obj.unique_elements != bins:
                return f"step {step} after {op[0]}: unique_elements {obj.unique_elements}, the table has {bins} bins"
            lf = (bins if counting else total) / (obj.capacity * obj.bucket_size)
            if obj.load_factor() != lf:
                return f"step {step}: load_factor {obj.load_factor()} != {lf}"
            return None

        return walk(ck, on_step)[0]
    cwd = os.getcwd()
    with core.Scratch() as tmp:
        try:
            if kind in ("bloom", "ondisk", "expanding", "rotating", "stats"):
                try:
                    P.BloomFilter(est_elements=est, false_positive_rate=fpr)
                except P.exceptions.InitializationError:
                    return None
            path = os.path.join(tmp, "f.blm")
            if kind in ("bloom", "stats"):
                obj = P.BloomFilter(est_elements=est, false_positive_rate=fpr)
            elif kind == "ondisk":
                obj = P.BloomFilterOnDisk(path, est_elements=est, false_positive_rate=fpr)
            elif kind == "expanding":
                obj = P.ExpandingBloomFilter(est_elements=est, false_positive_rate=fpr)
            elif kind == "rotating":
                obj = P.RotatingBloomFilter(est_elements=est, false_positive_rate=fpr, max_queue_size=case["q"])
            elif kind == "cbf":
                try:
                    obj = P.CountingBloomFilter(est_elements=est, false_positive_rate=fpr)
                except P.exceptions.InitializationError:
                    return None
            elif kind == "cms":
                obj = P.CountMinSketch(width=3 + est, depth=1 + case["q"])
            else:
                obj = P.QuotientFilter(quotient=3 + case["q"] % 2, auto_expand=case["q"] != 2)
            want = 0
            outstanding = {}
            for step, (op, key, n) in enumerate(case["ops"]):
                if kind in ("bloom", "ondisk", "expanding", "rotating", "stats"):
                    if op in ("add", "rem"):
                        obj.add(key)
                        want += 1
                    elif op == "reload":
                        if kind in ("bloom", "stats"):
                            obj = P.BloomFilter.frombytes(bytes(obj))
                        elif kind == "ondisk":
                            obj.close()
                            os.chdir("/")
                            obj = P.BloomFilterOnDisk(path)
                        elif kind == "expanding":
                            obj = P.ExpandingBloomFilter.frombytes(bytes(obj))
                        else:
                            obj = P.RotatingBloomFilter.frombytes(bytes(obj), max_queue_size=case["q"])
                    elif kind in ("expanding", "rotating"):
                        if kind == "rotating" and step % 2 == 1 and obj.current_queue_size > 1:
                            obj.pop()  # an explicit pop: the counter keeps counting add calls
                        else:
                            obj.push()
                    if obj.elements_added != want:
                        return f"step {step} after {op}: {type(obj).__name__}.elements_added {obj.elements_added} != number of add calls {want}"
                    if kind == "ondisk":
                        # load/save: what a second reader of the file sees is the same counter
                        if op == "special":
                            obj.clear()
                            want = 0
                        seen = P.BloomFilter(filepath=path).elements_added
                        if seen != obj.elements_added:
                            return f"step {step} after {op}: the backing file records {seen} elements, the filter reports {obj.elements_added}"
                    if kind == "stats":
                        m, k, X, cnt = obj.number_bits, obj.number_hashes, core.bloom_setbits(obj), obj.elements_added
                        if X != sum(bin(b).count("1") for b in obj.bloom):
                            return f"step {step}: set-bit count {X} wrong"
                        e = -1 if X >= m else int(-(m / k) * math.log(1 - X / m))
                        if obj.estimate_elements() != e:
                            return f"step {step}: estimate_elements {obj.estimate_elements()} != -(m/k) ln(1-X/m) = {e}"
                        f = math.pow(1 - math.exp(-k * cnt / m), k)
                        if abs(obj.current_false_positive_rate() - f) > 1e-12 * max(f, 1e-300) + 1e-300:
                            return f"step {step}: current_false_positive_rate {obj.current_false_positive_rate()} != (1-e^(-kn/m))^k = {f}"
                        other = P.BloomFilter(est_elements=est, false_positive_rate=fpr)
                        other.add("zz%d" % step)
                        u = obj.union(other)
                        if u.elements_added != u.estimate_elements():
                            return f"step {step}: union's element count {u.elements_added} is not its estimate {u.estimate_elements()}"
                        for nm in ("union", "intersection"):
                            s_ = getattr(obj, nm)(obj)  # a filter combined with itself: the same documented quantity
                            if s_ is None or s_.elements_added != s_.estimate_elements():
                                return f"step {step}: {nm} of a filter with itself has element count {None if s_ is None else s_.elements_added}, its estimate is {None if s_ is None else s_.estimate_elements()}"
                elif kind in ("cbf", "cms"):
                    if op == "add":
                        obj.add(key, n)
                        want += n
                        outstanding[key] = outstanding.get(key, 0) + n
                    elif op == "rem":
                        if kind == "cms" and case["seed"] % 3 == 0:
                            # the sketch's total is a signed net count: removing what was never added takes it below 0
                            obj.remove(key, n)
                            want -= n
                        else:
                            n = min(n, outstanding.get(key, 0))
                            if n > 0:
                                got_before = obj.elements_added
                                obj.remove(key, n)
                                want -= n
                                outstanding[key] -= n
                    elif op == "reload":
                        obj = type(obj).frombytes(bytes(obj))
                    if obj.elements_added != want:
                        return f"step {step} after {op}: {type(obj).__name__}.elements_added {obj.elements_added} != net amount {want}"
                else:
                    import zlib

                    h = zlib.crc32(key.encode("utf-8")) & 0xFFFFFFFF  # deterministic (str hashes are salted per process)
                    if op == "add":
                        try:
                            obj.add_alt(h)
                        except P.exceptions.QuotientFilterError:
                            pass
                    elif op == "rem":
                        obj.remove_alt(h)
                    elif op == "reload":
                        try:
                            obj.resize()
                        except P.exceptions.QuotientFilterError:
                            pass
                    stored = obj.get_hashes()
                    if obj.elements_added != len(stored):
                        return f"step {step} after {op}: QuotientFilter.elements_added {obj.elements_added} != {len(stored)} stored hashes"
                    if obj.load_factor != len(stored) / obj.size:
                        return f"step {step}: load_factor {obj.load_factor} != {len(stored)}/{obj.size}"
            if kind == "ondisk":
                obj.close()
        finally:
            os.chdir(cwd)
    return None


def shrink(case, chk):
    if case["kind"] in ("cuckoo", "ccf"):
        return case
    return shrink_ops(case, chk)


def run(tier, seed, deep, hints):
    state = pyrandom.getstate()
    try:
        return drive(tier, seed, deep, "search-C14", gen, check, shrink, lambda c, b: {"structure": c["kind"], "failure": "".join(ch for ch in (b.split(":")[1] if ":" in b else b) if not ch.isdigit())[:45]}, n_quick=400, n_thorough=8000, max_findings=4)
    finally:
        pyrandom.setstate(state)


def replay(finding):
    bad = check(finding["case"])
    return bad is None, f"{finding['case']['kind']} -> {bad or 'counters as documented'}"
