"""Failing-input search for C04 on the real code: the quotient filter against a Python set of
32-bit hashes; every call runs under a step budget so that a non-terminating call is observed."""
import core

BUDGET = 0.3


def _check(case):
    from probables import QuotientFilter
    from probables.exceptions import QuotientFilterError

    if case.get("api") == "keys":
        return _check_keys(case)

    q = case["q"]
    qf = QuotientFilter(quotient=q, auto_expand=case["auto"])
    twin = QuotientFilter(quotient=q, auto_expand=True)  # an independent filter used in between: objects share nothing
    other = None
    ref = set()
    for step, op in enumerate(case["ops"]):
        kind = op[0]
        if step % 3 == 0:
            core.call(twin.add_alt, (step * 2654435761) % (1 << 32), budget=BUDGET)
        if kind == "add":
            res = core.call(qf.add_alt, op[1], budget=BUDGET)
            if res[0] == "ok":
                ref.add(op[1])
            elif res[1] == "!QuotientFilterError":
                pass  # refused (full): the set is unchanged
            else:
                return f"step {step}: add_alt({op[1]}) {'did not terminate' if res[1] == '!DIVERGED' else 'raised ' + res[1]}"
        elif kind == "rem":
            res = core.call(qf.remove_alt, op[1], budget=BUDGET)
            if res[0] != "ok":
                return f"step {step}: remove_alt({op[1]}) {'did not terminate' if res[1] == '!DIVERGED' else 'raised ' + res[1]}"
            ref.discard(op[1])
        elif kind == "resize":
            res = core.call(qf.resize, op[1], budget=BUDGET * 4)
            if res[0] == "err" and res[1] != "!QuotientFilterError":
                return f"step {step}: resize({op[1]}) {'did not terminate' if res[1] == '!DIVERGED' else 'raised ' + res[1]}"
        elif kind == "selfmerge":
            # merging a filter into itself is a legal call: the union of a set with itself is that set
            res = core.call(qf.merge, qf, budget=BUDGET * 4)
            if res[0] == "err" and res[1] != "!QuotientFilterError":
                return f"step {step}: merge of the filter with itself {'did not terminate' if res[1] == '!DIVERGED' else 'raised ' + res[1]}"
        elif kind == "merge":
            other = QuotientFilter(quotient=op[1], auto_expand=True)
            for h in op[2]:
                other.add_alt(h)
            res = core.call(qf.merge, other, budget=BUDGET * 4)
            if res[0] == "ok":
                ref |= set(op[2])
            elif res[1] == "!QuotientFilterError":
                # a refused merge may have added a prefix of the other filter's hashes
                got = core.call(qf.get_hashes, budget=BUDGET)
                if got[0] == "ok":
                    ref = set(got[1]) if set(got[1]) <= (ref | set(op[2])) and ref <= set(got[1]) else ref
            else:
                return f"step {step}: merge {'did not terminate' if res[1] == '!DIVERGED' else 'raised ' + res[1]}"
        # observe
        got = core.call(qf.get_hashes, budget=BUDGET)
        if got[0] != "ok":
            return f"step {step} after {op[:2]}: get_hashes {'did not terminate' if got[1] == '!DIVERGED' else 'raised ' + got[1]}"
        if len(got[1]) != len(set(got[1])):
            return f"step {step} after {op[:2]}: get_hashes returns duplicates"
        if set(got[1]) != ref:
            return f"step {step} after {op[:2]}: stored hashes {sorted(got[1])[:6]}… differ from the set {sorted(ref)[:6]}… (missing {sorted(ref - set(got[1]))[:3]}, extra {sorted(set(got[1]) - ref)[:3]})"
        if qf.elements_added != len(ref):
            return f"step {step} after {op[:2]}: elements_added is {qf.elements_added}, the set has {len(ref)} hashes"
        probes = list(ref)[:40] + case["probes"]
        for h in probes:
            res = core.call(qf.check_alt, h, budget=BUDGET)
            if res[0] != "ok":
                return f"step {step}: check_alt({h}) {'did not terminate' if res[1] == '!DIVERGED' else 'raised ' + res[1]}"
            if res[1] != (h in ref):
                return f"step {step} after {op[:2]}: check_alt({h}) says {res[1]}, membership in the set is {h in ref}"
    return None


def _gen(rng, tiny=True):
    q = rng.choice([3, 3, 3, 4, 5]) if tiny else rng.choice([6, 8])
    r = 32 - q
    n = 1 << q
    rem_alphabet = [rng.randrange(1 << r) for _ in range(rng.choice([1, 2, 3, 30]))] + [0, (1 << r) - 1]
    quots = list(range(n)) if rng.random() < 0.6 else [rng.randrange(n) for _ in range(3)] + [n - 1, 0]

    def h():
        return (rng.choice(quots) << r) | rng.choice(rem_alphabet)

    pool = [h() for _ in range(rng.randint(2, 2 * n))]
    ops = []
    for _ in range(rng.randint(3, 3 * n + 5)):
        x = rng.random()
        if x < 0.62:
            ops.append(("add", rng.choice(pool)))
        elif x < 0.9:
            ops.append(("rem", rng.choice(pool)))
        elif x < 0.94:
            ops.append(("resize", rng.choice([None, q, q + 1, q + 2, max(3, q - 1)])))
        elif x < 0.955:
            ops.append(("selfmerge",))
        else:
            ops.append(("merge", rng.choice([3, 4, q]), [rng.choice(pool) if rng.random() < 0.6 else rng.randrange(1 << 32) for _ in range(rng.randint(0, 5))]))
    return {"q": q, "auto": rng.random() < 0.5, "ops": ops, "probes": [h() for _ in range(6)] + [rng.randrange(1 << 32) for _ in range(3)]}


def _shrink(case):
    ops = list(case["ops"])
    i = len(ops) - 1
    while i >= 0 and not core.search_expired():
        cand = dict(case, ops=ops[:i] + ops[i + 1 :])
        if cand["ops"] and _check(cand):
            ops = cand["ops"]
        i -= 1
    return dict(case, ops=ops)


def custom32(key, seed=0):
    """a user-supplied 32-bit hash function for the key API (the filter takes `(key, seed) -> int`)"""
    import hashlib

    data = key.encode("utf-8") if isinstance(key, str) else bytes(key)
    return int.from_bytes(hashlib.sha256(bytes([seed % 256]) + data).digest()[:4], "big")


def _check_keys(case):
    """the key API (add / check / remove by key) with a user-supplied hash function: the filter is a set of
    the hashes of the keys whatever happens in between (resizes included)"""
    from probables import QuotientFilter

    fn = custom32 if case["hash"] == "custom" else None
    qf = QuotientFilter(quotient=case["q"], auto_expand=case["auto"], hash_function=fn)
    from probables.hashes import fnv_1a_32

    hf = fn or fnv_1a_32
    live = {}
    for step, op in enumerate(case["ops"]):
        if op[0] == "add":
            res = core.call(qf.add, op[1], budget=BUDGET)
            if res[0] == "ok":
                live[op[1]] = hf(op[1], 0)
            elif res[1] != "!QuotientFilterError":
                return f"step {step}: add({op[1]!r}) raised {res[1]}"
        elif op[0] == "rem":
            res = core.call(qf.remove, op[1], budget=BUDGET)
            if res[0] != "ok":
                return f"step {step}: remove({op[1]!r}) raised {res[1]}"
            h = hf(op[1], 0)
            for k in [k for k, v in live.items() if v == h]:
                del live[k]
        elif op[0] == "resize":
            res = core.call(qf.resize, op[1], budget=BUDGET * 4)
            if res[0] == "err" and res[1] != "!QuotientFilterError":
                return f"step {step}: resize({op[1]}) raised {res[1]}"
        for k in live:
            res = core.call(qf.check, k, budget=BUDGET)
            if res[0] != "ok" or not res[1]:
                return f"step {step} after {op[0]}: key {k!r} was added (hash function: {case['hash']}) and check says {res[1]}"
        got = core.call(qf.get_hashes, budget=BUDGET)
        if got[0] == "ok" and set(got[1]) != set(live.values()):
            return f"step {step} after {op[0]}: stored hashes differ from the hashes of the live keys (hash function: {case['hash']})"
        if qf.elements_added != len(set(live.values())):
            return f"step {step} after {op[0]}: elements_added {qf.elements_added} != {len(set(live.values()))} distinct hashes"
    return None


def _gen_keys(rng):
    q = rng.choice([3, 3, 4, 5])
    keys = ["key-%d" % rng.randrange(500) for _ in range(rng.randint(2, 20))] + [b"\x00\xff", "caf\u00e9"]
    ops = []
    for _ in range(rng.randint(3, 30)):
        x = rng.random()
        if x < 0.6:
            ops.append(("add", rng.choice(keys)))
        elif x < 0.8:
            ops.append(("rem", rng.choice(keys)))
        else:
            ops.append(("resize", rng.choice([None, q + 1, q + 2, q])))
    return {"api": "keys", "q": q, "auto": rng.random() < 0.6, "hash": rng.choice(["custom", "custom", "fnv"]), "ops": ops, "probes": []}


def _gen_selfmerge(rng):
    """directed: an auto-expanding filter filled to just under its size (load >= the resize threshold, so the
    next insertion resizes), then merged into itself — the resize happens while the filter's own hashes are
    being enumerated"""
    q = rng.choice([3, 3, 4, 4, 5, 6])
    r = 32 - q
    n = 1 << q
    target = rng.randint((85 * n + 99) // 100, n - 1)
    base = rng.randrange(n)
    hs = set()
    while len(hs) < target:
        quot = rng.randrange(n) if rng.random() < 0.5 else (base + rng.randrange(3)) % n
        hs.add((quot << r) | rng.randrange(1 << r))
    ops = [("add", h) for h in hs]
    rng.shuffle(ops)
    ops.append(("selfmerge",))
    return {"q": q, "auto": True, "ops": ops, "probes": [rng.randrange(1 << 32) for _ in range(3)]}


def run(tier, seed, deep, hints):
    rng = core.seeded(seed, "search-C04")
    n = 250 if tier == "quick" else 6000
    if deep:
        n *= 4
    findings, evals, distinct, sample, seen = [], 0, set(), None, set()
    n_directed = 6 * n
    for i in range(n + n_directed):
        if core.search_expired():
            break
        case = _gen_selfmerge(rng) if i >= n else (_gen_keys(rng) if i % 5 == 4 else _gen(rng, tiny=(i % 6 != 5)))
        evals += 1
        distinct.add(repr(case["ops"]))
        sample = case
        bad = _check(case)
        if bad:
            case = _shrink(case)
            bad = _check(case) or bad
            tag = "diverged" if "terminate" in bad else ("elements_added" if "elements_added" in bad else ("raised" if "raised" in bad else ("membership" if "check_alt" in bad else "hashes")))
            full = sum(1 for o in case["ops"] if o[0] == "add") >= (1 << case["q"]) and not case["auto"]
            sig = {"failure": tag, "table_full": full, "selfmerge": any(o[0] == "selfmerge" for o in case["ops"])}
            if repr(sig) in seen:
                continue
            seen.add(repr(sig))
            findings.append({"what": f"QuotientFilter(quotient={case['q']}, auto_expand={case['auto']}): {bad}", "case": case, "signature": sig})
            if len(findings) >= 4:
                break
    return findings, {"evaluations": evals, "distinct_nontrivial": len(distinct), "samples": [{"search_case": {"q": sample["q"], "auto": sample["auto"], "ops": sample["ops"][:8]}}]}


def replay(finding):
    bad = _check(finding["case"])
    return bad is None, f"q={finding['case']['q']} auto={finding['case']['auto']} ops={finding['case']['ops']} -> {bad or 'behaves as a set'}"
