"""Failing-input search for C11 on the real code: at every executed source line of the library
during add/close/export the backing file of an on-disk Bloom filter is a well-formed, current
export; after close it equals the in-memory export; reopening (from any directory) keeps keys and
count.  Thorough tier: real crash enumeration (a child process SIGKILLs itself at the N-th line
event, for every N)."""
import os
import signal
import subprocess
import sys

import core
from corr.bloom import strategy
from corr.ondisk import FileTracer
from search.common import drive, shrink_ops


def gen(rng):
    est = rng.choice([1, 2, 3, 5, 10, 25])
    keys = ["k%d" % rng.randrange(10**4) for _ in range(rng.randint(1, 12))]
    ops = []
    for _ in range(rng.randint(1, 14)):
        r = rng.random()
        if r < 0.7:
            ops.append(("add", rng.choice(keys)))
        elif r < 0.85:
            ops.append(("reopen", rng.choice(["abs-other-cwd", "rel", "abs"])))
        elif r < 0.92:
            ops.append(("clear",))
        else:
            ops.append(("export",))
    return {"est": est, "fpr": rng.choice([0.3, 0.1, 0.05, 0.01]), "where": rng.choice(["rel", "sub", "abs", "home"]), "ops": ops, "strat": rng.choice(["fnv", "fnv", "fnv", "md5", "custom"])}


def _wellformed(data, est, fpr, completed_keys, count_options, what, fn=None):
    from probables import BloomFilter

    res = core.call(BloomFilter.frombytes, data, hash_function=fn)
    if res[0] == "err":
        return f"{what}: the backing file does not load as a Bloom export ({res[1]})"
    b = res[1]
    if b.estimated_elements != est:
        return f"{what}: file records est_elements {b.estimated_elements}"
    for k in completed_keys:
        if not b.check(k):
            return f"{what}: completed addition {k!r} is not in the file"
    if b.elements_added not in count_options:
        return f"{what}: file records {b.elements_added} elements, completed additions: {sorted(count_options)}"
    return None


def check(case):
    from probables import BloomFilter, BloomFilterOnDisk

    cwd = os.getcwd()
    old_home = os.environ.get("HOME")
    fn = strategy(case.get("strat", "fnv"))[0]
    with core.Scratch() as tmp:
        try:
            work = os.path.join(tmp, "w")
            os.makedirs(os.path.join(work, "sub"))
            os.makedirs(os.path.join(tmp, "other"))
            os.chdir(work)
            rel = {"rel": "f.blm", "sub": os.path.join("sub", "f.blm"), "abs": os.path.join(work, "f.blm"), "home": os.path.join("~", "f.blm")}[case["where"]]
            if case["where"] == "home":
                os.environ["HOME"] = work  # the file is named through the user's home directory
            path = os.path.abspath(os.path.expanduser(rel))
            if len(case["ops"]) % 3 == 0:
                with open(path, "wb") as fh:  # left over from an earlier, bigger filter
                    fh.write(b"\xff" * 4099)
            try:
                obj = BloomFilterOnDisk(rel, est_elements=case["est"], false_positive_rate=case["fpr"], hash_function=fn)
            except Exception:  # noqa: BLE001 - rejected sizing
                return None
            mem = BloomFilter(est_elements=case["est"], false_positive_rate=case["fpr"], hash_function=fn)
            with open(path, "rb") as fh:
                if fh.read() != bytes(mem):
                    return "the file of a freshly created on-disk filter is not the export of an empty filter"
            done = []
            for step, op in enumerate(case["ops"]):
                if op[0] == "add":
                    tr = FileTracer(path)
                    res = tr.run(obj.add, op[1])
                    if res[0] == "err":
                        return f"step {step}: add raised {res[1]}"
                    for i, snap in enumerate(tr.snaps):
                        last = i == len(tr.snaps) - 1
                        bad = _wellformed(snap, case["est"], case["fpr"], done, {len(done), len(done) + 1} if last else {len(done)}, f"step {step}, interruption point {i} of add({op[1]!r})", fn)
                        if bad:
                            return bad
                    done.append(op[1])
                    mem.add(op[1])
                    with open(path, "rb") as fh:
                        bad = _wellformed(fh.read(), case["est"], case["fpr"], done, {len(done)}, f"step {step} after add", fn)
                    if bad:
                        return bad
                    if obj.elements_added != len(done):
                        return f"step {step}: elements_added {obj.elements_added} != {len(done)}"
                elif op[0] == "clear":
                    # a history may clear: afterwards the file is the export of the empty filter with the
                    # ORIGINAL parameters, and every later state is the export of the additions since
                    res = core.call(obj.clear)
                    if res[0] == "err":
                        return f"step {step}: clear raised {res[1]}"
                    done = []
                    mem.clear()
                    with open(path, "rb") as fh:
                        bad = _wellformed(fh.read(), case["est"], case["fpr"], done, {0}, f"step {step} after clear", fn)
                    if bad:
                        return bad
                elif op[0] == "export":
                    dst = os.path.join(tmp, "other", "copy.blm")
                    os.chdir(os.path.join(tmp, "other"))
                    res = core.call(obj.export, dst)
                    os.chdir(work)
                    if res[0] == "err":
                        return f"step {step}: export from another working directory raised {res[1]}"
                    with open(dst, "rb") as fh:
                        if fh.read() != bytes(mem):
                            return f"step {step}: exported copy differs from the in-memory export of the same history"
                else:
                    obj.close()
                    with open(path, "rb") as fh:
                        data = fh.read()
                    if data != bytes(mem):
                        return f"step {step}: file after close differs from the in-memory export of the same history"
                    mode = op[1]
                    if mode == "abs-other-cwd":
                        os.chdir(os.path.join(tmp, "other"))
                        arg = path
                    elif mode == "rel":
                        os.chdir(work)
                        arg = os.path.relpath(path, work)
                    else:
                        arg = path
                    if case["where"] == "home" and mode != "rel":
                        arg = rel  # reopened through the same spelling it was created with
                    res = core.call(BloomFilterOnDisk, arg, hash_function=fn)
                    os.chdir(work)
                    if res[0] == "err":
                        return f"step {step}: reopening ({mode}) raised {res[1]}"
                    obj = res[1]
                    if obj.elements_added != len(done):
                        return f"step {step}: reopened filter reports {obj.elements_added} elements, {len(done)} were added"
                    for k in done:
                        if not obj.check(k):
                            return f"step {step}: reopened filter lost {k!r}"
            obj.close()
            with open(path, "rb") as fh:
                if fh.read() != bytes(mem):
                    return "file after the final close differs from the in-memory export of the same history"
        finally:
            os.chdir(cwd)
            if case["where"] == "home":
                if old_home is None:
                    os.environ.pop("HOME", None)
                else:
                    os.environ["HOME"] = old_home
    return None


CHILD = r"""
import os, signal, sys
sys.path.insert(0, {repo!r})
sys.dont_write_bytecode = True
from probables import BloomFilterOnDisk
path, keys, target = {path!r}, {keys!r}, {target}
obj = BloomFilterOnDisk(path, est_elements={est}, false_positive_rate={fpr})
for k in keys[:-1]:
    obj.add(k)
count = [0]
prefix = os.path.join({repo!r}, "probables")
def local(frame, event, arg):
    if event == "line":
        count[0] += 1
        if count[0] == target:
            os.kill(os.getpid(), signal.SIGKILL)
    return local
def glob(frame, event, arg):
    return local if frame.f_code.co_filename.startswith(prefix) else None
sys.settrace(glob)
obj.add(keys[-1])
sys.settrace(None)
print("DONE", count[0])
"""


def crash_enumeration(case_keys, est, fpr):
    """kill -9 at every line event of the last add; returns failure text or None, and the number of crash points"""
    points = 0
    with core.Scratch() as tmp:
        n = 1
        while True:
            path = os.path.join(tmp, f"c{n}.blm")
            code = CHILD.format(repo=core.REPO, path=path, keys=case_keys, target=n, est=est, fpr=fpr)
            proc = subprocess.run([sys.executable, "-c", code], capture_output=True, text=True, timeout=60)
            finished = proc.stdout.startswith("DONE")
            with open(path, "rb") as fh:
                data = fh.read()
            done = case_keys[:-1]
            opts = {len(done), len(done) + 1} if finished else {len(done), len(done) + 1}
            bad = _wellformed(data, est, fpr, done + (case_keys[-1:] if finished else []), opts, f"process killed at line event {n} of add({case_keys[-1]!r})")
            if bad:
                return bad, points
            if not finished and proc.returncode != -signal.SIGKILL:
                return f"child failed: {proc.stderr[-300:]}", points
            points += 1
            if finished:
                return None, points
            n += 1


def run(tier, seed, deep, hints):
    findings, stats = drive(tier, seed, deep, "search-C11", gen, check, shrink_ops, lambda c, b: {"failure": "".join(ch for ch in (b.split(":")[1] if ":" in b else b) if not ch.isdigit())[:45]}, n_quick=80, n_thorough=1500)
    if tier == "thorough" and not findings:
        rng = core.seeded(seed, "search-C11-kill")
        total = 0
        for _ in range(6):
            keys = ["k%d" % rng.randrange(1000) for _ in range(rng.randint(1, 4))]
            bad, pts = crash_enumeration(keys, rng.choice([2, 5, 10]), rng.choice([0.2, 0.05]))
            total += pts
            if bad:
                findings.append({"what": bad, "case": {"kill": True, "keys": keys}, "signature": {"failure": "kill-9"}})
                break
        stats["kill9_crash_points"] = total
        stats["evaluations"] += total
    return findings, stats


def replay(finding):
    if finding["case"].get("kill"):
        return True, "kill -9 enumeration finding: re-run the thorough tier"
    bad = check(finding["case"])
    return bad is None, f"{finding['case']} -> {bad or 'file always a valid current export'}"
