"""Small helpers shared by the model-free search oracles."""
import core


def drive(tier, seed, deep, salt, gen, check, shrink=None, classify=None, n_quick=300, n_thorough=6000, max_findings=3, hints=None):
    """generic loop: gen(rng) -> case ; check(case) -> failure text or None"""
    rng = core.seeded(seed, salt)
    n = n_quick if tier == "quick" else n_thorough
    if deep:
        n *= 4
    findings, evals, distinct, sample, seen = [], 0, set(), None, set()
    for _ in range(n):
        if core.search_expired():
            break
        case = gen(rng)
        evals += 1
        distinct.add(repr(case))
        sample = case
        try:
            bad = check(case)
        except Exception as exc:  # noqa: BLE001
            if type(exc).__name__ == "CuckooFilterFullError":
                continue  # a refusal the library is entitled to (full table) outside the oracle's handling
            if type(exc).__name__ == "InitializationError" and not case_reloads(case):
                continue  # rejected sizing in a constructor the oracle does not guard itself
            bad = f"oracle/structure raised {type(exc).__name__}: {exc}"
        if bad:
            if shrink:
                case = shrink(case, check)
                try:
                    bad = check(case) or bad
                except Exception as exc:  # noqa: BLE001
                    bad = f"oracle/structure raised {type(exc).__name__}: {exc}"
            sig = classify(case, bad) if classify else {"failure": "".join(c for c in bad if not c.isdigit())[:50]}
            if repr(sig) in seen:
                continue
            seen.add(repr(sig))
            findings.append({"what": bad, "case": case, "signature": sig})
            if len(findings) >= max_findings:
                break
    return findings, {"evaluations": evals, "distinct_nontrivial": len(distinct), "samples": [{"search_case": _short(sample)}]}


def case_reloads(case):
    """does the history of this case load a structure back from an export?  An InitializationError there is
    not a rejected sizing: the export did not load"""
    ops = case.get("ops") if isinstance(case, dict) else None
    if not isinstance(ops, (list, tuple)):
        return False
    for op in ops:
        tag = op[0] if isinstance(op, (list, tuple)) and op else op
        if isinstance(tag, str) and (tag.startswith("reload") or tag in ("reopen", "load")):
            return True
    return False


def _short(case):
    s = repr(case)
    return s if len(s) < 600 else s[:600] + "…"


def shrink_ops(case, check, field="ops"):
    ops = list(case[field])
    i = len(ops) - 1
    while i >= 0 and not core.search_expired():
        cand = dict(case)
        cand[field] = ops[:i] + ops[i + 1 :]
        if cand[field]:
            try:
                if check(cand):
                    ops = cand[field]
            except Exception:  # noqa: BLE001
                pass
        i -= 1
    out = dict(case)
    out[field] = ops
    return out


def keys_pool(rng, n):
    out = []
    for i in range(n):
        r = rng.random()
        if r < 0.5:
            out.append("k%d" % rng.randrange(10**5))
        elif r < 0.75:
            out.append(bytes(rng.randrange(256) for _ in range(rng.randint(0, 6))) + bytes([i % 256]))
        else:
            out.append("".join(chr(rng.choice([0xE9, 0x20AC, 0x1F600, 0x41, 0x7F, 0x80])) for _ in range(rng.randint(1, 5))) + str(i))
    return out


def geometry_scan(n_max, rates=(0.03, 0.05, 0.01), near=1e-6):
    """Directed search for a Bloom geometry on which the library's bit count differs from the documented
    rule m = ceil(-n ln p / 0.4804530139182) (p as a 32-bit float), k = round(0.6931471805599453 m / n).
    A difference needs the documented quotient to be almost an integer, so est_elements is scanned in
    plain floats and the real `_get_optimized_params` is only called on near-integer candidates (and on a
    sparse sample).  Model-free: compares the real code with the documented formula only.
    Returns (finding dict or None, number of est values scanned, number of real calls)."""
    import math
    import struct

    from probables import BloomFilter

    scanned = calls = 0
    for p in rates:
        t = struct.unpack("<f", struct.pack("<f", p))[0]
        nl = -math.log(t)
        c = 0.4804530139182
        n = 1
        while n <= n_max:
            if core.search_expired():
                return None, scanned, calls
            stop = min(n + 200000, n_max + 1)
            for est in range(n, stop):
                q = (est * nl) / c
                r = q - math.floor(q)
                if r < near or r > 1.0 - near or est % 99991 == 0:
                    calls += 1
                    got = BloomFilter._get_optimized_params(est, p)
                    want_m = math.ceil((-est * math.log(t)) / c)
                    want_k = int(round(0.6931471805599453 * want_m / est))
                    if (got[1], got[2]) != (want_k, want_m):
                        return ({"est": est, "fpr": p, "got": [got[1], got[2]], "documented": [want_k, want_m]}, scanned + est - n, calls)
            scanned += stop - n
            n = stop
    return None, scanned, calls


_TWINS = {}


def geometry_twin(est, fpr, same_hashes=True):
    """Other nominal parameters (est_elements, false_positive_rate) that give a Bloom filter of the SAME number of
    bits — and the same number of hashes (same_hashes=True: the two filters are compatible operands although they
    were built from different parameters) or a DIFFERENT number of hashes (same_hashes=False: same bits, yet
    incompatible).  Found by scanning nearby parameters through the public constructor; None if there is none."""
    key = (est, fpr, same_hashes)
    if key in _TWINS:
        return _TWINS[key]
    from probables import BloomFilter

    found = None
    try:
        base = BloomFilter(est_elements=est, false_positive_rate=fpr)
        g = (base.number_bits, base.number_hashes)
        for est2 in [est + d for d in (1, 2, 3, -1, 4, 5, 7, 10, est)] if est < 400 else []:
            if est2 < 1 or found:
                continue
            for i in range(1, 260):
                fpr2 = fpr * (0.35 + i / 80.0)
                if not 0.0 < fpr2 < 0.99:
                    continue
                try:
                    o = BloomFilter(est_elements=est2, false_positive_rate=fpr2)
                except Exception:  # noqa: BLE001
                    continue
                if o.number_bits == g[0] and ((o.number_hashes == g[1]) == same_hashes):
                    found = (est2, fpr2)
                    break
    except Exception:  # noqa: BLE001
        found = None
    _TWINS[key] = found
    return found


def make_twin(ctor):
    """the independent structure of another geometry; None when that geometry is rejected by the constructor"""
    try:
        return ctor()
    except Exception:  # noqa: BLE001
        return None


def noise_touch(obj, i):
    """one operation on a SECOND, independent structure of the same class, performed between the steps of the
    history under test: objects share nothing, so whatever happens to this one must not show in the other
    (a class-level or module-level buffer, a mutable default argument, a cache keyed too coarsely would)"""
    if obj is None:
        return
    try:
        if i % 5 == 4 and hasattr(obj, "remove"):
            obj.remove("noise-%d" % (i - 1))
        elif i % 7 == 6 and hasattr(obj, "pop"):
            obj.pop()
        elif i % 11 == 10 and hasattr(obj, "push"):
            obj.push()
        elif i % 13 == 12 and hasattr(obj, "clear"):
            obj.clear()
        else:
            obj.add("noise-%d" % i)
        if i % 3 == 0:
            obj.check("noise-%d" % i)
        if i % 9 == 8:
            bytes(obj)
    except Exception:  # noqa: BLE001 - the twin may legitimately refuse (full, unsupported, single-filter pop)
        pass


def sparse_result(mk, tries=300, tag=""):
    """A Bloom / counting-Bloom filter reached through the public API only whose elements_added is 0 although
    cells are set: the intersection of two single-key filters that share a position (intersection and union
    set elements_added to estimate_elements(), which truncates to 0 when very few cells are set).
    mk() builds an empty filter.  Returns (filter, (key_a, key_b)) or None."""
    for i in range(tries):
        ka, kb = "sa%s%d" % (tag, i), "sb%s%d" % (tag, i)
        a, b = mk(), mk()
        a.add(ka)
        b.add(kb)
        r = a.intersection(b)
        if r is not None and r.elements_added == 0 and any(r.bloom):
            return r, (ka, kb)
    return None


def net_zero(obj, tag="nz"):
    """drive a count-min style sketch to elements_added == 0 with non-zero bins: remove from ANOTHER key as
    much as was added in total (legal calls; the sketch's total is a signed net count)"""
    total = obj.elements_added
    if total > 0:
        core.call(obj.remove, "%s-other" % tag, total)
    return obj.elements_added == 0
