"""Small helpers shared by the model-free search oracles."""
import core


def drive(tier, seed, deep, salt, gen, check, shrink=None, classify=None, n_quick=300, n_thorough=6000, max_findings=3, hints=None):
    """generic loop: gen(rng) -> case ; check(case) -> failure text or None"""
    rng = core.seeded(seed, salt)
    n = n_quick if tier == "quick" else n_thorough
    if deep:
        n *= 4
    findings, evals, distinct, sample, seen = [], 0, set(), None, set()
    for _ in range(n):
        if core.search_expired():
            break
        case = gen(rng)
        evals += 1
        distinct.add(repr(case))
        sample = case
        try:
            bad = check(case)
        except Exception as exc:  # noqa: BLE001
            if type(exc).__name__ in ("CuckooFilterFullError", "InitializationError"):
                continue  # a refusal the library is entitled to (full table, rejected sizing) outside the oracle's handling
            bad = f"oracle/structure raised {type(exc).__name__}: {exc}"
        if bad:
            if shrink:
                case = shrink(case, check)
                try:
                    bad = check(case) or bad
                except Exception as exc:  # noqa: BLE001
                    bad = f"oracle/structure raised {type(exc).__name__}: {exc}"
            sig = classify(case, bad) if classify else {"failure": "".join(c for c in bad if not c.isdigit())[:50]}
            if repr(sig) in seen:
                continue
            seen.add(repr(sig))
            findings.append({"what": bad, "case": case, "signature": sig})
            if len(findings) >= max_findings:
                break
    return findings, {"evaluations": evals, "distinct_nontrivial": len(distinct), "samples": [{"search_case": _short(sample)}]}


def _short(case):
    s = repr(case)
    return s if len(s) < 600 else s[:600] + "…"


def shrink_ops(case, check, field="ops"):
    ops = list(case[field])
    i = len(ops) - 1
    while i >= 0 and not core.search_expired():
        cand = dict(case)
        cand[field] = ops[:i] + ops[i + 1 :]
        if cand[field]:
            try:
                if check(cand):
                    ops = cand[field]
            except Exception:  # noqa: BLE001
                pass
        i -= 1
    out = dict(case)
    out[field] = ops
    return out


def keys_pool(rng, n):
    out = []
    for i in range(n):
        r = rng.random()
        if r < 0.5:
            out.append("k%d" % rng.randrange(10**5))
        elif r < 0.75:
            out.append(bytes(rng.randrange(256) for _ in range(rng.randint(0, 6))) + bytes([i % 256]))
        else:
            out.append("".join(chr(rng.choice([0xE9, 0x20AC, 0x1F600, 0x41, 0x7F, 0x80])) for _ in range(rng.randint(1, 5))) + str(i))
    return out
