"""Failing-input search for C16 (saturation) on the real code; model-free oracle.

Oracle: add/remove/union/join with any positive amount return normally; every cell stays inside its
storage range; a counting-Bloom cell at the limit is never decremented; element totals stay inside
64 bits; a call that raises must not have changed the structure; the structure still exports and
loads to the same cells."""
import core

U32 = 2**32 - 1
U64 = 2**64 - 1
I32MAX, I32MIN = 2**31 - 1, -(2**31)
I64MAX, I64MIN = 2**63 - 1, -(2**63)
AMOUNTS = [1, 2, 3, 2**31 - 2, 2**31 - 1, 2**31, 2**31 + 1, 2**32 - 2, 2**32 - 1, 2**32, 2**32 + 1, 2**63 - 1, 2**63, 2**64 - 1, 2**64, 2**64 + 7, 2**70]


def _cbf_state(c):
    return (list(c.bloom), c.elements_added)


def _cbf_history(ops, est, fpr):
    """ops: list of ('add'|'rem', hashes, n) / ('union',) / ('inter',) ; returns failure text or None"""
    from probables import CountingBloomFilter

    a = CountingBloomFilter(est_elements=est, false_positive_rate=fpr)
    b = CountingBloomFilter(est_elements=est, false_positive_rate=fpr)
    cur = a
    for step, op in enumerate(ops):
        if op[0] == "swap":
            cur = b if cur is a else a
            continue
        before = _cbf_state(cur)
        if op[0] in ("add", "rem"):
            _, hs, n = op
            if op[0] == "rem":
                # only removals the cells can carry (removing more than was added is outside the claim)
                idx = [h % cur.number_bits for h in hs[: cur.number_hashes]]
                if any(cur.bloom[i] != U32 and cur.bloom[i] < n * idx.count(i) for i in set(idx)):
                    continue
            fn = cur.add_alt if op[0] == "add" else cur.remove_alt
            res = core.call(fn, hs, n)
            if res[0] == "err":
                changed = _cbf_state(cur) != before
                return f"step {step} {op[0]}_alt(n={n}) raised {res[1]}" + ("; cells were left half-updated" if changed else "")
            cells = list(cur.bloom)
            if any(not (0 <= v <= U32) for v in cells):
                return f"step {step}: cell outside 0..2^32-1"
            if op[0] == "rem":
                for i, (x, y) in enumerate(zip(before[0], cells)):
                    if x == U32 and y != U32:
                        return f"step {step}: a cell at the limit was decremented"
            if op[0] == "add":
                idx = [h % cur.number_bits for h in hs[: cur.number_hashes]]
                for i in set(idx):
                    want = min(before[0][i] + n * idx.count(i), U32)
                    if cells[i] != want and not (before[0][i] + n > U32 and cells[i] == U32):
                        return f"step {step}: cell {i} is {cells[i]}, expected pinned/added value {want}"
            if not (0 <= cur.elements_added <= U64):
                return f"step {step}: elements_added {cur.elements_added} outside 64 bits"
        else:
            other = b if cur is a else a
            res = core.call(cur.union if op[0] == "union" else cur.intersection, other)
            if res[0] == "err":
                return f"step {step} {op[0]} of near-limit filters raised {res[1]}"
            if res[1] is not None and any(not (0 <= v <= U32) for v in res[1].bloom):
                return f"step {step}: {op[0]} produced a cell outside the range"
            if res[1] is not None and op[0] == "union":
                for i, (x, y) in enumerate(zip(cur.bloom, other.bloom)):
                    if res[1].bloom[i] != min(x + y, U32):
                        return f"step {step}: union cell {i} is {res[1].bloom[i]}, expected {min(x + y, U32)}"
                # results are operands of later unions: a result's element count is an estimate, its cells are not
                again = core.call(res[1].union, res[1])
                if again[0] == "err":
                    return f"step {step}: union of a union result with itself raised {again[1]}"
                if again[1] is not None:
                    for i, x in enumerate(res[1].bloom):
                        if again[1].bloom[i] != min(2 * x, U32):
                            return f"step {step}: union of a union result with itself: cell {i} is {again[1].bloom[i]}, expected {min(2 * x, U32)}"
                # (results are not adopted as the current filter: a saturated result carries the documented count -1,
                # which cannot be exported — outside this property)
        # still exportable and loadable
        res = core.call(lambda: CountingBloomFilter.frombytes(bytes(cur)))
        if res[0] == "err":
            return f"step {step}: export/load after saturation raised {res[1]}"
        if list(res[1].bloom) != list(cur.bloom) or res[1].elements_added != cur.elements_added:
            return f"step {step}: export/load after saturation changed cells or count"
    return None


def _cms_history(ops, width, depth, cls_name):
    import probables

    cls = getattr(probables, cls_name)
    a = cls(width=width, depth=depth)
    b = cls(width=width, depth=depth)
    cur = a
    for step, op in enumerate(ops):
        if op[0] == "swap":
            cur = b if cur is a else a
            continue
        before = (core.cms_bins(cur), cur.elements_added)
        if op[0] in ("add", "rem"):
            _, hs, n = op
            res = core.call(cur.add_alt if op[0] == "add" else cur.remove_alt, hs, n)
            if res[0] == "err":
                changed = (core.cms_bins(cur), cur.elements_added) != before
                return f"step {step} {cls_name}.{op[0]}_alt(n={n}) raised {res[1]}" + ("; cells were left half-updated" if changed else "")
            sign = 1 if op[0] == "add" else -1
            for i, h in enumerate(hs[:depth]):
                j = h % width + i * width
                want = max(I32MIN, min(I32MAX, before[0][j] + sign * n))
                if core.cms_bins(cur)[j] != want:
                    return f"step {step}: bin {j} is {core.cms_bins(cur)[j]}, expected pinned value {want}"
            want_total = max(I64MIN, min(I64MAX, before[1] + sign * n))
            if cur.elements_added != want_total:
                return f"step {step}: elements_added {cur.elements_added}, expected {want_total}"
            if cls_name == "CountMinSketch":
                vals = sorted(core.cms_bins(cur)[h % width + i * width] for i, h in enumerate(hs[:depth]))
                if res[1] != vals[0]:
                    return f"step {step}: returned {res[1]}, pinned estimate is {vals[0]}"
        else:
            other = b if cur is a else a
            res = core.call(cur.join, other)
            if res[0] == "err":
                return f"step {step} join of near-limit sketches raised {res[1]}"
            for j, (x, y) in enumerate(zip(before[0], core.cms_bins(other))):
                want = x if x in (I32MIN, I32MAX) else max(I32MIN, min(I32MAX, x + y))
                if core.cms_bins(cur)[j] != want:
                    return f"step {step}: join bin {j} is {core.cms_bins(cur)[j]}, expected {want}"
            if cur.elements_added != max(I64MIN, min(I64MAX, before[1] + other.elements_added)):
                return f"step {step}: join total {cur.elements_added}"
        if any(not (I32MIN <= v <= I32MAX) for v in core.cms_bins(cur)):
            return f"step {step}: bin outside the 32-bit range"
        res = core.call(lambda: cls.frombytes(bytes(cur)))
        if res[0] == "err":
            return f"step {step}: export/load after saturation raised {res[1]}"
        if core.cms_bins(res[1]) != core.cms_bins(cur) or res[1].elements_added != cur.elements_added:
            return f"step {step}: export/load after saturation changed bins or total"
    return None


def _gen_ops(rng, nhash, allow_rem=True, setop=("union", "inter")):
    ops = []
    pool = [[rng.randrange(2**64) for _ in range(nhash)] for _ in range(3)]
    # keys whose positions coincide
    same = rng.randrange(2**64)
    pool.append([same] * nhash)
    for _ in range(rng.randint(2, 9)):
        r = rng.random()
        hs = rng.choice(pool)
        n = rng.choice(AMOUNTS) if rng.random() < 0.7 else rng.randint(1, 5)
        if r < 0.5:
            ops.append(("add", hs, n))
        elif r < 0.7 and allow_rem:
            ops.append(("rem", hs, n))
        elif r < 0.82:
            ops.append(("swap",))
        else:
            ops.append((rng.choice(setop),))
    return ops


def _gen_join_edge(rng, nhash):
    """two sketches whose cells sit at, one short of and two short of either limit, then a join in one
    direction or the other (every cell one step from a limit, on both sides of it)"""
    hs = [rng.randrange(2**64) for _ in range(nhash)]
    if rng.random() < 0.35:
        # cells next to the limits while the element totals are small: what goes up on one key comes down on
        # another, in both sketches; no bound on the totals says anything about a single cell
        hs2 = [rng.randrange(2**64) for _ in range(nhash)]
        big = rng.choice([2**30 + 5, 2**31 - 7, 2**30, 3 * 2**29])
        ops = [("add", hs, big), ("rem", hs2, big), ("swap",), ("add", hs, big), ("rem", hs2, big)]
        if rng.random() < 0.5:
            ops.append(("swap",))
        ops.append(("join",))
        return ops
    edge = rng.choice([2**31 - 1, 2**31 - 2, 2**31, 2**31 - 3])
    small = rng.choice([1, 1, 2, 3, 2**31 - 1])
    first = rng.choice(["add", "rem"])
    second = rng.choice(["add", "rem"])
    ops = [(first, hs, edge), ("swap",), (second, hs, small)]
    if rng.random() < 0.5:
        ops.append(("swap",))
    ops.append(("join",))
    if rng.random() < 0.5:
        ops += [("swap",), ("join",)]
    return ops


def run(tier, seed, deep, hints):
    rng = core.seeded(seed, "search-C16")
    n = 400 if tier == "quick" else 8000
    if deep:
        n *= 4
    findings, evals, distinct = [], 0, set()
    sample = None
    for i in range(n):
        if core.search_expired():
            break
        if i % 2 == 0:
            est, fpr = rng.choice([(1, 0.5), (2, 0.3), (3, 0.05), (5, 0.01), (10, 0.05)])
            from probables import CountingBloomFilter

            k = CountingBloomFilter(est_elements=est, false_positive_rate=fpr).number_hashes
            ops = _gen_ops(rng, k)
            bad = _cbf_history(ops, est, fpr)
            case = {"structure": "CountingBloomFilter", "est": est, "fpr": fpr, "ops": ops}
        else:
            width, depth = rng.choice([(1, 1), (2, 3), (3, 2), (7, 4)])
            cls_name = rng.choice(["CountMinSketch", "CountMinSketch", "CountMeanSketch", "CountMeanMinSketch"]) if width > 1 else "CountMinSketch"
            ops = _gen_join_edge(rng, depth) if rng.random() < 0.3 else _gen_ops(rng, depth, setop=("join",))
            bad = _cms_history(ops, width, depth, cls_name)
            case = {"structure": cls_name, "width": width, "depth": depth, "ops": ops}
        evals += 1
        distinct.add(repr(case))
        sample = case
        if bad:
            what = bad.split(":")[-1].strip() if bad.startswith("step") else bad
            site = case["structure"] + "." + (bad.split()[2].split("(")[0] if bad.startswith("step") and len(bad.split()) > 2 else "?")
            findings.append({"what": f"{case['structure']}: {bad}", "case": case, "signature": {"structure": case["structure"], "failure": _classify(bad)}})
            if len(findings) >= 4:
                break
    return findings, {"evaluations": evals, "distinct_nontrivial": len(distinct), "samples": [{"search_case": _short(sample)}]}


def _classify(bad):
    for tag in ("add_alt", "remove_alt", "union", "inter", "join", "export/load", "decremented", "outside", "expected"):
        if tag in bad:
            return tag + (":raised" if "raised" in bad else "")
    return bad[:40]


def _short(case):
    if not case:
        return None
    c = dict(case)
    c["ops"] = [[o[0]] + ([len(o[1]), o[2]] if len(o) > 1 else []) for o in case["ops"]]
    return c


def replay(finding):
    case = finding["case"]
    ops = [tuple(o) for o in case["ops"]]
    if case["structure"] == "CountingBloomFilter":
        bad = _cbf_history(ops, case["est"], case["fpr"])
    else:
        bad = _cms_history(ops, case["width"], case["depth"], case["structure"])
    return bad is None, f"{_short(case)} -> {bad or 'saturates cleanly'}"
