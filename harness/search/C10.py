"""Failing-input search for C10 on the real code: rotating Bloom bounds and the retention window,
checked for every key of the history."""
import core
from corr.bloom import strategy
from search.common import drive, keys_pool, make_twin, noise_touch, shrink_ops


def gen(rng):
    est = rng.choice([1, 1, 2, 3, 4])
    q = rng.choice([1, 2, 2, 3, 4])
    keys = ["k%d" % i for i in range(rng.randint(2, 4 * est * q + 4))]
    if rng.random() < 0.25:
        keys = keys_pool(rng, len(keys))
    explicit = rng.random() < 0.35
    ops = []
    for _ in range(rng.randint(1, 8 * est * q + 6)):
        r = rng.random()
        if r < 0.8:
            ops.append(("add", rng.choice(keys), rng.random() < 0.1))
        elif r < 0.87 and explicit:
            ops.append(("push",))
        elif r < 0.94 and explicit:
            ops.append(("pop",))
        else:
            ops.append(("reload",))
    return {"est": est, "q": q, "fpr": rng.choice([0.1, 0.05, 0.01, 0.001]), "ops": ops, "keys": keys, "strat": rng.choice(["fnv", "fnv", "md5", "sha256", "custom"])}


def check(case):
    from probables import RotatingBloomFilter
    from probables.exceptions import RotatingBloomFilterError

    est, q = case["est"], case["q"]
    fn = strategy(case.get("strat", "fnv"))[0]
    r = RotatingBloomFilter(est_elements=est, false_positive_rate=case["fpr"], max_queue_size=q, hash_function=fn)
    effective = 0
    born = {}  # key -> effective-insertion index at which it was inserted after being reported absent
    explicit_since = {}
    twin = make_twin(lambda: RotatingBloomFilter(est_elements=est + 2, false_positive_rate=case["fpr"] * 0.6, max_queue_size=q + 1, hash_function=fn))
    for step, op in enumerate(case["ops"]):
        noise_touch(twin, step)
        if op[0] == "add":
            key, force = op[1], op[2]
            present = r.check(key)
            r.add(key, force)
            if force or not present:
                effective += 1
            if not present:
                born[key] = effective
                if not r.check(key):
                    return f"step {step}: {key!r} was absent, was added, and is not reported present"
        elif op[0] == "push":
            r.push()
            born.clear()
        elif op[0] == "pop":
            n = r.current_queue_size
            try:
                r.pop()
                if n == 1:
                    return f"step {step}: pop on a single-filter queue was not refused"
            except RotatingBloomFilterError:
                if n != 1:
                    return f"step {step}: pop refused with {n} filters"
            born.clear()
        else:
            r = RotatingBloomFilter.frombytes(bytes(r), max_queue_size=q, hash_function=fn)
        n = r.current_queue_size
        if not (1 <= n <= q):
            return f"step {step}: queue holds {n} filters, allowed 1..{q}"
        counts = [b.elements_added for b in r._blooms]
        if any(c > est for c in counts):
            return f"step {step}: an internal filter holds {max(counts)} > est_elements {est}"
        for key, at in born.items():
            if effective - at <= (q - 1) * est and not r.check(key):
                return f"step {step}: {key!r} inserted {effective - at} effective insertions ago is already forgotten (window {(q - 1) * est})"
    return None


def run(tier, seed, deep, hints):
    return drive(tier, seed, deep, "search-C10", gen, check, shrink_ops, lambda c, b: {"failure": "".join(ch for ch in b.split(":")[1] if not ch.isdigit())[:40]}, n_quick=300, n_thorough=6000)


def replay(finding):
    bad = check(finding["case"])
    return bad is None, f"{finding['case']} -> {bad or 'bounded and retains the window'}"
