"""Failing-input search for C01 on the real code: a key added to a Bloom filter (in-memory, on-disk,
expanding) is reported present after every later step; only clear() may forget."""
import os

import core
from corr.bloom import strategy
from search.common import drive, geometry_twin, keys_pool, make_twin, noise_touch, shrink_ops

STRATS = ["fnv", "fnv", "md5", "sha256", "custom", "dint:fnvseed", "dint:sumlen", "dbytes:fnvle", "dbytes:chain"]


def gen(rng):
    kind = rng.choice(["bloom", "bloom", "ondisk", "expanding"])
    est = rng.choice([1, 2, 3, 5, 8, 13, 40, 150])
    fpr = rng.choice([0.5, 0.3, 0.2, 0.1, 0.05, 0.01, 0.001, rng.uniform(0.001, 0.9)])
    if rng.random() < 0.2:
        # rates with many significant digits and very small ones, on a filter big enough for the bit count to
        # depend on them: what a reload re-derives from the stored 32-bit rate has to be the same geometry
        est = rng.choice([400, 900, 2500])
        fpr = rng.choice([0.0001234567, 3.3e-6, 7.77e-7, 1.0 / 3.0, 1.0 / 7.0, rng.uniform(1e-7, 1e-4), rng.uniform(1e-4, 1e-2)])
    keys = keys_pool(rng, rng.randint(2, 25))
    ops = []
    for _ in range(rng.randint(2, 40)):
        r = rng.random()
        if r < 0.6:
            ops.append(("add", rng.choice(keys)))
        elif r < 0.72:
            ops.append(("reload", rng.choice(["bytes", "file", "hex"])))
        elif r < 0.80:
            ops.append(("union", [rng.choice(keys) for _ in range(rng.randint(0, 4))]))
        elif r < 0.86:
            ops.append(("push",))
        elif r < 0.92:
            ops.append(("reopen",))
        elif r < 0.95:
            ops.append(("clear",))
        else:
            ops.append(("addforce", rng.choice(keys)))
    return {"kind": kind, "est": est, "fpr": fpr, "strat": rng.choice(STRATS), "ops": ops}


def check(case):
    from probables import BloomFilter, BloomFilterOnDisk, ExpandingBloomFilter

    fn = strategy(case["strat"])[0]
    kind = case["kind"]
    cwd = os.getcwd()
    with core.Scratch() as tmp:
        try:
            path = os.path.join(tmp, "f.blm")
            try:
                BloomFilter(est_elements=case["est"], false_positive_rate=case["fpr"])
            except Exception:  # noqa: BLE001 - sizing rejected by the constructor: outside the claim
                return None
            if kind == "bloom":
                obj = BloomFilter(est_elements=case["est"], false_positive_rate=case["fpr"], hash_function=fn)
            elif kind == "ondisk":
                obj = BloomFilterOnDisk(path, est_elements=case["est"], false_positive_rate=case["fpr"], hash_function=fn)
            else:
                obj = ExpandingBloomFilter(est_elements=case["est"], false_positive_rate=case["fpr"], hash_function=fn)
            added = []
            twin = None
            if kind != "ondisk":
                twin = make_twin(lambda: type(obj)(est_elements=case["est"] + 3, false_positive_rate=case["fpr"] * 0.6, hash_function=fn))
            for step, op in enumerate(case["ops"]):
                noise_touch(twin, step)
                if op[0] == "add":
                    if kind == "bloom" and step % 4 == 1 and twin is not None:
                        # the *_alt API: one list of hashes computed once and handed to several filters
                        hs = obj.hashes(op[1], max(obj.number_hashes, twin.number_hashes))
                        want = list(hs)
                        obj.add_alt(hs)
                        if hs != want:
                            return f"step {step}: add_alt changed the list of hashes it was given"
                        if not obj.check_alt(want):
                            return f"step {step}: check_alt with the very list of hashes ({len(want)} values, the filter uses {obj.number_hashes}) that add_alt was given says absent"
                        twin.add_alt(hs)
                        if not twin.check_alt(want) or not twin.check(op[1]):
                            return f"step {step}: a second filter given the same list of hashes does not report {op[1]!r}"
                    else:
                        obj.add(op[1])
                    added.append(op[1])
                elif op[0] == "addforce":
                    if kind == "expanding":
                        obj.add(op[1], force=True)
                    else:
                        obj.add(op[1])
                    added.append(op[1])
                elif op[0] == "clear":
                    if kind == "expanding":
                        continue
                    obj.clear()
                    added = []
                elif op[0] == "push":
                    if kind != "expanding":
                        continue
                    obj.push()
                elif op[0] == "reload":
                    chan = op[1]
                    if kind == "bloom":
                        if chan == "bytes":
                            obj = BloomFilter.frombytes(bytes(obj), hash_function=fn)
                        elif chan == "file":
                            with open(path, "wb") as fh:
                                if step % 2:  # an older, larger file is already there
                                    fh.write(b"\x5a" * (len(bytes(obj)) + 977))
                                else:  # or an export with the same size and footer and no bits set
                                    img = bytes(obj)
                                    fh.write(bytes(len(img) - 20) + img[-20:])
                            obj.export(path)
                            obj = BloomFilter(filepath=path, hash_function=fn)
                        else:
                            obj = BloomFilter(hex_string=obj.export_hex(), hash_function=fn)
                    elif kind == "expanding":
                        if chan == "file":
                            with open(path, "wb") as fh:
                                fh.write(b"\x5a" * (len(bytes(obj)) + 977))
                            obj.export(path)
                            obj = ExpandingBloomFilter(filepath=path, hash_function=fn)
                        else:
                            obj = ExpandingBloomFilter.frombytes(bytes(obj), hash_function=fn)
                    else:
                        continue
                elif op[0] == "reopen":
                    if kind != "ondisk":
                        continue
                    obj.close()
                    os.chdir("/")
                    obj = BloomFilterOnDisk(path, hash_function=fn)
                elif op[0] == "union":
                    if kind == "expanding":
                        continue
                    tw = geometry_twin(case["est"], case["fpr"]) if step % 3 == 0 else None
                    other = BloomFilter(est_elements=tw[0] if tw else case["est"], false_positive_rate=tw[1] if tw else case["fpr"], hash_function=fn)
                    for k in op[1]:
                        other.add(k)
                    res = obj.union(other) if step % 2 == 0 else other.union(obj)
                    if res is None:
                        return f"step {step}: union of same-geometry filters returned None"
                    for k in added + op[1]:
                        if not res.check(k):
                            return f"step {step}: union does not report {k!r}, which an operand reports"
                    continue
                for k in added:
                    if not obj.check(k) or k not in obj:
                        return f"step {step} after {op[0]}: key {k!r} was added and is reported absent"
            if kind == "ondisk":
                obj.close()
        finally:
            os.chdir(cwd)
    return None


def classify(case, bad):
    return {"structure": case["kind"], "failure": bad.split(":")[1].strip().split(" ")[0] if ":" in bad else bad[:30], "after": bad.split("after ")[1].split(":")[0] if "after " in bad else ""}


def run(tier, seed, deep, hints):
    return drive(tier, seed, deep, "search-C01", gen, check, shrink_ops, classify, n_quick=250, n_thorough=6000)


def replay(finding):
    bad = check(finding["case"])
    return bad is None, f"{finding['case']} -> {bad or 'no added key reported absent'}"
