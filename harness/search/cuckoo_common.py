"""Shared model-free machinery for the cuckoo-filter oracles (C03, C08, C14, C15).

A *case* is {kind, cap, b, swaps, rate, auto, fsz, ops, script|seed}: the history `ops` is executed on
the real filter with the filter's random draws either scripted (every resolution can be enumerated)
or seeded. `walk` yields, after every operation, everything the oracles need."""
import random as pyrandom

import core
from corr.cuckoo import Recorder


def custom_hash(key):
    """a user-supplied hash function (the filters take `key -> int`): sha256-based, 64 bits, unrelated to FNV"""
    import hashlib

    data = key.encode("utf-8") if isinstance(key, str) else bytes(key)
    return int.from_bytes(hashlib.sha256(b"cuckoo|" + data).digest()[:8], "big")


def hash_arg(case):
    return custom_hash if case.get("hash") == "custom" else None


def make(case):
    from probables import CountingCuckooFilter, CuckooFilter

    cls = CountingCuckooFilter if case["kind"] == "cc" else CuckooFilter
    return cls(capacity=case["cap"], bucket_size=case["b"], max_swaps=case["swaps"], expansion_rate=case["rate"], auto_expand=case["auto"], finger_size=case["fsz"], hash_function=hash_arg(case))


def fingerprint(obj, key):
    return obj._generate_fingerprint_info(key)[2]


def table(obj, counting):
    if counting:
        return [[(int(b.finger), int(b.count)) for b in bkt] for bkt in obj.buckets]
    return [[(int(f), 1) for f in bkt] for bkt in obj.buckets]


def walk(case, on_step):
    """runs the history; on_step(step, op, ret, obj, info) may return a failure text which stops the walk.
    Returns (failure or None, exhausted_script)"""
    state = pyrandom.getstate()
    script = case.get("script")
    try:
        if script is None:
            pyrandom.seed(case.get("seed", 0))
        with Recorder(script=script) as rec:
            obj = make(case)
            for step, op in enumerate(case["ops"]):
                info = {"cap_before": obj.capacity, "draws_before": len(rec.draws)}
                if op[0] == "add":
                    info["present_before"] = None
                    ret = core.call(obj.add, op[1])
                elif op[0] == "rem":
                    ret = core.call(obj.remove, op[1])
                elif op[0] == "expand":
                    if obj.capacity * obj.expansion_rate > 4096:
                        continue
                    ret = core.call(obj.expand)
                elif op[0] == "export":
                    ret = core.call(lambda: len(bytes(obj)))  # exporting is an operation too: the table is what it was
                elif op[0] == "reload":
                    cls = type(obj)

                    def f():
                        if step % 2 == 1:
                            with core.Scratch() as tmp:
                                import os

                                p = os.path.join(tmp, "t.cko")
                                with open(p, "wb") as fh:  # an older, larger export is already at the path
                                    fh.write(b"\x99" * (len(bytes(obj)) + 640))
                                obj.export(p)
                                with open(p, "rb") as fh:
                                    data = fh.read()
                            new = cls.frombytes(data, hash_function=hash_arg(case))
                        else:
                            new = cls.frombytes(bytes(obj), hash_function=hash_arg(case))
                        new.fingerprint_size = case["fsz"]
                        new.auto_expand = case["auto"]
                        new.expansion_rate = case["rate"]
                        return new

                    ret = core.call(f)
                    if ret[0] == "ok":
                        obj = ret[1]
                        ret = ("ok", None)
                else:
                    continue
                info["draws"] = len(rec.draws) - info["draws_before"]
                try:
                    bad = on_step(step, op, ret, obj, info)
                except Exception as exc:  # noqa: BLE001 - raised by the library while the oracle observes it
                    bad = f"step {step} after {op[0]}{op[1:]!r}: observing the filter (check / table) raised {type(exc).__name__}: {exc}"
                if bad:
                    return bad, rec.exhausted
            return None, rec.exhausted
    finally:
        pyrandom.setstate(state)


def all_scripts(case, check, alphabet, limit):
    """enumerate every resolution of the random draws for this history (breadth first over script
    prefixes); check(case_with_script) -> (failure, exhausted). Returns (failure case or None, number run)"""
    queue = [[]]
    runs = 0
    while queue and runs < limit and not core.search_expired():
        script = queue.pop(0)
        c = dict(case, script=script)
        bad, exhausted = check(c)
        runs += 1
        if bad:
            return (c, bad), runs
        if exhausted:
            for d in range(alphabet):
                queue.append(script + [d])
    return None, runs


def gen_case(rng, counting=None, tiny=True, reload=True):
    kind = ("cc" if counting else "ck") if counting is not None else rng.choice(["ck", "cc"])
    if tiny:
        cap, b, swaps = rng.choice([(1, 1, 1), (2, 1, 1), (2, 1, 2), (2, 1, 3), (2, 2, 2), (3, 1, 2), (3, 2, 3), (3, 2, 1), (4, 1, 3)])
    else:
        cap, b, swaps = rng.choice([(5, 2, 5), (10, 2, 10), (10, 4, 20), (30, 2, 50), (7, 3, 6), (6, 5, 8)])
    rate = rng.choice([2, 2, 2, 3, 1])
    auto = rng.random() < 0.5
    fsz = rng.choice([1, 1, 1, 2])
    n = rng.randint(2, 3 * cap * b + 4)
    keys = ["%d" % rng.randrange(4000) for _ in range(n)]
    if rng.random() < 0.2:
        keys = [("k\u00e9%d" % rng.randrange(4000)) if i % 2 else bytes([rng.randrange(256), i % 256]) for i in range(n)]
    ops = []
    for _ in range(rng.randint(3, 4 * cap * b + 6)):
        r = rng.random()
        k = rng.choice(keys)
        if r < 0.68:
            ops.append(("add", k))
        elif r < 0.85:
            ops.append(("rem", k))
        elif r < 0.93:
            ops.append(("expand",))
        elif reload:
            ops.append(("reload",))
            if rng.random() < 0.6:
                ops.append(("export",))
    return {"kind": kind, "cap": cap, "b": b, "swaps": swaps, "rate": rate, "auto": auto, "fsz": fsz, "ops": ops, "seed": rng.randrange(2**32), "keys": keys,
            # a user-supplied hash function in a third of the cases: every path has to use the configured one
            "hash": rng.choice(["fnv", "fnv", "custom"])}


def shrink_case(case, check):
    ops = list(case["ops"])
    i = len(ops) - 1
    while i >= 0 and not core.search_expired():
        cand = dict(case, ops=ops[:i] + ops[i + 1 :])
        if cand["ops"]:
            bad, _ = check(cand)
            if bad:
                ops = cand["ops"]
        i -= 1
    return dict(case, ops=ops)
