"""Failing-input search for C20 on the real code: Bitarray vs a plain Python list of bits."""
import core


def _oracle_run(ops):
    """returns None if the real Bitarray behaves like a list of bits on ops, else a description"""
    from probables.utilities import Bitarray

    size = ops[0][1]
    res = core.call(Bitarray, size)
    if size <= 0:
        return None if res == ("err", "!ValueError") else f"Bitarray({size}) gave {res}"
    if res[0] != "ok":
        return f"Bitarray({size}) raised {res[1]}"
    ba = res[1]
    ref = [0] * size
    for step, op in enumerate(ops[1:], 1):
        kind = op[0]
        before = list(ref)
        exp = None
        if kind in ("set", "clr", "get", "put"):
            idx = op[1]
            bad_idx = not (0 <= idx < size)
        if kind == "set":
            got = core.call(ba.set_bit, idx)
            if bad_idx:
                exp = ("err", "!IndexError")
            else:
                ref[idx] = 1
                exp = ("ok", None)
        elif kind == "clr":
            got = core.call(ba.clear_bit, idx)
            if bad_idx:
                exp = ("err", "!IndexError")
            else:
                ref[idx] = 0
                exp = ("ok", None)
        elif kind == "put":
            val = op[2]
            got = core.call(ba.__setitem__, idx, val)
            if val not in (0, 1) or bad_idx:
                exp = None  # some error, no change
                if got[0] != "err" or got[1] not in ("!ValueError", "!IndexError"):
                    return f"step {step} {op}: expected rejection, got {got}"
                got = exp
            else:
                ref[idx] = val
                exp = ("ok", None)
        elif kind == "get":
            got = core.call(ba.check_bit, idx)
            exp = ("err", "!IndexError") if bad_idx else ("ok", ref[idx])
            got2 = core.call(ba.__getitem__, idx)
            if got2 != got:
                return f"step {step} {op}: check_bit {got} but __getitem__ {got2}"
            got3 = core.call(ba.is_bit_set, idx)
            want3 = ("ok", bool(exp[1])) if exp[0] == "ok" else exp
            if got3 != want3:
                return f"step {step} {op}: is_bit_set gave {got3}, expected {want3}"
        elif kind == "clear":
            got = core.call(ba.clear)
            ref = [0] * size
            exp = ("ok", None)
        else:
            continue
        if got != exp:
            return f"step {step} {op}: expected {exp}, got {got}"
        s = ba.as_string()
        if s != "".join(map(str, ref)):
            changed = "rejected call changed the bits" if before == ref and exp and exp[0] == "err" else "bits differ from the list model"
            return f"step {step} {op}: {changed}: {s} vs {''.join(map(str, ref))}"
        if ba.num_bits_set() != sum(ref):
            return f"step {step} {op}: num_bits_set {ba.num_bits_set()} != {sum(ref)}"
    return None


def _gen(rng, n, maxsize):
    for _ in range(n):
        size = rng.randint(1, maxsize)
        ops = [("new", size)]
        for _ in range(rng.randint(1, 40)):
            idx = rng.randrange(size) if rng.random() < 0.7 else rng.choice([-1, size, size + 1, -size, 8 * ((size + 7) // 8) - 1, 8 * ((size + 7) // 8)])
            k = rng.random()
            if k < 0.3:
                ops.append(("set", idx))
            elif k < 0.5:
                ops.append(("clr", idx))
            elif k < 0.7:
                ops.append(("put", idx, rng.choice([0, 1, 1, 0, 2, -1])))
            elif k < 0.95:
                ops.append(("get", idx))
            else:
                ops.append(("clear",))
        yield ops


def run(tier, seed, deep, hints):
    rng = core.seeded(seed, "search-C20")
    n = 300 if tier == "quick" else 5000
    if deep:
        n *= 5
    findings, evals, samples = [], 0, []
    cases = []
    # exhaustive single positions for small sizes
    for size in range(1, 26):
        ops = [("new", size)]
        for idx in range(-1, size + 1):
            ops += [("set", idx), ("get", idx), ("clr", idx), ("get", idx), ("put", idx, 1), ("put", idx, 2), ("get", idx)]
        cases.append(ops)
    cases += list(_gen(rng, n, 70))
    for h in hints or []:
        try:
            cases.insert(0, [tuple(o) for o in h["ops"]])
        except Exception:  # noqa: BLE001
            pass
    for ops in cases:
        if core.search_expired():
            break
        evals += 1
        try:
            bad = _oracle_run(ops)
        except Exception as exc:  # noqa: BLE001
            bad = f"oracle crashed: {type(exc).__name__}: {exc}"
        if bad:
            findings.append({"what": bad, "ops": [list(o) for o in ops], "signature": {"site": "Bitarray", "what": bad.split(":")[1].strip() if ":" in bad else bad}})
            if len(findings) >= 3:
                break
    samples.append({"search_case": [list(o) for o in cases[-1][:8]]})
    return findings, {"evaluations": evals, "distinct_nontrivial": evals, "samples": samples}


def replay(finding):
    ops = [tuple(o) for o in finding["ops"]]
    bad = _oracle_run(ops)
    return bad is None, f"ops={ops[:12]}... -> {bad or 'list-of-bits behaviour'}"
