"""Failing-input search for C03 on the real code: no key is lost through kicks, expansion or a failed
insert — for every resolution of the filter's random choices on tiny tables (scripted oracle,
enumerated), and seeded random draws on larger ones."""
import core
from search.cuckoo_common import all_scripts, fingerprint, gen_case, shrink_case, walk


def check(case):
    counting = case["kind"] == "cc"
    live = {}  # fingerprint -> outstanding additions
    keys_by_fp = {}
    holder = {"known": set()}

    def on_step(step, op, ret, obj, info):
        if op[0] == "add":
            key = op[1]
            fp = fingerprint(obj, key)
            keys_by_fp.setdefault(fp, set()).add(key)
            if ret[0] == "ok":
                if counting:
                    live[fp] = live.get(fp, 0) + 1
                else:
                    live[fp] = 1
            elif ret[1] == "!CuckooFilterFullError":
                # every key present before the failed call must still be present
                for f, n in live.items():
                    if n > 0:
                        for k in keys_by_fp.get(f, ()):
                            if not obj.check(k):
                                return f"step {step}: add({key!r}) failed with CuckooFilterFullError and key {k!r} (present before) is now reported absent"
                return None
            else:
                return f"step {step}: add({key!r}) raised {ret[1]}"
        elif op[0] == "rem":
            key = op[1]
            fp = fingerprint(obj, key)
            if ret[0] != "ok":
                return f"step {step}: remove raised {ret[1]}"
            if ret[1]:
                if counting:
                    live[fp] = max(0, live.get(fp, 0) - 1)
                else:
                    live[fp] = 0
        elif ret[0] != "ok":
            if ret[1] == "!CuckooFilterFullError":
                # an expansion that fails is not a normal return; the property still asks nothing be lost on add
                return None
            return f"step {step}: {op[0]} raised {ret[1]}"
        for f, n in live.items():
            if n > 0:
                for k in keys_by_fp.get(f, ()):
                    if not obj.check(k):
                        return f"step {step}: after {op[0]}{op[1:]!r} key {k!r} (added, fingerprint not removed) is reported absent"
        return None

    return walk(case, on_step)


def run(tier, seed, deep, hints):
    rng = core.seeded(seed, "search-C03")
    n_script = 60 if tier == "quick" else 800
    n_seeded = 150 if tier == "quick" else 4000
    if deep:
        n_script *= 3
        n_seeded *= 3
    findings, evals, distinct, sample = [], 0, set(), None
    seen = set()

    def report(case, bad):
        case = shrink_case(case, check)
        bad2, _ = check(case)
        bad2 = bad2 or bad
        kind = "failed-add-loses-key" if "failed with CuckooFilterFullError" in bad2 else ("key-lost" if "reported absent" in bad2 else "raised")
        sig = {"structure": case["kind"], "failure": kind}
        if repr(sig) in seen:
            return
        seen.add(repr(sig))
        findings.append({"what": f"{case['kind']} cap={case['cap']} b={case['b']} swaps={case['swaps']} auto={case['auto']} rate={case['rate']}: {bad2}", "case": case, "signature": sig})

    for _ in range(n_script):
        if core.search_expired():
            break
        case = gen_case(rng, tiny=True, reload=False)
        case.pop("seed", None)
        res, runs = all_scripts(case, check, alphabet=max(2, case["b"]), limit=400 if tier == "quick" else 3000)
        evals += runs
        distinct.add(repr(case["ops"]) + repr((case["cap"], case["b"], case["swaps"])))
        sample = case
        if res:
            report(res[0], res[1])
            if len(findings) >= 3:
                break
    for _ in range(n_seeded):
        if core.search_expired():
            break
        if len(findings) >= 3:
            break
        case = gen_case(rng, tiny=rng.random() < 0.5, reload=False)
        bad, _ = check(case)
        evals += 1
        distinct.add(repr(case["ops"]) + str(case["seed"]))
        if bad:
            report(case, bad)
    return findings, {"evaluations": evals, "distinct_nontrivial": len(distinct), "exhaustive_over_oracle_scripts": True,
                      "samples": [{"search_case": {k: v for k, v in (sample or {}).items() if k != "keys"}}]}


def replay(finding):
    bad, _ = check(finding["case"])
    return bad is None, f"{ {k: v for k, v in finding['case'].items() if k != 'keys'} } -> {bad or 'no key lost'}"
