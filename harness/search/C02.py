"""Failing-input search for C02 on the real code: count-min (min query) bounds and return values."""
import core
from corr.bloom import strategy
from search.common import drive, keys_pool, noise_touch, shrink_ops


def gen(rng):
    if rng.random() < 0.25:
        dims = {"confidence": rng.choice([0.5, 0.9, 0.99]), "error_rate": rng.choice([0.5, 0.2, 0.05])}
    else:
        dims = {"width": rng.choice([1, 2, 3, 5, 50, 1000]), "depth": rng.choice([1, 2, 3, 5, 8])}
    keys = ["k%d" % i for i in range(rng.randint(1, 10))]
    if rng.random() < 0.3:
        keys = keys_pool(rng, len(keys))  # bytes keys and text beyond ASCII
    ops = []
    # a quarter of the histories use large amounts: the claim covers every total below 2^31 - 1
    amounts = [1, 1, 2, 3, 10] if rng.random() < 0.75 else [1, 7, 10**6, 9 * 10**7, 3 * 10**8, 2**27, 2**28 + 1, 2**30 - 5]
    total = 0
    for _ in range(rng.randint(1, 40)):
        kind, n = rng.choice(["add", "add", "add", "rem"]), rng.choice(amounts)
        if kind == "add":
            if total + n > 2**31 - 2:
                continue
            total += n
        ops.append((kind, rng.choice(keys), n))
        if rng.random() < 0.06:
            ops.append((rng.choice(["reload-bytes", "reload-file", "clear"]), None, 0))
    return {"dims": dims, "strat": rng.choice(["fnv", "md5", "custom", "dint:fnvseed"]), "keys": keys, "ops": ops}


def step_twin(case):
    return len(case["ops"]) % 2 == 0


def check(case):
    from probables import CountMinSketch

    fn = strategy(case["strat"])[0]
    cms = CountMinSketch(hash_function=fn, **case["dims"])
    cnt = {}
    total = 0
    twin = CountMinSketch(hash_function=fn, width=cms.width + 4, depth=cms.depth) if step_twin(case) else CountMinSketch(hash_function=fn, width=max(1, cms.width - 1) + 2, depth=cms.depth + 1)
    for step, (kind, key, n) in enumerate(case["ops"]):
        noise_touch(twin, step)
        if kind.startswith("reload"):
            # the same history continues on the sketch loaded back from its export
            if kind == "reload-bytes":
                cms = CountMinSketch.frombytes(bytes(cms), hash_function=fn)
            else:
                with core.Scratch() as tmp:
                    import os

                    # the path already holds an export of the same size with the same footer and other counters
                    img = bytes(cms)
                    with open(os.path.join(tmp, "c.cms"), "wb") as fh:
                        fh.write(bytes(len(img) - 16) + img[-16:])
                    cms.export(os.path.join(tmp, "c.cms"))
                    cms = CountMinSketch(filepath=os.path.join(tmp, "c.cms"), hash_function=fn)
            continue
        if kind == "clear":
            cms.clear()
            cnt, total = {}, 0
            continue
        if kind == "rem":
            n = min(n, cnt.get(key, 0))
            if n <= 0:
                continue
            ret = cms.remove(key, n)
            cnt[key] -= n
            total -= n
        else:
            ret = cms.add(key, n)
            cnt[key] = cnt.get(key, 0) + n
            total += n
        if ret != cms.check(key):
            return f"step {step}: {kind} returned {ret} but check reports {cms.check(key)}"
        if cms.elements_added != total:
            return f"step {step}: elements_added {cms.elements_added} != {total}"
        pos = {k: [(i, h % cms.width) for i, h in enumerate(cms.hashes(k))] for k in case["keys"]}
        for k in case["keys"]:
            est = cms.check(k)
            true = cnt.get(k, 0)
            if est < true:
                return f"step {step}: estimate {est} of {k!r} below its true count {true}"
            if est > total:
                return f"step {step}: estimate {est} of {k!r} above the total {total}"
            others = {p for o in case["keys"] if o != k and cnt.get(o, 0) for p in pos[o]}
            if not (set(pos[k]) & others) and est != true:
                return f"step {step}: {k!r} shares no counter but is estimated {est} instead of {true}"
    return None


def run(tier, seed, deep, hints):
    return drive(tier, seed, deep, "search-C02", gen, check, shrink_ops, None, n_quick=250, n_thorough=6000)


def replay(finding):
    bad = check(finding["case"])
    return bad is None, f"{finding['case']} -> {bad or 'bounds hold'}"
