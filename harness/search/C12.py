"""Failing-input search for C12 on the real code: union / join equals the single structure fed both
streams (bits, cells, bins and total), in-memory or on-disk operands in either position."""
import os

import core
from corr.bloom import strategy
from search.common import drive, geometry_twin, keys_pool


def gen(rng):
    kind = rng.choice(["bloom", "bloom-ondisk", "bloom-ondisk2", "cbf", "cms"])
    keys = keys_pool(rng, rng.randint(2, 20))
    amounts = [1, 1, 2, 5] if kind != "cbf" or rng.random() < 0.6 else [1, 2**30, 2**31 - 1, 2**31, 3 * 2**29]
    a = [(rng.choice(keys), rng.choice(amounts)) for _ in range(rng.randint(0, 15))]
    b = [(rng.choice(keys), rng.choice(amounts)) for _ in range(rng.randint(0, 15))]
    return {"kind": kind, "est": rng.choice([1, 2, 3, 5, 10, 40]), "fpr": rng.choice([0.3, 0.1, 0.05, 0.01]), "w": rng.choice([1, 2, 3, 17, 200]), "d": rng.choice([1, 2, 3, 5]),
            "strat": rng.choice(["fnv", "md5", "custom", "dint:fnvseed"]), "a": a, "b": b, "keys": keys, "flip": rng.random() < 0.5}


def check(case):
    import probables as P

    fn = strategy(case["strat"])[0]
    fn_b = fn
    if fn is not None and case["flip"]:
        # the same strategy through another callable object (a wrapper made per structure, a bound method):
        # operands are compatible when their hashes agree, whatever object computes them
        fn_b = lambda key, depth=1, _f=fn: _f(key, depth)  # noqa: E731
    kind = case["kind"]
    a_ops, b_ops, keys = case["a"], case["b"], case["keys"]
    if kind in ("bloom", "bloom-ondisk", "bloom-ondisk2"):
        try:
            mk = lambda: P.BloomFilter(est_elements=case["est"], false_positive_rate=case["fpr"], hash_function=fn)
            tw = geometry_twin(case["est"], case["fpr"]) if len(a_ops) % 3 == 0 else None
            a, b, both = mk(), P.BloomFilter(est_elements=tw[0] if tw else case["est"], false_positive_rate=tw[1] if tw else case["fpr"], hash_function=fn_b), mk()
        except P.exceptions.InitializationError:
            return None
        with core.Scratch() as tmp:
            if kind in ("bloom-ondisk", "bloom-ondisk2"):
                b = P.BloomFilterOnDisk(os.path.join(tmp, "b.blm"), est_elements=case["est"], false_positive_rate=case["fpr"], hash_function=fn)
            if kind == "bloom-ondisk2":
                a = P.BloomFilterOnDisk(os.path.join(tmp, "a.blm"), est_elements=case["est"], false_positive_rate=case["fpr"], hash_function=fn)
            for k, _ in a_ops:
                a.add(k), both.add(k)
            for k, _ in b_ops:
                b.add(k), both.add(k)
            u = b.union(a) if case["flip"] else a.union(b)
            try:
                if u is None:
                    return "union of same-geometry filters returned None"
                if bytes(u.bloom) != bytes(both.bloom):
                    return "bit array of the union differs from the filter fed both streams"
                sa = bytes(a.bloom[: a.bloom_length])
                uu = a.union(a)  # the stream of a, twice: the same bits
                if uu is None or bytes(uu.bloom) != sa or bytes(a.bloom[: a.bloom_length]) != sa:
                    return "union of a filter with itself differs from the filter / modified it"
                if u.elements_added >= 0 and (bytes(u)[:-20] != bytes(both)[:-20] or len(bytes(u)) != len(bytes(both))):
                    return "export of the union differs in its cells from the export of the filter fed both streams"
                c, both2 = mk(), mk()
                for k, _ in a_ops:
                    both2.add(k)
                for k, _ in b_ops[::-1][: len(b_ops) // 2 + 1]:
                    c.add(k), both2.add(k)
                u2 = a.union(c)
                if u2 is None or bytes(u2.bloom) != bytes(both2.bloom):
                    return "bit array of a second union of the same receiver differs from the filter fed both streams"
                if bytes(u.bloom) != bytes(both.bloom):
                    return "an earlier union result changed after a later union"
                for k in keys:
                    if (a.check(k) or b.check(k)) and not u.check(k):
                        return f"union does not report {k!r} although an operand does"
                # chained: an operand that is itself a union result.  The union of the filter fed only k with an
                # empty filter stands for the stream [k]; united with c it must equal the filter fed c's stream and k
                # (a result's elements_added is an estimate, 0 for very few bits: it is not a summary of its bits)
                for k in keys[:12]:
                    s1, e1, both3 = mk(), mk(), mk()
                    s1.add(k), both3.add(k)
                    for kk, _ in b_ops[::-1][: len(b_ops) // 2 + 1]:
                        both3.add(kk)
                    r1 = s1.union(e1)
                    for w, what in ((c.union(r1) if r1 is not None else None, "c ∪ (s ∪ ∅)"), (r1.union(c) if r1 is not None else None, "(s ∪ ∅) ∪ c")):
                        if w is None or bytes(w.bloom) != bytes(both3.bloom):
                            return f"chained union {what} with s fed only {k!r} differs from the filter fed both streams (elements_added of the inner result: {r1.elements_added if r1 is not None else None})"
            finally:
                if kind in ("bloom-ondisk", "bloom-ondisk2"):
                    b.close()
                if kind == "bloom-ondisk2":
                    a.close()
    elif kind == "cbf":
        try:
            mk = lambda: P.CountingBloomFilter(est_elements=case["est"], false_positive_rate=case["fpr"], hash_function=fn)
            a, b, both = mk(), mk(), mk()
        except P.exceptions.InitializationError:
            return None
        for k, n in a_ops:
            a.add(k, n), both.add(k, n)
        for k, n in b_ops:
            b.add(k, n), both.add(k, n)
        if max(both.bloom, default=0) >= 2**32 - 1:
            return None  # saturated: outside the claim
        u = a.union(b)
        if u is None:
            return "union of same-geometry counting filters returned None"
        if list(u.bloom) != list(both.bloom):
            return "counters of the union differ from the counting filter fed both streams"
        for k in keys:
            if u.check(k) != both.check(k):
                return f"the union estimates {u.check(k)} for {k!r}, the counting filter fed both streams {both.check(k)} (hash strategy: {case['strat']})"
        # a second union of the same receiver with another operand
        c, both2 = mk(), mk()
        for k, n in a_ops:
            both2.add(k, n)
        for k, n in b_ops[::-1][: len(b_ops) // 2 + 1]:
            c.add(k, n), both2.add(k, n)
        u2 = a.union(c)
        if u2 is None or list(u2.bloom) != list(both2.bloom):
            return "counters of a second union of the same receiver differ from the counting filter fed both streams"
        if list(u.bloom) != list(both.bloom):
            return "an earlier union result changed after a later union"
    else:
        cls = P.CountMinSketch
        mk = lambda: cls(width=case["w"], depth=case["d"], hash_function=fn)
        a, b, both = mk(), cls(width=case["w"], depth=case["d"], hash_function=fn_b), mk()
        true = {}
        removing = len(a_ops) % 2 == 1  # the streams also remove (from other keys too: cells and totals go negative)
        for i, (k, n) in enumerate(a_ops):
            if removing and i % 3 == 2:
                a.remove(k, n), both.remove(k, n)
                true[k] = true.get(k, 0) - n
            else:
                a.add(k, n), both.add(k, n)
                true[k] = true.get(k, 0) + n
        for i, (k, n) in enumerate(b_ops):
            if removing and i % 3 == 1:
                b.remove(k, n), both.remove(k, n)
                true[k] = true.get(k, 0) - n
            else:
                b.add(k, n), both.add(k, n)
                true[k] = true.get(k, 0) + n
        a.join(b)
        if core.cms_bins(a) != core.cms_bins(both):
            return "bins after join differ from the sketch fed both streams"
        if case["flip"]:
            # a sketch joined into itself is the sketch fed its stream twice (below the limits)
            twice = mk()
            for _ in range(2):
                for i, (k, n) in enumerate(b_ops):
                    if removing and i % 3 == 1:
                        twice.remove(k, n)
                    else:
                        twice.add(k, n)
            b.join(b)
            if core.cms_bins(b) != core.cms_bins(twice) or b.elements_added != twice.elements_added:
                return "a sketch joined into itself differs from the sketch fed its stream twice"
        if a.elements_added != both.elements_added:
            return f"total after join {a.elements_added} != {both.elements_added}"
        for k, v in true.items():
            if not removing and a.check(k) < v:
                return f"estimate of {k!r} after join {a.check(k)} below the sum of true counts {v}"
    return None


def run(tier, seed, deep, hints):
    return drive(tier, seed, deep, "search-C12", gen, check, None, lambda c, b: {"structure": c["kind"], "failure": "".join(ch for ch in b if not ch.isdigit())[:40]}, n_quick=300, n_thorough=6000)


def replay(finding):
    bad = check(finding["case"])
    return bad is None, f"{finding['case']} -> {bad or 'union/join equals the combined stream'}"
