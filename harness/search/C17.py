"""Failing-input search for C17 (heavy-hitter / threshold tables) on the real code; model-free."""
import core
from corr.bloom import strategy
from search.common import noise_touch

CLEAR = "<clear>"  # a pseudo key: clear() at this point of the history


def _hh(ops, w, d, num, strat="fnv"):
    from probables import HeavyHitters

    hh = HeavyHitters(num_hitters=num, width=w, depth=d, hash_function=strategy(strat)[0])
    twin = HeavyHitters(num_hitters=num + 1, width=w + 3, depth=d + 1, hash_function=strategy(strat)[0])
    last = {}
    for step, (key, n) in enumerate(ops):
        noise_touch(twin, step)
        if key == CLEAR:
            hh.clear()
            last = {}
            if hh.heavy_hitters:
                return f"step {step}: the table is not empty after clear()"
            continue
        res = hh.add(key, n)
        last[key] = res
        table = hh.heavy_hitters
        if len(table) != min(num, len(last)):
            return f"step {step}: tracks {len(table)} keys, expected min({num}, {len(last)})"
        for k, v in table.items():
            if last.get(k) != v:
                return f"step {step}: tracked {k!r} has {v}, its most recent add returned {last.get(k)}"
        low = min(table.values())
        for k, v in last.items():
            if k not in table and v > low:
                return f"step {step}: untracked {k!r} last returned {v} > smallest tracked {low}"
    return None


def _st(ops, w, d, thr, strat="fnv"):
    from probables import StreamThreshold

    st = StreamThreshold(threshold=thr, width=w, depth=d, hash_function=strategy(strat)[0])
    twin = StreamThreshold(threshold=thr + 1, width=w + 3, depth=d + 1, hash_function=strategy(strat)[0])
    last = {}
    cnt = {}
    for step, (kind, key, n) in enumerate(ops):
        noise_touch(twin, step)
        if key == CLEAR:
            st.clear()
            last, cnt = {}, {}
            if st.meets_threshold:
                return f"step {step}: the table is not empty after clear()"
            continue
        if kind == "rem":
            n = min(n, cnt.get(key, 0))
            if n <= 0:
                continue
            res = st.remove(key, n)
            cnt[key] -= n
        else:
            res = st.add(key, n)
            cnt[key] = cnt.get(key, 0) + n
        last[key] = res
        if step % 4 == 3:
            # a call the sketch refuses (an amount that is not an integer) returns nothing: the table, like the
            # bins, must be what it was
            before = (dict(st.meets_threshold), bytes(st))
            bad_call = core.call(st.remove if step % 8 == 3 else st.add, key, 2.5)
            if bad_call[0] == "err" and (dict(st.meets_threshold), bytes(st)) != before:
                return f"step {step}: a refused call ({'remove' if step % 8 == 3 else 'add'}({key!r}, 2.5) raised {bad_call[1]}) changed the table or the bins; threshold {thr}"
            if bad_call[0] == "ok":
                last[key] = bad_call[1]
        want = {k: v for k, v in last.items() if v >= thr}
        got = dict(st.meets_threshold)
        if got != want:
            extra = {k: got[k] for k in got if k not in want or got[k] != want.get(k)}
            missing = {k: want[k] for k in want if k not in got}
            return f"step {step} ({kind} {key!r} {n}): table has stale/extra {extra}, misses {missing}; threshold {thr}"
    return None


def _gen(rng):
    w, d = rng.choice([(1, 1), (1, 2), (2, 2), (2, 1), (3, 2), (3, 3), (5, 4), (50, 5)])
    nkeys = rng.randint(2, 9)
    keys = ["k%d" % i for i in range(nkeys)]
    if rng.random() < 0.25:
        keys = ["cl\u00e9-%d" % i if i % 2 else "\U0001f600%d" % i for i in range(nkeys)]
    strat = rng.choice(["fnv", "fnv", "fnv", "md5", "custom"])
    if rng.random() < 0.5:
        num = rng.choice([1, 2, 3, 5])
        ops = [(rng.choice(keys), rng.choice([1, 1, 2, 3, 7])) for _ in range(rng.randint(1, 30))]
        if rng.random() < 0.2:
            ops.insert(len(ops) // 2, (CLEAR, 0))
        return {"structure": "HeavyHitters", "w": w, "d": d, "param": num, "ops": ops, "strat": strat}
    thr = rng.choice([1, 2, 3, 5, 8])
    ops = [(rng.choice(["add", "add", "add", "rem"]), rng.choice(keys), rng.choice([1, 1, 2, 3])) for _ in range(rng.randint(1, 30))]
    if rng.random() < 0.2:
        ops.insert(len(ops) // 2, ("add", CLEAR, 0))
    return {"structure": "StreamThreshold", "w": w, "d": d, "param": thr, "ops": ops, "strat": strat}


def _check(case):
    ops = [tuple(o) for o in case["ops"]]
    if case["structure"] == "HeavyHitters":
        return _hh(ops, case["w"], case["d"], case["param"], case.get("strat", "fnv"))
    return _st(ops, case["w"], case["d"], case["param"], case.get("strat", "fnv"))


def _shrink(case):
    ops = list(case["ops"])
    i = 0
    while i < len(ops) and not core.search_expired():
        cand = dict(case, ops=ops[:i] + ops[i + 1 :])
        if cand["ops"] and _check(cand):
            ops = cand["ops"]
        else:
            i += 1
    return dict(case, ops=ops)


def run(tier, seed, deep, hints):
    rng = core.seeded(seed, "search-C17")
    n = 1500 if tier == "quick" else 12000
    if deep:
        n *= 4
    findings, evals, distinct, sample = [], 0, set(), None
    seen = set()
    for _ in range(n):
        if core.search_expired():
            break
        case = _gen(rng)
        evals += 1
        distinct.add(repr(case))
        sample = case
        bad = _check(case)
        if bad:
            case = _shrink(case)
            bad = _check(case)
            site = "add" if "(add" in bad or case["structure"] == "HeavyHitters" else "remove"
            sig = {"structure": case["structure"], "failure": ("stale-after-" + site) if "stale" in bad else bad.split(":")[1].strip()[:30]}
            if repr(sig) in seen:
                continue
            seen.add(repr(sig))
            findings.append({"what": f"{case['structure']}(width={case['w']}, depth={case['d']}, {case['param']}): {bad}", "case": case, "signature": sig})
            if len(findings) >= 3:
                break
    return findings, {"evaluations": evals, "distinct_nontrivial": len(distinct), "samples": [{"search_case": sample}]}


def replay(finding):
    bad = _check(finding["case"])
    return bad is None, f"{finding['case']} -> {bad or 'tables consistent'}"
