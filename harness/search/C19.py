"""Failing-input search for C19 on the real code: read-only calls leave every structure observably
unchanged (exported bytes and counters); clear() is indistinguishable from a fresh structure."""
import io
import os
import random as pyrandom

import core
from corr.bloom import strategy
from search.common import drive, net_zero, sparse_result


def gen(rng):
    kind = rng.choice(["bloom", "ondisk", "cbf", "expanding", "rotating", "cms", "cmean", "hh", "st", "cuckoo", "ccf", "qf"])
    keys = ["k%d" % rng.randrange(2000) for _ in range(rng.randint(1, 12))]
    if rng.random() < 0.25:
        keys = ["cl\u00e9%d" % rng.randrange(2000) for _ in keys]
    return {"kind": kind, "est": rng.choice([1, 2, 3, 5, 12]), "fpr": rng.choice([0.3, 0.1, 0.05]), "keys": keys, "adds": [rng.choice(keys) for _ in range(rng.randint(0, 30))], "probes": keys + ["absent%d" % i for i in range(3)], "seed": rng.randrange(2**32),
            # a reachable state in which elements_added is 0 although cells are set (sparse intersection result,
            # sketch whose additions and removals cancel): counters are not a summary of the cells
            "twist": rng.random() < 0.35,
            "strat": rng.choice(["fnv", "fnv", "fnv", "md5", "custom"])}


def snapshot(kind, obj):
    if kind == "qf":
        internals = core.qf_internals(obj)
        return (internals if internals is not None else tuple(sorted(obj.get_hashes())), obj.elements_added, obj.size)
    if kind == "ondisk":
        return (bytes(obj.bloom), obj.elements_added)
    extra = ()
    if kind == "hh":
        extra = (tuple(obj.heavy_hitters.items()),)
    if kind == "st":
        extra = (tuple(obj.meets_threshold.items()),)
    if kind == "ccf":
        # the table itself, read without going through export() (export is one of the calls under test)
        return (obj.unique_elements, obj.elements_added, obj.capacity, tuple(tuple((int(b.finger), int(b.count)) for b in bkt) for bkt in obj.buckets))
    if kind == "cuckoo":
        return (obj.elements_added, obj.capacity, tuple(tuple(int(f) for f in bkt) for bkt in obj.buckets))
    return (bytes(obj), obj.elements_added) + extra


def check(case):
    import probables as P

    kind, est, fpr = case["kind"], case["est"], case["fpr"]
    fn = strategy(case.get("strat", "fnv"))[0]
    hf = {"hash_function": fn} if fn is not None and kind in ("bloom", "ondisk", "cbf", "expanding", "rotating", "cms", "cmean", "hh", "st") else {}
    state = pyrandom.getstate()
    cwd = os.getcwd()
    with core.Scratch() as tmp:
        try:
            pyrandom.seed(case["seed"])

            def make():
                if kind == "bloom":
                    return P.BloomFilter(est_elements=est, false_positive_rate=fpr, **hf)
                if kind == "ondisk":
                    return P.BloomFilterOnDisk(os.path.join(tmp, "x%d.blm" % pyrandom.randrange(10**9)), est_elements=est, false_positive_rate=fpr, **hf)
                if kind == "cbf":
                    return P.CountingBloomFilter(est_elements=est, false_positive_rate=fpr, **hf)
                if kind == "expanding":
                    return P.ExpandingBloomFilter(est_elements=est, false_positive_rate=fpr, **hf)
                if kind == "rotating":
                    return P.RotatingBloomFilter(est_elements=est, false_positive_rate=fpr, max_queue_size=3, **hf)
                if kind == "cms":
                    return P.CountMinSketch(width=5, depth=3, **hf)
                if kind == "cmean":
                    return P.CountMeanMinSketch(width=5, depth=4, **hf)
                if kind == "hh":
                    return P.HeavyHitters(num_hitters=3, width=5, depth=3, **hf)
                if kind == "st":
                    return P.StreamThreshold(threshold=2, width=5, depth=3, **hf)
                if kind == "cuckoo":
                    return P.CuckooFilter(capacity=10, bucket_size=2, max_swaps=10)
                if kind == "ccf":
                    return P.CountingCuckooFilter(capacity=10, bucket_size=2, max_swaps=10)
                return P.QuotientFilter(quotient=5)

            try:
                obj = make()
            except P.exceptions.InitializationError:
                return None
            for k in case["adds"]:
                obj.add(k)
            if case.get("twist") and kind == "qf":
                # filled to the point where the next insertion would resize it: a look-up is not an insertion
                i = 0
                while obj.load_factor < 0.85 and i < 200:
                    obj.add("fill-%d-%d" % (case["seed"] % 97, i))
                    i += 1
            if case.get("twist") and kind in ("expanding", "rotating"):
                obj.push()
                obj.push()  # two never-written filters at the end of the queue
            if case.get("twist"):
                if kind in ("bloom", "cbf"):
                    got = sparse_result(make, tag=str(case["seed"] % 7))
                    if got is not None:
                        obj = got[0]
                elif kind in ("cms", "cmean", "st"):
                    net_zero(obj)
            # half of the cases observe a structure that was exported and loaded back (reachable state too)
            if case["seed"] % 2 == 0 and kind not in ("qf", "ondisk") and not (case.get("twist") and kind == "st"):
                cls = type(obj)
                kw = dict(hf)
                if kind == "rotating":
                    kw["max_queue_size"] = 3
                if kind == "hh":
                    kw["num_hitters"] = 3
                if kind == "st":
                    kw["threshold"] = 2
                if kind not in ("hh", "st"):
                    obj = cls.frombytes(bytes(obj), **kw)
            # an untouched twin with the same history: after the read-only calls the watched structure has to go on
            # behaving like it (a query that re-orders or caches something inside shows only in what happens NEXT)
            twin = None
            reloaded = case["seed"] % 2 == 0 and kind not in ("qf", "ondisk", "hh", "st")
            if not reloaded and not case.get("twist") and kind in ("bloom", "cbf", "cms", "cmean", "hh", "st", "expanding", "rotating", "qf"):
                twin = make()
                for k in case["adds"]:
                    twin.add(k)
            before = snapshot(kind, obj)
            bytes_before = bytes(obj) if kind != "qf" else None
            reads = []
            if kind != "qf":
                reads.append(("bytes()", lambda: bytes(obj)))
            for k in case["probes"]:
                reads.append(("check", lambda k=k: obj.check(k)))
                reads.append(("in", lambda k=k: k in obj))
                if hasattr(obj, "hashes") and kind != "qf":
                    reads.append(("hashes", lambda k=k: obj.hashes(k)))
            reads.append(("str", lambda: str(obj)))
            if kind != "qf":
                reads.append(("bytes", lambda: bytes(obj)))
                reads.append(("export", lambda: obj.export(os.path.join(tmp, "out.bin"))))
                if kind != "ondisk":
                    reads.append(("export-fileobj", lambda: obj.export(open(os.path.join(tmp, "out2.bin"), "wb"))))
            if kind in ("bloom", "cbf", "ondisk"):
                reads += [("estimate_elements", obj.estimate_elements), ("current_false_positive_rate", obj.current_false_positive_rate), ("export_size", obj.export_size)]
                if kind != "ondisk":
                    reads.append(("export_hex", obj.export_hex))
                    reads.append(("export_c_header", lambda: obj.export_c_header(os.path.join(tmp, "h.h"))))
                other = make() if kind != "ondisk" else P.BloomFilter(est_elements=est, false_positive_rate=fpr, **hf)
                other.add("other")
                ob = snapshot("bloom" if kind == "ondisk" else kind, other)
                for nm in ("union", "intersection", "jaccard_index"):
                    reads.append((nm, lambda nm=nm: getattr(obj, nm)(other)))
                    reads.append((nm + "-rhs", lambda nm=nm: getattr(other, nm)(obj)))
            if kind in ("expanding", "rotating"):
                reads.append(("expansions", lambda: obj.expansions))
            if kind in ("cuckoo", "ccf"):
                reads.append(("load_factor", obj.load_factor))
            if kind == "qf":
                reads += [("get_hashes", obj.get_hashes), ("load_factor", lambda: obj.load_factor), ("print", lambda: obj.print(file=io.StringIO())), ("validate", obj.validate_metadata)]
            if kind in ("cms", "cmean"):
                o2 = make()
                o2.add("z")
                reads.append(("join-rhs", lambda: o2.join(obj)))
            for name, fn in reads:
                res = core.call(fn)
                if res[0] == "err" and name not in ("export_c_header",):
                    return f"read-only call {name} raised {res[1]}"
                if snapshot(kind, obj) != before:
                    return f"read-only call {name} changed the structure"
            if kind != "qf":
                # exporting is repeatable: the same bytes every time
                b1, b2 = bytes(obj), bytes(obj)
                if not (bytes_before == b1 == b2):
                    return f"bytes() of the same unchanged structure gave different results on repeated calls (lengths {len(bytes_before)}, {len(b1)}, {len(b2)})"
            if twin is not None:
                # further additions, among them keys never seen before (they evict, where something is tracked)
                more = case["keys"] + case["adds"][:6]
                more = [x for pair in zip(more, ["fresh-%d" % j for j in range(len(more))]) for x in pair] if kind in ("hh", "st") else more
                for i, k in enumerate(more):
                    n = 1 + (i % 3)
                    args = (k, n) if kind in ("cbf", "cms", "cmean", "hh", "st") else (k,)
                    ra, rb = core.call(obj.add, *args), core.call(twin.add, *args)
                    if ra != rb:
                        return f"after the read-only calls the structure behaves differently from a twin that was never queried (add #{i} of {k!r} returned {ra[1]!r} instead of {rb[1]!r})"
                    # the twin is looked at for the first time after the first further addition (looking at it is a
                    # query too): that is where a difference caused by the earlier queries shows
                    if snapshot(kind, obj) != snapshot(kind, twin):
                        return f"after the read-only calls and {i + 1} further addition(s) the structure differs from a twin that had not been queried"
            # clear
            if hasattr(obj, "clear"):
                obj.clear()
                fresh = make()
                if kind == "ondisk":
                    if bytes(obj.bloom) != bytes(fresh.bloom) or obj.elements_added != 0:
                        return "clear() differs from a freshly constructed structure"
                elif snapshot(kind, obj) != snapshot(kind, fresh):
                    return "clear() differs from a freshly constructed structure"
                for k in case["probes"]:
                    if obj.check(k) != fresh.check(k):
                        return f"after clear() check({k!r}) differs from a fresh structure"
                # indistinguishable also in what happens next: the same additions on both
                if kind != "ondisk":
                    for i, k in enumerate(case["adds"][::-1] + case["keys"]):
                        n = 1 + (i % 3)
                        ra = core.call(obj.add, k, n) if kind in ("cbf", "cms", "cmean", "hh", "st") else core.call(obj.add, k)
                        rb = core.call(fresh.add, k, n) if kind in ("cbf", "cms", "cmean", "hh", "st") else core.call(fresh.add, k)
                        if ra != rb or snapshot(kind, obj) != snapshot(kind, fresh):
                            return f"after clear() the structure behaves differently from a fresh one (add #{i} of {k!r})"
                if kind == "ondisk":
                    fresh.close()
            if kind == "ondisk":
                obj.close()
        finally:
            pyrandom.setstate(state)
            os.chdir(cwd)
    return None


def gen_tables(rng):
    """directed: the structures that keep a table next to their counters, small tables, many ties — whether
    looking at the table changes which key leaves next shows only when several tracked keys tie"""
    kind = rng.choice(["hh", "hh", "st"])
    keys = ["t%d" % rng.randrange(40) for _ in range(rng.randint(2, 6))]
    return {"kind": kind, "est": 3, "fpr": 0.1, "keys": keys, "adds": [rng.choice(keys) for _ in range(rng.randint(2, 8))], "probes": keys[:2], "seed": 2 * rng.randrange(2**31) + 1,
            "twist": False, "strat": "fnv"}


def run(tier, seed, deep, hints):
    f2, s2 = drive(tier, seed, deep, "search-C19-tables", gen_tables, check, None, lambda c, b: {"structure": c["kind"], "failure": b[:50]}, n_quick=300, n_thorough=4000)
    if f2:
        return f2, s2
    f1, s1 = drive(tier, seed, deep, "search-C19", gen, check, None, lambda c, b: {"structure": c["kind"], "failure": b[:50]}, n_quick=250, n_thorough=5000)
    s1["evaluations"] += s2["evaluations"]
    s1["distinct_nontrivial"] += s2["distinct_nontrivial"]
    return f1, s1


def replay(finding):
    bad = check(finding["case"])
    return bad is None, f"{finding['case']} -> {bad or 'queries pure, clear resets'}"
