"""Failing-input search for C06 on the real code.  An independent reference writer and reader,
written here from the documented C-compatible layout only (little-endian cells, fixed footers,
FNV-1a 64 with the offset basis advanced by 31 per index, position = hash mod size), must agree
byte-for-byte / answer-for-answer with the library."""
import random as pyrandom
import struct

import core
from search.common import drive

BASIS, PRIME, M64 = 14695981039346656037, 1099511628211, 2**64


def ref_hashes(key, depth):
    data = key.encode("utf-8") if isinstance(key, str) else bytes(key)
    out = []
    for i in range(depth):
        h = (BASIS + 31 * i) % M64
        for b in data:
            h = ((h ^ b) * PRIME) % M64
        out.append(h)
    return out


def ref_geometry(est, fpr32):
    """geometry as the C library derives it from the footer (doubles, float32 rate)"""
    import math

    m = math.ceil((-est * math.log(fpr32)) / 0.4804530139182)
    k = int(round(0.6931471805599453 * m / est))
    return k, m


def f32(x):
    return struct.unpack("<f", struct.pack("<f", x))[0]


def ref_bloom_writer(est, fpr, keys):
    t = f32(fpr)
    k, m = ref_geometry(est, t)
    arr = bytearray((m + 7) // 8)
    for key in keys:
        for h in ref_hashes(key, k):
            p = h % m
            arr[p // 8] |= 1 << (p % 8)
    return bytes(arr) + struct.pack("<QQf", est, len(keys), t)


def ref_bloom_reader(data, key):
    est, added, fpr = struct.unpack("<QQf", data[-20:])
    k, m = ref_geometry(est, fpr)
    for h in ref_hashes(key, k):
        p = h % m
        if not (data[p // 8] >> (p % 8)) & 1:
            return False
    return True


def ref_cbf_writer(est, fpr, adds):
    """adds: (key, n) with n > 0 an addition, n < 0 the removal of -n (only of what is there)"""
    t = f32(fpr)
    k, m = ref_geometry(est, t)
    cells = [0] * m
    total = 0
    for key, n in adds:
        pos = [h % m for h in ref_hashes(key, k)]
        if n > 0:
            for p in pos:
                cells[p] = min(cells[p] + n, 2**32 - 1)
            total = min(total + n, 2**64 - 1)
        else:
            low = min(cells[p] for p in pos)
            if low in (0, 2**32 - 1):
                continue
            r = min(-n, low)
            for p in pos:
                if cells[p] < 2**32 - 1:
                    cells[p] -= r
            total -= r
    return struct.pack("<%dI" % m, *cells) + struct.pack("<QQf", est, total, t)


def ref_cbf_reader(data, key):
    est, added, fpr = struct.unpack("<QQf", data[-20:])
    k, m = ref_geometry(est, fpr)
    return min(struct.unpack_from("<I", data, 4 * (h % m))[0] for h in ref_hashes(key, k))


def ref_cms_writer(width, depth, adds):
    bins = [0] * (width * depth)
    total = 0
    for key, n in adds:
        for i, h in enumerate(ref_hashes(key, depth)):
            j = i * width + h % width
            bins[j] = max(-(2**31), min(2**31 - 1, bins[j] + n))
        total += n
    return struct.pack("<%di" % (width * depth), *bins) + struct.pack("<IIq", width, depth, total)


def ref_cms_reader(data, key, mode):
    width, depth, total = struct.unpack("<IIq", data[-16:])
    vals = sorted(struct.unpack_from("<i", data, 4 * (i * width + h % width))[0] for i, h in enumerate(ref_hashes(key, depth)))
    if mode == "min":
        return vals[0]
    if mode == "mean":
        return sum(vals) // depth
    if vals[0] == 0 and vals[-1] == 0:
        return 0
    mm = sorted(v - (total - v) // (width - 1) for v in vals)
    if depth % 2 == 0:
        return (mm[depth // 2] + mm[depth // 2 - 1]) // 2
    return mm[depth // 2]


def gen(rng):
    kind = rng.choice(["bloom", "bloom-ondisk", "cbf", "cms-min", "cms-mean", "cms-meanmin", "expanding", "rotating", "cuckoo", "ccf"])
    keys = []
    for i in range(rng.randint(0, 25)):
        keys.append("k%d" % rng.randrange(10**4) if rng.random() < 0.7 else bytes(rng.randrange(256) for _ in range(rng.randint(0, 5))) + bytes([i]))
    return {"kind": kind, "est": rng.choice([1, 2, 3, 5, 10, 33, 100]), "fpr": rng.choice([0.3, 0.2, 0.1, 0.05, 0.01, 0.001]), "w": rng.choice([2, 3, 7, 100]), "d": rng.choice([1, 2, 3, 4, 5]), "keys": keys,
            "amounts": [rng.choice([1, 1, 2, 5, 2**31, 2**32]) for _ in keys], "probes": keys + ["absent-%d" % i for i in range(5)], "seed": rng.randrange(2**32), "q": rng.choice([1, 2, 3])}


def check(case):
    import probables as P

    kind, keys, probes = case["kind"], case["keys"], case["probes"]
    if kind == "bloom":
        try:
            b = P.BloomFilter(est_elements=case["est"], false_positive_rate=case["fpr"])
        except P.exceptions.InitializationError:
            return None
        for k in keys:
            b.add(k)
        data = bytes(b)
        if data != ref_bloom_writer(case["est"], case["fpr"], keys):
            return "Bloom export differs from the reference writer's file"
        with core.Scratch() as tmp:
            import os as _os

            p = _os.path.join(tmp, "e.blm")
            with open(p, "wb") as fh:  # the target exists already and is larger
                fh.write(b"\xc3" * (len(data) + 555))
            b.export(p)
            with open(p, "rb") as fh:
                if fh.read() != data:
                    return "Bloom export written over an existing larger file is not the documented file (cells + footer and nothing else)"
        if bytes.fromhex(b.export_hex()) != data[:-20] + struct.pack(">QQf", case["est"], len(keys), f32(case["fpr"])):
            return "Bloom hex export is not hex(cells) + hex(big-endian footer)"
        for k in probes:
            if ref_bloom_reader(data, k) != b.check(k):
                return f"reference reader and library disagree on {k!r}"
    elif kind == "bloom-ondisk":
        # the on-disk filter's file IS the documented export at every quiet moment, also after a clear()
        import os as _os

        with core.Scratch() as tmp:
            path = _os.path.join(tmp, "d.blm")
            try:
                b = P.BloomFilterOnDisk(path, est_elements=case["est"], false_positive_rate=case["fpr"])
            except P.exceptions.InitializationError:
                return None
            try:
                cut = len(keys) // 2 if case["seed"] % 2 == 0 else None
                since = []
                for i, k in enumerate(keys):
                    if cut is not None and i == cut:
                        b.clear()
                        since = []
                    b.add(k)
                    since.append(k)
                with open(path, "rb") as fh:
                    data = fh.read()
                want = ref_bloom_writer(case["est"], case["fpr"], since)
                if data != want:
                    return "on-disk Bloom file differs from the reference writer's file" + (" (history with clear())" if cut is not None else "")
                if bytes(b) != want:
                    return "bytes() of the on-disk Bloom filter differs from the reference writer's file"
                for k in probes:
                    if ref_bloom_reader(data, k) != b.check(k):
                        return f"reference reader of the on-disk file and library disagree on {k!r}"
            finally:
                b.close()
    elif kind == "cbf":
        try:
            b = P.CountingBloomFilter(est_elements=case["est"], false_positive_rate=case["fpr"])
        except P.exceptions.InitializationError:
            return None
        adds = list(zip(keys, case["amounts"]))
        # every third key is (partly) removed again later on
        adds += [(k, -min(n, 2)) for k, n in adds[::3] if n < 2**31]
        outstanding = {}
        done = []
        for k, n in adds:
            if n > 0:
                b.add(k, n)
                outstanding[k] = outstanding.get(k, 0) + n
                done.append((k, n))
            elif outstanding.get(k, 0) >= -n:
                b.remove(k, -n)
                outstanding[k] += n
                done.append((k, n))
        adds = done
        data = bytes(b)
        if data != ref_cbf_writer(case["est"], case["fpr"], adds):
            return "counting Bloom export differs from the reference writer's file"
        for k in probes:
            if ref_cbf_reader(data, k) != b.check(k):
                return f"reference counting reader and library disagree on {k!r}"
    elif kind.startswith("cms"):
        mode = kind.split("-")[1]
        cls = {"min": P.CountMinSketch, "mean": P.CountMeanSketch, "meanmin": P.CountMeanMinSketch}[mode]
        c = cls(width=case["w"], depth=case["d"])
        adds = list(zip(keys, case["amounts"]))
        # the history also removes (from other keys too: the total is a signed net count) and clears; the
        # reference writer replays it: add = +n, remove = -n on the key's cells, clear = start again
        hist = [("add", k, n) for k, n in adds]
        if case["seed"] % 3 == 0 and adds:
            total = sum(n for _, n in adds)
            cut = len(hist) // 2
            net = sum(n for _, _, n in hist[:cut])
            hist = hist[:cut] + ([("rem", "other-%d" % case["seed"], net)] if net > 0 else []) + [("clear",)] + hist[cut:]
        elif case["seed"] % 3 == 1:
            hist += [("rem", k, min(n, 3)) for k, n in adds[::2]]
            if case["seed"] % 2 == 0:
                # more removed than added: the total is a signed 64-bit count in the documented footer
                hist.append(("rem", "other-%d" % case["seed"], sum(n for _, n in adds) + 2))
        replayed = []
        for op in hist:
            if op[0] == "add":
                c.add(op[1], op[2])
                replayed.append((op[1], op[2]))
            elif op[0] == "rem":
                c.remove(op[1], op[2])
                replayed.append((op[1], -op[2]))
            else:
                c.clear()
                replayed = []
        data = bytes(c)
        if data != ref_cms_writer(case["w"], case["d"], replayed):
            return "count-min export differs from the reference writer's file" + (" (history with clear())" if any(o[0] == "clear" for o in hist) else "")
        for k in probes:
            if ref_cms_reader(data, k, mode) != c.check(k):
                return f"reference count-min reader ({mode}) and library disagree on {k!r}: {ref_cms_reader(data, k, mode)} vs {c.check(k)}"
    elif kind in ("expanding", "rotating"):
        try:
            if kind == "expanding":
                e = P.ExpandingBloomFilter(est_elements=case["est"], false_positive_rate=case["fpr"])
            else:
                e = P.RotatingBloomFilter(est_elements=case["est"], false_positive_rate=case["fpr"], max_queue_size=case["q"])
        except P.exceptions.InitializationError:
            return None
        for k in keys:
            e.add(k)
        data = bytes(e)
        n, est, added, fpr = struct.unpack("<QQQf", data[-28:])
        if (n, est, added) != (len(e._blooms), case["est"], len(keys)) or fpr != f32(case["fpr"]):
            return f"{kind} footer is not (filters, est, added, fpr32) as uint64×3 + float32"
        k_, m_ = ref_geometry(est, fpr)
        blen = (m_ + 7) // 8
        if len(data) != n * (8 + blen) + 28:
            return f"{kind} export length is not filters×(8 + ceil(m/8)) + 28"
        for i, blm in enumerate(e._blooms):
            off = i * (8 + blen)
            if struct.unpack_from("<Q", data, off)[0] != blm.elements_added or data[off + 8 : off + 8 + blen] != bytes(blm.bloom):
                return f"{kind} export: filter {i} is not (uint64 count, bit array)"
        # the reference reader: any filter has all bits of the key
        for key in probes:
            got = False
            for i in range(n):
                off = i * (8 + blen) + 8
                if all((data[off + (h % m_) // 8] >> ((h % m_) % 8)) & 1 for h in ref_hashes(key, k_)):
                    got = True
                    break
            if got != e.check(key):
                return f"reference {kind} reader and library disagree on {key!r}"
    else:
        state = pyrandom.getstate()
        try:
            pyrandom.seed(case["seed"])
            cls = P.CuckooFilter if kind == "cuckoo" else P.CountingCuckooFilter
            c = cls(capacity=rng_cap(case), bucket_size=2, max_swaps=20, finger_size=1 + case["d"] % 4)
            try:
                for k in keys:
                    if isinstance(k, str):
                        c.add(k)
                        if kind == "ccf" and len(k) % 2:
                            c.add(k)
            except P.exceptions.CuckooFilterFullError:
                pass  # a refused insertion is legitimate; the layout is checked on the state reached
            data = bytes(c)
        finally:
            pyrandom.setstate(state)
        b, swaps = struct.unpack("<II", data[-8:])
        if (b, swaps) != (c.bucket_size, c.max_swaps):
            return "cuckoo footer is not (bucket_size, max_swaps) as two uint32"
        width = 4 if kind == "cuckoo" else 8
        if len(data) != c.capacity * b * width + 8:
            return "cuckoo export length is not capacity×bucket_size×cell + 8"
        for i, bkt in enumerate(c.buckets):
            cells = []
            for j in range(b):
                off = (i * b + j) * width
                if kind == "cuckoo":
                    cells.append(struct.unpack_from("<I", data, off)[0])
                else:
                    cells.append(struct.unpack_from("<II", data, off))
            want = [int(f) for f in bkt] + [0] * (b - len(bkt)) if kind == "cuckoo" else [(int(x.finger), int(x.count)) for x in bkt] + [(0, 0)] * (b - len(bkt))
            if cells != want:
                return f"cuckoo export: bucket {i} is {cells}, table has {want}"
        # reference reader written from the documented rule, given only the file, the fingerprint width and a key:
        # fp = low bits of FNV-1a(key) (0 -> 1); candidate buckets fp mod capacity and FNV-1a(str(fp)) mod capacity
        cap = (len(data) - 8) // (b * width)
        fbits = c.fingerprint_size_bits

        def file_bucket(i):
            return [struct.unpack_from("<I", data, (i * b + j) * width)[0] for j in range(b)]

        def candidates(fp):
            return fp % cap, ref_hashes(str(fp), 1)[0] % cap

        for i in range(cap):
            for fp in file_bucket(i):
                if fp != 0 and i not in candidates(fp):
                    return f"cuckoo export: fingerprint {fp} sits in bucket {i}, the documented rule allows {sorted(set(candidates(fp)))} (capacity {cap})"
        for key in probes:
            if not isinstance(key, str):
                continue
            fp = ref_hashes(key, 1)[0] & (2**fbits - 1) or 1
            i1, i2 = candidates(fp)
            got = fp in file_bucket(i1) or fp in file_bucket(i2)
            lib = bool(c.check(key))
            if got != lib:
                return f"reference cuckoo reader and library disagree on {key!r}: reader {got}, library {lib}"
    return None


def rng_cap(case):
    return 2 + case["est"] % 7


def check_geometry(hit):
    """a geometry on which the library departs from the documented sizing rule: the reference reader,
    which derives (k, m) from the footer by that rule, then reads other bits than the library wrote"""
    import probables as P

    est, fpr = hit["est"], hit["fpr"]
    b = P.BloomFilter(est_elements=est, false_positive_rate=fpr)
    keys = ["geo-%d" % i for i in range(40)]
    for k in keys:
        b.add(k)
    data = bytes(b)
    lost = [k for k in keys if not ref_bloom_reader(data, k)]
    base = f"BloomFilter(est_elements={est}, false_positive_rate={fpr}) has (hashes, bits) = {tuple(hit['got'])}, the documented rule ceil(-n ln p / 0.4804530139182), round(0.6931471805599453 m/n) gives {tuple(hit['documented'])}"
    if lost:
        return base + f"; the reference reader of the exported file reports {len(lost)} of {len(keys)} added keys absent"
    if data != ref_bloom_writer(est, fpr, keys):
        return base + "; the exported file differs from the reference writer's"
    return base


def run(tier, seed, deep, hints):
    from search.common import geometry_scan

    n_max = 300000 if (tier == "quick" and not deep) else 30000000
    hit, scanned, calls = geometry_scan(n_max)
    if hit:
        what = check_geometry(hit)
        return [{"what": what, "case": {"kind": "geometry", **hit}, "signature": {"structure": "bloom", "failure": "sizing departs from the documented rule"}}], {
            "evaluations": scanned, "distinct_nontrivial": calls, "samples": [{"search_case": hit}]}
    f, st = _run_random(tier, seed, deep, hints)
    st["geometry_scan"] = {"est_values_scanned": scanned, "real_calls": calls}
    st["evaluations"] += calls
    return f, st


def _run_random(tier, seed, deep, hints):
    return drive(tier, seed, deep, "search-C06", gen, check, None, lambda c, b: {"structure": c["kind"], "failure": "".join(ch for ch in b if not ch.isdigit())[:45]}, n_quick=300, n_thorough=6000)


def replay(finding):
    if finding["case"].get("kind") == "geometry":
        import math
        import struct

        from probables import BloomFilter

        c = finding["case"]
        got = BloomFilter._get_optimized_params(c["est"], c["fpr"])
        ok = [got[1], got[2]] == c["documented"]
        return ok, f"est_elements={c['est']} fpr={c['fpr']}: library (hashes, bits) = {(got[1], got[2])}, documented rule {tuple(c['documented'])}"
    bad = check(finding["case"])
    return bad is None, f"{finding['case']['kind']} keys={finding['case']['keys'][:5]}… -> {bad or 'file is the documented layout'}"
