"""Failing-input search for C05 (export → load round trip on every channel) on the real code.

Oracle (model-free): build a structure by a random history, export it through every channel it
offers, load each export back (re-supplying only what the format does not store), and require
 * all binary channels carry the same payload (hex channel: same bytes for the cell array),
 * the loaded structure reports the same geometry and element count,
 * it answers every probe query (members and non-members) like the original,
 * it is of the receiver's class and exports again to exactly the same bytes."""
import io
import os
import random as pyrandom

import core
from corr.bloom import strategy

STRATS = ["fnv", "fnv", "md5", "sha256", "custom", "dint:fnvseed", "dbytes:fnvle"]


def _keys(rng, n):
    out = []
    for i in range(n):
        if rng.random() < 0.7:
            out.append("k%d-%d" % (i, rng.randrange(10**6)))
        else:
            out.append(bytes([rng.randrange(256) for _ in range(rng.randint(1, 6))]) + bytes([i]))
    return out


def _export_channels(obj, tmp, tag):
    """dict channel -> bytes"""
    chans = {}
    chans["bytes"] = bytes(obj)
    p = os.path.join(tmp, tag + ".a")
    # the target already exists and is LARGER than the export (an older, bigger export; junk): the file
    # afterwards has to be the export and nothing else
    with open(p, "wb") as fh:
        fh.write(b"\xa5" * (len(chans["bytes"]) + 4096))
    obj.export(p)
    with open(p, "rb") as fh:
        chans["path"] = fh.read()
    obj.export(p)  # and once more onto its own previous export
    with open(p, "rb") as fh:
        chans["path-again"] = fh.read()
    # ... and onto an export of the same size with the same footer but other cells (another structure of the same
    # geometry and count was exported there before): "nothing changed" cannot be read off size and footer
    decoy = bytearray(chans["bytes"])
    if len(decoy) > 24:
        decoy[0] ^= 0xFF
        decoy[len(decoy) // 3] ^= 0x55
        with open(p, "wb") as fh:
            fh.write(bytes(decoy))
        obj.export(p)
        with open(p, "rb") as fh:
            chans["path-over-same-footer"] = fh.read()
    p2 = os.path.join(tmp, tag + ".b")
    with open(p2, "wb") as fh:
        obj.export(fh)
    with open(p2, "rb") as fh:
        chans["fileobj"] = fh.read()
    return chans, p


def _case_bloom(rng, tmp, counting):
    from probables import BloomFilter, CountingBloomFilter

    cls = CountingBloomFilter if counting else BloomFilter
    est = rng.choice([1, 2, 3, 5, 10, 17, 40, 200])
    fpr = rng.choice([0.5, 0.3, 0.1, 0.05, 0.01, 0.001, rng.uniform(0.001, 0.9)])
    sname = rng.choice(STRATS)
    fn = strategy(sname)[0]
    obj = cls(est_elements=est, false_positive_rate=fpr, hash_function=fn)
    keys = _keys(rng, rng.randint(0, 30))
    members = keys[: len(keys) * 2 // 3]
    for k in members:
        if counting:
            obj.add(k, rng.choice([1, 1, 2, 5, 2**32 - 1]))
        else:
            obj.add(k)
    if counting:
        for k in members[: len(members) // 3]:
            obj.remove(k, 1)
    desc = f"{cls.__name__}(est={est}, fpr={fpr!r}, hash={sname}) after {len(members)} adds"
    chans, path = _export_channels(obj, tmp, "bl")
    hexs = obj.export_hex()
    probs = []
    if len(set(chans.values())) != 1:
        probs.append("binary channels carry different payloads")
    body = chans["bytes"][:-20]
    if bytes.fromhex(hexs)[: len(body)] != body:
        probs.append("hex channel carries a different cell array")
    loaders = {
        "frombytes": lambda: cls.frombytes(chans["bytes"], hash_function=fn),
        "filepath": lambda: cls(filepath=path, hash_function=fn),
        "hex": lambda: cls(hex_string=hexs, hash_function=fn),
    }
    for name, ld in loaders.items():
        res = core.call(ld)
        if res[0] == "err":
            probs.append(f"load via {name} raised {res[1]}")
            continue
        new = res[1]
        if type(new) is not cls:
            probs.append(f"load via {name} returned {type(new).__name__}")
        for attr in ("number_bits", "number_hashes", "bloom_length", "estimated_elements", "elements_added", "false_positive_rate"):
            if getattr(new, attr) != getattr(obj, attr):
                probs.append(f"load via {name}: {attr} {getattr(new, attr)!r} != {getattr(obj, attr)!r}")
        if new.export_size() != obj.export_size():
            probs.append(f"load via {name}: export_size differs")
        for k in keys:
            if new.check(k) != obj.check(k):
                probs.append(f"load via {name}: check({k!r}) differs")
                break
        if bytes(new) != chans["bytes"] or new.export_hex() != hexs:
            probs.append(f"load via {name}: re-export differs")
    return desc, probs


def _case_expanding(rng, tmp, rotating):
    from probables import ExpandingBloomFilter, RotatingBloomFilter

    est = rng.choice([1, 2, 3, 5, 10])
    fpr = rng.choice([0.3, 0.1, 0.05, 0.01])
    sname = rng.choice(STRATS)
    fn = strategy(sname)[0]
    q = rng.choice([1, 2, 3, 5])
    if rotating:
        obj = RotatingBloomFilter(est_elements=est, false_positive_rate=fpr, max_queue_size=q, hash_function=fn)
    else:
        obj = ExpandingBloomFilter(est_elements=est, false_positive_rate=fpr, hash_function=fn)
    keys = _keys(rng, rng.randint(0, 40))
    members = keys[: len(keys) * 2 // 3]
    for k in members:
        obj.add(k, force=rng.random() < 0.1)
        if rng.random() < 0.05:
            obj.push()
    desc = f"{type(obj).__name__}(est={est}, fpr={fpr}, q={q}, hash={sname}) after {len(members)} adds"
    chans, path = _export_channels(obj, tmp, "xb")
    probs = []
    if len(set(chans.values())) != 1:
        probs.append("binary channels carry different payloads")
    if rotating:
        loaders = {
            "frombytes": lambda: RotatingBloomFilter.frombytes(chans["bytes"], max_queue_size=q, hash_function=fn),
            "filepath": lambda: RotatingBloomFilter(filepath=path, max_queue_size=q, hash_function=fn),
        }
    else:
        loaders = {
            "frombytes": lambda: ExpandingBloomFilter.frombytes(chans["bytes"], hash_function=fn),
            "filepath": lambda: ExpandingBloomFilter(filepath=path, hash_function=fn),
        }
    import struct

    f32 = lambda x: struct.unpack("f", struct.pack("f", x))[0]
    for name, ld in loaders.items():
        res = core.call(ld)
        if res[0] == "err":
            probs.append(f"load via {name} raised {res[1]}")
            continue
        new = res[1]
        if type(new) is not type(obj):
            probs.append(f"load via {name} returned {type(new).__name__}")
        if (new.expansions, new.elements_added, new.estimated_elements) != (obj.expansions, obj.elements_added, obj.estimated_elements):
            probs.append(f"load via {name}: expansions/elements_added/estimated_elements differ")
        if f32(new.false_positive_rate) != f32(obj.false_positive_rate):
            probs.append(f"load via {name}: false_positive_rate differs beyond float32")
        if [b.elements_added for b in new._blooms] != [b.elements_added for b in obj._blooms]:
            probs.append(f"load via {name}: per-filter counts differ")
        for k in keys:
            if new.check(k) != obj.check(k):
                probs.append(f"load via {name}: check({k!r}) differs")
                break
        if bytes(new) != chans["bytes"]:
            probs.append(f"load via {name}: re-export differs")
    return desc, probs


def _case_cms(rng, tmp):
    import probables as P

    kind = rng.choice(["CountMinSketch", "CountMeanSketch", "CountMeanMinSketch", "HeavyHitters", "StreamThreshold"])
    cls = getattr(P, kind)
    w, d = rng.choice([(2, 2), (3, 4), (7, 3), (50, 5), (1000, 5)])
    sname = rng.choice(STRATS)
    fn = strategy(sname)[0]
    extra = {}
    if kind == "HeavyHitters":
        extra = {"num_hitters": rng.choice([1, 3, 10])}
    if kind == "StreamThreshold":
        extra = {"threshold": rng.choice([1, 3, 10])}
    obj = cls(width=w, depth=d, hash_function=fn, **extra)
    keys = ["k%d" % i for i in range(rng.randint(1, 15))]
    members = keys[: max(1, len(keys) * 2 // 3)]
    for k in members:
        obj.add(k, rng.choice([1, 2, 5, 2**31 - 1]))
    if kind in ("CountMinSketch", "CountMeanSketch", "CountMeanMinSketch", "StreamThreshold"):
        for k in members[: len(members) // 3]:
            obj.remove(k, 1)
    netzero = False
    if kind in ("CountMinSketch", "CountMeanSketch", "CountMeanMinSketch", "StreamThreshold") and rng.random() < 0.3:
        # additions and removals that cancel in the total while the bins are not zero (the total is a signed net
        # count, not a summary of the bins)
        from search.common import net_zero

        netzero = net_zero(obj)
        if netzero and rng.random() < 0.5:
            core.call(obj.remove, "nz-further", rng.choice([1, 3, 2**31]))  # and below zero: the total is signed
    desc = f"{kind}(width={w}, depth={d}, hash={sname}) after {len(members)} adds" + (" and a removal from another key that brings elements_added to 0" if netzero else "")
    chans, path = _export_channels(obj, tmp, "cm")
    probs = []
    if len(set(chans.values())) != 1:
        probs.append("binary channels carry different payloads")
    loaders = {
        "frombytes": lambda: cls.frombytes(chans["bytes"], hash_function=fn, **extra),
        "filepath": lambda: cls(filepath=path, hash_function=fn, **extra),
    }
    for name, ld in loaders.items():
        res = core.call(ld)
        if res[0] == "err":
            probs.append(f"load via {name} raised {res[1]}")
            continue
        new = res[1]
        if type(new) is not cls:
            probs.append(f"load via {name} returned a {type(new).__name__}")
        if (new.width, new.depth, new.elements_added) != (obj.width, obj.depth, obj.elements_added):
            probs.append(f"load via {name}: width/depth/elements_added differ")
        for k in keys:
            if new.check(k) != obj.check(k):
                probs.append(f"load via {name}: check({k!r}) answers {new.check(k)} instead of {obj.check(k)} (query type {new.query_type} vs {obj.query_type})")
                break
        if bytes(new) != chans["bytes"]:
            probs.append(f"load via {name}: re-export differs")
    return desc, probs


def _case_cuckoo(rng, tmp, counting):
    from probables import CountingCuckooFilter, CuckooFilter

    cls = CountingCuckooFilter if counting else CuckooFilter
    cap = rng.choice([2, 3, 5, 10, 50])
    b = rng.choice([1, 2, 4])
    fsz = rng.choice([1, 1, 2, 4])
    swaps = rng.choice([5, 50, 500])
    pyrandom.seed(rng.randrange(2**32))
    by_rate = rng.random() < 0.4
    rate = rng.choice([0.1, 0.05, 0.01, 0.001, 0.0001])
    if by_rate:
        b = rng.choice([1, 2, 3, 4, 6, 8])
        obj = cls.init_error_rate(rate, capacity=cap, bucket_size=b, max_swaps=swaps, auto_expand=True)
    else:
        obj = cls(capacity=cap, bucket_size=b, max_swaps=swaps, finger_size=fsz, auto_expand=True)
    keys = ["c%d" % rng.randrange(5000) for _ in range(rng.randint(1, 2 * cap * b))]
    members = keys[: max(1, len(keys) * 2 // 3)]
    from probables.exceptions import CuckooFilterFullError

    try:
        for k in members:
            obj.add(k)
            if counting and rng.random() < 0.3:
                obj.add(k)
    except CuckooFilterFullError:
        pass  # a refused insertion is legitimate; the round trip is checked on the state reached
    for k in members[: len(members) // 4]:
        obj.remove(k)
    desc = f"{cls.__name__}(capacity={cap}, bucket_size={b}, " + (f"error_rate={rate}" if by_rate else f"finger_size={fsz}") + f", max_swaps={swaps}) after {len(members)} adds"
    chans, path = _export_channels(obj, tmp, "ck")
    probs = []
    if len(set(chans.values())) != 1:
        probs.append("binary channels carry different payloads")
    er = obj.error_rate

    def with_params(new):
        if by_rate:
            new._set_error_rate(rate)
        else:
            new.fingerprint_size = fsz
        return new

    loaders = {
        "frombytes": lambda: with_params(cls.frombytes(chans["bytes"])),
        "filepath": lambda: with_params(cls(filepath=path)),
        "load_error_rate": lambda: cls.load_error_rate(error_rate=er, filepath=path),
    }
    if by_rate:
        loaders["frombytes(error_rate)"] = lambda: cls.frombytes(chans["bytes"], error_rate=rate)
        loaders["load_error_rate(rate)"] = lambda: cls.load_error_rate(error_rate=rate, filepath=path)
    for name, ld in loaders.items():
        res = core.call(ld)
        if res[0] == "err":
            probs.append(f"load via {name} raised {res[1]}")
            continue
        new = res[1]
        if type(new) is not cls:
            probs.append(f"load via {name} returned {type(new).__name__}")
        if (new.capacity, new.bucket_size, new.max_swaps, new.elements_added) != (obj.capacity, obj.bucket_size, obj.max_swaps, obj.elements_added):
            probs.append(f"load via {name}: capacity/bucket_size/max_swaps/elements_added differ: {(new.capacity, new.bucket_size, new.max_swaps, new.elements_added)} vs {(obj.capacity, obj.bucket_size, obj.max_swaps, obj.elements_added)}")
        if by_rate and "rate" in name and new.fingerprint_size_bits != obj.fingerprint_size_bits:
            probs.append(f"load via {name}: fingerprint size {new.fingerprint_size_bits} bits instead of {obj.fingerprint_size_bits} for the same error rate (bucket_size {obj.bucket_size})")
        if counting and new.unique_elements != obj.unique_elements:
            probs.append(f"load via {name}: unique_elements differ")
        if name != "load_error_rate" or new.fingerprint_size_bits == obj.fingerprint_size_bits:
            for k in keys:
                if new.check(k) != obj.check(k):
                    probs.append(f"load via {name}: check({k!r}) answers {new.check(k)} instead of {obj.check(k)}")
                    break
        if bytes(new) != chans["bytes"]:
            probs.append(f"load via {name}: re-export differs")
    return desc, probs


def _case_ondisk(rng, tmp):
    from probables import BloomFilter, BloomFilterOnDisk

    est = rng.choice([1, 3, 10, 40])
    fpr = rng.choice([0.3, 0.1, 0.05, 0.01])
    path = os.path.join(tmp, "od.blm")
    if os.path.exists(path):
        os.unlink(path)
    relative = rng.random() < 0.5
    cwd = os.getcwd()
    if relative:
        # opened through a relative name; the export happens after the working directory has changed,
        # and a file of the same name exists there
        os.makedirs(os.path.join(tmp, "elsewhere"), exist_ok=True)
        with open(os.path.join(tmp, "elsewhere", "od.blm"), "wb") as fh:
            fh.write(b"not the filter")
        os.chdir(tmp)
    try:
        obj = BloomFilterOnDisk("od.blm" if relative else path, est_elements=est, false_positive_rate=fpr)
    finally:
        if relative:
            os.chdir(os.path.join(tmp, "elsewhere"))
    try:
        return _case_ondisk_body(rng, tmp, obj, est, fpr, relative)
    finally:
        os.chdir(cwd)


def _case_ondisk_body(rng, tmp, obj, est, fpr, relative):
    from probables import BloomFilter

    keys = _keys(rng, rng.randint(0, 20))
    members = keys[: len(keys) * 2 // 3]
    for k in members:
        obj.add(k)
    desc = f"BloomFilterOnDisk(est={est}, fpr={fpr}) after {len(members)} adds" + (", opened by a relative name and used from another working directory" if relative else "")
    probs = []
    out = os.path.join(tmp, "od.copy")
    img = bytes(obj)
    with open(out, "wb") as fh:  # the destination already holds an export with the same size and footer, other bits
        fh.write(bytes(len(img) - 20) + img[-20:])
    res = core.call(obj.export, out)
    if res[0] == "err":
        probs.append(f"export raised {res[1]}")
    else:
        with open(out, "rb") as fh:
            data = fh.read()
        mem = BloomFilter(est_elements=est, false_positive_rate=fpr)
        for k in members:
            mem.add(k)
        if data != bytes(mem):
            probs.append("on-disk export differs from the in-memory export of the same history")
        new = BloomFilter(filepath=out)
        if (new.elements_added, new.number_bits, new.number_hashes) != (obj.elements_added, obj.number_bits, obj.number_hashes):
            probs.append("loaded copy: count/geometry differ")
        for k in keys:
            if new.check(k) != obj.check(k):
                probs.append(f"loaded copy: check({k!r}) differs")
                break
    obj.close()
    return desc, probs


CASES = [
    ("bloom", lambda r, t: _case_bloom(r, t, False)),
    ("cbf", lambda r, t: _case_bloom(r, t, True)),
    ("expanding", lambda r, t: _case_expanding(r, t, False)),
    ("rotating", lambda r, t: _case_expanding(r, t, True)),
    ("cms", _case_cms),
    ("cms", _case_cms),
    ("cuckoo", lambda r, t: _case_cuckoo(r, t, False)),
    ("ccf", lambda r, t: _case_cuckoo(r, t, True)),
    ("ondisk", _case_ondisk),
]


def _run_case(idx, seed_int, tmp):
    rng = pyrandom.Random(seed_int)
    name, fn = CASES[idx]
    state = pyrandom.getstate()
    try:
        return fn(rng, tmp)
    finally:
        pyrandom.setstate(state)


def _classify(p):
    for tag in ("returned a", "fingerprint", "check(", "re-export", "raised", "payload", "cell array", "count", "elements_added"):
        if tag in p:
            return tag
    return p[:30]


def run(tier, seed, deep, hints):
    rng = core.seeded(seed, "search-C05")
    n = 180 if tier == "quick" else 4000
    if deep:
        n *= 3
    findings, evals, distinct = [], 0, set()
    seen_sig = set()
    sample = None
    with core.Scratch() as tmp:
        for i in range(n):
            if core.search_expired():
                break
            idx = i % len(CASES)
            s = rng.randrange(2**48)
            try:
                desc, probs = _run_case(idx, s, tmp)
            except Exception as exc:  # noqa: BLE001
                if type(exc).__name__ == "InitializationError":
                    desc, probs = CASES[idx][0] + " (sizing rejected by the constructor)", []
                else:
                    desc, probs = CASES[idx][0], [f"harness/structure raised {type(exc).__name__}: {exc}"]
            evals += 1
            distinct.add(desc)
            sample = desc
            if probs:
                sig = {"structure": CASES[idx][0], "failure": _classify(probs[0])}
                key = repr(sig)
                if key in seen_sig:
                    continue
                seen_sig.add(key)
                findings.append({"what": f"{desc}: {probs[0]}", "case": idx, "case_seed": s, "signature": sig, "all": probs[:5]})
                if len(findings) >= 6:
                    break
    return findings, {"evaluations": evals, "distinct_nontrivial": len(distinct), "samples": [{"search_case": sample}]}


def replay(finding):
    with core.Scratch() as tmp:
        desc, probs = _run_case(finding["case"], finding["case_seed"], tmp)
    return not probs, f"{desc} -> {probs or 'round trip ok'}"
