"""Failing-input search for C18 on the real code.  The reference FNV-1a below is written from the
published definition (offset basis, prime, xor-then-multiply), independently of the library."""
import core

FNV64_BASIS, FNV64_PRIME = 0xCBF29CE484222325, 0x100000001B3
FNV32_BASIS, FNV32_PRIME = 0x811C9DC5, 0x01000193


def ref_fnv(data, basis, prime, bits):
    h = basis % (1 << bits)
    for b in data:
        h = ((h ^ b) * prime) % (1 << bits)
    return h


def _check_key(key, depth, rng):
    from probables import hashes as H

    probs = []
    units = list(key) if isinstance(key, bytes) else [ord(c) for c in key]
    d2 = rng.randint(depth, depth + 6)
    for name, fn in [("default_fnv_1a", H.default_fnv_1a), ("default_md5", H.default_md5), ("default_sha256", H.default_sha256)]:
        a = fn(key, depth)
        if a != fn(key, depth):
            probs.append(f"{name} not deterministic")
        if len(a) != depth:
            probs.append(f"{name}: {len(a)} values for depth {depth}")
        if any(not (0 <= v < 2**64) for v in a):
            probs.append(f"{name}: value outside 64 bits")
        # ... and an answer a caller keeps is not changed by later calls (another key, another depth)
        kept = fn(key, depth)
        kept_copy = list(kept)
        fn(b"other-key" if isinstance(key, bytes) else "other-key", depth)
        fn(key, d2)
        if list(kept) != kept_copy:
            probs.append(f"{name}: an answer kept by the caller changed when the strategy was called again (answers share storage)")
        # a pure function of (key, depth): what a caller does to one answer cannot change the next one
        want = list(a)
        if isinstance(a, list):
            a.append(0)
            a[0] = (a[0] + 1) % 2**64
            a.reverse()
        if list(fn(key, depth)) != want:
            probs.append(f"{name}: the answer for (key, depth) changes after a caller modified an earlier answer (shared state between calls)")
        a = want
        if fn(key, d2)[:depth] != a:
            probs.append(f"{name}: depth {depth} is not a prefix of depth {d2}")
        if isinstance(key, str):
            enc = key.encode("utf-8")
            if name != "default_fnv_1a" or all(u < 128 for u in units):
                if fn(enc, depth) != a:
                    probs.append(f"{name}: text key hashes differently from its UTF-8 bytes")
    exp = [ref_fnv(units, (FNV64_BASIS + 31 * i), FNV64_PRIME, 64) for i in range(depth)]
    if all(u < 256 for u in units) and H.default_fnv_1a(key, depth) != exp:
        probs.append("default_fnv_1a differs from published 64-bit FNV-1a with basis advanced by 31 per index")
    # all seeds: the result is an unsigned 64/32-bit value and depends on the seed only through the offset
    # basis advanced by 31*seed modulo 2^64 / 2^32
    for seed in (0, 5, 2**60, 2**64 // 31 + 1, 2**64 + 3, -1, -(2**40), rng.randint(0, 2**70)):
        for fn, bits in ((H.fnv_1a, 64), (H.fnv_1a_32, 32)):
            v = fn(key, seed)
            if not (0 <= v < 2**bits):
                probs.append(f"{fn.__name__}(key, seed={seed}) = {v} is outside the unsigned {bits}-bit range")
            elif v != fn(key, seed % 2**bits + (2**bits if seed % 7 == 0 else 0)) and 31 % 2 == 1:
                probs.append(f"{fn.__name__} depends on the seed beyond its value modulo 2^{bits}")
    if all(u < 256 for u in units):
        for seed in (0, 1, rng.randint(0, 1000), 2**64 // 31 + 2, 2**64 + 7):
            if H.fnv_1a_32(key, seed) != ref_fnv(units, FNV32_BASIS + 31 * seed, FNV32_PRIME, 32):
                probs.append("fnv_1a_32 differs from published 32-bit FNV-1a")
            if H.fnv_1a(key, seed) != ref_fnv(units, FNV64_BASIS + 31 * seed, FNV64_PRIME, 64):
                probs.append("fnv_1a differs from published 64-bit FNV-1a")
    # decorator-built strategies over pure functions
    from corr.hashes import inner_bytes, inner_int

    for nm in ("fnvseed", "sumlen", "small"):
        fn = H.hash_with_depth_int(inner_int(nm))
        a = fn(key, depth)
        if len(a) != depth or fn(key, d2)[:depth] != a or a != fn(key, depth):
            probs.append(f"hash_with_depth_int({nm}): length/prefix/determinism")
        want = list(a)
        if isinstance(a, list):
            a.clear()
        if list(fn(key, depth)) != want:
            probs.append(f"hash_with_depth_int({nm}): answer changes after a caller modified an earlier answer")
        kept = fn(key, depth)
        fn("other-key", d2)
        if list(kept) != want:
            probs.append(f"hash_with_depth_int({nm}): an answer kept by the caller changed when the strategy was called again")
    for nm in ("fnvle", "chain"):
        fn = H.hash_with_depth_bytes(inner_bytes(nm))
        a = fn(key, depth)
        a_copy = list(a)
        if len(a) != depth or fn(key, d2)[:depth] != a_copy or a_copy != list(fn(key, depth)):
            probs.append(f"hash_with_depth_bytes({nm}): length/prefix/determinism")
        fn(b"other-key", d2)
        if list(a) != a_copy:
            probs.append(f"hash_with_depth_bytes({nm}): an answer kept by the caller changed when the strategy was called again (answers share storage)")
        a = a_copy
        if isinstance(key, str) and fn(key.encode("utf-8"), depth) != a:
            probs.append(f"hash_with_depth_bytes({nm}): text != utf-8 bytes")
    return probs


def run(tier, seed, deep, hints):
    from corr.hashes import random_key

    rng = core.seeded(seed, "search-C18")
    n = 300 if tier == "quick" else 6000
    if deep:
        n *= 4
    keys = [b"", "", b"a", "a", b"foobar", "foobar", b"\x00", b"\xff\xfe", "€", "\U0001f600"]
    alphabet = [0, 1, 0x41, 0x7F, 0x80, 0xFF] if tier == "quick" else range(0, 256, 3)
    keys += [bytes([a, b]) for a in alphabet for b in alphabet]
    for h in hints or []:
        for op in h.get("ops", []):
            for x in op:
                if isinstance(x, dict) and "bytes" in x:
                    keys.insert(0, bytes.fromhex(x["bytes"]))
                elif isinstance(x, str) and len(x) > 0 and op[0] in ("fnv64", "fnv32", "default", "dint", "dbytes") and x is not op[0]:
                    keys.insert(0, x)
    keys += [random_key(rng) for _ in range(n)]
    findings, evals = [], 0
    for key in keys:
        if core.search_expired():
            break
        depth = rng.choice([1, 2, 3, 5, 8]) if rng.random() < 0.9 else rng.choice([63, 64, 65, 100, 257])
        evals += 1
        try:
            probs = _check_key(key, depth, rng)
        except Exception as exc:  # noqa: BLE001
            probs = [f"hashing raised {type(exc).__name__}: {exc}"]
        if probs:
            findings.append({"what": f"key={key!r} depth={depth}: {probs[0]}", "key": core._untuple(key), "is_text": isinstance(key, str), "depth": depth, "signature": {"site": "hashes", "what": probs[0]}})
            if len(findings) >= 3:
                break
    return findings, {"evaluations": evals, "distinct_nontrivial": len(set(keys)), "samples": [{"search_key": repr(keys[-1])[:80]}]}


def replay(finding):
    key = finding["key"]
    if isinstance(key, dict):
        key = bytes.fromhex(key["bytes"])
    probs = _check_key(key, finding["depth"], core.seeded(0, "replay"))
    return not probs, f"key={key!r} depth={finding['depth']} -> {probs or 'ok'}"
