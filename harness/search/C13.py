"""Failing-input search for C13 on the real code: intersection, Jaccard index, compatibility rules,
operands never modified."""
import os
from fractions import Fraction

import core
from corr.bloom import strategy
from search.common import drive, geometry_twin, keys_pool


def gen(rng):
    kind = rng.choice(["bloom", "bloom", "bloom-ondisk", "bloom-ondisk2", "cbf", "cms"])
    keys = keys_pool(rng, rng.randint(2, 16))
    return {"kind": kind, "est": rng.choice([1, 2, 3, 5, 10, 40]), "fpr": rng.choice([0.3, 0.1, 0.05, 0.01]), "est2": rng.choice([0, 0, 0, 1, 7]), "strat": rng.choice(["fnv", "md5", "custom"]),
            "strat2": rng.choice([None, None, None, "fnv", "sha256", "dint:sumlen", "firstsame", "firstsame"]), "a": [rng.choice(keys) for _ in range(rng.randint(0, 12))], "b": [rng.choice(keys) for _ in range(rng.randint(0, 12))], "keys": keys,
            "w": rng.choice([2, 3, 50]), "d": rng.choice([1, 2, 4]), "same": rng.random() < 0.15}


def popcount(bs):
    return sum(bin(x).count("1") for x in bs)


def check(case):
    import probables as P

    fn = strategy(case["strat"])[0]
    if case["strat2"] == "firstsame":
        # same first hash as the receiver's strategy, different afterwards
        base = fn if fn is not None else P.hashes.default_fnv_1a

        def fn2(key, depth=1, _b=base):
            r = _b(key, depth)
            return [r[0]] + [(x * 3 + 1) % 2**64 for x in r[1:]]

        # "different hash function" is what the library can see: hashes("test") at the structure's OWN
        # depth.  At depth 1 this strategy IS the receiver's strategy, so the operands are compatible.
        firstsame_base = base
        diff_hash = None  # decided below, once the depth in use is known
    else:
        fn2 = strategy(case["strat2"])[0] if case["strat2"] else fn
        diff_hash = case["strat2"] is not None and case["strat2"] != case["strat"]
    kind = case["kind"]
    with core.Scratch() as tmp:
        if kind == "cms":
            a = P.CountMinSketch(width=case["w"], depth=case["d"], hash_function=fn)
            b = P.CountMinSketch(width=case["w"] + (1 if case["est2"] else 0), depth=case["d"], hash_function=fn2)
            for k in case["a"]:
                a.add(k)
            for k in case["b"]:
                b.add(k)
            sb = bytes(b)
            res = core.call(a.join, b)
            if bytes(b) != sb:
                return "join modified its argument"
            if diff_hash is None:
                diff_hash = fn2("test", a.depth) != firstsame_base("test", a.depth)
            compatible = not case["est2"] and not diff_hash
            if compatible and res[0] == "err":
                return f"join of compatible sketches raised {res[1]}"
            if not compatible and res != ("err", "!CountMinSketchError"):
                return f"join of incompatible sketches gave {res} instead of CountMinSketchError"
            if core.call(a.join, "foreign") != ("err", "!TypeError"):
                return "join with a foreign type did not raise TypeError"
            return None
        cls = P.CountingBloomFilter if kind == "cbf" else P.BloomFilter
        # the second operand may be built from OTHER nominal parameters: with the same bits and hashes it is a
        # compatible operand, with the same bits but another number of hashes it is not
        b_params = (case["est"] + case["est2"], case["fpr"])
        if kind == "bloom" and not case["est2"] and len(case["a"]) % 3 != 2:
            tw = geometry_twin(case["est"], case["fpr"], same_hashes=(len(case["a"]) % 3 == 0))
            if tw:
                b_params = tw
        try:
            a = cls(est_elements=case["est"], false_positive_rate=case["fpr"], hash_function=fn)
            if kind == "bloom-ondisk2":  # both operands on disk
                a = P.BloomFilterOnDisk(os.path.join(tmp, "a.blm"), est_elements=case["est"], false_positive_rate=case["fpr"], hash_function=fn)
            if kind in ("bloom-ondisk", "bloom-ondisk2"):
                b = P.BloomFilterOnDisk(os.path.join(tmp, "b.blm"), est_elements=case["est"] + case["est2"], false_positive_rate=case["fpr"], hash_function=fn2)
            else:
                b = cls(est_elements=b_params[0], false_positive_rate=b_params[1], hash_function=fn2)
        except P.exceptions.InitializationError:
            return None
        try:
            big = [256, 512, 65536, 2**24] if kind == "cbf" and len(case["b"]) % 2 == 0 else None
            for i, k in enumerate(case["a"]):
                if big:
                    a.add(k, big[i % len(big)])
                else:
                    a.add(k)
            for i, k in enumerate(case["a"] if case["same"] else case["b"]):
                if big:
                    b.add(k, big[(i + 1) % len(big)])
                else:
                    b.add(k)
            if diff_hash is None:
                diff_hash = fn2("test", a.number_hashes) != firstsame_base("test", a.number_hashes)
            compatible = (a.number_bits, a.number_hashes) == (b.number_bits, b.number_hashes) and not diff_hash
            sa, sb = bytes(a.bloom[: a.bloom_length]) if kind != "cbf" else bytes(a.bloom), bytes(b.bloom[: b.bloom_length]) if kind != "cbf" else bytes(b.bloom)
            ca, cb = a.elements_added, b.elements_added
            for name in ("union", "intersection", "jaccard_index"):
                res = core.call(getattr(a, name), b)
                res2 = core.call(getattr(b, name), a)
                now = (bytes(a.bloom[: a.bloom_length]) if kind != "cbf" else bytes(a.bloom), bytes(b.bloom[: b.bloom_length]) if kind != "cbf" else bytes(b.bloom), a.elements_added, b.elements_added)
                if now != (sa, sb, ca, cb):
                    return f"{name} modified an operand"
                if res[0] == "err":
                    return f"{name} raised {res[1]}"
                if not compatible:
                    if res[1] is not None:
                        return f"{name} of incompatible filters returned {type(res[1]).__name__} instead of None"
                    continue
                if res[1] is None:
                    return f"{name} of compatible filters returned None"
                if name == "intersection" and kind != "cbf":
                    want = bytes(x & y for x, y in zip(sa, sb))
                    if bytes(res[1].bloom) != want:
                        return "intersection bits are not exactly the positions set in both"
                    for k in case["keys"]:
                        if a.check(k) and b.check(k) and not res[1].check(k):
                            return f"intersection does not report {k!r} although both operands do"
                if name == "jaccard_index":
                    if kind == "cbf":
                        la, lb = list(a.bloom), list(b.bloom)
                        num = sum(1 for x, y in zip(la, lb) if x > 0 and y > 0)
                        den = sum(1 for x, y in zip(la, lb) if x > 0 or y > 0)
                    else:
                        num = popcount(x & y for x, y in zip(sa, sb))
                        den = popcount(x | y for x, y in zip(sa, sb))
                    want = 1.0 if den == 0 else num / den
                    if res[1] != want:
                        return f"Jaccard index {res[1]!r} is not {num}/{den}"
                    if not (0.0 <= res[1] <= 1.0):
                        return "Jaccard index outside [0,1]"
                    if res2[0] == "ok" and res2[1] != res[1]:
                        return "Jaccard index is not symmetric"
                    if sa == sb and res[1] != 1.0:
                        return "Jaccard index of identical operands is not 1.0"
            # derived filters (results of set operations) are reachable states too
            if compatible and kind not in ("bloom-ondisk", "bloom-ondisk2"):
                derived = [x for x in (a.intersection(b), a.union(b), cls(est_elements=case["est"], false_positive_rate=case["fpr"], hash_function=fn)) if x is not None]
                pool = [a] + derived
                for x in pool:
                    for y in pool:
                        got = core.call(x.jaccard_index, y)
                        if got[0] == "err":
                            return f"jaccard_index on a derived filter raised {got[1]}"
                        if kind == "cbf":
                            lx, ly = list(x.bloom), list(y.bloom)
                            num = sum(1 for p, q in zip(lx, ly) if p > 0 and q > 0)
                            den = sum(1 for p, q in zip(lx, ly) if p > 0 or q > 0)
                        else:
                            bx, by = bytes(x.bloom), bytes(y.bloom)
                            num = popcount(p & q for p, q in zip(bx, by))
                            den = popcount(p | q for p, q in zip(bx, by))
                        want = 1.0 if den == 0 else num / den
                        if got[1] != want:
                            return f"Jaccard index of derived filters (element counts {x.elements_added}, {y.elements_added}) is {got[1]!r}, positions give {num}/{den}"
            # a filter combined with itself
            if kind != "cbf":
                sa0 = bytes(a.bloom[: a.bloom_length])
                r = core.call(a.intersection, a)
                if r[0] == "err" or r[1] is None or bytes(r[1].bloom[: a.bloom_length]) != sa0:
                    return "intersection of a filter with itself is not the filter"
                r = core.call(a.jaccard_index, a)
                if r[0] == "err" or r[1] != 1.0:
                    return f"Jaccard index of a filter with itself is {r[1]!r}"
                if bytes(a.bloom[: a.bloom_length]) != sa0:
                    return "combining a filter with itself modified it"
            for name in ("union", "intersection", "jaccard_index"):
                if core.call(getattr(a, name), "foreign") != ("err", "!TypeError"):
                    return f"{name} with a foreign type did not raise TypeError"
        finally:
            if kind in ("bloom-ondisk", "bloom-ondisk2"):
                b.close()
            if kind == "bloom-ondisk2":
                a.close()
    return None


def run(tier, seed, deep, hints):
    return drive(tier, seed, deep, "search-C13", gen, check, None, lambda c, b: {"structure": c["kind"], "failure": "".join(ch for ch in b if not ch.isdigit())[:40]}, n_quick=300, n_thorough=6000)


def replay(finding):
    bad = check(finding["case"])
    return bad is None, f"{finding['case']} -> {bad or 'rules hold'}"
