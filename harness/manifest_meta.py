"""Per-property texts of MANIFEST.json."""

TIE = "Trusted: Lean kernel; axioms propext/Classical.choice/Quot.sound only (audited each run); the hand-written model is tied to the code by extract_facts.py (constants/layouts/guards regenerated from source every run; guards are read as written and the canonical operator the models use is re-proved equivalent in Lemmas/GuardCanon.lean on every run) and by the correspondence suite (a disagreement counts for a property where it is introduced, on the lines and facets that property looks at); CPython semantics of int/array/struct."

META = {
    "C20": {
        "text": "Machine-checked refinement of the Bitarray model to List Bool for all sizes, all Int indices/values and all operation sequences (C20_run), including every rejection case; the model is tied to utilities.Bitarray by an exhaustive-small plus random differential correspondence over the raw bytes, string form, popcount and error kinds.",
        "design_ref": "§4 C20",
        "note": TIE + " Indices/values are ints; size < 2^53.",
        "technique": "Lean 4 refinement proof (induction over operations) + checked model/code correspondence",
    },
    "C18": {
        "text": "Theorems for every key, depth and seed: exact length, prefix stability (default strategy and both decorators over ANY pure function, hence md5/sha256), 64-bit range, equality with the published FNV-1a (constants of the model are extracted from the source on every run; the published ones are pinned in Spec/Fnv.lean), ASCII/UTF-8 agreement. Correspondence: exhaustive short keys + random keys/depths/seeds incl. negative and wrap-around seeds.",
        "design_ref": "§4 C18",
        "note": TIE + " md5/sha256 digest internals are external (hashlib); theorems treat the digest as an arbitrary function; determinism of the Python functions is checked by repeated calls only.",
        "technique": "Lean 4 proof (induction on depth / key) + translator-regenerated constants + correspondence",
    },
    "C01": {
        "text": "Theorems for every geometry (m ≥ 1), every hash list/strategy and every history length: a hash list added to a Bloom filter checks true immediately and after any later add, union (either side, any estimator), and query; only clear forgets (C01_bloom, C01_bloom_keys); the expanding filter reports every hash list ever added after any sequence of add(force)/push (C01_expanding). On-disk: C11_added_present/C11_present_mono/C11_history. Second module C01_history.lean: export+load (bytes and hex) and close+reopen are steps of the SAME history — they never fail on reachable states and are invisible (the run equals the run with the reloads erased), so every hash list added since the last clear is reported after any sequence of add/union/query/clear/reload (C01_bloom_full_history, _keys), add(force)/push/reload (C01_expanding_full_history), add/close+reopen from a created file (C01_ondisk_full_history). Tie: bloom, expanding and on-disk suites (bits after every step, all strategies incl. md5/sha256/custom, str and bytes keys, m % 8 ≠ 0).",
        "design_ref": "§4 C01",
        "note": TIE + " Reload steps need count < 2^64 and, for union inside a reloading history, an estimator with values in [0, 2^64) and operand bytes < 256 (hex channel) — explicit hypotheses (BInv, UnionsOK).",
        "technique": "Lean 4 proof (bit lemmas, induction over operation sequences) + correspondence",
    },
    "C02": {
        "text": "For all w,d ≥ 1, any strategy H and any Legit/Small history: every bin is the signed sum of the amounts of the keys falling on it (C02_bin_invariant), hence estimate ≥ true count (C02_lower), ≤ total = Σ (C02_upper), exact when a row is collision-free (C02_exact_row), and the value returned by add/remove equals check afterwards in all three query modes (C02_ret). Tie: cms suite (bins, totals, returned values after every step; widths 1–3 and large; all strategies).",
        "design_ref": "§4 C02",
        "note": TIE + " Claimed for legitimate removals and totals ≤ 2^31−1.",
        "technique": "Lean 4 proof (invariant by induction over histories) + correspondence",
    },
    "C03": {
        "text": "For ALL G, ALL oracle lists, all parameters ≥ 1: conservation of every weighted table sum through first-fit, the kick loop, re-insertion and expansion (C03_insertFp_conservation*); a successful add keeps everything contained and adds the key (C03_add_ok); a failed add (CuckooFilterFullError) returns the table unchanged (C03_failed_add); remove touches only its fingerprint; expansion conserves all bins; lifted to all histories: every live key has check > 0 (C03_history, C03_exact). Tie: cuckoo suite with the recorded random draws as the model's oracle; search enumerates every oracle script on tiny tables.",
        "design_ref": "§4 C03",
        "note": TIE + " The random module is replaced by an arbitrary oracle in the theorems.",
        "technique": "Lean 4 proof (conservation law by induction on kick fuel, invariant over histories, ∀ oracle) + correspondence with recorded oracle",
    },
    "C07": {
        "text": "Over ℝ, on the same generic definitions the Float instance executes: 2/width ≤ ε; 1−2^(−depth) ≥ confidence with NO numeric hypothesis (the code's literal 0.6931471805599453 ≤ ln 2 is proved from a series); 2b/2^f ≤ ε for the cuckoo fingerprint size; Bloom: m = ⌈−n ln t / c₁⌉ facts, |k − c₂m/n| ≤ ½, exp(−c₁m/n) ≤ t, exact characterisation of when _get_optimized_params succeeds and which error it raises; the 7% clause itself — (1−e^{−kn/m})^k ≤ 1.07·t for the rounded k — is proved analytically for all n, m, k (C07_allowance, C07_bloom_full); reload stability for any idempotent narrowing (C07_stable, also for Float). The search adds a directed scan over est_elements for a geometry whose bit/hash counts depart from the documented rule. Tie: sizing suite compares the Float instance with the code bit-for-bit (incl. float32 narrowing, round-half-even, error kinds).",
        "design_ref": "§4 C07, §7",
        "note": TIE + " IEEE-754 rounding between ℝ and Float is not verified (that is the only part of C07 outside Lean).",
        "technique": "Lean 4 + Mathlib proof over ℝ (single modules) + bit-for-bit Float correspondence",
    },
    "C09": {
        "text": "For all est ≥ 1 and all histories of add(present, hs, force)/push with an ARBITRARY membership answer at each step: every sub-filter count stays in [0, est] (C09_bound), without push the counts are replicate e est ++ [c] and expansions = if I = 0 then 0 else (I−1)/est = max(0, ⌈I/est⌉−1) (C09_shape, C09_expansions, C09_expansions_ceil), elements_added counts every call (C09_counted), growth only when the newest filter is full (C09_grow_iff); real addAlt histories refine these (C09_api). Tie: expanding suite (per-filter counts from the object, expansions, after every step and after reload).",
        "design_ref": "§4 C09",
        "note": TIE,
        "technique": "Lean 4 proof (invariant + shape by induction over histories) + correspondence",
    },
    "C10": {
        "text": "For all est, Q ≥ 1 and all add/push/pop histories: 1 ≤ queue ≤ Q and per-filter counts ≤ est (C10_bounds); pop refused exactly on a single-filter queue (C10_pop_guard/C10_pop_ok_iff); the retention window: a hash list inserted effectively is still reported after up to (Q−1)·est further effective insertions (C10_window, C10_window_api — unconditional, the bit-level facts are proved), with tests showing the bound is tight. Tie: expanding suite in rotating mode probing every key of the history.",
        "design_ref": "§4 C10",
        "note": TIE + " Same max_queue_size re-supplied on reload.",
        "technique": "Lean 4 proof (potential argument over histories) + correspondence",
    },
    "C11": {
        "text": "Byte-level protocol of the on-disk filter for all geometries and hash lists: at EVERY prefix of the micro-steps of an add the file has the documented shape with the original parameters, all earlier bits set and the stored count = completed additions, becoming count+1 only with the last micro-step (C11_crash_points); such files load with the original geometry (C11_prefix_loads); a completed add refines the in-memory add (C11_add_refines) so the closed file is exactly the in-memory export (C11_close_is_export); reopen restores parameters, count and bits (C11_reopen); lifted to all histories of add/close+reopen (C11_history). Tie: ondisk suite compares the file contents seen at every executed source line (sys.settrace, separate descriptor) with the model's micro-step trace; files inside/outside cwd, relative/absolute, reopen from another directory; thorough: real SIGKILL at every line event.",
        "design_ref": "§4 C11, §7",
        "note": TIE + " Partial w.r.t. the OS: power loss, fsync ordering, torn multi-byte stores are not modelled; path resolution is checked by tie/search only.",
        "technique": "Lean 4 proof over micro-step traces (every prefix) + trace correspondence + kill -9 enumeration (support)",
    },
    "C12": {
        "text": "Bloom: byte-for-byte equality of union(run xs, run ys) with run (xs++ys) for all geometries/histories (C12_bloom_general, no hash-length hypothesis); counting Bloom: cells of the union equal the single-stream cells below saturation (C12_cbf, exact per-cell bound incl. coinciding positions); count-min: join (run xs) (run ys) = run (xs++ys) as whole sketches when unclamped (C12_cms). Tie: bloom/cbf/cms suites and on-disk operands on either side (ondisk suite).",
        "design_ref": "§4 C12",
        "note": TIE + " Unsaturated states, as the property states.",
        "technique": "Lean 4 proof (list/byte algebra, induction over histories) + correspondence",
    },
    "C13": {
        "text": "Intersection has exactly the AND at every position and reports a hash list iff both operands do (C13_inter_bits, C13_inter_member_iff); Jaccard numerator/denominator are the counts of positions set in both/either, symmetric, ≤ 1, = 1 on identical incl. empty operands (C13_jaccard); counting variants on non-zero positions; incompatibility ⇒ none / CountMinSketchError exactly (C13_incompatible, C13_join_error_iff). Tie: set-operation lines of the bloom/cbf/cms/ondisk suites plus operand observations after each operation.",
        "design_ref": "§4 C13",
        "note": TIE + " 'Operands unchanged' and TypeError for foreign types are decided by tie and search (outside the model).",
        "technique": "Lean 4 proof (bitwise lemmas, popcount) + correspondence",
    },
    "C15": {
        "text": "Inv (table length = cap, bucket sizes ≤ b, every bin in one of its two candidate buckets, no duplicate fingerprints, counts ≥ 1, counts = 1 for the plain filter) holds for new and is preserved by add/remove/expand for ALL G and ALL oracles, succeed or fail (C15_step, C15_run); a failed call returns the state unchanged; capacity is cap₀·rate^j (C15_capacity). Tie: cuckoo suite (table and capacity after every step incl. loads); search evaluates Inv on the real buckets over all oracle scripts of tiny tables.",
        "design_ref": "§4 C15",
        "note": TIE,
        "technique": "Lean 4 proof (invariant by induction, ∀ oracle) + correspondence with recorded oracle",
    },
    "C16": {
        "text": "For every amount n ≥ 1 (unbounded Int): count-min add/remove/join return normally, touched bins become max(−2^31, min(2^31−1, old ± n)), totals are clamped to 64 bits, returned value = check, limit bins are left alone by join, export succeeds (C16_cms_*; invariant over all histories C16_cms_history); counting Bloom: add returns normally with cells min(2^32−1, old + n·multiplicity) (coinciding positions), limit cells are never decremented, union/intersection clamp (C16_cbf_*). Tie: cms and cbf suites with amounts around 2^31, 2^32, 2^63, 2^64.",
        "design_ref": "§4 C16",
        "note": TIE,
        "technique": "Lean 4 proof (closed forms of the store loops, invariant over histories) + correspondence",
    },
    "C19": {
        "text": "clear() equals the freshly constructed structure (Bitarray, Bloom, counting Bloom, count-min in every mode, heavy hitters, stream threshold); the read paths that write are mirrored and proved no-ops (on-disk export()/close() rewrite the stored count with the value the file already holds: C19_ondisk_export_noop/close_noop). Query purity in general is typing in the model: it is decided by the tie — every suite interleaves every read-only call and compares the complete observation set afterwards — and by the search.",
        "design_ref": "§4 C19, §7",
        "note": TIE + " Query purity is decided by correspondence/search, not by a theorem.",
        "technique": "Lean 4 proof of clear = init and mirrored read paths + correspondence for query purity",
    },
    "C08": {
        "text": "Counting Bloom, for all geometries incl. coinciding positions: removeAlt after addAlt restores cells and counter exactly below saturation (C08_cbf_undo); every cell is Σ cnt(key)·mult(key,j) over any Legit/Unsat history, hence check ≥ outstanding count (C08_cbf_cells, C08_cbf_lower); removing an absent key changes nothing and returns 0 (C08_cbf_absent). Counting cuckoo, ∀ G ∀ oracles: check = stored count; add of a present fingerprint increments exactly that bin; remove decrements / drops; absent remove is a no-op; and for ALL histories in which no call raised — through kick chains and automatic expansions — check = outstanding additions of the fingerprint (C08_ccf_exact_with_kicks). Tie: cbf and cuckoo(counting) suites; search with every oracle script on tiny tables.",
        "design_ref": "§4 C08",
        "note": TIE + " Below saturation and for removals not exceeding the outstanding count, as the property states.",
        "technique": "Lean 4 proof (closed forms of the store loops, invariants over histories, ∀ oracle) + correspondence",
    },
    "C17": {
        "text": "HeavyHitters, for all w,d,num ≥ 1, any strategy, any add history: table size = min(num, distinct keys), every tracked value is the key's most recent returned estimate, no untracked key's last estimate exceeds any tracked one, with the needed monotonicity of count-min estimates PROVED (C17_hh_size/tracked/untracked/monotone). StreamThreshold, no hypotheses at all: table.get? k = some v ↔ lastEst k = some v ∧ T ≤ v over any add/remove history incl. calls that raise (C17_st_table, C17_st_never_missing, C17_st_dropped). Tie: cms suite in hh/st modes (ordered table after every step).",
        "design_ref": "§4 C17",
        "note": TIE + " 'true count reaches the threshold ⇒ tracked' is proved for add-only histories (with illegitimate removals the estimate itself can be below the true count).",
        "technique": "Lean 4 proof (table invariants over histories, abstracted from the sketch then linked to it) + correspondence",
    },
    "C05": {
        "text": "load (export s) = .ok s as FULL state equality, for every successful export of every well-formed state, for all six formats: Bloom (binary and hex, same payload and footer values), counting Bloom, expanding/rotating (queue limit re-supplied), count-min family (mode re-supplied), cuckoo and counting cuckoo (other settings from the template) — C05_*_roundtrip, *_stable; well-formedness is proved for new and preserved by every operation, and for cuckoo filters every state reachable from new round-trips with no hypothesis (C05_cuckoo_roundtrip_reachable) and the loaded table satisfies the C15 invariant again (C05_cuckoo_loaded_inv). Tie: every suite exports through every channel the class offers (path, file object, bytes(), hex, frombytes, filepath=, load_error_rate) in all reachable states and compares raw bytes and the reloaded object's complete observation set.",
        "design_ref": "§4 C05",
        "note": TIE + " Geometry re-derivation on load is the parameter `geom` with the hypothesis that it returns the stored geometry (C07_stable + sizing correspondence).",
        "technique": "Lean 4 proof (codec round-trip lemmas, per-format decode∘encode = id) + correspondence over all channels",
    },
    "C06": {
        "text": "The model's export equals an independently written layout specification (Spec/Layout.lean: documented cell arrays and footers, little-endian codecs written out again, documented FNV-1a hashing rule with the published constants) as a total characterisation for Bloom, hex, counting Bloom, count-min (row-major), expanding/rotating, cuckoo and counting cuckoo (C06_*_file); bit/cell addressing theorems; reference READERS working on the file bytes agree with the library for Bloom, counting Bloom, count-min min/mean/mean-min (C06_reader_*); reference WRITERS reproduce the library's file from the key list for Bloom, counting Bloom, count-min, expanding and rotating (C06_writer_*). The constants/layouts of the model are regenerated from the source on every run, the spec pins the documented ones — including the two sizing doubles a C reader re-derives the geometry with (C06_sizing_constants_documented: the extracted constants, constant expressions evaluated, ARE 0.4804530139182 and 0.6931471805599453 bit for bit); the search scans est_elements for a geometry departing from the documented rule. Tie: payload of every export channel + cells after every add; search: independent Python reference reader/writer for Bloom (in memory and the on-disk file, histories with clear()), counting Bloom, count-min (histories with remove, negative totals, clear()), expanding/rotating, and a reference READER plus the placement rule for the cuckoo formats (fingerprint = low bits of FNV-1a, buckets fp mod capacity and FNV-1a(str(fp)) mod capacity).",
        "design_ref": "§4 C06",
        "note": TIE + " No reference writer for the cuckoo formats (the file is pinned as a function of the table; which table results is C03/C15). A compiled C reader is not part of the registered checks.",
        "technique": "Lean 4 proof (model encode = independent layout spec; reference reader/writer equivalence) + translator-regenerated layouts + correspondence",
    },
    "C14": {
        "text": "One counter invariant per structure over unbounded histories and all oracles: Bloom count = completed adds since the last clear (C14_bloom_history); on-disk: in-memory and stored count = adds, across close/reopen and clear (C14_ondisk_history*, from C11); expanding/rotating added = number of add calls incl. suppressed duplicates, with push/pop (C14_expanding_counted, C14_rotating_counted*); counting Bloom / count-min: net amounts with the exact clamped forms (C14_cbf_history, C14_cms_history); cuckoo and counting cuckoo: elements_added = Σ bin counts and unique_elements = number of bins preserved by add/remove/expand for ALL G and ALL oracles through kick chains, failed adds, expansions and load (C14_cuckoo_run, C14_cuckoo_load); quotient filter: ±1 per effective add/remove (C14_qf_*, whole-history link via C04); statistics at ℝ: estimate = ⌊−(m/k)·ln(1−X/m)⌋ (−1 when X ≥ m), fpr = (1−e^{−kn/m})^k (C14_stats_*); union/intersection carry the estimate. Tie: counter facets of every suite after every single step; stats bit-for-bit with the Float instance.",
        "design_ref": "§4 C14",
        "note": TIE + " Float statistics: formula identity over ℝ + bit-for-bit correspondence; IEEE rounding not verified. Quotient filter count = number of stored hashes rests on C04 (partial).",
        "technique": "Lean 4 proof (counter invariants by induction over histories, ∀ oracle) + correspondence after every step",
    },
    "C04": {
        "text": "UNCONDITIONAL exact-set theorem (C04_exact_set): for every quotient size 3..31, auto-expand on/off and every history of add / remove / resize (manual or automatic) / merge on 32-bit hashes in which no call raised, the complete table equals `layout q S` — the canonical table, given by an independent executable specification incl. wrap-around, of the set S of hashes added and not removed since — check is exact membership, get_hashes is S without duplicates, elements_added = |S|. Built from: Layer A (look-up and iteration on layout q S are exact and terminate, all table sizes: C04_contained, C04_hashes), Layer B (add and remove map layout S to layout (S ∪ {h}) / layout (S ∖ {h}), all table sizes — the metadata repair pass provably restores canonical form: C04_B1_add, C04_B2_remove) and the induction over histories (C04_partial). remove never raises or diverges (C04_remove_total); add without auto-resize is refused exactly for a new hash into a table holding size−1 hashes (C04_add_outcome). Tie: the qf suite compares the COMPLETE real state (three metadata arrays, remainders, count, hashes) with the mirrored model AND with layout(set) computed by the specification after EVERY operation (real = mirror = layout), q ∈ {3,4,5,8}, long runs, wrap-around, several automatic resizes, merges (also of a filter into itself); a step budget observes non-termination. Search: random histories against a Python set, the key API with a user-supplied hash function across resizes, and a directed generator for self-merges at the resize threshold (it found the genuine defect D14, repaired in /repo 5210d6f).",
        "design_ref": "§4 C04",
        "note": TIE + " Termination is proved for every call: look-up, iteration, remove, non-resizing add (C04.lean) and — second module C04_termination.lean — add_alt/resize/merge with the budget the driver gives them never run out (C04_step_terminates, C04_history_terminates: every history ends in the canonical table of its set or in QuotientFilterError, without any 'no call raised' hypothesis; explicit attained bounds |H|+3, 2|H|+3, |H|+2|hs|+2). Third module C04_selfmerge.lean: a filter merged into itself (Op.merge with the list its own get_hashes returns — the repaired code of D14) answers, lists and counts exactly as before and is again the canonical table of the same set, possibly of a larger size (C04_merge_self, C04_merge_self_state). Hashes < 2^32; the three Bitarrays are modelled as List Bool (C20 is that refinement).",
        "technique": "Lean 4 refinement proof to a canonical-layout specification (read paths, write paths, induction over histories) + correspondence of the complete state against the layout specification",
    },
}

ALL = ["C%02d" % i for i in range(1, 21)]
NOT_APPLICABLE = [
    {"property_id": p, "reason": "not claimed yet: model, theorems and tie for this property are still being built (see DESIGN.md §9 order of work); nothing is asserted about it"}
    for p in ALL
    if p not in META
]
