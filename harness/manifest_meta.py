"""Per-property texts of MANIFEST.json."""

TIE = "Trusted: Lean kernel; axioms propext/Classical.choice/Quot.sound only (audited each run); the hand-written model is tied to the code by extract_facts.py (constants/layouts/guards regenerated from source every run) and by the correspondence suite; CPython semantics of int/array/struct."

META = {
    "C20": {
        "text": "Machine-checked refinement of the Bitarray model to List Bool for all sizes, all Int indices/values and all operation sequences (C20_run), including every rejection case; the model is tied to utilities.Bitarray by an exhaustive-small plus random differential correspondence over the raw bytes, string form, popcount and error kinds.",
        "design_ref": "§4 C20",
        "note": TIE + " Indices/values are ints; size < 2^53.",
        "technique": "Lean 4 refinement proof (induction over operations) + checked model/code correspondence",
    },
    "C18": {
        "text": "Theorems for every key, depth and seed: exact length, prefix stability (default strategy and both decorators over ANY pure function, hence md5/sha256), 64-bit range, equality with the published FNV-1a (constants of the model are extracted from the source on every run; the published ones are pinned in Spec/Fnv.lean), ASCII/UTF-8 agreement. Correspondence: exhaustive short keys + random keys/depths/seeds incl. negative and wrap-around seeds.",
        "design_ref": "§4 C18",
        "note": TIE + " md5/sha256 digest internals are external (hashlib); theorems treat the digest as an arbitrary function; determinism of the Python functions is checked by repeated calls only.",
        "technique": "Lean 4 proof (induction on depth / key) + translator-regenerated constants + correspondence",
    },
}

ALL = ["C%02d" % i for i in range(1, 21)]
NOT_APPLICABLE = [
    {"property_id": p, "reason": "not claimed yet: model, theorems and tie for this property are still being built (see DESIGN.md §9 order of work); nothing is asserted about it"}
    for p in ALL
    if p not in META
]
