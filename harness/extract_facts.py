#!/usr/bin/env python3
"""Tie #1 (DESIGN §2.4): regenerate lean/PyProb/Generated/Repo.lean from the *current* source of
the repository, with `ast` only (nothing is imported or executed).

Only declarative facts are translated: numeric constants, struct layouts, array typecodes and the
comparison operators of guards that properties depend on.  If a fact cannot be found where it is
expected, ExtractError names it: that is a broken tie, decided by check.py, never a silent default.
"""
import ast
import os
import struct
import sys
from fractions import Fraction


class ExtractError(Exception):
    pass


def _parse(repo, rel):
    path = os.path.join(repo, rel)
    try:
        with open(path, encoding="utf-8") as fh:
            return ast.parse(fh.read(), filename=path)
    except (OSError, SyntaxError) as exc:
        raise ExtractError(f"{rel}: {exc}")


def _find_def(tree, cls, name):
    scope = tree.body
    if cls is not None:
        for node in tree.body:
            if isinstance(node, ast.ClassDef) and node.name == cls:
                scope = node.body
                break
        else:
            raise ExtractError(f"class {cls} not found")
    for node in scope:
        if isinstance(node, (ast.FunctionDef, ast.AsyncFunctionDef)) and node.name == name:
            return node
    raise ExtractError(f"function {cls}.{name} not found")


def _class_assign(tree, cls, name):
    for node in tree.body:
        if isinstance(node, ast.ClassDef) and node.name == cls:
            for st in node.body:
                if isinstance(st, ast.Assign) and len(st.targets) == 1 and isinstance(st.targets[0], ast.Name):
                    if st.targets[0].id == name:
                        return st.value
    raise ExtractError(f"{cls}.{name} not found")


def _const_eval(node, env):
    """evaluate an integer/float constant expression over names in env"""
    if isinstance(node, ast.Constant) and isinstance(node.value, (int, float)) and not isinstance(node.value, bool):
        return node.value
    if isinstance(node, ast.Name) and node.id in env:
        return env[node.id]
    if isinstance(node, ast.UnaryOp) and isinstance(node.op, ast.USub):
        return -_const_eval(node.operand, env)
    if isinstance(node, ast.BinOp):
        a, b = _const_eval(node.left, env), _const_eval(node.right, env)
        if isinstance(node.op, ast.Add):
            return a + b
        if isinstance(node.op, ast.Sub):
            return a - b
        if isinstance(node.op, ast.Mult):
            return a * b
        if isinstance(node.op, ast.Pow):
            return a**b
        if isinstance(node.op, ast.LShift):
            return a << b
    raise ExtractError(f"not a constant expression: {ast.dump(node)[:80]}")


def module_constants(tree):
    env = {}
    for node in tree.body:
        if isinstance(node, ast.Assign) and len(node.targets) == 1 and isinstance(node.targets[0], ast.Name):
            try:
                env[node.targets[0].id] = _const_eval(node.value, env)
            except ExtractError:
                pass
    return env


def struct_fmt(tree, cls, name):
    val = _class_assign(tree, cls, name)
    if (
        isinstance(val, ast.Call)
        and isinstance(val.func, ast.Name)
        and val.func.id == "Struct"
        and len(val.args) == 1
        and isinstance(val.args[0], ast.Constant)
        and isinstance(val.args[0].value, str)
    ):
        return val.args[0].value
    raise ExtractError(f"{cls}.{name} is not Struct(<literal>)")


CMP = {ast.Lt: "lt", ast.LtE: "le", ast.Gt: "gt", ast.GtE: "ge", ast.Eq: "eq", ast.NotEq: "ne"}


def _mentions(node, word):
    for sub in ast.walk(node):
        if isinstance(sub, ast.Name) and sub.id == word:
            return True
        if isinstance(sub, ast.Attribute) and sub.attr.endswith(word):
            return True
    return False


def _split_offset(node):
    """node = X, X + c or X - c with an integer literal c  ->  (X, c)"""
    if isinstance(node, ast.BinOp) and isinstance(node.op, (ast.Add, ast.Sub)):
        r = node.right
        if isinstance(r, ast.Constant) and isinstance(r.value, int) and not isinstance(r.value, bool):
            return node.left, (r.value if isinstance(node.op, ast.Add) else -r.value)
        l = node.left
        if isinstance(node.op, ast.Add) and isinstance(l, ast.Constant) and isinstance(l.value, int) and not isinstance(l.value, bool):
            return node.right, l.value
    return node, 0


FLIP = {"lt": "gt", "le": "ge", "gt": "lt", "ge": "le", "eq": "eq", "ne": "ne"}
NEGATE = {"lt": "ge", "le": "gt", "gt": "le", "ge": "lt", "eq": "ne", "ne": "eq"}


def compare_shape(fn, left_word, right_word, what):
    """(op, off): the first comparison in fn between something mentioning left_word (any expression when
    None) and right_word reads  `subject op bound + off`.  Recognised spellings: the bound on either side,
    an integer literal added to or subtracted from either side, and a directly enclosing `not`.  The
    operator and offset are emitted as they are written; the canonical operator the models use is derived
    from them by `canonical_guard`, and that derivation is re-proved in Lean on every run
    (Lemmas/GuardCanon.lean), so it is checked, not trusted."""
    negated = set()
    for node in ast.walk(fn):
        if isinstance(node, ast.UnaryOp) and isinstance(node.op, ast.Not) and isinstance(node.operand, ast.Compare):
            negated.add(id(node.operand))
    for node in ast.walk(fn):
        if isinstance(node, ast.Compare) and len(node.ops) == 1:
            op = CMP.get(type(node.ops[0]))
            if not op:
                continue
            a, b = node.left, node.comparators[0]
            if (left_word is None or _mentions(a, left_word)) and _mentions(b, right_word) and not (left_word is None and _mentions(a, right_word)):
                pass
            elif _mentions(a, right_word) and (left_word is None or _mentions(b, left_word)) and not (left_word is None and _mentions(b, right_word)):
                a, b, op = b, a, FLIP[op]
            else:
                continue
            _, ja = _split_offset(a)
            _, kb = _split_offset(b)
            if id(node) in negated:
                op = NEGATE[op]
            return op, kb - ja
    raise ExtractError(f"comparison not found: {what}")


def canonical_guard(op, off, clamp, what):
    """the operator c with  (subject op bound+off)  <=>  (subject c bound)  over the integers; for a clamp
    (`if v c M: cell = M else: cell = v`) `>=` and `>` (and `<=`, `<`) give the same result and the strict
    one is canonical.  Raises ExtractError when there is no such operator."""
    c = None
    if off == 0:
        c = op
    elif (op, off) == ("lt", 1):
        c = "le"
    elif (op, off) == ("le", -1):
        c = "lt"
    elif (op, off) == ("gt", -1):
        c = "ge"
    elif (op, off) == ("ge", 1):
        c = "gt"
    if c is None:
        raise ExtractError(f"{what}: `{op}` against the bound {off:+d} is not one of the recognised spellings")
    if clamp:
        c = {"ge": "gt", "le": "lt"}.get(c, c)
    return c


def guard_fact(fn, left_word, right_word, what, clamp=False, allow_offset=True):
    op, off = compare_shape(fn, left_word, right_word, what)
    if off != 0 and not allow_offset:
        raise ExtractError(f"{what}: offset {off:+d} in a non-integer comparison")
    return ("Guard", (op, off, canonical_guard(op, off, clamp, what)))


def float_const_eval(node):
    """value of a constant float expression built from numeric literals, + - * / **, unary minus and
    math.log / math.log2 / math.exp / math.pow / math.sqrt of such expressions (evaluated with the same
    libm CPython uses).  Raises ExtractError for anything else."""
    import math as _math

    if isinstance(node, ast.Constant) and isinstance(node.value, (int, float)) and not isinstance(node.value, bool):
        return float(node.value)
    if isinstance(node, ast.UnaryOp) and isinstance(node.op, ast.USub):
        return -float_const_eval(node.operand)
    if isinstance(node, ast.BinOp):
        a, b = float_const_eval(node.left), float_const_eval(node.right)
        try:
            if isinstance(node.op, ast.Add):
                return a + b
            if isinstance(node.op, ast.Sub):
                return a - b
            if isinstance(node.op, ast.Mult):
                return a * b
            if isinstance(node.op, ast.Div):
                return a / b
            if isinstance(node.op, ast.Pow):
                return a**b
        except (ArithmeticError, ValueError) as exc:
            raise ExtractError(f"constant expression does not evaluate: {exc}")
    if isinstance(node, ast.Call) and isinstance(node.func, ast.Attribute) and isinstance(node.func.value, ast.Name) and node.func.value.id == "math":
        fn = {"log": _math.log, "log2": _math.log2, "exp": _math.exp, "pow": _math.pow, "sqrt": _math.sqrt}.get(node.func.attr)
        if fn is not None and not node.keywords:
            try:
                return float(fn(*[float_const_eval(a) for a in node.args]))
            except (ArithmeticError, ValueError, TypeError) as exc:
                raise ExtractError(f"constant expression does not evaluate: {exc}")
    raise ExtractError(f"not a constant float expression: {ast.dump(node)[:80]}")


def _assigned_value(fn, target):
    """value node of the (single) assignment `target = …` / `self.<target> = …` in fn"""
    found = []
    for node in ast.walk(fn):
        if isinstance(node, ast.Assign) and len(node.targets) == 1:
            t = node.targets[0]
            if (isinstance(t, ast.Name) and t.id == target) or (isinstance(t, ast.Attribute) and t.attr.endswith(target)):
                found.append((node.lineno, node.value))
    if len(found) != 1:
        raise ExtractError(f"expected exactly one assignment to {target}, found {len(found)}")
    return found[0][1]


def _strip_calls(node, names):
    """peel int(...), round(...), math.ceil(...) wrappers"""
    while isinstance(node, ast.Call) and len(node.args) == 1:
        f = node.func
        nm = f.id if isinstance(f, ast.Name) else (f.attr if isinstance(f, ast.Attribute) else None)
        if nm in names:
            node = node.args[0]
        else:
            break
    return node


def bloom_sizing_constants(fn):
    """(divisor of the bit-count formula, multiplier of the hash-count formula) as doubles:
    m_bt = ceil(<numerator> / DIV);  number_hashes = int(round(MUL * m_bt / n))"""
    bits = _strip_calls(_assigned_value(fn, "m_bt"), {"ceil", "int"})
    if not (isinstance(bits, ast.BinOp) and isinstance(bits.op, ast.Div)):
        raise ExtractError("m_bt is not ceil(<numerator> / <constant>)")
    div = float_const_eval(bits.right)
    hashes = _strip_calls(_assigned_value(fn, "number_hashes"), {"int", "round"})
    # MUL * m_bt / n   parses as   (MUL * m_bt) / n
    if not (isinstance(hashes, ast.BinOp) and isinstance(hashes.op, ast.Div) and isinstance(hashes.left, ast.BinOp) and isinstance(hashes.left.op, ast.Mult)):
        raise ExtractError("number_hashes is not int(round(<constant> * m_bt / n))")
    mul = float_const_eval(hashes.left.left)
    return div, mul


def cms_depth_constant(fn):
    """depth = ceil(numerator / C)"""
    depth = _strip_calls(_assigned_value(fn, "__depth"), {"ceil", "int"})
    if not (isinstance(depth, ast.BinOp) and isinstance(depth.op, ast.Div)):
        raise ExtractError("depth is not ceil(<numerator> / <constant>)")
    return float_const_eval(depth.right)


def float_literals(fn):
    out = []
    for node in ast.walk(fn):
        if isinstance(node, ast.Constant) and isinstance(node.value, float):
            out.append((node.lineno, node.col_offset, node.value))
    return [v for _, _, v in sorted(out)]


def self_attr_assign(fn, attr):
    """all constants assigned to self.<attr> in fn, in source order"""
    out = []
    for node in ast.walk(fn):
        tgt = None
        if isinstance(node, ast.Assign) and len(node.targets) == 1:
            tgt, val = node.targets[0], node.value
        elif isinstance(node, ast.AnnAssign) and node.value is not None:
            tgt, val = node.target, node.value
        if isinstance(tgt, ast.Attribute) and tgt.attr == attr and isinstance(val, ast.Constant):
            out.append((node.lineno, val.value))
    return [v for _, v in sorted(out)]


def fnv_consts(fn, what):
    """(offset, multiplier, prime) of `hval = (OFF + (MULT * seed)) & MASK` and `<x>_prime = PRIME`"""
    off = mult = prime = maskname = None
    masked = None
    # integer literals bound to a local name exactly once (`fnv_64_offset = 14695981039346656037`)
    local, seen = {}, {}
    for node in ast.walk(fn):
        if isinstance(node, ast.Assign) and len(node.targets) == 1 and isinstance(node.targets[0], ast.Name):
            nm = node.targets[0].id
            seen[nm] = seen.get(nm, 0) + 1
            if isinstance(node.value, ast.Constant) and isinstance(node.value.value, int) and not isinstance(node.value.value, bool):
                local[nm] = node.value.value
        elif isinstance(node, ast.AugAssign) and isinstance(node.target, ast.Name):
            seen[node.target.id] = seen.get(node.target.id, 0) + 2
    local = {k: v for k, v in local.items() if seen.get(k) == 1}

    def lit(n):
        if isinstance(n, ast.Constant) and isinstance(n.value, int) and not isinstance(n.value, bool):
            return n.value
        if isinstance(n, ast.Name) and n.id in local:
            return local[n.id]
        return None

    for node in ast.walk(fn):
        if isinstance(node, ast.Assign) and len(node.targets) == 1 and isinstance(node.targets[0], ast.Name):
            name = node.targets[0].id
            if name == "hval" and isinstance(node.value, ast.BinOp) and isinstance(node.value.op, (ast.BitAnd, ast.Add)):
                if isinstance(node.value.op, ast.BitAnd):
                    masked = True
                    inner = node.value.left
                    if isinstance(node.value.right, ast.Name):
                        maskname = node.value.right.id
                else:
                    # `hval = OFF + (MULT * seed)` without the mask
                    masked = False
                    inner = node.value
                if isinstance(inner, ast.BinOp) and isinstance(inner.op, ast.Add):
                    off = lit(inner.left)
                    prod = inner.right
                    if isinstance(prod, ast.BinOp) and isinstance(prod.op, ast.Mult) and lit(prod.left) is not None:
                        if isinstance(prod.right, ast.Name) and prod.right.id == "seed":
                            mult = lit(prod.left)
            elif name.endswith("_prime") and isinstance(node.value, ast.Constant):
                prime = node.value.value
    # the loop must be xor, multiply, mask in this order
    order = []
    for node in ast.walk(fn):
        if isinstance(node, ast.For):
            for st in node.body:
                if isinstance(st, ast.AugAssign) and isinstance(st.target, ast.Name) and st.target.id == "hval":
                    order.append(type(st.op).__name__)
                    if isinstance(st.op, ast.BitAnd) and isinstance(st.value, ast.Name) and maskname is None:
                        maskname = st.value.id  # the loop's mask, when the initialisation has none
    if None in (off, mult, prime, maskname, masked) or order != ["BitXor", "Mult", "BitAnd"]:
        raise ExtractError(f"fnv shape not recognised: {what} ({off},{mult},{prime},{maskname},{order})")
    return off, mult, prime, maskname, masked


FIELD = {"Q": "u64", "q": "i64", "I": "u32", "i": "i32", "f": "f32", "B": "u8", "L": "u64"}


def lean_layout(fmt):
    order = "native"
    body = fmt
    if fmt and fmt[0] in "<>!=@":
        order = {">": "big", "!": "big", "<": "little", "=": "little", "@": "native"}[fmt[0]]
        body = fmt[1:]
    try:
        fields = ", ".join("." + FIELD[c] for c in body)
    except KeyError as exc:
        raise ExtractError(f"unknown struct code {exc} in {fmt!r}")
    return f"{{ order := .{order}, fields := [{fields}] }}"


def dbl_bits(x):
    return struct.unpack("<Q", struct.pack("<d", x))[0]


class Missing(dict):
    """facts that could not be extracted: name -> reason"""


def extract(repo):
    """returns (facts, missing).  A fact whose pattern is not found is reported in `missing` instead of
    aborting everything, so that only the properties that depend on it are affected."""
    facts = {}
    missing = Missing()

    def attempt(names, fn):
        try:
            out = fn()
        except ExtractError as exc:
            for nm in names:
                missing[nm] = str(exc)
            return
        if len(names) == 1:
            facts[names[0]] = out
        else:
            for nm, v in zip(names, out):
                facts[nm] = v

    _extract_into(repo, facts, attempt)
    return facts, missing


def _extract_into(repo, facts, attempt):
    consts = module_constants(_parse(repo, "probables/constants.py"))
    for py, lean in [
        ("INT32_T_MIN", "int32Min"),
        ("INT32_T_MAX", "int32Max"),
        ("INT64_T_MIN", "int64Min"),
        ("INT64_T_MAX", "int64Max"),
        ("UINT32_T_MAX", "uint32Max"),
        ("UINT64_T_MAX", "uint64Max"),
    ]:
        if py not in consts or not isinstance(consts[py], int):
            raise ExtractError(f"constants.{py}")
        facts[lean] = ("Int", consts[py])

    hashes = _parse(repo, "probables/hashes.py")
    for fn_name, tag in [("fnv_1a", "fnv64"), ("fnv_1a_32", "fnv32")]:

        def fnv(fn_name=fn_name):
            off, mult, prime, maskname, masked = fnv_consts(_find_def(hashes, None, fn_name), fn_name)
            if maskname not in consts:
                raise ExtractError(f"{fn_name}: mask {maskname}")
            return [("Nat", off), ("Nat", mult), ("Nat", prime), ("Nat", consts[maskname]), ("Bool", masked)]

        attempt([tag + "Offset", tag + "Mult", tag + "Prime", tag + "Mask", tag + "StartMasked"], fnv)

    bloom = _parse(repo, "probables/blooms/bloom.py")
    cbf = _parse(repo, "probables/blooms/countingbloom.py")
    exp = _parse(repo, "probables/blooms/expandingbloom.py")
    cms = _parse(repo, "probables/countminsketch/countminsketch.py")
    cko = _parse(repo, "probables/cuckoo/cuckoo.py")
    cck = _parse(repo, "probables/cuckoo/countingcuckoo.py")
    qf = _parse(repo, "probables/quotientfilter/quotientfilter.py")

    layouts = {
        "bloomFooter": (bloom, "BloomFilter", "_FOOTER_STRUCT"),
        "bloomFooterHex": (bloom, "BloomFilter", "_FOOTER_STRUCT_BE"),
        "bloomFpr": (bloom, "BloomFilter", "_FPR_STRUCT"),
        "bloomCell": (bloom, "BloomFilter", "_IMPT_STRUCT"),
        "onDiskCount": (bloom, "BloomFilterOnDisk", "_EXPECTED_ELM_STRUCT"),
        "onDiskUpdateOffset": (bloom, "BloomFilterOnDisk", "_UPDATE_OFFSET"),
        "cbfCell": (cbf, "CountingBloomFilter", "_IMPT_STRUCT"),
        "expFooter": (exp, "ExpandingBloomFilter", "__FOOTER_STRUCT"),
        "expCount": (exp, "ExpandingBloomFilter", "__S_INT64_STRUCT"),
        "cmsFooter": (cms, "CountMinSketch", "__FOOTER_STRUCT"),
        "cmsCell": (cms, "CountMinSketch", "__BASIC_BIN_STRUCT"),
        "cuckooFooter": (cko, "CuckooFilter", "_CUCKOO_FOOTER_STRUCT"),
        "ccfFooter": (cck, "CountingCuckooFilter", "__COUNTING_CUCKOO_FOOTER_STRUCT"),
        "ccfBin": (cck, "CountingCuckooFilter", "__BIN_STRUCT"),
    }
    for name, (tree, cls, attr) in layouts.items():
        attempt([name], lambda tree=tree, cls=cls, attr=attr: ("Layout", struct_fmt(tree, cls, attr)))

    def cuckoo_cell():
        single = _class_assign(cko, "CuckooFilter", "_CUCKOO_SINGLE_INT_C")
        if not (isinstance(single, ast.Constant) and isinstance(single.value, str)):
            raise ExtractError("CuckooFilter._CUCKOO_SINGLE_INT_C")
        return ("Layout", single.value)

    attempt(["cuckooCell"], cuckoo_cell)

    # array typecodes
    def typecodes(tree, cls, fn, what):
        tcs = self_attr_assign(_find_def(tree, cls, fn), "_typecode")
        bpe = self_attr_assign(_find_def(tree, cls, fn), "_bits_per_elm")
        if len(tcs) != 1 or len(bpe) != 1 or float(bpe[0]) != int(bpe[0]):
            raise ExtractError(what + " typecode / bits_per_elm")
        return [("Layout", tcs[0]), ("Nat", int(bpe[0]))]

    attempt(["bloomTypecode", "bloomBitsPerElm"], lambda: typecodes(bloom, "BloomFilter", "__init__", "BloomFilter"))
    attempt(["cbfTypecode", "cbfBitsPerElm"], lambda: typecodes(cbf, "CountingBloomFilter", "_load_init", "CountingBloomFilter"))

    # float literals of the sizing formulas
    def bloom_floats():
        try:
            div, mul = bloom_sizing_constants(_find_def(bloom, "BloomFilter", "_get_optimized_params"))
            return [("Float", div), ("Float", mul)]
        except ExtractError:
            pass  # formula restructured: fall back to the two literals
        fl = float_literals(_find_def(bloom, "BloomFilter", "_get_optimized_params"))
        # expected: 0.0, 1.0 of the range test, then ln(2)^2 and ln(2)
        fl = [v for v in fl if v not in (0.0, 1.0)]
        if len(fl) != 2:
            raise ExtractError(f"_get_optimized_params float literals: {fl}")
        return [("Float", fl[0]), ("Float", fl[1])]

    attempt(["bloomLn2Sq", "bloomLn2"], bloom_floats)

    def cms_float():
        try:
            return ("Float", cms_depth_constant(_find_def(cms, "CountMinSketch", "__init__")))
        except ExtractError:
            pass
        fl = [v for v in float_literals(_find_def(cms, "CountMinSketch", "__init__")) if v != 0.0]
        if len(fl) != 1:
            raise ExtractError(f"CountMinSketch.__init__ float literals: {fl}")
        return ("Float", fl[0])

    attempt(["cmsLn2"], cms_float)

    # guards
    attempt(["expGrowCmp"], lambda: guard_fact(_find_def(exp, "ExpandingBloomFilter", "__check_for_growth"), "elements_added", "est_elements", "expanding growth test"))
    attempt(["rotReadyCmp"], lambda: guard_fact(_find_def(exp, "RotatingBloomFilter", "__rotate_bloom_filter"), "elements_added", "estimated_elements", "rotating ready test"))
    attempt(["rotRoomCmp"], lambda: guard_fact(_find_def(exp, "RotatingBloomFilter", "__rotate_bloom_filter"), "current_queue_size", "_queue_size", "rotating room test"))
    attempt(["cmsAddClampCmp"], lambda: guard_fact(_find_def(cms, "CountMinSketch", "add_alt"), None, "INT32_T_MAX", "cms add clamp", clamp=True))
    attempt(["cmsRemoveKeepCmp"], lambda: guard_fact(_find_def(cms, "CountMinSketch", "remove_alt"), None, "INT32_T_MIN", "cms remove clamp", clamp=True))
    attempt(["cmsTotalMaxCmp"], lambda: guard_fact(_find_def(cms, "CountMinSketch", "add_alt"), "elements_added", "INT64_T_MAX", "cms total clamp", clamp=True))
    attempt(["cbfAddClampCmp"], lambda: guard_fact(_find_def(cbf, "CountingBloomFilter", "add_alt"), None, "UINT32_T_MAX", "cbf add clamp", clamp=True))
    attempt(["qfResizeCmp"], lambda: guard_fact(_find_def(qf, "QuotientFilter", "add_alt"), "load_factor", "_max_load_factor", "qf auto-resize test", allow_offset=False))
    def qf_load():
        mlf = self_attr_assign(_find_def(qf, "QuotientFilter", "__set_params"), "_max_load_factor")
        if len(mlf) != 1 or not isinstance(mlf[0], float):
            raise ExtractError("QuotientFilter max load factor")
        return ("Float", mlf[0])

    attempt(["qfMaxLoad"], qf_load)


HEADER = """/-
  GENERATED by harness/extract_facts.py from the repository's current source. Do not edit.
  Declarative facts only (constants, struct layouts, typecodes, guard operators).
-/
import PyProb.Model.Prelude

namespace PyProb.Gen
"""


def old_definitions(dest):
    """name -> text of its definition(s) in the existing generated file (used for facts that could not be
    extracted and that the property being checked does not depend on)"""
    out = {}
    try:
        with open(dest, encoding="utf-8") as fh:
            lines = fh.read().split("\n")
    except OSError:
        return out
    import re as _re

    for i, line in enumerate(lines):
        m = _re.match(r"def (\w+?)(Bits|Num|Den|Raw|Off)? :", line)
        if m:
            base = m.group(1) if m.group(2) else m.group(1)
            out.setdefault(base, []).append(line)
            if not m.group(2):
                out.setdefault(m.group(1), [])
    return out


def render(facts, fallback=None):
    out = [HEADER]
    fallback = fallback or {}
    for name in sorted(set(facts) | set(fallback)):
        if name not in facts:
            out.extend(fallback[name])
            continue
        kind, val = facts[name]
        if kind == "Nat":
            out.append(f"def {name} : Nat := {val}")
        elif kind == "Int":
            out.append(f"def {name} : Int := {val}" if val >= 0 else f"def {name} : Int := -{-val}")
        elif kind == "Layout":
            out.append(f"def {name} : Layout := {lean_layout(val)}")
        elif kind == "Cmp":
            out.append(f"def {name} : Cmp := .{val}")
        elif kind == "Guard":
            raw, off, canon = val
            out.append(f"/-- as written: `subject {raw} bound{off:+d}`; canonical operator against the bound itself (Lemmas/GuardCanon.lean) -/")
            out.append(f"def {name} : Cmp := .{canon}")
            out.append(f"def {name}Raw : Cmp := .{raw}")
            out.append(f"def {name}Off : Int := {off}" if off >= 0 else f"def {name}Off : Int := -{-off}")
        elif kind == "Bool":
            out.append(f"def {name} : Bool := {'true' if val else 'false'}")
        elif kind == "Float":
            fr = Fraction(val)
            out.append(f"/-- the double {val!r} -/")
            out.append(f"def {name}Bits : UInt64 := {dbl_bits(val)}")
            out.append(f"def {name}Num : Nat := {fr.numerator}")
            out.append(f"def {name}Den : Nat := {fr.denominator}")
        else:
            raise AssertionError(kind)
    out.append("\nend PyProb.Gen\n")
    return "\n".join(out)


def regenerate(repo, dest):
    """returns (changed, text, missing); raises ExtractError when nothing usable can be generated.
    Facts that cannot be found keep their previous definition in the generated file (so the models
    still build) and are returned in `missing` — whether that breaks the tie of a property is decided
    by the caller from the facts that property depends on."""
    facts, missing = extract(repo)
    fallback = {}
    if missing:
        old = old_definitions(dest)
        for name in missing:
            if name in old and old[name]:
                fallback[name] = old[name]
            else:
                raise ExtractError(f"{name}: {missing[name]} (and no previous definition to fall back on)")
    text = render(facts, fallback)
    old = None
    if os.path.exists(dest):
        with open(dest, encoding="utf-8") as fh:
            old = fh.read()
    if old != text:
        tmp = dest + ".tmp%d" % os.getpid()
        with open(tmp, "w", encoding="utf-8") as fh:
            fh.write(text)
        os.replace(tmp, dest)
        return True, text, missing
    return False, text, missing


if __name__ == "__main__":
    repo = os.environ.get("VERIF_REPO", "/repo")
    here = os.path.dirname(os.path.abspath(__file__))
    dest = os.path.join(here, "..", "lean", "PyProb", "Generated", "Repo.lean")
    try:
        changed, _, missing = regenerate(repo, dest)
    except ExtractError as exc:
        print(f"extract_facts: BROKEN TIE: {exc}")
        sys.exit(3)
    for name, why in missing.items():
        print(f"extract_facts: could not extract {name}: {why} (previous definition kept)")
    print(f"extract_facts: {'rewrote' if changed else 'unchanged'} {os.path.normpath(dest)}")
