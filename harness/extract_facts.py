#!/usr/bin/env python3
"""Tie #1 (DESIGN §2.4): regenerate lean/PyProb/Generated/Repo.lean from the *current* source of
the repository, with `ast` only (nothing is imported or executed).

Only declarative facts are translated: numeric constants, struct layouts, array typecodes and the
comparison operators of guards that properties depend on.  If a fact cannot be found where it is
expected, ExtractError names it: that is a broken tie, decided by check.py, never a silent default.
"""
import ast
import os
import struct
import sys
from fractions import Fraction


class ExtractError(Exception):
    pass


def _parse(repo, rel):
    path = os.path.join(repo, rel)
    try:
        with open(path, encoding="utf-8") as fh:
            return ast.parse(fh.read(), filename=path)
    except (OSError, SyntaxError) as exc:
        raise ExtractError(f"{rel}: {exc}")


def _find_def(tree, cls, name):
    scope = tree.body
    if cls is not None:
        for node in tree.body:
            if isinstance(node, ast.ClassDef) and node.name == cls:
                scope = node.body
                break
        else:
            raise ExtractError(f"class {cls} not found")
    for node in scope:
        if isinstance(node, (ast.FunctionDef, ast.AsyncFunctionDef)) and node.name == name:
            return node
    raise ExtractError(f"function {cls}.{name} not found")


def _class_assign(tree, cls, name):
    for node in tree.body:
        if isinstance(node, ast.ClassDef) and node.name == cls:
            for st in node.body:
                if isinstance(st, ast.Assign) and len(st.targets) == 1 and isinstance(st.targets[0], ast.Name):
                    if st.targets[0].id == name:
                        return st.value
    raise ExtractError(f"{cls}.{name} not found")


def _const_eval(node, env):
    """evaluate an integer/float constant expression over names in env"""
    if isinstance(node, ast.Constant) and isinstance(node.value, (int, float)) and not isinstance(node.value, bool):
        return node.value
    if isinstance(node, ast.Name) and node.id in env:
        return env[node.id]
    if isinstance(node, ast.UnaryOp) and isinstance(node.op, ast.USub):
        return -_const_eval(node.operand, env)
    if isinstance(node, ast.UnaryOp) and isinstance(node.op, ast.UAdd):
        return _const_eval(node.operand, env)
    if isinstance(node, ast.UnaryOp) and isinstance(node.op, ast.Invert):
        v = _const_eval(node.operand, env)
        if isinstance(v, int):
            return ~v
    if isinstance(node, ast.BinOp):
        a, b = _const_eval(node.left, env), _const_eval(node.right, env)
        if isinstance(node.op, ast.Add):
            return a + b
        if isinstance(node.op, ast.Sub):
            return a - b
        if isinstance(node.op, ast.Mult):
            return a * b
        if isinstance(node.op, ast.Pow) and (isinstance(b, float) or 0 <= b <= 4096):
            return a**b
        if isinstance(a, int) and isinstance(b, int):
            if isinstance(node.op, ast.LShift) and 0 <= b <= 4096:
                return a << b
            if isinstance(node.op, ast.RShift) and b >= 0:
                return a >> b
            if isinstance(node.op, ast.BitOr):
                return a | b
            if isinstance(node.op, ast.BitAnd):
                return a & b
            if isinstance(node.op, ast.BitXor):
                return a ^ b
            if isinstance(node.op, ast.FloorDiv) and b != 0:
                return a // b
            if isinstance(node.op, ast.Mod) and b != 0:
                return a % b
    raise ExtractError(f"not a constant expression: {ast.dump(node)[:80]}")


def module_constants(tree):
    env = {}
    for node in tree.body:
        tgt = val = None
        if isinstance(node, ast.Assign) and len(node.targets) == 1:
            tgt, val = node.targets[0], node.value
        elif isinstance(node, ast.AnnAssign) and node.value is not None:
            tgt, val = node.target, node.value
        if isinstance(tgt, ast.Name):
            try:
                env[tgt.id] = _const_eval(val, env)
            except ExtractError:
                pass
    return env


def _struct_literal(val):
    if (
        isinstance(val, ast.Call)
        and isinstance(val.func, ast.Name)
        and val.func.id == "Struct"
        and len(val.args) == 1
        and isinstance(val.args[0], ast.Constant)
        and isinstance(val.args[0].value, str)
    ):
        return val.args[0].value
    return None


def all_structs(tree):
    """every `NAME = Struct("<literal>")` of the module, at module level or in a class body: name -> format"""
    out = {}
    scopes = [tree.body] + [n.body for n in tree.body if isinstance(n, ast.ClassDef)]
    for scope in scopes:
        for st in scope:
            if isinstance(st, ast.Assign) and len(st.targets) == 1 and isinstance(st.targets[0], ast.Name):
                fmt = _struct_literal(st.value)
                if fmt is not None:
                    out.setdefault(st.targets[0].id, fmt)
    return out


def struct_fmt(tree, cls, name, previous=None):
    """format of the struct that plays the role `cls.name`.  Looked up (1) as that class attribute, (2) under
    the same name up to leading underscores anywhere in the module (a class attribute moved to module level),
    (3) when the name is gone altogether: if exactly the format it had at the last extraction (`previous`) is
    still defined by some Struct of the module, the role is taken to be unchanged — the correspondence on the
    exported bytes is what checks that it really is."""
    try:
        fmt = _struct_literal(_class_assign(tree, cls, name))
        if fmt is not None:
            return fmt
    except ExtractError:
        pass
    structs = all_structs(tree)
    for nm, fmt in structs.items():
        if nm.lstrip("_") == name.lstrip("_"):
            return fmt
    if previous is not None and previous in structs.values():
        return previous
    raise ExtractError(f"{cls}.{name} is not Struct(<literal>)")


CMP = {ast.Lt: "lt", ast.LtE: "le", ast.Gt: "gt", ast.GtE: "ge", ast.Eq: "eq", ast.NotEq: "ne"}


def _mentions(node, word):
    for sub in ast.walk(node):
        if isinstance(sub, ast.Name) and sub.id == word:
            return True
        if isinstance(sub, ast.Attribute) and sub.attr.endswith(word):
            return True
        # a value kept in a dict of parameters: self.__args["est_elements"]
        if isinstance(sub, ast.Subscript) and isinstance(sub.slice, ast.Constant) and isinstance(sub.slice.value, str) and sub.slice.value.endswith(word):
            return True
    return False


def _class_functions(tree, cls):
    for node in tree.body:
        if isinstance(node, ast.ClassDef) and node.name == cls:
            return [st for st in node.body if isinstance(st, (ast.FunctionDef, ast.AsyncFunctionDef))]
    raise ExtractError(f"class {cls} not found")


def guard_fact_anywhere(tree, cls, preferred, left_word, right_word, what, **kw):
    """the guard is looked for in the method it lives in today; when that method is gone (renamed, merged), in
    every method of the class, in source order — the marker of the guarded action is what identifies it"""
    try:
        return guard_fact(_find_def(tree, cls, preferred), left_word, right_word, what, **kw)
    except ExtractError as first:
        for fn in _class_functions(tree, cls):
            try:
                return guard_fact(fn, left_word, right_word, what, **kw)
            except ExtractError:
                continue
        raise first


def _split_offset(node):
    """node = X, X + c or X - c with an integer literal c  ->  (X, c)"""
    if isinstance(node, ast.BinOp) and isinstance(node.op, (ast.Add, ast.Sub)):
        r = node.right
        if isinstance(r, ast.Constant) and isinstance(r.value, int) and not isinstance(r.value, bool):
            return node.left, (r.value if isinstance(node.op, ast.Add) else -r.value)
        l = node.left
        if isinstance(node.op, ast.Add) and isinstance(l, ast.Constant) and isinstance(l.value, int) and not isinstance(l.value, bool):
            return node.right, l.value
    return node, 0


FLIP = {"lt": "gt", "le": "ge", "gt": "lt", "ge": "le", "eq": "eq", "ne": "ne"}
NEGATE = {"lt": "ge", "le": "gt", "gt": "le", "ge": "lt", "eq": "ne", "ne": "eq"}


def _parents(fn):
    par = {}
    for node in ast.walk(fn):
        for ch in ast.iter_child_nodes(node):
            par[id(ch)] = node
    return par


JUMPS = (ast.Return, ast.Continue, ast.Break, ast.Raise)


def _has_marker(stmts, marker):
    for st in stmts:
        for node in ast.walk(st):
            if marker(node):
                return True
    return False


def marker_assigns(name):
    """a statement that stores exactly the named bound (`cell = INT32_T_MAX`)"""

    def m(node):
        if isinstance(node, (ast.Assign, ast.AnnAssign)) and node.value is not None:
            v = node.value
            return (isinstance(v, ast.Name) and v.id == name) or (isinstance(v, ast.Attribute) and v.attr == name)
        return False

    return m


def marker_calls(fragment):
    """a call of something whose name contains the fragment (`self.__add_bloom_filter()`, `self.resize()`)"""

    def m(node):
        if isinstance(node, ast.Call):
            f = node.func
            nm = f.attr if isinstance(f, ast.Attribute) else (f.id if isinstance(f, ast.Name) else "")
            return fragment in nm
        return False

    return m


def compare_shape(fn, left_word, right_word, what, marker=None):
    """(op, off): the first comparison in fn between something mentioning left_word (any expression when
    None) and right_word, read as  `subject op bound + off`  AND oriented so that it is the condition under
    which the guarded action (found by `marker`) is performed.  Recognised spellings: the bound on either
    side; an integer literal added to or subtracted from either side; `not`, and `and` / `or` with other
    conditions, around it; the action in the `if` body, in the `else` branch, or after an `if` whose body
    leaves (return / continue / break / raise).  The operator and offset are emitted as read; the canonical
    operator the models use is derived from them by `canonical_guard`, and that derivation is re-proved in
    Lean on every run (Lemmas/GuardCanon.lean).  Anything else raises ExtractError: never a guess."""
    par = _parents(fn)
    for node in ast.walk(fn):
        if isinstance(node, ast.Compare) and len(node.ops) == 1:
            op = CMP.get(type(node.ops[0]))
            if not op:
                continue
            a, b = node.left, node.comparators[0]
            if (left_word is None or _mentions(a, left_word)) and _mentions(b, right_word) and not (left_word is None and _mentions(a, right_word)):
                pass
            elif _mentions(a, right_word) and (left_word is None or _mentions(b, left_word)) and not (left_word is None and _mentions(b, right_word)):
                a, b, op = b, a, FLIP[op]
            else:
                continue
            _, ja = _split_offset(a)
            _, kb = _split_offset(b)
            # the boolean context of the comparison, up to the statement that uses it
            path = []  # "not" / "and" / "or", innermost first
            cur = node
            while True:
                up = par.get(id(cur))
                if isinstance(up, ast.UnaryOp) and isinstance(up.op, ast.Not):
                    path.append("not")
                elif isinstance(up, ast.BoolOp):
                    path.append("and" if isinstance(up.op, ast.And) else "or")
                else:
                    break
                cur = up
            stmt = par.get(id(cur))
            branch = 1
            if marker is not None and isinstance(stmt, ast.If) and stmt.test is cur:
                if _has_marker(stmt.body, marker):
                    branch = 1
                elif _has_marker(stmt.orelse, marker):
                    branch = -1
                else:
                    block = None
                    owner = par.get(id(stmt))
                    for field in ("body", "orelse", "finalbody"):
                        seq = getattr(owner, field, None)
                        if isinstance(seq, list) and stmt in seq:
                            block = seq
                    after = block[block.index(stmt) + 1 :] if block else []
                    if stmt.body and isinstance(stmt.body[-1], JUMPS) and not stmt.orelse and _has_marker(after, marker):
                        branch = -1
                    else:
                        raise ExtractError(f"{what}: cannot tell on which branch of the test the guarded action is performed")
            # push the negations inwards: every connective on the way must come out as a conjunction, so that the
            # comparison (with its final polarity) is a necessary condition of the action
            parity = branch
            for kind in reversed(path):
                if kind == "not":
                    parity = -parity
                elif (kind == "and") != (parity > 0):
                    raise ExtractError(f"{what}: the comparison is one alternative of a disjunction")
            sign = parity
            if sign < 0:
                op = NEGATE[op]
            return op, kb - ja
    raise ExtractError(f"comparison not found: {what}")


def canonical_guard(op, off, clamp, what):
    """the operator c with  (subject op bound+off)  <=>  (subject c bound)  over the integers; for a clamp
    (`if v c M: cell = M else: cell = v`) `>=` and `>` (and `<=`, `<`) give the same result and the strict
    one is canonical.  Raises ExtractError when there is no such operator."""
    c = None
    if off == 0:
        c = op
    elif (op, off) == ("lt", 1):
        c = "le"
    elif (op, off) == ("le", -1):
        c = "lt"
    elif (op, off) == ("gt", -1):
        c = "ge"
    elif (op, off) == ("ge", 1):
        c = "gt"
    if c is None:
        raise ExtractError(f"{what}: `{op}` against the bound {off:+d} is not one of the recognised spellings")
    if clamp:
        c = {"ge": "gt", "le": "lt"}.get(c, c)
    return c


def guard_fact(fn, left_word, right_word, what, clamp=False, allow_offset=True, marker=None, negate=False):
    """negate: the fact is the condition under which the action is NOT performed (count-min remove keeps the
    value when it is above the lower limit; the action found by the marker is the clamp)"""
    op, off = compare_shape(fn, left_word, right_word, what, marker)
    if negate:
        op = NEGATE[op]
    if off != 0 and not allow_offset:
        raise ExtractError(f"{what}: offset {off:+d} in a non-integer comparison")
    return ("Guard", (op, off, canonical_guard(op, off, clamp, what)))


FLOAT_ENV = {}  # names of the module being read -> ast value node (module-level constants and locals bound once)


def float_const_eval(node):
    """value of a constant float expression built from numeric literals, + - * / **, unary minus and
    math.log / math.log2 / math.exp / math.pow / math.sqrt of such expressions (evaluated with the same
    libm CPython uses).  Raises ExtractError for anything else."""
    import math as _math

    if isinstance(node, ast.Constant) and isinstance(node.value, (int, float)) and not isinstance(node.value, bool):
        return float(node.value)
    if isinstance(node, ast.Name) and node.id in FLOAT_ENV:
        val = FLOAT_ENV.pop(node.id)  # taken out while it is being evaluated: a name defined through itself is no constant
        try:
            return float_const_eval(val)
        finally:
            FLOAT_ENV[node.id] = val
    if isinstance(node, ast.UnaryOp) and isinstance(node.op, ast.USub):
        return -float_const_eval(node.operand)
    if isinstance(node, ast.BinOp):
        a, b = float_const_eval(node.left), float_const_eval(node.right)
        try:
            if isinstance(node.op, ast.Add):
                return a + b
            if isinstance(node.op, ast.Sub):
                return a - b
            if isinstance(node.op, ast.Mult):
                return a * b
            if isinstance(node.op, ast.Div):
                return a / b
            if isinstance(node.op, ast.Pow):
                return a**b
        except (ArithmeticError, ValueError) as exc:
            raise ExtractError(f"constant expression does not evaluate: {exc}")
    if isinstance(node, ast.Call) and isinstance(node.func, ast.Attribute) and isinstance(node.func.value, ast.Name) and node.func.value.id == "math":
        fn = {"log": _math.log, "log2": _math.log2, "exp": _math.exp, "pow": _math.pow, "sqrt": _math.sqrt}.get(node.func.attr)
        if fn is not None and not node.keywords:
            try:
                return float(fn(*[float_const_eval(a) for a in node.args]))
            except (ArithmeticError, ValueError, TypeError) as exc:
                raise ExtractError(f"constant expression does not evaluate: {exc}")
    raise ExtractError(f"not a constant float expression: {ast.dump(node)[:80]}")


def _assigned_value(fn, target):
    """value node of the (single) assignment `target = …` / `self.<target> = …` in fn"""
    found = []
    for node in ast.walk(fn):
        if isinstance(node, ast.Assign) and len(node.targets) == 1:
            t = node.targets[0]
            if (isinstance(t, ast.Name) and t.id == target) or (isinstance(t, ast.Attribute) and t.attr.endswith(target)):
                found.append((node.lineno, node.value))
    if len(found) != 1:
        raise ExtractError(f"expected exactly one assignment to {target}, found {len(found)}")
    return found[0][1]


def _strip_calls(node, names):
    """peel int(...), round(...), math.ceil(...) wrappers"""
    while isinstance(node, ast.Call) and len(node.args) == 1:
        f = node.func
        nm = f.id if isinstance(f, ast.Name) else (f.attr if isinstance(f, ast.Attribute) else None)
        if nm in names:
            node = node.args[0]
        else:
            break
    return node


def _set_float_env(tree, fn):
    """names a constant float expression may go through: module-level assignments and names bound exactly
    once in fn (a name rebound anywhere is left out)"""
    FLOAT_ENV.clear()
    count = {}
    val = {}
    for scope in (tree.body, list(ast.walk(fn))):
        for node in scope:
            tgt = v = None
            if isinstance(node, ast.Assign) and len(node.targets) == 1:
                tgt, v = node.targets[0], node.value
            elif isinstance(node, ast.AnnAssign) and node.value is not None:
                tgt, v = node.target, node.value
            elif isinstance(node, ast.AugAssign) and isinstance(node.target, ast.Name):
                count[node.target.id] = count.get(node.target.id, 0) + 2
            if isinstance(tgt, ast.Name):
                count[tgt.id] = count.get(tgt.id, 0) + 1
                val[tgt.id] = v
    for nm, n in count.items():
        if n == 1 and nm in val:
            FLOAT_ENV[nm] = val[nm]


def bloom_sizing_constants(fn):
    """(divisor of the bit-count formula, multiplier of the hash-count formula) as doubles:
    m_bt = ceil(<numerator> / DIV);  number_hashes = int(round(MUL * m_bt / n))"""
    bits = _strip_calls(_assigned_value(fn, "m_bt"), {"ceil", "int"})
    if not (isinstance(bits, ast.BinOp) and isinstance(bits.op, ast.Div)):
        raise ExtractError("m_bt is not ceil(<numerator> / <constant>)")
    div = float_const_eval(bits.right)
    hashes = _strip_calls(_assigned_value(fn, "number_hashes"), {"int", "round"})
    # MUL * m_bt / n   parses as   (MUL * m_bt) / n
    if not (isinstance(hashes, ast.BinOp) and isinstance(hashes.op, ast.Div) and isinstance(hashes.left, ast.BinOp) and isinstance(hashes.left.op, ast.Mult)):
        raise ExtractError("number_hashes is not int(round(<constant> * m_bt / n))")
    mul = float_const_eval(hashes.left.left)
    return div, mul


def cms_depth_constant(fn):
    """depth = ceil(numerator / C)"""
    depth = _strip_calls(_assigned_value(fn, "__depth"), {"ceil", "int"})
    if not (isinstance(depth, ast.BinOp) and isinstance(depth.op, ast.Div)):
        raise ExtractError("depth is not ceil(<numerator> / <constant>)")
    return float_const_eval(depth.right)


def float_literals(fn):
    out = []
    for node in ast.walk(fn):
        if isinstance(node, ast.Constant) and isinstance(node.value, float):
            out.append((node.lineno, node.col_offset, node.value))
    return [v for _, _, v in sorted(out)]


def self_attr_assign(fn, attr):
    """all constants assigned to self.<attr> in fn, in source order"""
    out = []
    for node in ast.walk(fn):
        tgt = None
        if isinstance(node, ast.Assign) and len(node.targets) == 1:
            tgt, val = node.targets[0], node.value
        elif isinstance(node, ast.AnnAssign) and node.value is not None:
            tgt, val = node.target, node.value
        if isinstance(tgt, ast.Attribute) and tgt.attr == attr and isinstance(val, ast.Constant):
            out.append((node.lineno, val.value))
    return [v for _, v in sorted(out)]


def _fnv_loop(fn, var=None):
    """the xor / multiply / mask loop over one name: (name, multiplier expr, mask expr) or None"""
    for node in ast.walk(fn):
        if isinstance(node, ast.For):
            steps = [st for st in node.body if isinstance(st, ast.AugAssign) and isinstance(st.target, ast.Name)]
            if len(steps) == 3 and len({st.target.id for st in steps}) == 1 and [type(st.op) for st in steps] == [ast.BitXor, ast.Mult, ast.BitAnd]:
                if var is None or steps[0].target.id == var:
                    return steps[0].target.id, steps[1].value, steps[2].value
            # `h ^= unit; h = (h * PRIME) & MASK` — multiply and mask fused into one statement
            body = [st for st in node.body if isinstance(st, (ast.AugAssign, ast.Assign))]
            if len(body) == 2 and isinstance(body[0], ast.AugAssign) and isinstance(body[0].op, ast.BitXor) and isinstance(body[0].target, ast.Name):
                v = body[0].target.id
                st = body[1]
                if isinstance(st, ast.Assign) and len(st.targets) == 1 and isinstance(st.targets[0], ast.Name) and st.targets[0].id == v and (var is None or v == var):
                    e = st.value
                    if isinstance(e, ast.BinOp) and isinstance(e.op, ast.BitAnd):
                        for prod, mask in ((e.left, e.right), (e.right, e.left)):
                            if isinstance(prod, ast.BinOp) and isinstance(prod.op, ast.Mult):
                                for x, y in ((prod.left, prod.right), (prod.right, prod.left)):
                                    if isinstance(x, ast.Name) and x.id == v:
                                        return v, y, mask
    return None


def _single_assign(fn, name):
    vals = [n.value for n in ast.walk(fn) if isinstance(n, ast.Assign) and len(n.targets) == 1 and isinstance(n.targets[0], ast.Name) and n.targets[0].id == name]
    return vals[0] if len(vals) == 1 else None


def fnv_consts(tree, fn, what, consts):
    """(offset, multiplier, prime, mask value, start masked?) of a seeded FNV-1a:
         h = (OFF + (MULT * seed)) & MASK      -- or without the mask
         for unit in key: h ^= unit; h *= PRIME; h &= MASK
    The literals may be spelled in place, through a local name bound once, or through a module-level constant;
    the loop may live in a module-level helper that is called with the start value, the prime and the mask.
    Anything else raises ExtractError."""
    env = dict(consts)
    env.update(module_constants(tree))
    for node in ast.walk(fn):
        if isinstance(node, ast.Assign) and len(node.targets) == 1 and isinstance(node.targets[0], ast.Name):
            nm = node.targets[0].id
            if _single_assign(fn, nm) is node.value:
                try:
                    v = _const_eval(node.value, env)
                    if isinstance(v, int):
                        env[nm] = v
                except ExtractError:
                    pass

    def lit(n, e=None):
        try:
            v = _const_eval(n, e or env)
        except ExtractError:
            return None
        return v if isinstance(v, int) and not isinstance(v, bool) else None

    loop = _fnv_loop(fn)
    if loop is not None:
        var, prime_e, mask_e = loop
        start_e = None
        for node in ast.walk(fn):
            if isinstance(node, ast.Assign) and len(node.targets) == 1 and isinstance(node.targets[0], ast.Name) and node.targets[0].id == var:
                start_e = node.value
                break
        prime, mask = lit(prime_e), lit(mask_e)
    else:
        # the loop lives in a helper: f(..) = helper(key, <start>, <prime>, <mask>)
        start_e = prime = mask = None
        for node in ast.walk(fn):
            if isinstance(node, ast.Call) and isinstance(node.func, ast.Name):
                try:
                    g = _find_def(tree, None, node.func.id)
                except ExtractError:
                    continue
                params = [a.arg for a in g.args.args]
                bound = {}
                for i, a in enumerate(node.args):
                    if i < len(params):
                        bound[params[i]] = a
                for kw in node.keywords:
                    bound[kw.arg] = kw.value
                for prm in params:
                    lp = _fnv_loop(g, prm)
                    if lp is None or prm not in bound:
                        continue
                    _, prime_e, mask_e = lp

                    def through(e):
                        if isinstance(e, ast.Name) and e.id in bound:
                            return bound[e.id]
                        return e

                    start_e = bound[prm]
                    if isinstance(start_e, ast.Name) and _single_assign(fn, start_e.id) is not None:
                        start_e = _single_assign(fn, start_e.id)
                    prime, mask = lit(through(prime_e)), lit(through(mask_e))
                    break
            if start_e is not None:
                break
    if start_e is None or prime is None or mask is None:
        raise ExtractError(f"fnv shape not recognised: {what} (loop/prime/mask)")
    masked = False
    inner = start_e
    if isinstance(inner, ast.BinOp) and isinstance(inner.op, ast.BitAnd):
        if lit(inner.right) != mask:
            raise ExtractError(f"fnv shape not recognised: {what} (start mask differs from the loop mask)")
        masked = True
        inner = inner.left
    off = mult = None
    if isinstance(inner, ast.BinOp) and isinstance(inner.op, ast.Add):
        off = lit(inner.left)
        prod = inner.right
        if isinstance(prod, ast.BinOp) and isinstance(prod.op, ast.Mult):
            if isinstance(prod.right, ast.Name) and prod.right.id == "seed":
                mult = lit(prod.left)
            elif isinstance(prod.left, ast.Name) and prod.left.id == "seed":
                mult = lit(prod.right)
    if off is None or mult is None:
        raise ExtractError(f"fnv shape not recognised: {what} (start value is not OFF + MULT * seed)")
    return off, mult, prime, mask, masked


FIELD = {"Q": "u64", "q": "i64", "I": "u32", "i": "i32", "f": "f32", "B": "u8", "L": "u64"}


def lean_layout(fmt):
    order = "native"
    body = fmt
    if fmt and fmt[0] in "<>!=@":
        order = {">": "big", "!": "big", "<": "little", "=": "little", "@": "native"}[fmt[0]]
        body = fmt[1:]
    try:
        fields = ", ".join("." + FIELD[c] for c in body)
    except KeyError as exc:
        raise ExtractError(f"unknown struct code {exc} in {fmt!r}")
    return f"{{ order := .{order}, fields := [{fields}] }}"


def dbl_bits(x):
    return struct.unpack("<Q", struct.pack("<d", x))[0]


class Missing(dict):
    """facts that could not be extracted: name -> reason"""


def extract(repo):
    """returns (facts, missing).  A fact whose pattern is not found is reported in `missing` instead of
    aborting everything, so that only the properties that depend on it are affected."""
    facts = {}
    missing = Missing()

    def attempt(names, fn):
        try:
            out = fn()
        except ExtractError as exc:
            for nm in names:
                missing[nm] = str(exc)
            return
        if len(names) == 1:
            facts[names[0]] = out
        else:
            for nm, v in zip(names, out):
                facts[nm] = v

    _extract_into(repo, facts, attempt)
    return facts, missing


def _extract_into(repo, facts, attempt):
    consts = module_constants(_parse(repo, "probables/constants.py"))
    for py, lean in [
        ("INT32_T_MIN", "int32Min"),
        ("INT32_T_MAX", "int32Max"),
        ("INT64_T_MIN", "int64Min"),
        ("INT64_T_MAX", "int64Max"),
        ("UINT32_T_MAX", "uint32Max"),
        ("UINT64_T_MAX", "uint64Max"),
    ]:
        if py not in consts or not isinstance(consts[py], int):
            raise ExtractError(f"constants.{py}")
        facts[lean] = ("Int", consts[py])

    hashes = _parse(repo, "probables/hashes.py")
    for fn_name, tag in [("fnv_1a", "fnv64"), ("fnv_1a_32", "fnv32")]:

        def fnv(fn_name=fn_name):
            off, mult, prime, mask, masked = fnv_consts(hashes, _find_def(hashes, None, fn_name), fn_name, consts)
            return [("Nat", off), ("Nat", mult), ("Nat", prime), ("Nat", mask), ("Bool", masked)]

        attempt([tag + "Offset", tag + "Mult", tag + "Prime", tag + "Mask", tag + "StartMasked"], fnv)

    bloom = _parse(repo, "probables/blooms/bloom.py")
    cbf = _parse(repo, "probables/blooms/countingbloom.py")
    exp = _parse(repo, "probables/blooms/expandingbloom.py")
    cms = _parse(repo, "probables/countminsketch/countminsketch.py")
    cko = _parse(repo, "probables/cuckoo/cuckoo.py")
    cck = _parse(repo, "probables/cuckoo/countingcuckoo.py")
    qf = _parse(repo, "probables/quotientfilter/quotientfilter.py")

    # role -> (module, class, attribute, documented format: used only to recognise the struct when its name is gone)
    layouts = {
        "bloomFooter": (bloom, "BloomFilter", "_FOOTER_STRUCT", "QQf"),
        "bloomFooterHex": (bloom, "BloomFilter", "_FOOTER_STRUCT_BE", ">QQf"),
        "bloomFpr": (bloom, "BloomFilter", "_FPR_STRUCT", "f"),
        "bloomCell": (bloom, "BloomFilter", "_IMPT_STRUCT", "B"),
        "onDiskCount": (bloom, "BloomFilterOnDisk", "_EXPECTED_ELM_STRUCT", "Q"),
        "onDiskUpdateOffset": (bloom, "BloomFilterOnDisk", "_UPDATE_OFFSET", "Qf"),
        "cbfCell": (cbf, "CountingBloomFilter", "_IMPT_STRUCT", "I"),
        "expFooter": (exp, "ExpandingBloomFilter", "__FOOTER_STRUCT", "QQQf"),
        "expCount": (exp, "ExpandingBloomFilter", "__S_INT64_STRUCT", "Q"),
        "cmsFooter": (cms, "CountMinSketch", "__FOOTER_STRUCT", "IIq"),
        "cmsCell": (cms, "CountMinSketch", "__BASIC_BIN_STRUCT", "i"),
        "cuckooFooter": (cko, "CuckooFilter", "_CUCKOO_FOOTER_STRUCT", "II"),
        "ccfFooter": (cck, "CountingCuckooFilter", "__COUNTING_CUCKOO_FOOTER_STRUCT", "II"),
        "ccfBin": (cck, "CountingCuckooFilter", "__BIN_STRUCT", "II"),
    }
    for name, (tree, cls, attr, doc) in layouts.items():
        attempt([name], lambda tree=tree, cls=cls, attr=attr, doc=doc: ("Layout", struct_fmt(tree, cls, attr, doc)))

    def cuckoo_cell():
        single = _class_assign(cko, "CuckooFilter", "_CUCKOO_SINGLE_INT_C")
        if not (isinstance(single, ast.Constant) and isinstance(single.value, str)):
            raise ExtractError("CuckooFilter._CUCKOO_SINGLE_INT_C")
        return ("Layout", single.value)

    attempt(["cuckooCell"], cuckoo_cell)

    # array typecodes
    def typecodes(tree, cls, fn, what):
        tcs = self_attr_assign(_find_def(tree, cls, fn), "_typecode")
        bpe = self_attr_assign(_find_def(tree, cls, fn), "_bits_per_elm")
        if len(tcs) != 1 or len(bpe) != 1 or float(bpe[0]) != int(bpe[0]):
            raise ExtractError(what + " typecode / bits_per_elm")
        return [("Layout", tcs[0]), ("Nat", int(bpe[0]))]

    attempt(["bloomTypecode", "bloomBitsPerElm"], lambda: typecodes(bloom, "BloomFilter", "__init__", "BloomFilter"))
    attempt(["cbfTypecode", "cbfBitsPerElm"], lambda: typecodes(cbf, "CountingBloomFilter", "_load_init", "CountingBloomFilter"))

    # float literals of the sizing formulas
    def bloom_floats():
        try:
            _set_float_env(bloom, _find_def(bloom, "BloomFilter", "_get_optimized_params"))
            div, mul = bloom_sizing_constants(_find_def(bloom, "BloomFilter", "_get_optimized_params"))
            return [("Float", div), ("Float", mul)]
        except ExtractError:
            pass  # formula restructured: fall back to the two literals
        fl = float_literals(_find_def(bloom, "BloomFilter", "_get_optimized_params"))
        # expected: 0.0, 1.0 of the range test, then ln(2)^2 and ln(2)
        fl = [v for v in fl if v not in (0.0, 1.0)]
        if len(fl) != 2:
            raise ExtractError(f"_get_optimized_params float literals: {fl}")
        return [("Float", fl[0]), ("Float", fl[1])]

    attempt(["bloomLn2Sq", "bloomLn2"], bloom_floats)

    def cms_float():
        try:
            _set_float_env(cms, _find_def(cms, "CountMinSketch", "__init__"))
            return ("Float", cms_depth_constant(_find_def(cms, "CountMinSketch", "__init__")))
        except ExtractError:
            pass
        fl = [v for v in float_literals(_find_def(cms, "CountMinSketch", "__init__")) if v != 0.0]
        if len(fl) != 1:
            raise ExtractError(f"CountMinSketch.__init__ float literals: {fl}")
        return ("Float", fl[0])

    attempt(["cmsLn2"], cms_float)

    # guards
    attempt(["expGrowCmp"], lambda: guard_fact_anywhere(exp, "ExpandingBloomFilter", "__check_for_growth", "elements_added", "est_elements", "expanding growth test", marker=marker_calls("add_bloom")))
    attempt(["rotReadyCmp"], lambda: guard_fact_anywhere(exp, "RotatingBloomFilter", "__rotate_bloom_filter", "elements_added", "estimated_elements", "rotating ready test"))
    attempt(["rotRoomCmp"], lambda: guard_fact_anywhere(exp, "RotatingBloomFilter", "__rotate_bloom_filter", "current_queue_size", "_queue_size", "rotating room test"))
    attempt(["cmsAddClampCmp"], lambda: guard_fact(_find_def(cms, "CountMinSketch", "add_alt"), None, "INT32_T_MAX", "cms add clamp", clamp=True, marker=marker_assigns("INT32_T_MAX")))
    attempt(["cmsRemoveKeepCmp"], lambda: guard_fact(_find_def(cms, "CountMinSketch", "remove_alt"), None, "INT32_T_MIN", "cms remove clamp", clamp=True, marker=marker_assigns("INT32_T_MIN"), negate=True))
    attempt(["cmsTotalMaxCmp"], lambda: guard_fact(_find_def(cms, "CountMinSketch", "add_alt"), "elements_added", "INT64_T_MAX", "cms total clamp", clamp=True, marker=marker_assigns("INT64_T_MAX")))
    attempt(["cbfAddClampCmp"], lambda: guard_fact(_find_def(cbf, "CountingBloomFilter", "add_alt"), None, "UINT32_T_MAX", "cbf add clamp", clamp=True, marker=marker_assigns("UINT32_T_MAX")))
    attempt(["qfResizeCmp"], lambda: guard_fact(_find_def(qf, "QuotientFilter", "add_alt"), "load_factor", "_max_load_factor", "qf auto-resize test", allow_offset=False, marker=marker_calls("resize")))
    def qf_load():
        fn = _find_def(qf, "QuotientFilter", "__set_params")
        env = module_constants(qf)
        vals = []
        for node in ast.walk(fn):
            tgt = val = None
            if isinstance(node, ast.Assign) and len(node.targets) == 1:
                tgt, val = node.targets[0], node.value
            elif isinstance(node, ast.AnnAssign) and node.value is not None:
                tgt, val = node.target, node.value
            if isinstance(tgt, ast.Attribute) and tgt.attr == "_max_load_factor":
                try:
                    vals.append(_const_eval(val, env))
                except ExtractError:
                    vals.append(None)
        if len(vals) != 1 or not isinstance(vals[0], float):
            raise ExtractError("QuotientFilter max load factor")
        return ("Float", vals[0])

    attempt(["qfMaxLoad"], qf_load)


HEADER = """/-
  GENERATED by harness/extract_facts.py from the repository's current source. Do not edit.
  Declarative facts only (constants, struct layouts, typecodes, guard operators).
-/
import PyProb.Model.Prelude

namespace PyProb.Gen
"""


def old_definitions(dest):
    """name -> text of its definition(s) in the existing generated file (used for facts that could not be
    extracted and that the property being checked does not depend on)"""
    out = {}
    try:
        with open(dest, encoding="utf-8") as fh:
            lines = fh.read().split("\n")
    except OSError:
        return out
    import re as _re

    for i, line in enumerate(lines):
        m = _re.match(r"def (\w+?)(Bits|Num|Den|Raw|Off)? :", line)
        if m:
            base = m.group(1) if m.group(2) else m.group(1)
            out.setdefault(base, []).append(line)
            if not m.group(2):
                out.setdefault(m.group(1), [])
    return out


def render(facts, fallback=None):
    out = [HEADER]
    fallback = fallback or {}
    for name in sorted(set(facts) | set(fallback)):
        if name not in facts:
            out.extend(fallback[name])
            continue
        kind, val = facts[name]
        if kind == "Nat":
            out.append(f"def {name} : Nat := {val}")
        elif kind == "Int":
            out.append(f"def {name} : Int := {val}" if val >= 0 else f"def {name} : Int := -{-val}")
        elif kind == "Layout":
            out.append(f"def {name} : Layout := {lean_layout(val)}")
        elif kind == "Cmp":
            out.append(f"def {name} : Cmp := .{val}")
        elif kind == "Guard":
            raw, off, canon = val
            out.append(f"/-- as written: `subject {raw} bound{off:+d}`; canonical operator against the bound itself (Lemmas/GuardCanon.lean) -/")
            out.append(f"def {name} : Cmp := .{canon}")
            out.append(f"def {name}Raw : Cmp := .{raw}")
            out.append(f"def {name}Off : Int := {off}" if off >= 0 else f"def {name}Off : Int := -{-off}")
        elif kind == "Bool":
            out.append(f"def {name} : Bool := {'true' if val else 'false'}")
        elif kind == "Float":
            fr = Fraction(val)
            out.append(f"/-- the double {val!r} -/")
            out.append(f"def {name}Bits : UInt64 := {dbl_bits(val)}")
            out.append(f"def {name}Num : Nat := {fr.numerator}")
            out.append(f"def {name}Den : Nat := {fr.denominator}")
        else:
            raise AssertionError(kind)
    out.append("\nend PyProb.Gen\n")
    return "\n".join(out)


def regenerate(repo, dest):
    """returns (changed, text, missing); raises ExtractError when nothing usable can be generated.
    Facts that cannot be found keep their previous definition in the generated file (so the models
    still build) and are returned in `missing` — whether that breaks the tie of a property is decided
    by the caller from the facts that property depends on."""
    facts, missing = extract(repo)
    fallback = {}
    if missing:
        old = old_definitions(dest)
        for name in missing:
            if name in old and old[name]:
                fallback[name] = old[name]
            else:
                raise ExtractError(f"{name}: {missing[name]} (and no previous definition to fall back on)")
    text = render(facts, fallback)
    old = None
    if os.path.exists(dest):
        with open(dest, encoding="utf-8") as fh:
            old = fh.read()
    if old != text:
        tmp = dest + ".tmp%d" % os.getpid()
        with open(tmp, "w", encoding="utf-8") as fh:
            fh.write(text)
        os.replace(tmp, dest)
        return True, text, missing
    return False, text, missing


if __name__ == "__main__":
    repo = os.environ.get("VERIF_REPO", "/repo")
    here = os.path.dirname(os.path.abspath(__file__))
    dest = os.path.join(here, "..", "lean", "PyProb", "Generated", "Repo.lean")
    try:
        changed, _, missing = regenerate(repo, dest)
    except ExtractError as exc:
        print(f"extract_facts: BROKEN TIE: {exc}")
        sys.exit(3)
    for name, why in missing.items():
        print(f"extract_facts: could not extract {name}: {why} (previous definition kept)")
    print(f"extract_facts: {'rewrote' if changed else 'unchanged'} {os.path.normpath(dest)}")
