/-
  Line-protocol driver over the executable models (DESIGN §2.5).
  One request line in, one reply line out. Imports models only (no Mathlib), so it also links as
  a `lean_exe`.
-/
import PyProb.Driver.All

open PyProb PyProb.Drv

partial def loop (h : IO.FS.Stream) (out : IO.FS.Stream) (st : St) : IO Unit := do
  let line ← h.getLine
  if line.isEmpty then return ()
  let (st', reply) := step st line
  out.putStrLn reply
  loop h out st'

def main : IO Unit := do
  let out ← IO.getStdout
  loop (← IO.getStdin) out {}
  out.flush
