-- Root of the `PyProb` library: models, specifications, lemmas and property theorems.
import PyProb.Model.Base
import PyProb.Model.Hashes
import PyProb.Model.Bitarray
import PyProb.Model.Sizing
import PyProb.Model.Bloom
import PyProb.Model.Expanding
import PyProb.Model.CMS
import PyProb.Model.Cuckoo
import PyProb.Model.QF
import PyProb.Properties.C18
import PyProb.Properties.C20
