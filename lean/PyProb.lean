-- Root of the `PyProb` library: models, specifications, lemmas and property theorems.
import PyProb.Model.Base
import PyProb.Model.Hashes
import PyProb.Model.Bitarray
import PyProb.Properties.C18
import PyProb.Properties.C20
