/-
  probables/blooms/bloom.py (BloomFilter) and countingbloom.py (CountingBloomFilter).
  Core Lean only.  Floats never enter: the rate is carried as its float32 bit pattern, and the two
  float-valued dependencies (geometry re-derivation on load, `estimate_elements`) are parameters.
-/
import PyProb.Model.Bitarray

namespace PyProb

/-- `_get_optimized_params` seen from the formats: `(est, fpr32) ↦ (fpr32', k, m)` -/
abbrev Geom := Int → Nat → R (Nat × Nat × Nat)
/-- `estimate_elements` seen from the set operations: `(m, k, setbits) ↦ estimate` -/
abbrev Estimator := Nat → Nat → Nat → Int

/-- `bin(x).count("1")` of a byte -/
def popByte (x : Nat) : Nat := ((List.range 8).filter fun i => x.testBit i).length

structure Bloom where
  est : Nat
  fpr32 : Nat
  k : Nat
  m : Nat
  bits : Bytes
  count : Int
  deriving DecidableEq, Repr

namespace Bloom

/-- `math.ceil(n_bits / 8.0)` -/
def lengthOf (m : Nat) : Nat := (m + (Gen.bloomBitsPerElm - 1)) / Gen.bloomBitsPerElm

def bloomLength (b : Bloom) : Nat := lengthOf b.m

/-- a fresh filter with the given geometry -/
def new (est fpr32 k m : Nat) : Bloom := ⟨est, fpr32, k, m, List.replicate (lengthOf m) 0, 0⟩

/-- positions of a hash list: `hashes[i] % number_bits` for `i < number_hashes` -/
def positions (b : Bloom) (hs : List Nat) : List Nat := (hs.take b.k).map (· % b.m)

/-- `add_alt(hashes)` (bloom.py:239-248). A hash list shorter than `number_hashes` raises IndexError
    after the available positions have been set and before the counter is incremented. -/
def addAlt (b : Bloom) (hs : List Nat) : Bloom × Option Err :=
  let bits' := (b.positions hs).foldl setBitB b.bits
  if hs.length < b.k then ({ b with bits := bits' }, some .indexError)
  else ({ b with bits := bits', count := b.count + 1 }, none)

def checkGo (m : Nat) (bits : Bytes) : Nat → List Nat → R Bool
  | 0, _ => .ok true
  | _ + 1, [] => .error .indexError
  | n + 1, h :: hs => if testBitB bits (h % m) then checkGo m bits n hs else .ok false

/-- `check_alt(hashes)` (bloom.py:259-270) -/
def checkAlt (b : Bloom) (hs : List Nat) : R Bool := checkGo b.m b.bits b.k hs

/-- `clear()` -/
def clear (b : Bloom) : Bloom := { b with bits := List.replicate b.bits.length 0, count := 0 }

/-- `_cnt_number_bits_set()` over the first `bloom_length` bytes -/
def setBits (b : Bloom) : Nat := ((b.bits.take b.bloomLength).map popByte).sum

/-- `_verify_bloom_similarity`; `sameProbe` is `self.hashes("test") == second.hashes("test")` -/
def similar (a b : Bloom) (sameProbe : Bool) : Bool := a.k == b.k && a.m == b.m && sameProbe

def zipBytes (f : Nat → Nat → Nat) (n : Nat) (x y : Bytes) : Bytes :=
  (List.range n).map fun i => f (x.getD i 0) (y.getD i 0)

/-- `union(second)` (bloom.py:403-431); `none` when the operands are not similar -/
def union (est : Estimator) (a b : Bloom) (sameProbe : Bool) : Option Bloom :=
  if !a.similar b sameProbe then none
  else
    let bits := zipBytes (· ||| ·) a.bloomLength a.bits b.bits
    let r : Bloom := { a with bits := bits, count := 0 }
    some { r with count := est r.m r.k r.setBits }

/-- `intersection(second)` (bloom.py:372-401) -/
def intersection (est : Estimator) (a b : Bloom) (sameProbe : Bool) : Option Bloom :=
  if !a.similar b sameProbe then none
  else
    let bits := zipBytes (· &&& ·) a.bloomLength a.bits b.bits
    let r : Bloom := { a with bits := bits, count := 0 }
    some { r with count := est r.m r.k r.setBits }

/-- numerator and denominator of `jaccard_index`: set bits of the AND and of the OR -/
def jaccardCounts (a b : Bloom) : Nat × Nat :=
  (((zipBytes (· &&& ·) a.bloomLength a.bits b.bits).map popByte).sum,
   ((zipBytes (· ||| ·) a.bloomLength a.bits b.bits).map popByte).sum)

/-- footer values `(estimated_elements, elements_added, false_positive_rate)` -/
def footerVals (b : Bloom) : List Int := [b.est, b.count, b.fpr32]

/-- `export(file)` / `bytes(b)`: the bit array followed by the native footer -/
def exportBytes (b : Bloom) : R Bytes :=
  match Gen.bloomFooter.pack b.footerVals with
  | .ok f => .ok (b.bits ++ f)
  | .error e => .error e

/-- `export_hex()`: hex of the first `bloom_length` bytes, then hex of the big-endian footer -/
def exportHex (b : Bloom) : R (List Char) :=
  match Gen.bloomFooterHex.pack b.footerVals with
  | .ok f => .ok (hexlify (b.bits.take b.bloomLength) ++ hexlify f)
  | .error e => .error e

/-- last `n` items (`x[-n:]`, which is all of `x` when it is shorter) -/
def lastN {α} (n : Nat) (l : List α) : List α := l.drop (l.length - n)

/-- `_parse_footer` + `_set_values`: geometry is re-derived from `(est, fpr)` -/
def ofFooter (geom : Geom) (lay : Layout) (footer : Bytes) : R Bloom :=
  match lay.unpack footer with
  | .error e => .error e
  | .ok [est, cnt, fpr] =>
      match geom est fpr.toNat with
      | .error e => .error e
      | .ok (fpr', k, m) => .ok ⟨est.toNat, fpr', k, m, [], cnt⟩
  | .ok _ => .error .structError

/-- `_load` from bytes / a mapped file, also `frombytes` -/
def load (geom : Geom) (file : Bytes) : R Bloom :=
  match ofFooter geom Gen.bloomFooter (lastN Gen.bloomFooter.size file) with
  | .error e => .error e
  | .ok b => .ok { b with bits := file.take (Gen.bloomCell.size * b.bloomLength) }

/-- `_load_hex` -/
def loadHex (geom : Geom) (hex : List Char) : R Bloom :=
  let off := Gen.bloomFooterHex.size * 2
  match unhexlify (lastN off hex), unhexlify (hex.take (hex.length - off)) with
  | some f, some body =>
      match ofFooter geom Gen.bloomFooterHex f with
      | .error e => .error e
      | .ok b => .ok { b with bits := body }
  | _, _ => .error .valueError

/-- `export_size()` -/
def exportSize (b : Bloom) : Nat := b.bloomLength * Gen.bloomCell.size + Gen.bloomFooter.size

end Bloom

/-! ### counting Bloom filter -/

structure CBF where
  est : Nat
  fpr32 : Nat
  k : Nat
  m : Nat
  cells : List Int
  count : Int
  deriving DecidableEq, Repr

namespace CBF

def new (est fpr32 k m : Nat) : CBF := ⟨est, fpr32, k, m, List.replicate m 0, 0⟩

def cellLo : Int := 0
def cellHi : Int := Gen.uint32Max

/-- `indices = [hashes[i] % self._bloom_length for i in range(self._number_hashes)]` -/
def indices (c : CBF) (hs : List Nat) : R (List Nat) :=
  if hs.length < c.k then .error .indexError else .ok ((hs.take c.k).map (· % c.cells.length))

/-- the store loop of `add_alt`: `vals` were computed before the loop from the old cells -/
def addLoop (n : Int) : List Int → List (Nat × Int) → List Int → List Int × List Int × Option Err
  | cells, [], acc => (cells, acc.reverse, none)
  | cells, (k, v) :: rest, acc =>
      if Gen.cbfAddClampCmp.evalInt v Gen.uint32Max then
        addLoop n (cells.set k Gen.uint32Max) rest (Gen.uint32Max :: acc)
      else
        let nv := cells.getD k 0 + n
        -- the store is clamped at the cell limit (countingbloom.py, `min(.., UINT32_T_MAX)`)
        let nv := if nv > Gen.uint32Max then Gen.uint32Max else nv
        if nv < 0 then (cells, (v :: acc).reverse ++ rest.map (·.2), some .overflow)
        else addLoop n (cells.set k nv) rest (v :: acc)

def minList : List Int → Int
  | [] => 0
  | x :: xs => xs.foldl min x

/-- `add_alt(hashes, num_els)` (countingbloom.py:134-154): returns the new state and the value -/
def addAlt (c : CBF) (hs : List Nat) (n : Int) : CBF × R Int :=
  match c.indices hs with
  | .error e => (c, .error e)
  | .ok idx =>
      let vals := idx.map fun k => c.cells.getD k 0 + n
      let (cells, vals', err) := addLoop n c.cells (idx.zip vals) []
      match err with
      | some e => ({ c with cells := cells }, .error e)
      | none => ({ c with cells := cells, count := min (c.count + n) Gen.uint64Max }, .ok (minList vals'))

/-- `check_alt(hashes)`: minimum over *all* supplied hashes -/
def checkAlt (c : CBF) (hs : List Nat) : R Int :=
  match hs with
  | [] => .error .valueError
  | _ => .ok (minList (hs.map fun h => c.cells.getD (h % c.m) 0))

/-- the decrement loop of `remove_alt`; a store below zero raises OverflowError half-way (possible
    only when positions coincide and more is removed than was added) -/
def removeLoop (r : Int) : List Int → List Nat → List Int × Option Err
  | cells, [] => (cells, none)
  | cells, k :: rest =>
      if cells.getD k 0 < Gen.uint32Max then
        if cells.getD k 0 - r < 0 then (cells, some .overflow)
        else removeLoop r (cells.set k (cells.getD k 0 - r)) rest
      else removeLoop r cells rest

/-- `remove_alt(hashes, num_els)` (countingbloom.py:185-207) -/
def removeAlt (c : CBF) (hs : List Nat) (n : Int) : CBF × R Int :=
  match c.indices hs with
  | .error e => (c, .error e)
  | .ok idx =>
      match idx with
      | [] => (c, .error .valueError)
      | _ =>
        let vals := idx.map fun k => c.cells.getD k 0
        let mn := minList vals
        if mn == Gen.uint32Max then (c, .ok Gen.uint32Max)
        else if mn == 0 then (c, .ok 0)
        else
          let r := if mn > n then n else mn
          match removeLoop r c.cells idx with
          | (cells, some e) => ({ c with cells := cells }, .error e)
          | (cells, none) => ({ c with cells := cells, count := c.count - r }, .ok (mn - r))

def clear (c : CBF) : CBF := { c with cells := List.replicate c.cells.length 0, count := 0 }

/-- `_cnt_number_bits_set()`: non-zero cells -/
def setBits (c : CBF) : Nat := (c.cells.filter (· > 0)).length

def similar (a b : CBF) (sameProbe : Bool) : Bool := a.k == b.k && a.m == b.m && sameProbe

def clampCell (v : Int) : Int := if v > Gen.uint32Max then Gen.uint32Max else v

/-- `union(second)`: cell-wise sum, clamped at the cell limit -/
def union (est : Estimator) (a b : CBF) (sameProbe : Bool) : Option CBF :=
  if !a.similar b sameProbe then none
  else
    let cells := (List.range a.cells.length).map fun i => clampCell (a.cells.getD i 0 + b.cells.getD i 0)
    let r : CBF := { a with cells := cells, count := 0 }
    some { r with count := est r.m r.k r.setBits }

/-- `intersection(second)`: sum where both are non-zero, else 0 -/
def intersection (est : Estimator) (a b : CBF) (sameProbe : Bool) : Option CBF :=
  if !a.similar b sameProbe then none
  else
    let cells := (List.range a.cells.length).map fun i =>
      if a.cells.getD i 0 > 0 ∧ b.cells.getD i 0 > 0 then clampCell (a.cells.getD i 0 + b.cells.getD i 0) else 0
    let r : CBF := { a with cells := cells, count := 0 }
    some { r with count := est r.m r.k r.setBits }

/-- numerator/denominator of the counting Jaccard index: positions non-zero in both / in either -/
def jaccardCounts (a b : CBF) : Nat × Nat :=
  let idx := List.range a.cells.length
  ((idx.filter fun i => a.cells.getD i 0 > 0 ∧ b.cells.getD i 0 > 0).length,
   (idx.filter fun i => a.cells.getD i 0 > 0 ∨ b.cells.getD i 0 > 0).length)

def footerVals (c : CBF) : List Int := [c.est, c.count, c.fpr32]

def exportBytes (c : CBF) : R Bytes :=
  match Gen.bloomFooter.pack c.footerVals with
  | .ok f => .ok (cellsBytes .u32 c.cells ++ f)
  | .error e => .error e

def exportHex (c : CBF) : R (List Char) :=
  match Gen.bloomFooterHex.pack c.footerVals with
  | .ok f => .ok (hexlify (cellsBytes .u32 c.cells) ++ hexlify f)
  | .error e => .error e

def load (geom : Geom) (file : Bytes) : R CBF :=
  match Bloom.ofFooter geom Gen.bloomFooter (Bloom.lastN Gen.bloomFooter.size file) with
  | .error e => .error e
  | .ok b => .ok ⟨b.est, b.fpr32, b.k, b.m, bytesCells .u32 b.m (file.take (Gen.cbfCell.size * b.m)), b.count⟩

/-- `_load_hex`: `array("I", unhexlify(body))` needs a whole number of cells -/
def loadHex (geom : Geom) (hex : List Char) : R CBF :=
  let off := Gen.bloomFooterHex.size * 2
  match unhexlify (Bloom.lastN off hex), unhexlify (hex.take (hex.length - off)) with
  | some f, some body =>
      match Bloom.ofFooter geom Gen.bloomFooterHex f with
      | .error e => .error e
      | .ok b =>
          if body.length % Gen.cbfCell.size != 0 then .error .valueError
          else .ok ⟨b.est, b.fpr32, b.k, b.m, bytesCells .u32 (body.length / Gen.cbfCell.size) body, b.count⟩
  | _, _ => .error .valueError

def exportSize (c : CBF) : Nat := c.m * Gen.cbfCell.size + Gen.bloomFooter.size

end CBF
end PyProb
