/-
  MD5 (RFC 1321) and SHA-256 (FIPS 180-4) on byte lists, so that the model can compute the shipped
  `default_md5` / `default_sha256` strategies itself.  Executable, core Lean only; validated against
  `hashlib` by the hashes correspondence suite.  Theorems treat the digest as an arbitrary function.
-/
import PyProb.Model.Hashes

namespace PyProb

def w32 : Nat := 4294967296

def rotl32 (x n : Nat) : Nat := ((x <<< n) ||| (x >>> (32 - n))) % w32
def rotr32 (x n : Nat) : Nat := ((x >>> n) ||| (x <<< (32 - n))) % w32
def not32 (x : Nat) : Nat := (w32 - 1) ^^^ (x % w32)

/-- message ‖ 0x80 ‖ zeros up to 56 mod 64 (the 8 length bytes are appended by the caller) -/
def padZeros (len : Nat) : Nat := (119 - len % 64) % 64

def blocks64 : Nat → Bytes → List Bytes
  | 0, _ => []
  | n + 1, bs => bs.take 64 :: blocks64 n (bs.drop 64)

def wordsOf (be : Bool) : Nat → Bytes → List Nat
  | 0, _ => []
  | n + 1, bs => (if be then ofBE (bs.take 4) else ofLE (bs.take 4)) :: wordsOf be n (bs.drop 4)

/-! ### MD5 -/

def md5K : List Nat := [3614090360, 3905402710, 606105819, 3250441966, 4118548399, 1200080426, 2821735955, 4249261313, 1770035416, 2336552879, 4294925233, 2304563134, 1804603682, 4254626195, 2792965006, 1236535329, 4129170786, 3225465664, 643717713, 3921069994, 3593408605, 38016083, 3634488961, 3889429448, 568446438, 3275163606, 4107603335, 1163531501, 2850285829, 4243563512, 1735328473, 2368359562, 4294588738, 2272392833, 1839030562, 4259657740, 2763975236, 1272893353, 4139469664, 3200236656, 681279174, 3936430074, 3572445317, 76029189, 3654602809, 3873151461, 530742520, 3299628645, 4096336452, 1126891415, 2878612391, 4237533241, 1700485571, 2399980690, 4293915773, 2240044497, 1873313359, 4264355552, 2734768916, 1309151649, 4149444226, 3174756917, 718787259, 3951481745]
def md5S : List Nat := [7, 12, 17, 22, 7, 12, 17, 22, 7, 12, 17, 22, 7, 12, 17, 22, 5, 9, 14, 20, 5, 9, 14, 20, 5, 9, 14, 20, 5, 9, 14, 20, 4, 11, 16, 23, 4, 11, 16, 23, 4, 11, 16, 23, 4, 11, 16, 23, 6, 10, 15, 21, 6, 10, 15, 21, 6, 10, 15, 21, 6, 10, 15, 21]

def md5Round (m : List Nat) (st : Nat × Nat × Nat × Nat) (i : Nat) : Nat × Nat × Nat × Nat :=
  let (a, b, c, d) := st
  let (f, g) :=
    if i < 16 then ((b &&& c) ||| (not32 b &&& d), i)
    else if i < 32 then ((d &&& b) ||| (not32 d &&& c), (5 * i + 1) % 16)
    else if i < 48 then (b ^^^ c ^^^ d, (3 * i + 5) % 16)
    else (c ^^^ (b ||| not32 d), (7 * i) % 16)
  let f := (f + a + md5K.getD i 0 + m.getD g 0) % w32
  (d, (b + rotl32 f (md5S.getD i 0)) % w32, b, c)

def md5Block (h : Nat × Nat × Nat × Nat) (blk : Bytes) : Nat × Nat × Nat × Nat :=
  let m := wordsOf false 16 blk
  let (a, b, c, d) := (List.range 64).foldl (md5Round m) h
  ((h.1 + a) % w32, (h.2.1 + b) % w32, (h.2.2.1 + c) % w32, (h.2.2.2 + d) % w32)

/-- `hashlib.md5(data).digest()` -/
def md5 (data : Bytes) : Bytes :=
  let padded := data ++ [128] ++ List.replicate (padZeros data.length) 0 ++ leBytes 8 (8 * data.length)
  let (a, b, c, d) := (blocks64 (padded.length / 64) padded).foldl md5Block
    (0x67452301, 0xefcdab89, 0x98badcfe, 0x10325476)
  leBytes 4 a ++ leBytes 4 b ++ leBytes 4 c ++ leBytes 4 d

/-! ### SHA-256 -/

def shaK : List Nat := [1116352408, 1899447441, 3049323471, 3921009573, 961987163, 1508970993, 2453635748, 2870763221, 3624381080, 310598401, 607225278, 1426881987, 1925078388, 2162078206, 2614888103, 3248222580, 3835390401, 4022224774, 264347078, 604807628, 770255983, 1249150122, 1555081692, 1996064986, 2554220882, 2821834349, 2952996808, 3210313671, 3336571891, 3584528711, 113926993, 338241895, 666307205, 773529912, 1294757372, 1396182291, 1695183700, 1986661051, 2177026350, 2456956037, 2730485921, 2820302411, 3259730800, 3345764771, 3516065817, 3600352804, 4094571909, 275423344, 430227734, 506948616, 659060556, 883997877, 958139571, 1322822218, 1537002063, 1747873779, 1955562222, 2024104815, 2227730452, 2361852424, 2428436474, 2756734187, 3204031479, 3329325298]
def shaH : List Nat := [1779033703, 3144134277, 1013904242, 2773480762, 1359893119, 2600822924, 528734635, 1541459225]

def shaSchedule : Nat → List Nat → List Nat
  | 0, w => w
  | n + 1, w =>
      let i := w.length
      let w15 := w.getD (i - 15) 0
      let w2 := w.getD (i - 2) 0
      let s0 := rotr32 w15 7 ^^^ rotr32 w15 18 ^^^ (w15 >>> 3)
      let s1 := rotr32 w2 17 ^^^ rotr32 w2 19 ^^^ (w2 >>> 10)
      shaSchedule n (w ++ [(w.getD (i - 16) 0 + s0 + w.getD (i - 7) 0 + s1) % w32])

def shaRound (w : List Nat) (st : List Nat) (i : Nat) : List Nat :=
  match st with
  | [a, b, c, d, e, f, g, h] =>
      let s1 := rotr32 e 6 ^^^ rotr32 e 11 ^^^ rotr32 e 25
      let ch := (e &&& f) ^^^ (not32 e &&& g)
      let t1 := (h + s1 + ch + shaK.getD i 0 + w.getD i 0) % w32
      let s0 := rotr32 a 2 ^^^ rotr32 a 13 ^^^ rotr32 a 22
      let maj := (a &&& b) ^^^ (a &&& c) ^^^ (b &&& c)
      let t2 := (s0 + maj) % w32
      [(t1 + t2) % w32, a, b, c, (d + t1) % w32, e, f, g]
  | _ => st

def shaBlock (h : List Nat) (blk : Bytes) : List Nat :=
  let w := shaSchedule 48 (wordsOf true 16 blk)
  let st := (List.range 64).foldl (shaRound w) h
  List.zipWith (fun x y => (x + y) % w32) h st

/-- `hashlib.sha256(data).digest()` -/
def sha256 (data : Bytes) : Bytes :=
  let padded := data ++ [128] ++ List.replicate (padZeros data.length) 0 ++ beBytes 8 (8 * data.length)
  ((blocks64 (padded.length / 64) padded).foldl shaBlock shaH).flatMap (beBytes 4)

/-- `default_md5` / `default_sha256` (hashes.py:130-149): the byte decorator over the digest -/
def defaultMd5 : Strategy := withDepthBytes fun b _ => md5 b
def defaultSha256 : Strategy := withDepthBytes fun b _ => sha256 b

end PyProb
