/-
  probables/cuckoo/cuckoo.py (CuckooFilter) and countingcuckoo.py (CountingCuckooFilter).
  The filter's random choices are an explicit oracle (a list of draws consumed left to right):
  `random.choice([idx_1, idx_2])` consumes one draw (0 → idx_1, otherwise idx_2), every
  `random.randint(0, bucket_size-1)` one draw (taken modulo bucket_size).  Core Lean only.
-/
import PyProb.Model.Hashes

namespace PyProb

/-- a bin: fingerprint and count (count is 1 throughout for the plain filter) -/
abbrev CBin := Nat × Nat

structure Cuckoo where
  counting : Bool
  cap : Nat
  b : Nat
  maxSwaps : Nat
  rate : Nat
  auto : Bool
  fpBits : Nat
  buckets : List (List CBin)
  count : Int          -- `_inserted_elements`
  unique : Int         -- `__unique_elements` (counting only)
  deriving DecidableEq, Repr

namespace Cuckoo

def new (counting : Bool) (cap b maxSwaps rate : Nat) (auto : Bool) (fpBits : Nat) : Cuckoo :=
  ⟨counting, cap, b, maxSwaps, rate, auto, fpBits, List.replicate cap [], 0, 0⟩

/-- `str(fingerprint)` as a text key -/
def decimalKey (n : Nat) : Key := ⟨true, (toString n).toList.map Char.toNat⟩

/-- `_indicies_from_fingerprint`; `G fp` is `hash_func(str(fp))` -/
def indices (G : Nat → Nat) (c : Cuckoo) (fp : Nat) : Nat × Nat := (fp % c.cap, G fp % c.cap)

/-- the fingerprint of a hash value: its low `fpBits` bits; 0 marks an empty slot of the export
    format and is therefore never used as a fingerprint -/
def fingerprint (c : Cuckoo) (hashVal : Nat) : Nat :=
  let fp := hashVal % 2 ^ c.fpBits
  if fp == 0 then 1 else fp

def bucket (c : Cuckoo) (i : Nat) : List CBin := c.buckets.getD i []

def hasFp (c : Cuckoo) (i fp : Nat) : Bool := (c.bucket i).any (·.1 == fp)

/-- `_check_if_present` -/
def present (c : Cuckoo) (i1 i2 fp : Nat) : Option Nat :=
  if c.hasFp i1 fp then some i1 else if c.hasFp i2 fp then some i2 else none

/-- `__insert_element` -/
def insertAt (c : Cuckoo) (i : Nat) (bin : CBin) : Option Cuckoo :=
  if (c.bucket i).length < c.b then some { c with buckets := c.buckets.set i (c.bucket i ++ [bin]) } else none

/-- bookkeeping after a successful placement of a fingerprint inserted with count `cnt` -/
def placed (c : Cuckoo) (cnt : Nat) : Cuckoo :=
  { c with count := c.count + cnt, unique := if c.counting then c.unique + 1 else c.unique }

/-- the kick loop: `fuel` swaps left, `hand` is the bin looking for a place, currently aimed at `idx` -/
def kick (G : Nat → Nat) (cnt : Nat) : Nat → Cuckoo → CBin → Nat → List Nat → Option Cuckoo × List Nat
  | 0, _, _, _, oracle => (none, oracle)
  | fuel + 1, c, hand, idx, oracle =>
      let slot := oracle.headD 0 % c.b
      let oracle := oracle.tail
      let victim := (c.bucket idx).getD slot (0, 0)
      let c := { c with buckets := c.buckets.set idx ((c.bucket idx).set slot hand) }
      let (j1, j2) := indices G c victim.1
      let idx' := if idx == j1 then j2 else j1
      match c.insertAt idx' victim with
      | some c' => (some (c'.placed cnt), oracle)
      | none => kick G cnt fuel c victim idx' oracle

/-- `_insert_fingerprint` / `_insert_fingerprint_alt`: first fit, then the kick loop.  When the
    swaps run out the evictions are undone: the table is returned unchanged together with the bin
    that was not inserted. -/
def insertFp (G : Nat → Nat) (c : Cuckoo) (bin : CBin) (i1 i2 : Nat) (oracle : List Nat) :
    Cuckoo × Option CBin × List Nat :=
  match c.insertAt i1 bin with
  | some c' => (c'.placed bin.2, none, oracle)
  | none =>
    match c.insertAt i2 bin with
    | some c' => (c'.placed bin.2, none, oracle)
    | none =>
        let idx := if oracle.headD 0 == 0 then i1 else i2
        match kick G bin.2 c.maxSwaps c bin idx oracle.tail with
        | (some c', oracle') => (c', none, oracle')
        | (none, oracle') => (c, some bin, oracle')

/-- re-insertion of all bins into the enlarged table -/
def reinsert (G : Nat → Nat) : List CBin → Cuckoo → List Nat → Option Cuckoo × List Nat
  | [], c, oracle => (some c, oracle)
  | bin :: rest, c, oracle =>
      let (i1, i2) := indices G c bin.1
      match insertFp G c bin i1 i2 oracle with
      | (c', none, oracle') => reinsert G rest c' oracle'
      | (_, some _, oracle') => (none, oracle')

/-- `_expand_logic(extra)`: on failure the old table is restored and CuckooFilterFullError raised -/
def expandLogic (G : Nat → Nat) (c : Cuckoo) (extra : Option CBin) (oracle : List Nat) :
    Cuckoo × Option Err × List Nat :=
  let bins := extra.toList ++ c.buckets.flatten
  let cap' := c.cap * c.rate
  let empty : Cuckoo := { c with cap := cap', buckets := List.replicate cap' [], count := 0, unique := 0 }
  match reinsert G bins empty oracle with
  | (some c', oracle') => (c', none, oracle')
  | (none, oracle') => (c, some .cuckooFull, oracle')

/-- `add(key)` given the key's hash value -/
def add (G : Nat → Nat) (c : Cuckoo) (hashVal : Nat) (oracle : List Nat) : Cuckoo × Option Err × List Nat :=
  let fp := c.fingerprint hashVal
  let (i1, i2) := indices G c fp
  match c.present i1 i2 fp with
  | some i =>
      if c.counting then
        let bkt := (c.bucket i).map fun bin => if bin.1 == fp then (bin.1, bin.2 + 1) else bin
        ({ c with buckets := c.buckets.set i bkt, count := c.count + 1 }, none, oracle)
      else (c, none, oracle)
  | none =>
      match insertFp G c (fp, 1) i1 i2 oracle with
      | (c', none, oracle') => (c', none, oracle')
      | (c', some left, oracle') =>
          if c'.auto then expandLogic G c' (some left) oracle' else (c', some .cuckooFull, oracle')

/-- `check(key)`: presence, or the count for the counting filter -/
def check (G : Nat → Nat) (c : Cuckoo) (hashVal : Nat) : Nat :=
  let fp := c.fingerprint hashVal
  let (i1, i2) := indices G c fp
  match c.present i1 i2 fp with
  | none => 0
  | some i => ((c.bucket i).find? (·.1 == fp)).map (·.2) |>.getD 0

/-- `remove(key)` -/
def remove (G : Nat → Nat) (c : Cuckoo) (hashVal : Nat) : Cuckoo × Bool :=
  let fp := c.fingerprint hashVal
  let (i1, i2) := indices G c fp
  match c.present i1 i2 fp with
  | none => (c, false)
  | some i =>
      let bkt := c.bucket i
      if c.counting then
        match bkt.find? (·.1 == fp) with
        | none => (c, false)
        | some bin =>
            if bin.2 ≤ 1 then
              ({ c with buckets := c.buckets.set i (bkt.erase bin), count := c.count - 1, unique := c.unique - 1 }, true)
            else
              ({ c with buckets := c.buckets.set i (bkt.map fun x => if x.1 == fp then (x.1, x.2 - 1) else x),
                        count := c.count - 1 }, true)
      else
        ({ c with buckets := c.buckets.set i (bkt.erase (fp, 1)), count := c.count - 1 }, true)

/-- `export`: every bucket padded to `bucket_size` slots; footer `(bucket_size, max_swaps)` -/
def exportBytes (c : Cuckoo) : R Bytes :=
  let cell (bin : CBin) : Bytes := if c.counting then leBytes 4 bin.1 ++ leBytes 4 bin.2 else leBytes 4 bin.1
  let width := if c.counting then 8 else 4
  let body := c.buckets.flatMap fun bkt => bkt.flatMap cell ++ List.replicate ((c.b - bkt.length) * width) 0
  if c.buckets.any (fun bkt => bkt.any fun bin => bin.1 ≥ 2 ^ 32 ∨ bin.2 ≥ 2 ^ 32) then .error .overflow
  else
    match Gen.cuckooFooter.pack [c.b, c.maxSwaps] with
    | .ok f => .ok (body ++ f)
    | .error e => .error e

def parseBucket (counting : Bool) : Nat → Bytes → List CBin
  | 0, _ => []
  | n + 1, bs =>
      let w := if counting then 8 else 4
      let fp := ofLE (bs.take 4)
      let cnt := if counting then ofLE ((bs.drop 4).take 4) else 1
      let rest := parseBucket counting n (bs.drop w)
      if fp > 0 then (fp, cnt) :: rest else rest

def parseBuckets (counting : Bool) (b : Nat) : Nat → Bytes → List (List CBin)
  | 0, _ => []
  | n + 1, bs =>
      let w := (if counting then 8 else 4) * b
      parseBucket counting b (bs.take w) :: parseBuckets counting b n (bs.drop w)

/-- `_load` into a filter whose other settings (`template`) come from the constructor defaults or
    are re-supplied by the caller -/
def load (template : Cuckoo) (file : Bytes) : R Cuckoo :=
  let fsz := Gen.cuckooFooter.size
  if file.length < fsz then .error .structError
  else
    match Gen.cuckooFooter.unpack (file.drop (file.length - fsz)) with
    | .error e => .error e
    | .ok [b, swaps] =>
        let b := b.toNat
        if b == 0 then .error .zeroDivision
        else
          let w := if template.counting then 8 else 4
          let cap := (file.length - fsz) / w / b
          let bks := parseBuckets template.counting b cap file
          let cnt : Nat := (bks.map fun bkt => (bkt.map (·.2)).sum).sum
          let uniq : Nat := (bks.map List.length).sum
          .ok { template with cap := cap, b := b, maxSwaps := swaps.toNat, buckets := bks,
                              count := cnt, unique := if template.counting then uniq else 0 }
    | .ok _ => .error .structError

end Cuckoo
end PyProb
