/-
  probables/blooms/bloom.py:576-702 — BloomFilterOnDisk.  The backing file is a byte list (what any
  reader of the file sees: a shared mapping and the file are the same bytes); every operation is a
  list of *micro-steps*, each changing the visible file atomically: one byte store through the
  mapping, or one flushed 8-byte store of the element count.  Core Lean only.
-/
import PyProb.Model.Bloom

namespace PyProb

inductive MicroStep
  | storeByte (off val : Nat)          -- `self._bloom[idx] = …` through the mmap
  | storeCount (off : Nat) (v : Int)   -- `seek(-12, END); write(pack("Q", n)); flush()`
  deriving DecidableEq, Repr

/-- overwrite `bs.length` bytes of `file` at `off` -/
def patch (file : Bytes) (off : Nat) (bs : Bytes) : Bytes :=
  file.take off ++ bs ++ file.drop (off + bs.length)

def MicroStep.apply (file : Bytes) : MicroStep → Bytes
  | .storeByte off v => file.set off v
  | .storeCount off v => patch file off (leBytesInt 8 v)

structure OnDisk where
  est : Nat
  fpr32 : Nat
  k : Nat
  m : Nat
  count : Int        -- `_els_added` in memory
  file : Bytes       -- the backing file as any reader sees it
  closed : Bool
  deriving DecidableEq, Repr

namespace OnDisk

def bloomLength (o : OnDisk) : Nat := Bloom.lengthOf o.m

/-- the filter seen through the mapping -/
def view (o : OnDisk) : Bloom := ⟨o.est, o.fpr32, o.k, o.m, o.file.take o.bloomLength, o.count⟩

/-- `BloomFilterOnDisk(path, est, fpr)`: zero array, footer `(est, 0, fpr)`, flushed, then mapped -/
def create (est fpr32 k m : Nat) : R OnDisk :=
  match Gen.bloomFooter.pack [est, 0, fpr32] with
  | .ok f => .ok ⟨est, fpr32, k, m, 0, List.replicate (Bloom.lengthOf m) 0 ++ f, false⟩
  | .error e => .error e

/-- offset of the stored count: `_UPDATE_OFFSET.size` bytes before the end of the file -/
def countOffset (o : OnDisk) : Nat := o.file.length - Gen.onDiskUpdateOffset.size

/-- the byte stores of `super().add_alt(hashes)`, in hash order, computed against the evolving file -/
def bitSteps (m : Nat) : Bytes → List Nat → List MicroStep
  | _, [] => []
  | file, h :: hs =>
      let pos := h % m
      let v := file.getD (pos / 8) 0 ||| (1 <<< (pos % 8))
      .storeByte (pos / 8) v :: bitSteps m (file.set (pos / 8) v) hs

/-- `__update()` -/
def updateStep (o : OnDisk) (n : Int) : MicroStep := .storeCount o.countOffset n

/-- micro-steps of `add_alt(hashes)`: the bit stores, then the flushed count -/
def addSteps (o : OnDisk) (hs : List Nat) : List MicroStep :=
  bitSteps o.m o.file (hs.take o.k) ++ [o.updateStep (o.count + 1)]

def applyAll (file : Bytes) (steps : List MicroStep) : Bytes := steps.foldl MicroStep.apply file

/-- `add_alt(hashes)` run to completion -/
def addAlt (o : OnDisk) (hs : List Nat) : OnDisk :=
  { o with file := applyAll o.file (o.addSteps hs), count := o.count + 1 }

/-- micro-steps of `clear()`: every byte of the bit array is zeroed through the mapping, then the
    count 0 is written -/
def clearSteps (o : OnDisk) : List MicroStep :=
  (List.range o.bloomLength).map (fun i => MicroStep.storeByte i 0) ++ [o.updateStep 0]

/-- `clear()` run to completion -/
def clear (o : OnDisk) : OnDisk := { o with file := applyAll o.file o.clearSteps, count := 0 }

/-- the visible file after every prefix of the micro-steps of an operation (crash points) -/
def prefixes (file : Bytes) : List MicroStep → List Bytes
  | [] => [file]
  | s :: rest => file :: prefixes (s.apply file) rest

/-- `close()`: rewrites the count, then releases the mapping -/
def close (o : OnDisk) : OnDisk :=
  if o.closed then o else { o with file := (o.updateStep o.count).apply o.file, closed := true }

/-- `export(other_path)`: rewrites the count and copies the file -/
def exportBytes (o : OnDisk) : OnDisk × Bytes :=
  let o' := { o with file := (o.updateStep o.count).apply o.file }
  (o', o'.file)

def checkAlt (o : OnDisk) (hs : List Nat) : R Bool := o.view.checkAlt hs

/-- `BloomFilterOnDisk(path)` on an existing file: geometry re-derived from the footer, the stored
    element count read back -/
def reopen (geom : Geom) (file : Bytes) : R OnDisk :=
  match Gen.bloomFooter.unpack (Bloom.lastN Gen.bloomFooter.size file) with
  | .error e => .error e
  | .ok [est, cnt, fpr] =>
      match geom est fpr.toNat with
      | .error e => .error e
      | .ok (fpr', k, m) => .ok ⟨est.toNat, fpr', k, m, cnt, file, false⟩
  | .ok _ => .error .structError

end OnDisk

/-! ### path names: `resolve_path(filepath)` = `Path(filepath).expanduser().resolve()` without symlinks
    or `~`: an absolute path stays, a relative one is joined to the working directory; `.` and `..`
    are normalised.  A file system is a list of (absolute path, owner handle). -/

abbrev PathC := List String

def normPath : PathC → PathC → PathC
  | acc, [] => acc.reverse
  | acc, "." :: rest => normPath acc rest
  | acc, ".." :: rest => normPath acc.tail rest
  | acc, c :: rest => normPath (c :: acc) rest

/-- `resolve_path(arg)` evaluated in working directory `cwd` (`isAbs`: `arg` starts with `/`) -/
def resolvePath (cwd : PathC) (isAbs : Bool) (arg : PathC) : PathC :=
  if isAbs then normPath [] arg else normPath [] (cwd ++ arg)

/-- the file a path argument designates, if any -/
def lookupPath (fs : List (PathC × Nat)) (p : PathC) : Option Nat := (fs.find? (·.1 == p)).map (·.2)

end PyProb
