/-
  probables/hashes.py — FNV-1a (64 and 32 bit), the default strategy, the two decorators.
  Core Lean only.
-/
import PyProb.Model.Base

namespace PyProb

/-- the loop body of `fnv_1a`/`fnv_1a_32`: xor, multiply, mask — folded over the key's units -/
def fnvLoop (prime mask : Nat) (h : Nat) : List Nat → Nat
  | [] => h
  | c :: cs => fnvLoop prime mask (((h ^^^ c) * prime) &&& mask) cs

/-- `hval = (OFFSET + (31 * seed)) & MASK` for a Python int seed (negative allowed) -/
def fnvStart (offset mult mask : Nat) (seed : Int) : Nat :=
  (((offset : Int) + (mult : Int) * seed) % ((mask : Int) + 1)).toNat

/-- the same without the mask (what the code would compute if `& MASK` were dropped from the
    initialisation; only meaningful for seeds that keep the sum non-negative) -/
def fnvStartRaw (offset mult : Nat) (seed : Int) : Nat := ((offset : Int) + (mult : Int) * seed).toNat

/-- the initial value as the source computes it: whether the seeded offset basis is masked is an
    extracted fact -/
def fnvInit (masked : Bool) (offset mult mask : Nat) (seed : Int) : Nat :=
  if masked then fnvStart offset mult mask seed else fnvStartRaw offset mult seed

/-- `fnv_1a(key, seed)` (hashes.py:89-107) -/
def fnv1a64 (key : Key) (seed : Int) : Nat :=
  fnvLoop Gen.fnv64Prime Gen.fnv64Mask
    (fnvInit Gen.fnv64StartMasked Gen.fnv64Offset Gen.fnv64Mult Gen.fnv64Mask seed) key.units

/-- `fnv_1a_32(key, seed)` (hashes.py:110-127) -/
def fnv1a32 (key : Key) (seed : Int) : Nat :=
  fnvLoop Gen.fnv32Prime Gen.fnv32Mask
    (fnvInit Gen.fnv32StartMasked Gen.fnv32Offset Gen.fnv32Mult Gen.fnv32Mask seed) key.units

/-- a hashing strategy: `hash_function(key, depth)` -/
abbrev Strategy := Key → Nat → List Nat

/-- `default_fnv_1a(key, depth)` (hashes.py:74-86) -/
def defaultFnv : Strategy := fun key depth => (List.range depth).map fun (i : Nat) => fnv1a64 key (Int.ofNat i)

/-- the loop of `hash_with_depth_bytes`: `tmp = func(tmp, idx); res.append(unpack("Q", tmp[:8]))` -/
def depthBytesGo (f : Bytes → Nat → Bytes) (tmp : Bytes) (idx : Nat) : Nat → List Nat
  | 0 => []
  | n + 1 =>
      let t := f tmp idx
      ofLE (t.take 8) :: depthBytesGo f t (idx + 1) n

/-- `hash_with_depth_bytes(func)` (hashes.py:17-44); `func` must return at least 8 bytes -/
def withDepthBytes (f : Bytes → Nat → Bytes) : Strategy := fun key depth => depthBytesGo f key.bytes 0 depth

/-- lower-case hexadecimal digits of `n` (`f"{n:x}"`), as code points -/
def hexDigitsGo : Nat → Nat → List Nat → List Nat
  | 0, _, acc => acc
  | fuel + 1, n, acc =>
      let acc := (hexDigit (n % 16)).toNat :: acc
      if n < 16 then acc else hexDigitsGo fuel (n / 16) acc

def hexText (n : Nat) : Key := ⟨true, hexDigitsGo (n + 1) n []⟩

/-- the loop of `hash_with_depth_int`: `tmp = func(f"{tmp:x}", idx)` -/
def depthIntGo (f : Key → Nat → Nat) (tmp : Nat) (idx : Nat) : Nat → List Nat
  | 0 => []
  | n + 1 =>
      let t := f (hexText tmp) idx
      t :: depthIntGo f t (idx + 1) n

/-- `hash_with_depth_int(func)` (hashes.py:47-71): always computes `func(key, 0)` first, so depth 0
    still returns one value -/
def withDepthInt (f : Key → Nat → Nat) : Strategy := fun key depth =>
  let t := f key 0
  t :: depthIntGo f t 1 (depth - 1)

end PyProb
