/-
  probables/blooms/expandingbloom.py — ExpandingBloomFilter and RotatingBloomFilter. Core Lean only.
-/
import PyProb.Model.Bloom

namespace PyProb

structure Expanding where
  est : Nat
  fpr32 : Nat
  k : Nat
  m : Nat
  blooms : List Bloom
  added : Int
  deriving DecidableEq, Repr

namespace Expanding

def fresh (e : Expanding) : Bloom := Bloom.new e.est e.fpr32 e.k e.m

/-- constructor: one empty sub-filter -/
def new (est fpr32 k m : Nat) : Expanding := ⟨est, fpr32, k, m, [Bloom.new est fpr32 k m], 0⟩

def expansions (e : Expanding) : Int := (e.blooms.length : Int) - 1

def checkGo (hs : List Nat) : List Bloom → R Bool
  | [] => .ok false
  | b :: bs =>
      match b.checkAlt hs with
      | .error e => .error e
      | .ok true => .ok true
      | .ok false => checkGo hs bs

/-- `check_alt(hashes)`: any sub-filter, oldest first -/
def checkAlt (e : Expanding) (hs : List Nat) : R Bool := checkGo hs e.blooms

/-- add to the newest sub-filter -/
def addToLast (bs : List Bloom) (hs : List Nat) : List Bloom × Option Err :=
  match bs.getLast? with
  | none => (bs, some .indexError)
  | some b =>
      let (b', err) := b.addAlt hs
      (bs.dropLast ++ [b'], err)

/-- `__check_for_growth()` -/
def grow (e : Expanding) : Expanding :=
  match e.blooms.getLast? with
  | none => e
  | some b => if Gen.expGrowCmp.evalInt b.count e.est then { e with blooms := e.blooms ++ [e.fresh] } else e

/-- `add_alt` once the membership answer is known (C09 is proved for an arbitrary answer) -/
def addCore (e : Expanding) (present : Bool) (hs : List Nat) (force : Bool) : Expanding × Option Err :=
  let e := { e with added := e.added + 1 }
  if force || !present then
    let e := e.grow
    let (bs, err) := addToLast e.blooms hs
    ({ e with blooms := bs }, err)
  else (e, none)

/-- `add_alt(hashes, force)` (expandingbloom.py:162-172) -/
def addAlt (e : Expanding) (hs : List Nat) (force : Bool) : Expanding × Option Err :=
  if force then e.addCore true hs true
  else
    match e.checkAlt hs with
    | .error err => ({ e with added := e.added + 1 }, some err)
    | .ok p => e.addCore p hs false

/-- `push()` -/
def push (e : Expanding) : Expanding := { e with blooms := e.blooms ++ [e.fresh] }

/-- `export`: per sub-filter its count (u64) and bit array, then the footer -/
def exportBytes (e : Expanding) : R Bytes :=
  let rec go : List Bloom → R Bytes
    | [] => .ok []
    | b :: bs =>
        match Gen.expCount.pack [b.count], go bs with
        | .ok c, .ok rest => .ok (c ++ b.bits ++ rest)
        | .error x, _ => .error x
        | _, .error x => .error x
  match go e.blooms, Gen.expFooter.pack [e.blooms.length, e.est, e.added, e.fpr32] with
  | .ok body, .ok f => .ok (body ++ f)
  | .error x, _ => .error x
  | _, .error x => .error x

def parseBlooms (proto : Bloom) (blmSize : Nat) : Nat → Bytes → List Bloom
  | 0, _ => []
  | n + 1, bs =>
      let cnt := (decField false .u64 (bs.take Gen.expCount.size))
      let body := (bs.drop Gen.expCount.size).take blmSize
      { proto with count := cnt, bits := body } :: parseBlooms proto blmSize n (bs.drop (Gen.expCount.size + blmSize))

/-- `__load` / `frombytes` -/
def load (geom : Geom) (file : Bytes) : R Expanding :=
  match Gen.expFooter.unpack (Bloom.lastN Gen.expFooter.size file) with
  | .error e => .error e
  | .ok [size, est, added, fpr] =>
      if size == 0 then .ok ⟨est.toNat, fpr.toNat, 0, 0, [], added⟩
      else
      match geom est fpr.toNat with
      | .error e => .error e
      | .ok (fpr', k, m) =>
          let proto := Bloom.new est.toNat fpr' k m
          .ok ⟨est.toNat, fpr', k, m, parseBlooms proto (Gen.bloomCell.size * proto.bloomLength) size.toNat file, added⟩
  | .ok _ => .error .structError

end Expanding

structure Rotating extends Expanding where
  q : Int
  deriving DecidableEq, Repr

namespace Rotating

def new (est fpr32 k m : Nat) (q : Int) : Rotating := { Expanding.new est fpr32 k m with q := q }

/-- `__rotate_bloom_filter(force)` (expandingbloom.py:350-364) -/
def rotate (r : Rotating) (force : Bool) : Rotating :=
  match r.blooms.getLast? with
  | none => r
  | some b =>
      let ready := Gen.rotReadyCmp.evalInt b.count b.est
      let room := Gen.rotRoomCmp.evalInt r.blooms.length r.q
      if force && room then { r with blooms := r.blooms ++ [r.fresh] }
      else if force then { r with blooms := r.blooms.drop 1 ++ [r.fresh] }
      else if ready && room then { r with blooms := r.blooms ++ [r.fresh] }
      else if ready then { r with blooms := r.blooms.drop 1 ++ [r.fresh] }
      else r

def addCore (r : Rotating) (present : Bool) (hs : List Nat) (force : Bool) : Rotating × Option Err :=
  let r : Rotating := { r with added := r.added + 1 }
  if force || !present then
    let r := r.rotate false
    let (bs, err) := Expanding.addToLast r.blooms hs
    ({ r with blooms := bs }, err)
  else (r, none)

/-- `add_alt(hashes, force)` (expandingbloom.py:323-333) -/
def addAlt (r : Rotating) (hs : List Nat) (force : Bool) : Rotating × Option Err :=
  if force then r.addCore true hs true
  else
    match r.toExpanding.checkAlt hs with
    | .error err => ({ r with added := r.added + 1 }, some err)
    | .ok p => r.addCore p hs false

/-- `pop()`: refused on a single-filter queue -/
def pop (r : Rotating) : R Rotating :=
  if r.blooms.length == 1 then .error .rotateError else .ok { r with blooms := r.blooms.drop 1 }

/-- `push()` -/
def push (r : Rotating) : Rotating := r.rotate true

end Rotating
end PyProb
