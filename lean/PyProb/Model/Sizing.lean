/-
  Sizing formulas and float-valued statistics, written once over `RealLike α` and instantiated at
  `Float` for execution (here) and at `ℝ` for theorems (Lemmas/RealInst.lean).
  bloom.py:467-487, 341-370; countminsketch.py:88-104; cuckoo.py:520-526. Core Lean only.
-/
import PyProb.Model.Base

namespace PyProb

class RealLike (α : Type) where
  ofInt : Int → α
  /-- a double literal of the source: its bit pattern and its exact rational value -/
  const : (bits : UInt64) → (num den : Nat) → α
  add : α → α → α
  sub : α → α → α
  mul : α → α → α
  div : α → α → α
  neg : α → α
  log : α → α
  exp : α → α
  log2 : α → α
  pow : α → α → α
  /-- `math.ceil` -/
  ceilInt : α → Int
  /-- `int(x)`: truncation toward zero -/
  truncInt : α → Int
  /-- Python `round(x)`: nearest integer, ties to even -/
  roundInt : α → Int
  /-- round-trip through a 32-bit float (`struct.pack("f")`/`unpack`) -/
  narrow32 : α → α
  lt : α → α → Bool
  le : α → α → Bool

namespace RealLike
variable {α : Type} [RealLike α]
def ofNat (n : Nat) : α := ofInt (Int.ofNat n)
end RealLike

open RealLike

/-- exact integer value of an integral `Float` -/
def floatToInt (x : Float) : Int :=
  if x.isNaN || x.isInf then 0
  else
    let (m, e) := x.frExp            -- x = m * 2^e, 0.5 ≤ |m| < 1
    let mant : Int := (m * 9007199254740992.0).toInt64.toInt   -- m * 2^53, exact
    if e ≥ 53 then mant * (2 : Int) ^ (e - 53).toNat
    else mant / (2 : Int) ^ (53 - e).toNat   -- exact for integral x (floor division otherwise)

def floatRoundHalfEven (x : Float) : Int :=
  let f := x.floor
  let d := x - f
  let fi := floatToInt f
  if d < 0.5 then fi else if d > 0.5 then fi + 1 else if fi % 2 == 0 then fi else fi + 1

instance : RealLike Float where
  ofInt := Float.ofInt
  const bits _ _ := Float.ofBits bits
  add := (· + ·)
  sub := (· - ·)
  mul := (· * ·)
  div := (· / ·)
  neg := fun x => -x
  log := Float.log
  exp := Float.exp
  log2 := Float.log2
  pow := Float.pow
  ceilInt := fun x => floatToInt x.ceil
  truncInt := fun x => floatToInt (if x < 0 then x.ceil else x.floor)
  roundInt := floatRoundHalfEven
  narrow32 := fun x => x.toFloat32.toFloat
  lt := fun a b => a < b
  le := fun a b => a ≤ b

section
variable {α : Type} [RealLike α]

def bloomLn2Sq : α := const Gen.bloomLn2SqBits Gen.bloomLn2SqNum Gen.bloomLn2SqDen
def bloomLn2 : α := const Gen.bloomLn2Bits Gen.bloomLn2Num Gen.bloomLn2Den
def cmsLn2 : α := const Gen.cmsLn2Bits Gen.cmsLn2Num Gen.cmsLn2Den

/-- `m_bt = math.ceil((-n * math.log(t_fpr)) / 0.4804530139182)` -/
def bloomBits (n : Nat) (tfpr : α) : Int :=
  ceilInt (div (mul (neg (ofNat n)) (log tfpr)) (bloomLn2Sq : α))

/-- `int(round(0.6931471805599453 * m_bt / n))` -/
def bloomHashes (n : Nat) (m : Int) : Int :=
  roundInt (div (mul (bloomLn2 : α) (ofInt m)) (ofNat n : α))

/-- `_get_optimized_params(n, p)` for an int `n`: `(t_fpr, number_hashes, m_bt)`.
    `p = 0.0` passes the range test and then `math.log(0.0)` raises ValueError. -/
def bloomParams (n : Int) (p : α) : R (α × Nat × Nat) :=
  if n ≤ 0 then .error .initError
  else if !(le (ofInt 0) p && lt p (ofInt 1)) then .error .initError
  else
    let t := narrow32 p
    if !(lt (ofInt 0 : α) t) then .error .valueError
    else
      let m := bloomBits n.toNat t
      let k := bloomHashes (α := α) n.toNat m
      if k == 0 then .error .initError else .ok (t, k.toNat, m.toNat)

/-- `math.ceil(2 / error_rate)` -/
def cmsWidth (errorRate : α) : Int := ceilInt (div (ofInt 2) errorRate)

/-- `math.ceil(-1 * math.log(1 - confidence) / 0.6931471805599453)` -/
def cmsDepth (confidence : α) : Int :=
  ceilInt (div (mul (ofInt (-1)) (log (sub (ofInt 1) confidence))) (cmsLn2 : α))

/-- `int(math.ceil(math.log2(1.0 / error_rate) + math.log2(bucket_size) + 1))` -/
def cuckooFpBits (errorRate : α) (bucketSize : Nat) : Int :=
  ceilInt (add (add (log2 (div (ofInt 1) errorRate)) (log2 (ofNat bucketSize))) (ofInt 1))

/-- `float(1 / (2 ** (fingerprint_size_bits - (math.log2(bucket_size) + 1))))` -/
def cuckooErrorRate (fpBits bucketSize : Nat) : α :=
  div (ofInt 1) (pow (ofInt 2) (sub (ofNat fpBits) (add (log2 (ofNat bucketSize)) (ofInt 1))))

/-- `estimate_elements()` from the set-bit count `X`: −1 when `X ≥ m`, else `int(-(m/k)·ln(1 − X/m))` -/
def estimateElements (m k x : Nat) : Int :=
  if x ≥ m then -1
  else
    let logN : α := log (sub (ofInt 1) (div (ofNat x) (ofNat m)))
    let tmp : α := div (ofNat m) (ofNat k)
    truncInt (mul (mul (ofInt (-1)) tmp) logN)

/-- `current_false_positive_rate()`: `pow(1 - exp(k·(−1)·n / m), k)` -/
def currentFpr (m k : Nat) (n : Int) : α :=
  let num : Int := (k : Int) * (-1) * n
  let dbl : α := div (ofInt num) (ofNat m)
  pow (sub (ofInt 1) (exp dbl)) (ofNat k)

end

end PyProb
