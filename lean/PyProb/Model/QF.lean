/-
  probables/quotientfilter/quotientfilter.py — QuotientFilter, a line-by-line mirror.
  The three metadata Bitarrays are modelled as `List Bool` (their abstraction, see C20_run).
  Every `while` loop of the code takes fuel; running out of fuel is reported as `Err.diverged`.
  Core Lean only.
-/
import PyProb.Model.Base

namespace PyProb

structure QF where
  q : Nat
  rem : List Nat
  occ : List Bool
  cont : List Bool
  shift : List Bool
  count : Int
  auto : Bool
  deriving DecidableEq, Repr

namespace QF

def size (s : QF) : Nat := 2 ^ s.q
def r (s : QF) : Nat := 32 - s.q

/-- `__set_params(quotient, …)`: an empty table -/
def empty (q : Nat) (auto : Bool) : QF :=
  let n := 2 ^ q
  ⟨q, List.replicate n 0, List.replicate n false, List.replicate n false, List.replicate n false, 0, auto⟩

/-- `QuotientFilter(quotient, auto_expand)` -/
def new (q : Int) (auto : Bool) : R QF :=
  if q < 3 ∨ q > 31 then .error .qfError else .ok (empty q.toNat auto)

def bit (l : List Bool) (i : Nat) : Bool := l.getD i false
def remAt (s : QF) (i : Nat) : Nat := s.rem.getD i 0
def nxt (s : QF) (i : Nat) : Nat := (i + 1) % s.size
def prv (s : QF) (i : Nat) : Nat := (i + s.size - 1) % s.size

def isEmpty (s : QF) (i : Nat) : Bool := !bit s.occ i && !bit s.cont i && !bit s.shift i
def isClusterStart (s : QF) (i : Nat) : Bool := bit s.occ i && !bit s.cont i && !bit s.shift i
def isRunStart (s : QF) (i : Nat) : Bool := !bit s.cont i && (bit s.occ i || bit s.shift i)
def isRunOrClusterStart (s : QF) (i : Nat) : Bool := s.isClusterStart i || s.isRunStart i

/-- first loop of `_get_start_index`: walk left to the cluster start, counting occupied slots -/
def startBack (s : QF) (quotient : Nat) : Nat → Nat → Nat → R (Nat × Nat)
  | 0, _, _ => .error .diverged
  | fuel + 1, j, cnts =>
      let cnts := if j == quotient || bit s.occ j then cnts + 1 else cnts
      if bit s.shift j then startBack s quotient fuel (s.prv j) cnts else .ok (j, cnts)

/-- second loop: walk right over `cnts - 1` run starts -/
def startFwd (s : QF) : Nat → Nat → Nat → R Nat
  | 0, _, _ => .error .diverged
  | fuel + 1, j, cnts =>
      if !bit s.cont j then
        if cnts == 1 then .ok j else startFwd s fuel (s.nxt j) (cnts - 1)
      else startFwd s fuel (s.nxt j) cnts

def fuelOf (s : QF) : Nat := 2 * s.size + 2

/-- `_get_start_index(quotient)` -/
def getStartIndex (s : QF) (quotient : Nat) : R Nat :=
  if s.isEmpty quotient then .ok quotient
  else
    match startBack s quotient s.fuelOf quotient 0 with
    | .error e => .error e
    | .ok (j, cnts) => startFwd s s.fuelOf j cnts

def containedLoop (s : QF) (rr : Nat) : Nat → Nat → Nat → R (Option Nat)
  | 0, _, _ => .error .diverged
  | fuel + 1, idx, starts =>
      if s.isEmpty idx then .ok none
      else
        let starts := if !bit s.cont idx then starts + 1 else starts
        if starts == 2 || s.remAt idx > rr then .ok none
        else if s.remAt idx == rr then .ok (some idx)
        else containedLoop s rr fuel (s.nxt idx) starts

/-- `_contained_at_loc(q, r)`: `none` is the code's `-1` -/
def containedAtLoc (s : QF) (qq rr : Nat) : R (Option Nat) :=
  if !bit s.occ qq then .ok none
  else
    match s.getStartIndex qq with
    | .error e => .error e
    | .ok start => containedLoop s rr s.fuelOf start 0

/-- the `while True` of `_shift_insert`: rotate elements one slot to the right through `ins` -/
def shiftLoop (ins : Nat) : Nat → QF → Nat → R QF
  | 0, _, _ => .error .diverged
  | fuel + 1, s, next =>
      let wasEmpty := s.isEmpty next
      let cN := bit s.cont next
      let cI := bit s.cont ins
      let s := { s with cont := (s.cont.set next cI).set ins cN }
      let s := { s with shift := s.shift.set next true }
      let fN := s.remAt next
      let fI := s.remAt ins
      let s := { s with rem := (s.rem.set next fI).set ins fN }
      if wasEmpty then .ok s else shiftLoop ins fuel s (s.nxt next)

def place (s : QF) (qq rr orig ins : Nat) : QF :=
  { s with rem := s.rem.set ins rr, occ := s.occ.set qq true,
           cont := s.cont.set ins (ins != orig), shift := s.shift.set ins (ins != qq) }

/-- `_shift_insert(q, r, orig_idx, insert_idx, flag)` -/
def shiftInsert (s : QF) (qq rr orig ins : Nat) (flag : Bool) : R QF :=
  if s.isEmpty ins then .ok (s.place qq rr orig ins)
  else
    match shiftLoop ins s.fuelOf s (s.nxt ins) with
    | .error e => .error e
    | .ok s =>
        let s := s.place qq rr orig ins
        .ok (if flag then { s with cont := s.cont.set (s.nxt ins) true } else s)

def addScan (s : QF) (rr : Nat) : Nat → Nat → Nat → R (Nat × Nat)
  | 0, _, _ => .error .diverged
  | fuel + 1, idx, starts =>
      if starts == 0 && !s.isEmpty idx && rr > s.remAt idx then
        let idx := s.nxt idx
        let starts := if !bit s.cont idx then starts + 1 else starts
        addScan s rr fuel idx starts
      else .ok (idx, starts)

/-- `_add(q, r)`: one slot always stays empty -/
def addQR (s : QF) (qq rr : Nat) : R QF :=
  if s.count ≥ (s.size : Int) - 1 then .error .qfError
  else
    let res : R QF :=
      if s.isEmpty qq then .ok { s with rem := s.rem.set qq rr, occ := s.occ.set qq true }
      else
        match s.getStartIndex qq with
        | .error e => .error e
        | .ok start =>
            if !bit s.occ qq then s.shiftInsert qq rr start start false
            else
              match addScan s rr s.fuelOf start 0 with
              | .error e => .error e
              | .ok (idx, starts) => s.shiftInsert qq rr start idx (starts != 1)
    match res with
    | .error e => .error e
    | .ok s => .ok { s with count := s.count + 1 }

def quotOf (s : QF) (h : Nat) : Nat := h / 2 ^ s.r
def remOf (s : QF) (h : Nat) : Nat := h % 2 ^ s.r

/-- the generator `hashes()` -/
def hashesFirstEmpty (s : QF) : Nat → Nat → R Nat
  | 0, _ => .error .diverged
  | fuel + 1, i => if i ≥ s.size then .error .indexError else if s.isEmpty i then .ok i else hashesFirstEmpty s fuel (i + 1)

def hashesLoop (s : QF) : Nat → Nat → List Nat → Nat → List Nat → R (List Nat)
  | 0, _, _, _, acc => .ok acc.reverse
  | k + 1, i, queue, cur, acc =>
      let idx := i % s.size
      if s.isEmpty idx then
        if queue.isEmpty then hashesLoop s k (i + 1) queue cur acc else .error .assertion
      else
        let queue := if bit s.occ idx then queue ++ [idx] else queue
        if s.isRunStart idx then
          match queue with
          | [] => .error .indexError
          | x :: rest => hashesLoop s k (i + 1) rest x ((x * 2 ^ s.r + s.remAt idx) :: acc)
        else hashesLoop s k (i + 1) queue cur ((cur * 2 ^ s.r + s.remAt idx) :: acc)

/-- `get_hashes()` -/
def getHashes (s : QF) : R (List Nat) :=
  match hashesFirstEmpty s (s.size + 1) 0 with
  | .error e => .error e
  | .ok start => hashesLoop s s.size start [] 0 []

/-- does `load_factor >= max_load_factor` hold?  `count / size` is exact in binary floating point
    (size is a power of two), so the comparison with the double 0.85 is a comparison of rationals -/
def overLoaded (s : QF) : Bool :=
  Gen.qfResizeCmp.evalInt (s.count * Gen.qfMaxLoadDen) ((Gen.qfMaxLoadNum : Int) * s.size)

mutual
/-- `add_alt(_hash)` with a budget for the nested resizes -/
def addAlt : Nat → QF → Nat → R QF
  | 0, _, _ => .error .diverged
  | budget + 1, s, h =>
      let s' : R QF := if s.auto && s.overLoaded then resize budget s none else .ok s
      match s' with
      | .error e => .error e
      | .ok s =>
          match s.containedAtLoc (s.quotOf h) (s.remOf h) with
          | .error e => .error e
          | .ok (some _) => .ok s
          | .ok none => s.addQR (s.quotOf h) (s.remOf h)

/-- re-insertion of the old hashes; an error leaves the partially filled table -/
def addAll : Nat → QF → List Nat → QF × Option Err
  | 0, s, _ => (s, some .diverged)
  | _ + 1, s, [] => (s, none)
  | budget + 1, s, h :: hs =>
      match addAlt budget s h with
      | .error e => (s, some e)
      | .ok s' => addAll budget s' hs

/-- `resize(quotient)` -/
def resize : Nat → QF → Option Int → R QF
  | 0, _, _ => .error .diverged
  | budget + 1, s, quotient =>
      let qn : Int := quotient.getD (s.q + 1)
      if qn ≥ 0 ∧ s.count ≥ (2 : Int) ^ qn.toNat then .error .qfError
      else if qn < 3 ∨ qn > 31 then .error .qfError
      else
        match s.getHashes with
        | .error e => .error e
        | .ok hs =>
            match addAll budget (empty qn.toNat s.auto) hs with
            | (s', none) => .ok s'
            | (_, some e) => .error e
end

/-- recursion budget of `add_alt`/`resize`/`merge`: one unit per re-inserted hash plus the nesting of
    automatic resizes (each doubles the table, so they nest only logarithmically); generous -/
def budgetOf (s : QF) : Nat := 4 * s.count.toNat + 128

/-- `remove`'s left-shift loop -/
def removeShift : Nat → QF → Nat → Nat → R (QF × Nat × Nat)
  | 0, _, _, _ => .error .diverged
  | fuel + 1, s, idx, next =>
      if !s.isClusterStart next && !s.isEmpty next then
        let s := { s with rem := s.rem.set idx (s.remAt next), cont := s.cont.set idx (bit s.cont next),
                          shift := s.shift.set idx (bit s.shift next) }
        removeShift fuel s next (s.nxt next)
      else .ok (s, idx, next)

def removeMinIdx (s : QF) : Nat → Nat → R Nat
  | 0, _ => .error .diverged
  | fuel + 1, m => if s.isClusterStart m then .ok m else removeMinIdx s fuel (s.prv m)

/-- the metadata repair pass at the end of `_remove_element` -/
def removeRepair (stop : Nat) : Nat → QF → Nat → Option Nat → List Nat → R QF
  | 0, _, _, _, _ => .error .diverged
  | fuel + 1, s, m, cur, queue =>
      if m == stop then .ok s
      else
        let queue := if bit s.occ m then queue ++ [m] else queue
        let step : R (Option Nat × List Nat) :=
          if s.isRunStart m then
            match queue with
            | [] => .error .indexError
            | x :: rest => .ok (some x, rest)
          else .ok (cur, queue)
        match step with
        | .error e => .error e
        | .ok (cur, queue) =>
            let s := if cur == some m then
                { s with cont := s.cont.set m false, shift := s.shift.set m false, occ := s.occ.set m true }
              else s
            removeRepair stop fuel s (s.nxt m) cur queue

/-- `_remove_element(q, r)` -/
def removeQR (s : QF) (qq rr : Nat) : R QF :=
  match s.containedAtLoc qq rr with
  | .error e => .error e
  | .ok none => .ok s
  | .ok (some idx) =>
      let s := { s with count := s.count - 1 }
      let next := s.nxt idx
      let removeOrig := s.isRunOrClusterStart idx && !bit s.cont next
      if s.isEmpty next || s.isClusterStart next then
        let s := { s with rem := s.rem.set idx 0, occ := s.occ.set idx false, cont := s.cont.set idx false,
                          shift := s.shift.set idx false }
        .ok (if removeOrig then { s with occ := s.occ.set qq false } else s)
      else
        match removeMinIdx s s.fuelOf idx with
        | .error e => .error e
        | .ok minIdx =>
            let first : QF × Nat × Nat :=
              if s.isRunOrClusterStart idx && bit s.cont next then
                let s := { s with rem := s.rem.set idx (s.remAt next), cont := s.cont.set idx false,
                                  shift := s.shift.set idx (bit s.shift next) }
                (s, next, s.nxt next)
              else (s, idx, next)
            match removeShift s.fuelOf first.1 first.2.1 first.2.2 with
            | .error e => .error e
            | .ok (s, idx, next) =>
                let s := { s with rem := s.rem.set idx 0, cont := s.cont.set idx false,
                                  shift := s.shift.set idx false, occ := s.occ.set idx false }
                let s := if removeOrig then { s with occ := s.occ.set qq false } else s
                removeRepair next s.fuelOf s minIdx none []

/-- `remove_alt(_hash)` -/
def removeAlt (s : QF) (h : Nat) : R QF := s.removeQR (s.quotOf h) (s.remOf h)

/-- `check_alt(_hash)` -/
def checkAlt (s : QF) (h : Nat) : R Bool :=
  match s.containedAtLoc (s.quotOf h) (s.remOf h) with
  | .error e => .error e
  | .ok r => .ok r.isSome

/-- `merge(second)` given the hashes of the other filter; an error leaves a partial merge -/
def merge (s : QF) (hs : List Nat) : QF × Option Err := addAll (budgetOf s + 4 * hs.length) s hs

end QF
end PyProb
