/-
  Base of the executable models: error enum, bytes, struct packing, keys. Core Lean only.
-/
import PyProb.Generated.Repo

namespace PyProb

/-- the exception classes the library raises, as an enum -/
inductive Err
  | typeError | valueError | indexError | overflow | initError | notSupported
  | cuckooFull | rotateError | cmsError | qfError | structError | zeroDivision
  | fileNotFound | diverged | assertion
  deriving DecidableEq, Repr

def Err.name : Err → String
  | .typeError => "TypeError" | .valueError => "ValueError" | .indexError => "IndexError"
  | .overflow => "OverflowError" | .initError => "InitializationError"
  | .notSupported => "NotSupportedError" | .cuckooFull => "CuckooFilterFullError"
  | .rotateError => "RotatingBloomFilterError" | .cmsError => "CountMinSketchError"
  | .qfError => "QuotientFilterError" | .structError => "error"
  | .zeroDivision => "ZeroDivisionError" | .fileNotFound => "FileNotFoundError"
  | .diverged => "DIVERGED" | .assertion => "AssertionError"

abbrev R := Except Err
abbrev Bytes := List Nat

/-! ### little/big endian integers -/

/-- `n` bytes, least significant first, of `v` (taken modulo `256^n`) -/
def leBytes : Nat → Nat → Bytes
  | 0, _ => []
  | n + 1, v => (v % 256) :: leBytes n (v / 256)

/-- value of a little-endian byte string -/
def ofLE : Bytes → Nat
  | [] => 0
  | b :: bs => b + 256 * ofLE bs

def beBytes (n v : Nat) : Bytes := (leBytes n v).reverse
def ofBE (bs : Bytes) : Nat := ofLE bs.reverse

/-- two's complement encoding of `v` in `n` bytes -/
def leBytesInt (n : Nat) (v : Int) : Bytes := leBytes n (v % (256 ^ n : Nat)).toNat

/-- two's complement decoding -/
def ofLEInt (bs : Bytes) : Int :=
  let u := ofLE bs
  if 2 * u < 256 ^ bs.length then (u : Int) else (u : Int) - (256 ^ bs.length : Nat)

/-! ### `struct` -/

/-- ranges of the `struct` / `array` item codes: facts about CPython (native sizes on x86-64), NOT the
    library's `constants.py` — a change of `INT32_T_MAX` does not change what `struct.pack("i", …)` accepts -/
def Field.lo : Field → Int
  | .i32 => -2147483648 | .i64 => -9223372036854775808 | _ => 0

def Field.hi : Field → Int
  | .u8 => 255 | .u32 => 4294967295 | .i32 => 2147483647
  | .u64 => 18446744073709551615 | .i64 => 9223372036854775807 | .f32 => 4294967295

/-- native mode aligns every field to its size; standard modes do not pad -/
def Layout.padBefore (l : Layout) (off : Nat) (f : Field) : Nat :=
  match l.order with
  | .native => (f.size - off % f.size) % f.size
  | _ => 0

def encField (big : Bool) (f : Field) (v : Int) : Bytes :=
  let bs := leBytesInt f.size v
  if big then bs.reverse else bs

def decField (big : Bool) (f : Field) (bs : Bytes) : Int :=
  let bs := if big then bs.reverse else bs
  match f with
  | .i32 | .i64 => ofLEInt bs
  | _ => (ofLE bs : Int)

def Layout.isBig (l : Layout) : Bool := l.order == .big

def packGo (l : Layout) (off : Nat) : List Field → List Int → R Bytes
  | [], [] => .ok []
  | f :: fs, v :: vs =>
      if v < f.lo ∨ v > f.hi then .error .structError
      else
        let pad := l.padBefore off f
        match packGo l (off + pad + f.size) fs vs with
        | .ok rest => .ok (List.replicate pad 0 ++ encField l.isBig f v ++ rest)
        | .error e => .error e
  | _, _ => .error .structError

/-- `Struct(fmt).pack(*vals)`; floats are carried as their 32-bit pattern -/
def Layout.pack (l : Layout) (vals : List Int) : R Bytes := packGo l 0 l.fields vals

def sizeGo (l : Layout) (off : Nat) : List Field → Nat
  | [] => off
  | f :: fs => sizeGo l (off + l.padBefore off f + f.size) fs

/-- `Struct(fmt).size` -/
def Layout.size (l : Layout) : Nat := sizeGo l 0 l.fields

def unpackGo (l : Layout) (off : Nat) (bs : Bytes) : List Field → List Int
  | [] => []
  | f :: fs =>
      let pad := l.padBefore off f
      decField l.isBig f ((bs.drop (off + pad)).take f.size) :: unpackGo l (off + pad + f.size) bs fs

/-- `Struct(fmt).unpack_from(bs)`; fails when `bs` is too short -/
def Layout.unpack (l : Layout) (bs : Bytes) : R (List Int) :=
  if bs.length < l.size then .error .structError else .ok (unpackGo l 0 bs l.fields)

/-- range-checked store into an `array(typecode)`: CPython raises OverflowError outside the range -/
def storeCell (f : Field) (a : List Int) (i : Nat) (v : Int) : R (List Int) :=
  if v < f.lo ∨ v > f.hi then .error .overflow
  else if i < a.length then .ok (a.set i v) else .error .indexError

/-- bytes of an `array(typecode)` as written by `tofile` (native little endian) -/
def cellsBytes (f : Field) (a : List Int) : Bytes := a.flatMap (leBytesInt f.size)

def chunks (n : Nat) : Nat → Bytes → List Bytes
  | 0, _ => []
  | k + 1, bs => bs.take n :: chunks n k (bs.drop n)

/-- `array(typecode, bytes)` : inverse of `cellsBytes` on exactly `cnt` cells -/
def bytesCells (f : Field) (cnt : Nat) (bs : Bytes) : List Int :=
  (chunks f.size cnt bs).map (decField false f)

/-! ### keys -/

/-- a `str` key is its code points, a `bytes` key its byte values -/
structure Key where
  isText : Bool
  units : List Nat
  deriving DecidableEq, Repr

/-- UTF-8 encoding of one code point (surrogates are not produced by the harness) -/
def utf8Char (c : Nat) : Bytes :=
  if c < 0x80 then [c]
  else if c < 0x800 then [0xC0 + c / 64, 0x80 + c % 64]
  else if c < 0x10000 then [0xE0 + c / 4096, 0x80 + c / 64 % 64, 0x80 + c % 64]
  else [0xF0 + c / 262144, 0x80 + c / 4096 % 64, 0x80 + c / 64 % 64, 0x80 + c % 64]

def utf8 (cps : List Nat) : Bytes := cps.flatMap utf8Char

/-- what `key.encode("utf-8")` / the key itself gives the byte decorator -/
def Key.bytes (k : Key) : Bytes := if k.isText then utf8 k.units else k.units

def hexDigit (n : Nat) : Char := if n < 10 then Char.ofNat (48 + n) else Char.ofNat (87 + n)

/-- `binascii.hexlify` -/
def hexlify (bs : Bytes) : List Char := bs.flatMap fun b => [hexDigit (b / 16), hexDigit (b % 16)]

def hexVal (c : Char) : Option Nat :=
  let n := c.toNat
  if 48 ≤ n ∧ n ≤ 57 then some (n - 48)
  else if 97 ≤ n ∧ n ≤ 102 then some (n - 87)
  else if 65 ≤ n ∧ n ≤ 70 then some (n - 55)
  else none

/-- `binascii.unhexlify`; `none` for odd length or a non-hex digit -/
def unhexlify : List Char → Option Bytes
  | [] => some []
  | [_] => none
  | a :: b :: rest =>
      match hexVal a, hexVal b, unhexlify rest with
      | some x, some y, some r => some ((16 * x + y) :: r)
      | _, _, _ => none

end PyProb
