/-
  probables/countminsketch/countminsketch.py — CountMinSketch (min / mean / mean-min queries),
  HeavyHitters, StreamThreshold. Core Lean only.
-/
import PyProb.Model.Base

namespace PyProb

inductive Mode | min | mean | meanMin
  deriving DecidableEq, Repr

structure CMS where
  w : Nat
  d : Nat
  bins : List Int
  total : Int
  mode : Mode
  deriving DecidableEq, Repr

namespace CMS

def new (w d : Nat) (mode : Mode) : CMS := ⟨w, d, List.replicate (w * d) 0, 0, mode⟩

/-- `[(val % self.width) + (i * self.width) for i, val in enumerate(hashes)]` -/
def binIdx (c : CMS) (hs : List Nat) : List Nat :=
  (List.range hs.length).zipWith (fun i v => v % c.w + i * c.w) hs

def sortInts (l : List Int) : List Int := l.mergeSort (fun a b => decide (a ≤ b))

/-- `__min_query`, `__mean_query`, `__mean_min_query` on the *sorted* values -/
def query (c : CMS) (total : Int) (results : List Int) : R Int :=
  match c.mode with
  | .min =>
      match results with
      | [] => .error .indexError
      | x :: _ => .ok x
  | .mean => if c.d == 0 then .error .zeroDivision else .ok (results.sum / (c.d : Int))
  | .meanMin =>
      match results.head?, results.getLast? with
      | some a, some b =>
          if a == 0 && b == 0 then .ok 0
          else if c.w == 1 then .error .zeroDivision
          else
            let mm := sortInts (results.map fun t => t - (total - t) / ((c.w : Int) - 1))
            if c.d % 2 == 0 then
              match mm[c.d / 2]?, mm[c.d / 2 - 1]? with
              | some x, some y => if c.d / 2 = 0 then .error .indexError else .ok ((x + y) / 2)
              | _, _ => .error .indexError
            else
              match mm[c.d / 2]? with
              | some x => .ok x
              | none => .error .indexError
      | _, _ => .error .indexError

/-- the store loop of `add_alt` -/
def addLoop : List Int → List (Nat × Int) → List Int → List Int × List Int × Option Err
  | bins, [], acc => (bins, acc.reverse, none)
  | bins, (idx, v) :: rest, acc =>
      if Gen.cmsAddClampCmp.evalInt v Gen.int32Max then addLoop (bins.set idx Gen.int32Max) rest (Gen.int32Max :: acc)
      else if v < -2147483648 then (bins, acc.reverse ++ (v :: rest.map (·.2)), some .overflow)  -- array('i') range
      else addLoop (bins.set idx v) rest (v :: acc)

def clampTotal (t : Int) : Int :=
  if Gen.cmsTotalMaxCmp.evalInt t Gen.int64Max then Gen.int64Max else if t < Gen.int64Min then Gen.int64Min else t

/-- `add_alt(hashes, num_els)` (countminsketch.py:267-288) -/
def addAlt (c : CMS) (hs : List Nat) (n : Int) : CMS × R Int :=
  let idx := c.binIdx hs
  if idx.any (· ≥ c.bins.length) then (c, .error .indexError)
  else
    let vals := idx.map fun x => c.bins.getD x 0 + n
    let (bins, vals', err) := addLoop c.bins (idx.zip vals) []
    match err with
    | some e => ({ c with bins := bins }, .error e)
    | none =>
        let t := c.total + n
        let t := if Gen.cmsTotalMaxCmp.evalInt t Gen.int64Max then Gen.int64Max else t
        let c' := { c with bins := bins, total := t }
        (c', c'.query t (sortInts vals'))

/-- the store loop of `remove_alt` -/
def removeLoop : List Int → List (Nat × Int) → List Int → List Int × List Int × Option Err
  | bins, [], acc => (bins, acc.reverse, none)
  | bins, (idx, v) :: rest, acc =>
      if Gen.cmsRemoveKeepCmp.evalInt v Gen.int32Min then
        if v > 2147483647 then (bins, acc.reverse ++ (v :: rest.map (·.2)), some .overflow)  -- array('i') range
        else removeLoop (bins.set idx v) rest (v :: acc)
      else removeLoop (bins.set idx Gen.int32Min) rest (Gen.int32Min :: acc)

/-- `remove_alt(hashes, num_els)` (countminsketch.py:300-321) -/
def removeAlt (c : CMS) (hs : List Nat) (n : Int) : CMS × R Int :=
  let idx := c.binIdx hs
  if idx.any (· ≥ c.bins.length) then (c, .error .indexError)
  else
    let vals := idx.map fun x => c.bins.getD x 0 - n
    let (bins, vals', err) := removeLoop c.bins (idx.zip vals) []
    match err with
    | some e => ({ c with bins := bins }, .error e)
    | none =>
        let t := c.total - n
        let t := if t < Gen.int64Min then Gen.int64Min else t
        let c' := { c with bins := bins, total := t }
        (c', c'.query t (sortInts vals'))

/-- `check_alt(hashes)` -/
def checkAlt (c : CMS) (hs : List Nat) : R Int :=
  let idx := c.binIdx hs
  if idx.any (· ≥ c.bins.length) then .error .indexError
  else c.query c.total (sortInts (idx.map fun x => c.bins.getD x 0))

def clear (c : CMS) : CMS := { c with bins := List.replicate c.bins.length 0, total := 0 }

def joinCell (x y : Int) : Int :=
  if x == Gen.int32Min || x == Gen.int32Max then x
  else
    let t := x + y
    if t > Gen.int32Max then Gen.int32Max else if t < Gen.int32Min then Gen.int32Min else t

/-- `join(second)`; `sameProbe` is `self.hashes("test") == second.hashes("test")` -/
def join (a b : CMS) (sameProbe : Bool) : R CMS :=
  if a.w != b.w || a.d != b.d || !sameProbe then .error .cmsError
  else
    let bins := (List.range (a.w * a.d)).map fun i => joinCell (a.bins.getD i 0) (b.bins.getD i 0)
    let t := a.total + b.total
    let t := if t > Gen.int64Max then Gen.int64Max else if t < Gen.int64Min then Gen.int64Min else t
    .ok { a with bins := bins, total := t }

/-- `export`: the bins (int32) then the footer `IIq` -/
def exportBytes (c : CMS) : R Bytes :=
  match Gen.cmsFooter.pack [c.w, c.d, c.total] with
  | .ok f => .ok (cellsBytes .i32 c.bins ++ f)
  | .error e => .error e

def lastN {α} (n : Nat) (l : List α) : List α := l.drop (l.length - n)

/-- `_parse_bytes`: no validation, geometry and total from the footer -/
def load (mode : Mode) (file : Bytes) : R CMS :=
  match Gen.cmsFooter.unpack (lastN Gen.cmsFooter.size file) with
  | .error e => .error e
  | .ok [w, d, t] =>
      let n := w.toNat * d.toNat
      let body := file.take (Gen.cmsCell.size * n)
      if body.length % Gen.cmsCell.size != 0 then .error .valueError
      else .ok ⟨w.toNat, d.toNat, bytesCells .i32 (body.length / Gen.cmsCell.size) body, t, mode⟩
  | .ok _ => .error .structError

end CMS

/-! ### tracking tables: Python dicts in insertion order -/

abbrev Table := List (Key × Int)

namespace Table

/-- `d[key] = v`: an existing key keeps its position, a new key is appended -/
def set (t : Table) (key : Key) (v : Int) : Table :=
  if t.any (·.1 == key) then t.map fun p => if p.1 == key then (key, v) else p else t ++ [(key, v)]

def get? (t : Table) (key : Key) : Option Int := (t.find? (·.1 == key)).map (·.2)

/-- `d.pop(key, None)` -/
def pop (t : Table) (key : Key) : Table := t.filter (·.1 != key)

/-- `min(d, key=d.get)`: the first key with the least value -/
def argmin : Table → Option (Key × Int)
  | [] => none
  | p :: rest => some (rest.foldl (fun best q => if q.2 < best.2 then q else best) p)

end Table

structure HH where
  cms : CMS
  table : Table
  size : Nat
  num : Int
  smallest : Int
  deriving DecidableEq, Repr

namespace HH

def new (w d : Nat) (num : Int) : HH := ⟨CMS.new w d .min, [], 0, num, 0⟩

/-- `HeavyHitters.add_alt(key, hashes, num_els)` (countminsketch.py:629-661) -/
def addAlt (h : HH) (key : Key) (hs : List Nat) (n : Int) : HH × R Int :=
  match h.cms.addAlt hs n with
  | (c, .error e) => ({ h with cms := c }, .error e)
  | (c, .ok res) =>
      let h := { h with cms := c }
      if (h.size : Int) < h.num then
        let had := h.table.get? key
        let t := h.table.set key res
        ({ h with table := t, size := if had.isNone then t.length else h.size }, .ok res)
      else if (h.table.get? key).isSome then ({ h with table := h.table.set key res }, .ok res)
      else if res > h.smallest then
        let t := h.table.set key res
        match Table.argmin t with
        | none => ({ h with table := t }, .error .valueError)
        | some (k, _) =>
            let t := t.pop k
            match Table.argmin t with
            | none => ({ h with table := t }, .error .valueError)
            | some (_, v) => ({ h with table := t, smallest := v }, .ok res)
      else (h, .ok res)

def clear (h : HH) : HH := { h with cms := h.cms.clear, table := [], size := 0, smallest := 0 }

end HH

structure ST where
  cms : CMS
  table : Table
  threshold : Int
  deriving DecidableEq, Repr

namespace ST

def new (w d : Nat) (threshold : Int) : ST := ⟨CMS.new w d .min, [], threshold⟩

/-- `StreamThreshold.add_alt` (countminsketch.py:787-803): a key whose estimate is below the
    threshold is not tracked -/
def addAlt (s : ST) (key : Key) (hs : List Nat) (n : Int) : ST × R Int :=
  match s.cms.addAlt hs n with
  | (c, .error e) => ({ s with cms := c }, .error e)
  | (c, .ok res) =>
      if res ≥ s.threshold then ({ s with cms := c, table := s.table.set key res }, .ok res)
      else ({ s with cms := c, table := s.table.pop key }, .ok res)

/-- `StreamThreshold.remove_alt` -/
def removeAlt (s : ST) (key : Key) (hs : List Nat) (n : Int) : ST × R Int :=
  match s.cms.removeAlt hs n with
  | (c, .error e) => ({ s with cms := c }, .error e)
  | (c, .ok res) =>
      if res < s.threshold then ({ s with cms := c, table := s.table.pop key }, .ok res)
      else ({ s with cms := c, table := s.table.set key res }, .ok res)

def clear (s : ST) : ST := { s with cms := s.cms.clear, table := [] }

end ST
end PyProb
