/-
  probables/utilities.py:86-192 — Bitarray. Core Lean only.
-/
import PyProb.Model.Base

namespace PyProb

/-! bit addressing shared by Bitarray and the Bloom filters: bit `k` is bit `k % 8` of byte `k / 8` -/

def setBitB (bs : Bytes) (k : Nat) : Bytes := bs.set (k / 8) (bs.getD (k / 8) 0 ||| (1 <<< (k % 8)))

/-- `b & ~(1 << (k % 8))` on a byte -/
def clearBitB (bs : Bytes) (k : Nat) : Bytes :=
  bs.set (k / 8) (bs.getD (k / 8) 0 &&& (255 ^^^ (1 <<< (k % 8))))

def testBitB (bs : Bytes) (k : Nat) : Bool := (bs.getD (k / 8) 0 &&& (1 <<< (k % 8))) != 0

structure Bitarray where
  size : Nat
  bytes : Bytes
  deriving DecidableEq, Repr

namespace Bitarray

/-- `Bitarray(size)` for an int `size`: ValueError unless `size > 0` -/
def new (size : Int) : R Bitarray :=
  if size ≤ 0 then .error .valueError
  else .ok ⟨size.toNat, List.replicate ((size.toNat + 7) / 8) 0⟩

def inRange (b : Bitarray) (idx : Int) : Bool := 0 ≤ idx && idx < (b.size : Int)

/-- `check_bit(idx)` / `__getitem__` -/
def checkBit (b : Bitarray) (idx : Int) : R Nat :=
  if b.inRange idx then .ok (if testBitB b.bytes idx.toNat then 1 else 0) else .error .indexError

/-- `set_bit(idx)` -/
def setBit (b : Bitarray) (idx : Int) : R Bitarray :=
  if b.inRange idx then .ok { b with bytes := setBitB b.bytes idx.toNat } else .error .indexError

/-- `clear_bit(idx)` -/
def clearBit (b : Bitarray) (idx : Int) : R Bitarray :=
  if b.inRange idx then .ok { b with bytes := clearBitB b.bytes idx.toNat } else .error .indexError

/-- `__setitem__(idx, val)`: the value is validated before the index -/
def setItem (b : Bitarray) (idx val : Int) : R Bitarray :=
  if val < 0 ∨ val > 1 then .error .valueError
  else if !b.inRange idx then .error .indexError
  else if val = 1 then .ok { b with bytes := setBitB b.bytes idx.toNat }
  else .ok { b with bytes := clearBitB b.bytes idx.toNat }

/-- `clear()` -/
def clear (b : Bitarray) : Bitarray := { b with bytes := List.replicate b.bytes.length 0 }

/-- the bits as a list, index order -/
def bits (b : Bitarray) : List Bool := (List.range b.size).map (testBitB b.bytes)

/-- `as_string()` -/
def asString (b : Bitarray) : String := String.ofList (b.bits.map fun x => if x then '1' else '0')

/-- `num_bits_set()` -/
def numBitsSet (b : Bitarray) : Nat := b.bits.count true

end Bitarray
end PyProb
