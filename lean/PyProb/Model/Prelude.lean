/-
  Types shared between the generated facts and the hand-written models. Core Lean only.
-/
namespace PyProb

/-- comparison operators of guards extracted from the source -/
inductive Cmp | lt | le | gt | ge | eq | ne
  deriving DecidableEq, Repr

def Cmp.evalInt : Cmp → Int → Int → Bool
  | .lt, a, b => a < b
  | .le, a, b => a ≤ b
  | .gt, a, b => a > b
  | .ge, a, b => a ≥ b
  | .eq, a, b => a == b
  | .ne, a, b => a != b

def Cmp.evalNat (c : Cmp) (a b : Nat) : Bool := c.evalInt a b

/-- `struct` field codes used by the library -/
inductive Field | u8 | u32 | i32 | u64 | i64 | f32
  deriving DecidableEq, Repr

inductive ByteOrder | native | little | big
  deriving DecidableEq, Repr

structure Layout where
  order : ByteOrder
  fields : List Field
  deriving DecidableEq, Repr

def Field.size : Field → Nat
  | .u8 => 1 | .u32 => 4 | .i32 => 4 | .f32 => 4 | .u64 => 8 | .i64 => 8

end PyProb
