/-
  Parsing / printing helpers of the line protocol. Core Lean only.
-/
import PyProb.Model.Base
import Std.Data.HashMap

namespace PyProb.Drv
open PyProb

def parseInt? (s : String) : Option Int := s.toInt?

def parseNatList (s : String) : List Nat :=
  if s.isEmpty || s == "-" then [] else (s.splitOn ",").filterMap (·.toNat?)

def parseIntList (s : String) : List Int :=
  if s.isEmpty || s == "-" then [] else (s.splitOn ",").filterMap (·.toInt?)

/-- `t:<cps>` or `b:<bytes>`, comma separated decimals (possibly empty) -/
def parseKey? (s : String) : Option Key :=
  match s.splitOn ":" with
  | ["t", r] => some ⟨true, parseNatList r⟩
  | ["b", r] => some ⟨false, parseNatList r⟩
  | _ => none

/-- `name=value` arguments -/
def kv (args : List String) (name : String) : Option String :=
  args.findSome? fun a =>
    match a.splitOn "=" with
    | [n, v] => if n == name then some v else none
    | _ => none

def kvNat (args : List String) (name : String) : Option Nat := (kv args name).bind (·.toNat?)
def kvInt (args : List String) (name : String) : Option Int := (kv args name).bind (·.toInt?)

def showNats (l : List Nat) : String := ",".intercalate (l.map toString)
def showInts (l : List Int) : String := ",".intercalate (l.map toString)
def showHex (bs : Bytes) : String := String.ofList (hexlify bs)
def showBool (b : Bool) : String := if b then "True" else "False"
def showErr (e : Err) : String := "!" ++ e.name

def facets (l : List (String × String)) : String :=
  " | ".intercalate (l.map fun (k, v) => k ++ "=" ++ v)

end PyProb.Drv
