/-
  Objects behind handles, hash strategies of the protocol, Float-instantiated parameters.
-/
import PyProb.Driver.Parse
import PyProb.Model.Hashes
import PyProb.Model.Digest
import PyProb.Model.Bitarray
import PyProb.Model.Sizing
import PyProb.Model.Bloom
import PyProb.Model.Expanding
import PyProb.Model.CMS
import PyProb.Model.Cuckoo
import PyProb.Model.QF
import PyProb.Model.OnDisk

namespace PyProb.Drv
open PyProb

/-- menu of pure inner functions for `hash_with_depth_int`, mirrored in harness/corr/hashes.py -/
def innerInt (name : String) : Option (Key → Nat → Nat) :=
  match name with
  | "fnvseed" => some fun k idx => fnv1a64 k (Int.ofNat (7 * idx + 3))
  | "sumlen" => some fun k idx => (k.units.sum * 2654435761 + k.units.length * 97 + idx) % 18446744073709551616
  | "small" => some fun k idx => (k.units.sum + idx) % 251
  | _ => none

/-- menu of pure inner functions for `hash_with_depth_bytes` -/
def innerBytes (name : String) : Option (Bytes → Nat → Bytes) :=
  match name with
  | "fnvle" => some fun b idx => leBytes 8 (fnv1a64 ⟨false, b⟩ (Int.ofNat idx)) ++ b.take 3
  | "chain" => some fun b idx => leBytes 8 (fnv1a64 ⟨false, b⟩ 0) ++ leBytes 4 (fnv1a32 ⟨false, b⟩ (Int.ofNat idx))
  | _ => none

/-- how an object hashes keys: computed by the model, or supplied by the harness (`hs=`) -/
inductive Strat
  | fnv
  | dint (f : Key → Nat → Nat)
  | dbytes (f : Bytes → Nat → Bytes)
  | ext

def parseStrat (s : String) : Option Strat :=
  match s.splitOn ":" with
  | ["fnv"] => some .fnv
  | ["md5"] => some (.dbytes fun b _ => md5 b)
  | ["sha256"] => some (.dbytes fun b _ => sha256 b)
  | ["ext"] => some .ext
  | ["dint", n] => (innerInt n).map .dint
  | ["dbytes", n] => (innerBytes n).map .dbytes
  | _ => none

/-- the hash list of a key under a strategy; `ext` takes the list from the request -/
def Strat.hashes (s : Strat) (key : Key) (depth : Nat) (supplied : Option (List Nat)) : Option (List Nat) :=
  match s with
  | .fnv => some (defaultFnv key depth)
  | .dint f => some (withDepthInt f key depth)
  | .dbytes f => some (withDepthBytes f key depth)
  | .ext => supplied

def f32ToFloat (bits : Nat) : Float := (Float32.ofBits bits.toUInt32).toFloat
def floatToF32 (x : Float) : Nat := x.toFloat32.toBits.toNat

/-- geometry re-derivation with the `Float` instance of the sizing formulas -/
def geomFloat : Geom := fun est fpr32 =>
  match bloomParams (α := Float) est (f32ToFloat fpr32) with
  | .ok (t, k, m) => .ok (floatToF32 t, k, m)
  | .error e => .error e

def estFloat : Estimator := fun m k x => estimateElements (α := Float) m k x

structure Hashing where
  strat : Strat
  probe : List Nat      -- `self.hashes("test")`

inductive CmObj
  | plain (c : CMS)
  | hh (h : HH)
  | st (s : ST)

inductive Obj
  | bitarray (b : Bitarray)
  | bloom (b : Bloom) (h : Hashing)
  | cbf (c : CBF) (h : Hashing)
  | expanding (e : Expanding) (h : Hashing)
  | rotating (r : Rotating) (h : Hashing)
  | cm (c : CmObj) (h : Hashing)
  | cuckoo (c : Cuckoo) (seed : Int)
  | qf (s : QF)
  | ondisk (o : OnDisk) (h : Hashing)

structure St where
  objs : Std.HashMap Nat Obj := {}
  /-- the model's file system: absolute path ↦ handle of the on-disk filter whose file lives there -/
  fs : List (List String × Nat) := []

def St.get (st : St) (h : Nat) : Option Obj := st.objs[h]?

def St.put (st : St) (h : Nat) (o : Obj) : St := { st with objs := st.objs.insert h o }

def testKey : Key := ⟨true, [116, 101, 115, 116]⟩

/-- hashing of a new object: strategy from `strat=`, probe computed or supplied (`probe=`) -/
def mkHashing (args : List String) (k : Nat) : Option Hashing :=
  match (kv args "strat").bind parseStrat with
  | none => none
  | some s =>
      match s.hashes testKey k ((kv args "probe").map parseNatList) with
      | some p => some ⟨s, p⟩
      | none => none

/-- `key [hs=…]` of a request → hash list at the object's depth -/
def reqHashes (hg : Hashing) (k : Nat) (args : List String) : Option (List Nat) :=
  match kv args "hs" with
  | some l => some (parseNatList l)      -- explicit hash list (`*_alt` calls, or ext strategies)
  | none =>
      match args.head?.bind parseKey? with
      | some key => hg.strat.hashes key k none
      | none => none

end PyProb.Drv
