/-
  Protocol commands of the Bloom family: bf.* (BloomFilter), cb.* (CountingBloomFilter),
  xb.* (ExpandingBloomFilter), rb.* (RotatingBloomFilter).
-/
import PyProb.Driver.Obj

namespace PyProb.Drv
open PyProb

def showR {α} (f : α → String) : R α → String
  | .ok v => f v
  | .error e => showErr e

def showOptErr : Option Err → String
  | none => "None"
  | some e => showErr e

def pyInt (i : Int) : String := toString i

def bloomObs (b : Bloom) : List (String × String) :=
  [("count", pyInt b.count), ("bits", showHex b.bits),
   ("geom", s!"{b.m},{b.k},{b.bloomLength},{b.exportSize}"), ("est", toString b.est), ("fpr32", toString b.fpr32)]

def cbfObs (c : CBF) : List (String × String) :=
  [("count", pyInt c.count), ("cells", showInts c.cells),
   ("geom", s!"{c.m},{c.k},{c.cells.length},{c.exportSize}"), ("est", toString c.est), ("fpr32", toString c.fpr32)]

def jaccStr (p : Nat × Nat) : String :=
  if p.2 == 0 then toString (1.0 : Float).toBits else toString (Float.ofNat p.1 / Float.ofNat p.2).toBits

/-- constructor parameters `est=<int> fpr=<bits of the double>` → geometry -/
def newGeom (args : List String) : Option (R (Nat × Nat × Nat × Nat)) :=
  match kvInt args "est", kvNat args "fpr" with
  | some est, some fb =>
      match bloomParams (α := Float) est (Float.ofBits fb.toUInt64) with
      | .ok (t, k, m) => some (.ok (est.toNat, floatToF32 t, k, m))
      | .error e => some (.error e)
  | _, _ => none

def stepBloom (st : St) (cmd : String) (h : Nat) (args : List String) : St × String :=
  match cmd with
  | "bf.new" =>
      match newGeom args with
      | none => (st, "bad-op")
      | some (.error e) => (st, facets [("ret", showErr e)])
      | some (.ok (est, f32, k, m)) =>
          match mkHashing args k with
          | none => (st, "bad-op")
          | some hg =>
              let b := Bloom.new est f32 k m
              (st.put h (.bloom b hg), facets (("ret", "ok") :: bloomObs b))
  | "bf.union" | "bf.inter" | "bf.jacc" =>
      -- `bf.union r a b`: r is the handle of the result
      match args.map (·.toNat?) with
      | [some a, some b] =>
          match st.get a, st.get b with
          | some (.bloom x hx), some (.bloom y hy) =>
              let same := hx.probe == hy.probe
              if cmd == "bf.jacc" then
                if x.similar y same then (st, facets [("ret", jaccStr (x.jaccardCounts y))]) else (st, facets [("ret", "None")])
              else
                let r := if cmd == "bf.union" then x.union estFloat y same else x.intersection estFloat y same
                match r with
                | none => (st, facets [("ret", "None")])
                | some r => (st.put h (.bloom r hx), facets (("ret", "ok") :: bloomObs r))
          | _, _ => (st, "bad-handle")
      | _ => (st, "bad-op")
  | "bf.load" =>
      -- `bf.load r chan src strat=…`: export src through the channel, load into r
      match args with
      | chan :: src :: rest =>
          match src.toNat?.bind st.get with
          | some (.bloom x _) =>
              let loaded : R Bloom :=
                if chan == "hex" then
                  match x.exportHex with
                  | .ok hx => Bloom.loadHex geomFloat hx
                  | .error e => .error e
                else
                  match x.exportBytes with
                  | .ok bs => Bloom.load geomFloat bs
                  | .error e => .error e
              match loaded with
              | .error e => (st, facets [("ret", showErr e)])
              | .ok r =>
                  match mkHashing rest r.k with
                  | none => (st, "bad-op")
                  | some hg => (st.put h (.bloom r hg), facets (("ret", "ok") :: bloomObs r))
          | _ => (st, "bad-handle")
      | _ => (st, "bad-op")
  | "bf.loadraw" =>
      -- `bf.loadraw r chan data=<hex> strat=…`: load arbitrary bytes / hex text
      match args with
      | chan :: rest =>
          match kv rest "data" with
          | none => (st, "bad-op")
          | some d =>
              let loaded : R Bloom :=
                if chan == "hex" then
                  match unhexlify d.toList with
                  | some raw => Bloom.loadHex geomFloat (raw.map fun c => Char.ofNat c)
                  | none => .error .valueError
                else
                  match unhexlify d.toList with
                  | some raw => Bloom.load geomFloat raw
                  | none => .error .valueError
              match loaded with
              | .error e => (st, facets [("ret", showErr e)])
              | .ok r =>
                  match mkHashing rest r.k with
                  | none => (st, "bad-op")
                  | some hg => (st.put h (.bloom r hg), facets (("ret", "ok") :: bloomObs r))
      | _ => (st, "bad-op")
  | _ =>
    match st.get h with
    | some (.bloom b hg) =>
        match cmd with
        | "bf.add" =>
            match reqHashes hg b.k args with
            | none => (st, "bad-op")
            | some hs =>
                let (b', err) := b.addAlt hs
                (st.put h (.bloom b' hg), facets (("ret", showOptErr err) :: bloomObs b'))
        | "bf.chk" =>
            match reqHashes hg b.k args with
            | none => (st, "bad-op")
            | some hs => (st, facets (("ret", showR showBool (b.checkAlt hs)) :: bloomObs b))
        | "bf.hashes" =>
            match args with
            | k :: d :: _ =>
                match parseKey? k, d.toNat? with
                | some key, some d =>
                    match hg.strat.hashes key d none with
                    | some hs => (st, facets [("ret", showNats hs)])
                    | none => (st, "bad-op")
                | _, _ => (st, "bad-op")
            | _ => (st, "bad-op")
        | "bf.clear" =>
            let b' := b.clear
            (st.put h (.bloom b' hg), facets (("ret", "None") :: bloomObs b'))
        | "bf.export" =>
            match args with
            | ["hex"] => (st, facets (("ret", "ok") :: ("payload", showR String.ofList b.exportHex) :: bloomObs b))
            | [_] => (st, facets (("ret", "ok") :: ("payload", showR showHex b.exportBytes) :: bloomObs b))
            | _ => (st, "bad-op")
        | "bf.stats" =>
            (st, facets ([("ret", "None"), ("setbits", toString b.setBits),
              ("estimate", pyInt (estFloat b.m b.k b.setBits)),
              ("cfpr", toString (currentFpr (α := Float) b.m b.k b.count).toBits)] ++ bloomObs b))
        | "bf.obs" => (st, facets (("ret", "None") :: bloomObs b))
        | _ => (st, "bad-op")
    | _ => (st, "bad-handle")

def stepCBF (st : St) (cmd : String) (h : Nat) (args : List String) : St × String :=
  match cmd with
  | "cb.new" =>
      match newGeom args with
      | none => (st, "bad-op")
      | some (.error e) => (st, facets [("ret", showErr e)])
      | some (.ok (est, f32, k, m)) =>
          match mkHashing args k with
          | none => (st, "bad-op")
          | some hg =>
              let c := CBF.new est f32 k m
              (st.put h (.cbf c hg), facets (("ret", "ok") :: cbfObs c))
  | "cb.union" | "cb.inter" | "cb.jacc" =>
      match args.map (·.toNat?) with
      | [some a, some b] =>
          match st.get a, st.get b with
          | some (.cbf x hx), some (.cbf y hy) =>
              let same := hx.probe == hy.probe
              if cmd == "cb.jacc" then
                if x.similar y same then (st, facets [("ret", jaccStr (x.jaccardCounts y))]) else (st, facets [("ret", "None")])
              else
                let r := if cmd == "cb.union" then x.union estFloat y same else x.intersection estFloat y same
                match r with
                | none => (st, facets [("ret", "None")])
                | some r => (st.put h (.cbf r hx), facets (("ret", "ok") :: cbfObs r))
          | _, _ => (st, "bad-handle")
      | _ => (st, "bad-op")
  | "cb.load" =>
      match args with
      | chan :: src :: rest =>
          match src.toNat?.bind st.get with
          | some (.cbf x _) =>
              let loaded : R CBF :=
                if chan == "hex" then
                  match x.exportHex with
                  | .ok hx => CBF.loadHex geomFloat hx
                  | .error e => .error e
                else
                  match x.exportBytes with
                  | .ok bs => CBF.load geomFloat bs
                  | .error e => .error e
              match loaded with
              | .error e => (st, facets [("ret", showErr e)])
              | .ok r =>
                  match mkHashing rest r.k with
                  | none => (st, "bad-op")
                  | some hg => (st.put h (.cbf r hg), facets (("ret", "ok") :: cbfObs r))
          | _ => (st, "bad-handle")
      | _ => (st, "bad-op")
  | _ =>
    match st.get h with
    | some (.cbf c hg) =>
        match cmd with
        | "cb.add" | "cb.rem" =>
            match reqHashes hg c.k args, kvInt args "n" with
            | some hs, some n =>
                let (c', r) := if cmd == "cb.add" then c.addAlt hs n else c.removeAlt hs n
                (st.put h (.cbf c' hg), facets (("ret", showR pyInt r) :: cbfObs c'))
            | _, _ => (st, "bad-op")
        | "cb.chk" =>
            match reqHashes hg c.k args with
            | none => (st, "bad-op")
            | some hs => (st, facets (("ret", showR pyInt (c.checkAlt hs)) :: cbfObs c))
        | "cb.hashes" =>
            match args with
            | k :: d :: _ =>
                match parseKey? k, d.toNat? with
                | some key, some d =>
                    match hg.strat.hashes key d none with
                    | some hs => (st, facets [("ret", showNats hs)])
                    | none => (st, "bad-op")
                | _, _ => (st, "bad-op")
            | _ => (st, "bad-op")
        | "cb.clear" =>
            let c' := c.clear
            (st.put h (.cbf c' hg), facets (("ret", "None") :: cbfObs c'))
        | "cb.export" =>
            match args with
            | ["hex"] => (st, facets (("ret", "ok") :: ("payload", showR String.ofList c.exportHex) :: cbfObs c))
            | [_] => (st, facets (("ret", "ok") :: ("payload", showR showHex c.exportBytes) :: cbfObs c))
            | _ => (st, "bad-op")
        | "cb.stats" =>
            (st, facets ([("ret", "None"), ("setbits", toString c.setBits),
              ("estimate", pyInt (estFloat c.m c.k c.setBits)),
              ("cfpr", toString (currentFpr (α := Float) c.m c.k c.count).toBits)] ++ cbfObs c))
        | "cb.obs" => (st, facets (("ret", "None") :: cbfObs c))
        | _ => (st, "bad-op")
    | _ => (st, "bad-handle")

end PyProb.Drv
