/-
  Protocol commands ck.* : CuckooFilter / CountingCuckooFilter (kind=ck|cc).
-/
import PyProb.Driver.Bloom
import PyProb.Model.Cuckoo

namespace PyProb.Drv
open PyProb

def showBucket (counting : Bool) (b : List CBin) : String :=
  ".".intercalate (b.map fun bin => if counting then s!"{bin.1}x{bin.2}" else toString bin.1)

def ckObs (c : Cuckoo) : List (String × String) :=
  [("count", pyInt c.count), ("cap", toString c.cap),
   ("table", "/".intercalate (c.buckets.map (showBucket c.counting))),
   ("fps", "/".intercalate (c.buckets.map fun b => ".".intercalate (b.map fun bin => toString bin.1))),
   ("zeros", toString ((c.buckets.map fun b => (b.filter fun bin => bin.2 == 0).length).sum)),
   ("geom", s!"{c.b},{c.maxSwaps}"), ("fpbits", toString c.fpBits)] ++ (if c.counting then [("unique", pyInt c.unique)] else [])

def ckHash (seed : Int) (key : Key) : Nat := fnv1a64 key seed
def ckG (seed : Int) (fp : Nat) : Nat := fnv1a64 (Cuckoo.decimalKey fp) seed

def parseSeed (args : List String) : Option Int :=
  match kv args "hash" with
  | some "fnv" => some 0
  | some "fnv5" => some 5
  | _ => none

def parseFpBits (args : List String) (b : Nat) : Option (R Nat) :=
  match kvInt args "fsz", kvNat args "er" with
  | some f, _ => if 1 ≤ f ∧ f ≤ 4 then some (.ok (f.toNat * 8)) else some (.error .valueError)
  | none, some eb => some (.ok (cuckooFpBits (α := Float) (Float.ofBits eb.toUInt64) b).toNat)
  | none, none => none

def stepCuckoo (st : St) (cmd : String) (h : Nat) (args : List String) : St × String :=
  match cmd with
  | "ck.new" =>
      match kv args "kind", kvInt args "cap", kvInt args "b", kvInt args "swaps", kvNat args "rate",
            kvNat args "auto", parseSeed args with
      | some kind, some cap, some b, some swaps, some rate, some auto, some seed =>
          if cap < 1 ∨ b < 1 ∨ swaps < 1 then (st, facets [("ret", showErr .initError)])
          else
            match parseFpBits args b.toNat with
            | none => (st, "bad-op")
            | some (.error e) => (st, facets [("ret", showErr e)])
            | some (.ok fpb) =>
                let c := Cuckoo.new (kind == "cc") cap.toNat b.toNat swaps.toNat rate (auto == 1) fpb
                (st.put h (.cuckoo c seed), facets (("ret", "ok") :: ckObs c))
      | _, _, _, _, _, _, _ => (st, "bad-op")
  | "ck.load" =>
      -- `ck.load r chan src fsz=… | er=…` : other settings are the constructor defaults
      match args with
      | _chan :: src :: rest =>
          match src.toNat?.bind st.get with
          | some (.cuckoo x seed) =>
              match x.exportBytes with
              | .error e => (st, facets [("ret", showErr e)])
              | .ok bs =>
                  let tmpl := Cuckoo.new x.counting 10000 4 500 2 true 32
                  match Cuckoo.load { tmpl with buckets := [] } bs with
                  | .error e => (st, facets [("ret", showErr e)])
                  | .ok c =>
                      match parseFpBits rest c.b with
                      | some (.ok fpb) =>
                          let c := { c with fpBits := fpb }
                          (st.put h (.cuckoo c seed), facets (("ret", "ok") :: ckObs c))
                      | some (.error e) => (st, facets [("ret", showErr e)])
                      | none => (st.put h (.cuckoo c seed), facets (("ret", "ok") :: ckObs c))
          | _ => (st, "bad-handle")
      | _ => (st, "bad-op")
  | _ =>
    match st.get h with
    | some (.cuckoo c seed) =>
        let G := ckG seed
        let oracle := (kv args "or").map parseNatList |>.getD []
        match cmd with
        | "ck.add" =>
            match args.head?.bind parseKey? with
            | none => (st, "bad-op")
            | some key =>
                let (c', err, rest) := c.add G (ckHash seed key) oracle
                (st.put h (.cuckoo c' seed),
                  facets (("ret", showOptErr err) :: ("oracle_left", toString rest.length) :: ckObs c'))
        | "ck.chk" =>
            match args.head?.bind parseKey? with
            | none => (st, "bad-op")
            | some key =>
                let v := c.check G (ckHash seed key)
                (st, facets (("ret", if c.counting then toString v else showBool (v > 0)) :: ckObs c))
        | "ck.rem" =>
            match args.head?.bind parseKey? with
            | none => (st, "bad-op")
            | some key =>
                let (c', r) := c.remove G (ckHash seed key)
                (st.put h (.cuckoo c' seed), facets (("ret", showBool r) :: ckObs c'))
        | "ck.expand" =>
            let (c', err, rest) := c.expandLogic G none oracle
            (st.put h (.cuckoo c' seed),
              facets (("ret", showOptErr err) :: ("oracle_left", toString rest.length) :: ckObs c'))
        | "ck.export" => (st, facets (("ret", "ok") :: ("payload", showR showHex c.exportBytes) :: ckObs c))
        | "ck.obs" => (st, facets (("ret", "None") :: ckObs c))
        | _ => (st, "bad-op")
    | _ => (st, "bad-handle")

end PyProb.Drv
