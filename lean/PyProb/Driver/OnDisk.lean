/-
  Protocol commands od.* : BloomFilterOnDisk (file bytes + micro-step traces).
-/
import PyProb.Driver.Bloom
import PyProb.Model.OnDisk

namespace PyProb.Drv
open PyProb

def odObs (o : OnDisk) : List (String × String) :=
  [("count", pyInt o.count), ("file", showHex o.file),
   ("geom", s!"{o.m},{o.k},{o.bloomLength},{o.view.exportSize}"), ("est", toString o.est), ("fpr32", toString o.fpr32)]

/-- distinct successive file contents produced by the micro-steps (what a concurrent reader can see) -/
def traceOf (file : Bytes) (steps : List MicroStep) : List Bytes :=
  let rec go (cur : Bytes) : List MicroStep → List Bytes
    | [] => []
    | s :: rest =>
        let nxt := s.apply cur
        if nxt == cur then go cur rest else nxt :: go nxt rest
  go file steps

def splitPath (s : String) : List String := (s.splitOn "/").filter (· ≠ "")

def showTrace (t : List Bytes) : String := ",".intercalate (t.map showHex)

def stepOnDisk (st : St) (cmd : String) (h : Nat) (args : List String) : St × String :=
  match cmd with
  | "od.new" =>
      match newGeom args with
      | none => (st, "bad-op")
      | some (.error e) => (st, facets [("ret", showErr e)])
      | some (.ok (est, f32, k, m)) =>
          match mkHashing args k, OnDisk.create est f32 k m with
          | some hg, .ok o =>
              let st := st.put h (.ondisk o hg)
              -- `path=` (an absolute path, as resolved by the constructor) registers the file
              let st := match kv args "path" with
                | some p => { st with fs := (splitPath p, h) :: st.fs.filter (·.1 != splitPath p) }
                | none => st
              (st, facets (("ret", "ok") :: odObs o))
          | some _, .error e => (st, facets [("ret", showErr e)])
          | none, _ => (st, "bad-op")
  | "od.reopen" =>
      -- `od.reopen r src strat=… [cwd=<abs> arg=<path as given>]`: with cwd/arg the file is found through
      -- the model's path resolution instead of being taken from `src`
      match args with
      | src :: rest =>
          let target : Option Nat :=
            match kv rest "cwd", kv rest "arg" with
            | some cwd, some arg => lookupPath st.fs (resolvePath (splitPath cwd) (arg.startsWith "/") (splitPath arg))
            | _, _ => src.toNat?
          match target with
          | none => (st, facets [("ret", showErr .initError)])
          | some tgt =>
          match st.get tgt with
          | some (.ondisk x _) =>
              match OnDisk.reopen geomFloat x.file with
              | .error e => (st, facets [("ret", showErr e)])
              | .ok o =>
                  match mkHashing rest o.k with
                  | some hg =>
                      let st := st.put h (.ondisk o hg)
                      let st := { st with fs := st.fs.map fun (p, owner) => if owner == tgt then (p, h) else (p, owner) }
                      (st, facets (("ret", "ok") :: odObs o))
                  | none => (st, "bad-op")
          | _ => (st, "bad-handle")
      | _ => (st, "bad-op")
  | "od.view" =>
      -- `od.view r src`: the on-disk filter as an operand of in-memory set operations
      match args.head?.bind (·.toNat?) |>.bind st.get with
      | some (.ondisk x hg) => (st.put h (.bloom x.view hg), facets (("ret", "None") :: bloomObs x.view))
      | _ => (st, "bad-handle")
  | "od.loadmem" =>
      -- `od.loadmem r src strat=…`: BloomFilter(filepath=<the backing file>)
      match args with
      | src :: rest =>
          match src.toNat?.bind st.get with
          | some (.ondisk x _) =>
              match Bloom.load geomFloat x.file with
              | .error e => (st, facets [("ret", showErr e)])
              | .ok b =>
                  match mkHashing rest b.k with
                  | some hg => (st.put h (.bloom b hg), facets (("ret", "ok") :: bloomObs b))
                  | none => (st, "bad-op")
          | _ => (st, "bad-handle")
      | _ => (st, "bad-op")
  | _ =>
    match st.get h with
    | some (.ondisk o hg) =>
        match cmd with
        | "od.add" =>
            match reqHashes hg o.k args with
            | none => (st, "bad-op")
            | some hs =>
                let steps := o.addSteps hs
                let o' := o.addAlt hs
                (st.put h (.ondisk o' hg),
                  facets (("ret", "None") :: ("trace", showTrace (traceOf o.file steps)) :: odObs o'))
        | "od.chk" =>
            match reqHashes hg o.k args with
            | none => (st, "bad-op")
            | some hs => (st, facets (("ret", showR showBool (o.checkAlt hs)) :: odObs o))
        | "od.close" =>
            let o' := o.close
            (st.put h (.ondisk o' hg),
              facets (("ret", "None") :: ("trace", showTrace (traceOf o.file [o.updateStep o.count])) :: odObs o'))
        | "od.export" =>
            let (o', bytes) := o.exportBytes
            (st.put h (.ondisk o' hg),
              facets (("ret", "None") :: ("payload", showHex bytes) :: ("trace", showTrace (traceOf o.file [o.updateStep o.count])) :: odObs o'))
        | "od.clear" =>
            let o' := o.clear
            (st.put h (.ondisk o' hg),
              facets (("ret", "None") :: ("trace", showTrace (traceOf o.file o.clearSteps)) :: odObs o'))
        | "od.obs" => (st, facets (("ret", "None") :: odObs o))
        | _ => (st, "bad-op")
    | _ => (st, "bad-handle")

end PyProb.Drv
