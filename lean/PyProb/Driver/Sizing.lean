/-
  Protocol commands sz.* : the sizing formulas at the `Float` instance (bit-for-bit comparison).
-/
import PyProb.Driver.Obj

namespace PyProb.Drv
open PyProb

def fbits (s : String) : Option Float := s.toNat?.map fun n => Float.ofBits n.toUInt64

def stepSizing (cmd : String) (args : List String) : String :=
  match cmd, args with
  | "sz.bloom", [n, p] =>
      match n.toInt?, fbits p with
      | some n, some p =>
          match bloomParams (α := Float) n p with
          | .ok (t, k, m) => facets [("ret", s!"{t.toBits},{k},{m}")]
          | .error e => facets [("ret", showErr e)]
      | _, _ => "bad-op"
  | "sz.cms", [c, e] =>
      match fbits c, fbits e with
      | some c, some e => facets [("ret", s!"{cmsWidth (α := Float) e},{cmsDepth (α := Float) c}")]
      | _, _ => "bad-op"
  | "sz.ckfp", [e, b] =>
      match fbits e, b.toNat? with
      | some e, some b => facets [("ret", toString (cuckooFpBits (α := Float) e b))]
      | _, _ => "bad-op"
  | "sz.cker", [f, b] =>
      match f.toNat?, b.toNat? with
      | some f, some b => facets [("ret", toString (cuckooErrorRate (α := Float) f b).toBits)]
      | _, _ => "bad-op"
  | "sz.est", [m, k, x] =>
      match m.toNat?, k.toNat?, x.toNat? with
      | some m, some k, some x => facets [("ret", toString (estimateElements (α := Float) m k x))]
      | _, _, _ => "bad-op"
  | "sz.cfpr", [m, k, n] =>
      match m.toNat?, k.toNat?, n.toInt? with
      | some m, some k, some n => facets [("ret", toString (currentFpr (α := Float) m k n).toBits)]
      | _, _, _ => "bad-op"
  | _, _ => "bad-op"

end PyProb.Drv
