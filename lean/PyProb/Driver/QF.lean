/-
  Protocol commands qf.* : QuotientFilter on direct 32-bit hashes.
-/
import PyProb.Driver.Bloom
import PyProb.Model.QF
import PyProb.Spec.QF

namespace PyProb.Drv
open PyProb

def bitsStr (l : List Bool) : String := String.ofList (l.map fun b => if b then '1' else '0')

def qfObs (s : QF) : List (String × String) :=
  [("count", pyInt s.count), ("size", toString s.size), ("q", toString s.q),
   ("meta", bitsStr s.occ ++ "/" ++ bitsStr s.cont ++ "/" ++ bitsStr s.shift),
   ("rems", showNats s.rem),
   ("layout", match s.getHashes with
      | .ok hs =>
          -- the canonical table of the stored set, from the independent specification
          let sorted := hs.mergeSort (fun a b => decide (a ≤ b))
          if (sorted.length : Int) < (s.size : Int) then
            let l := Spec.layout s.q s.auto (Spec.pairs s.q sorted)
            bitsStr l.occ ++ "/" ++ bitsStr l.cont ++ "/" ++ bitsStr l.shift ++ "/" ++ showNats l.rem
          else "full"
      | .error e => showErr e),
   ("hashes", match s.getHashes with
      | .ok hs => showNats (hs.mergeSort (fun a b => decide (a ≤ b)))
      | .error e => showErr e)]

def qfRet (st : St) (h : Nat) (old : QF) (r : R QF) : St × String :=
  match r with
  | .ok s => (st.put h (.qf s), facets (("ret", "None") :: qfObs s))
  | .error e => (st, facets (("ret", showErr e) :: qfObs old))

def stepQF (st : St) (cmd : String) (h : Nat) (args : List String) : St × String :=
  match cmd with
  | "qf.new" =>
      match kvInt args "q", kvNat args "auto" with
      | some q, some a =>
          match QF.new q (a == 1) with
          | .ok s => (st.put h (.qf s), facets (("ret", "ok") :: qfObs s))
          | .error e => (st, facets [("ret", showErr e)])
      | _, _ => (st, "bad-op")
  | _ =>
    match st.get h with
    | some (.qf s) =>
        match cmd, args with
        | "qf.add", [x] =>
            match x.toNat? with
            | some x => qfRet st h s (QF.addAlt (QF.budgetOf s) s x)
            | none => (st, "bad-op")
        | "qf.rem", [x] =>
            match x.toNat? with
            | some x => qfRet st h s (s.removeAlt x)
            | none => (st, "bad-op")
        | "qf.chk", [x] =>
            match x.toNat? with
            | some x => (st, facets (("ret", showR showBool (s.checkAlt x)) :: qfObs s))
            | none => (st, "bad-op")
        | "qf.resize", [x] =>
            let qn : Option Int := if x == "None" then none else x.toInt?
            if x != "None" && qn.isNone then (st, "bad-op")
            else qfRet st h s (QF.resize (QF.budgetOf s) s qn)
        | "qf.merge", [o] =>
            match o.toNat?.bind st.get with
            | some (.qf t) =>
                match t.getHashes with
                | .error e => (st, facets (("ret", showErr e) :: qfObs s))
                | .ok hs =>
                    let (s', err) := s.merge hs
                    (st.put h (.qf s'), facets (("ret", showOptErr err) :: qfObs s'))
            | _ => (st, "bad-handle")
        | "qf.obs", [] => (st, facets (("ret", "None") :: qfObs s))
        | _, _ => (st, "bad-op")
    | _ => (st, "bad-handle")

end PyProb.Drv
