/-
  Protocol commands cm.* : CountMinSketch family (min, mean, mean-min, heavy hitters, threshold).
-/
import PyProb.Driver.Bloom
import PyProb.Model.CMS

namespace PyProb.Drv
open PyProb

def showKeyTok (k : Key) : String := (if k.isText then "t:" else "b:") ++ showNats k.units

def showTable (t : Table) : String := ";".intercalate (t.map fun (k, v) => showKeyTok k ++ "=" ++ toString v)

def cmsObs (c : CMS) : List (String × String) :=
  [("total", pyInt c.total), ("bins", showInts c.bins), ("geom", s!"{c.w},{c.d}"),
   ("qtype", match c.mode with | .min => "min" | .mean => "mean" | .meanMin => "mean-min")]

def cmObjObs : CmObj → List (String × String)
  | .plain c => cmsObs c
  | .hh h => cmsObs h.cms ++ [("table", showTable h.table)]
  | .st s => cmsObs s.cms ++ [("table", showTable s.table)]

def CmObj.cms : CmObj → CMS
  | .plain c => c
  | .hh h => h.cms
  | .st s => s.cms

def parseMode (s : String) : Option Mode :=
  match s with
  | "min" => some .min | "mean" => some .mean | "meanmin" => some .meanMin | _ => none

/-- build a sketch of the requested kind around given geometry -/
def mkCm (args : List String) (w d : Nat) : Option CmObj :=
  match kv args "kind" with
  | some "hh" => (kvInt args "num").map fun n => .hh (HH.new w d n)
  | some "st" => (kvInt args "thr").map fun t => .st (ST.new w d t)
  | some m => (parseMode m).map fun m => .plain (CMS.new w d m)
  | none => none

def CmObj.withCms : CmObj → CMS → CmObj
  | .plain c0, c => .plain { c with mode := c0.mode }
  | .hh h, c => .hh { h with cms := { c with mode := .min } }
  | .st s, c => .st { s with cms := { c with mode := .min } }

def stepCMS (st : St) (cmd : String) (h : Nat) (args : List String) : St × String :=
  match cmd with
  | "cm.new" =>
      let dims : Option (R (Nat × Nat)) :=
        match kvInt args "w", kvInt args "d" with
        | some w, some d => if w > 0 ∧ d > 0 then some (.ok (w.toNat, d.toNat)) else some (.error .initError)
        | _, _ =>
            match kvNat args "conf", kvNat args "err" with
            | some cb, some eb =>
                let conf := Float.ofBits cb.toUInt64
                let er := Float.ofBits eb.toUInt64
                if conf > 0 && er > 0 then
                  some (.ok ((cmsWidth (α := Float) er).toNat, (cmsDepth (α := Float) conf).toNat))
                else some (.error .initError)
            | _, _ => none
      match dims with
      | none => (st, "bad-op")
      | some (.error e) => (st, facets [("ret", showErr e)])
      | some (.ok (w, d)) =>
          match mkCm args w d, mkHashing args d with
          | some o, some hg => (st.put h (.cm o hg), facets (("ret", "ok") :: cmObjObs o))
          | _, _ => (st, "bad-op")
  | "cm.load" =>
      -- `cm.load r chan src kind=… strat=…`
      match args with
      | _chan :: src :: rest =>
          match src.toNat?.bind st.get with
          | some (.cm x _) =>
              let loaded : R CMS :=
                match x.cms.exportBytes with
                | .ok bs => CMS.load .min bs
                | .error e => .error e
              match loaded with
              | .error e => (st, facets [("ret", showErr e)])
              | .ok c =>
                  match mkCm rest c.w c.d, mkHashing rest c.d with
                  | some o, some hg =>
                      let o := o.withCms c
                      (st.put h (.cm o hg), facets (("ret", "ok") :: cmObjObs o))
                  | _, _ => (st, "bad-op")
          | _ => (st, "bad-handle")
      | _ => (st, "bad-op")
  | _ =>
    match st.get h with
    | some (.cm o hg) =>
        let c := o.cms
        match cmd with
        | "cm.add" | "cm.rem" =>
            match reqHashes hg c.d args, kvInt args "n", args.head?.bind parseKey? with
            | some hs, some n, key =>
                let key := key.getD ⟨true, []⟩
                let isAdd := cmd == "cm.add"
                match o with
                | .plain c =>
                    let (c', r) := if isAdd then c.addAlt hs n else c.removeAlt hs n
                    (st.put h (.cm (.plain c') hg), facets (("ret", showR pyInt r) :: cmObjObs (.plain c')))
                | .hh x =>
                    if isAdd then
                      let (x', r) := x.addAlt key hs n
                      (st.put h (.cm (.hh x') hg), facets (("ret", showR pyInt r) :: cmObjObs (.hh x')))
                    else (st, facets (("ret", showErr .notSupported) :: cmObjObs o))
                | .st x =>
                    let (x', r) := if isAdd then x.addAlt key hs n else x.removeAlt key hs n
                    (st.put h (.cm (.st x') hg), facets (("ret", showR pyInt r) :: cmObjObs (.st x')))
            | _, _, _ => (st, "bad-op")
        | "cm.chk" =>
            match reqHashes hg c.d args with
            | none => (st, "bad-op")
            | some hs => (st, facets (("ret", showR pyInt (c.checkAlt hs)) :: cmObjObs o))
        | "cm.clear" =>
            let o' : CmObj := match o with
              | .plain c => .plain c.clear
              | .hh x => .hh x.clear
              | .st x => .st x.clear
            (st.put h (.cm o' hg), facets (("ret", "None") :: cmObjObs o'))
        | "cm.join" =>
            match args.head?.bind (·.toNat?) |>.bind st.get with
            | some (.cm o2 hg2) =>
                match o with
                | .plain c =>
                    match c.join o2.cms (hg.probe == hg2.probe) with
                    | .ok c' => (st.put h (.cm (.plain c') hg), facets (("ret", "None") :: cmObjObs (.plain c')))
                    | .error e => (st, facets (("ret", showErr e) :: cmObjObs o))
                | _ => (st, facets (("ret", showErr .notSupported) :: cmObjObs o))
            | _ => (st, "bad-handle")
        | "cm.export" => (st, facets (("ret", "ok") :: ("payload", showR showHex c.exportBytes) :: cmObjObs o))
        | "cm.obs" => (st, facets (("ret", "None") :: cmObjObs o))
        | _ => (st, "bad-op")
    | _ => (st, "bad-handle")

end PyProb.Drv
