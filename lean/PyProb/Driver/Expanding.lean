/-
  Protocol commands xb.* (ExpandingBloomFilter) and rb.* (RotatingBloomFilter).
-/
import PyProb.Driver.Bloom

namespace PyProb.Drv
open PyProb

def expObs (e : Expanding) : List (String × String) :=
  [("added", pyInt e.added), ("nblooms", toString e.blooms.length), ("expansions", pyInt e.expansions),
   ("subcounts", showInts (e.blooms.map (·.count))),
   ("subbits", ",".intercalate (e.blooms.map fun b => showHex b.bits)),
   ("est", toString e.est), ("fpr32", toString e.fpr32)]

def parseForce (args : List String) : Bool := kv args "force" == some "1"

def stepExpanding (st : St) (cmd : String) (h : Nat) (args : List String) : St × String :=
  match cmd with
  | "xb.new" | "rb.new" =>
      match newGeom args with
      | none => (st, "bad-op")
      | some (.error e) => (st, facets [("ret", showErr e)])
      | some (.ok (est, f32, k, m)) =>
          match mkHashing args k with
          | none => (st, "bad-op")
          | some hg =>
              if cmd == "xb.new" then
                let e := Expanding.new est f32 k m
                (st.put h (.expanding e hg), facets (("ret", "ok") :: expObs e))
              else
                match kvInt args "q" with
                | none => (st, "bad-op")
                | some q =>
                    let r := Rotating.new est f32 k m q
                    (st.put h (.rotating r hg), facets (("ret", "ok") :: expObs r.toExpanding))
  | "xb.load" | "rb.load" =>
      match args with
      | _chan :: src :: rest =>
          let srcE : Option Expanding :=
            match src.toNat?.bind st.get with
            | some (.expanding e _) => some e
            | some (.rotating r _) => some r.toExpanding
            | _ => none
          match srcE with
          | none => (st, "bad-handle")
          | some x =>
              let loaded : R Expanding :=
                match x.exportBytes with
                | .ok bs => Expanding.load geomFloat bs
                | .error e => .error e
              match loaded with
              | .error e => (st, facets [("ret", showErr e)])
              | .ok e =>
                  match mkHashing rest e.k with
                  | none => (st, "bad-op")
                  | some hg =>
                      if cmd == "xb.load" then (st.put h (.expanding e hg), facets (("ret", "ok") :: expObs e))
                      else
                        match kvInt rest "q" with
                        | none => (st, "bad-op")
                        | some q => (st.put h (.rotating { e with q := q } hg), facets (("ret", "ok") :: expObs e))
      | _ => (st, "bad-op")
  | _ =>
    match st.get h with
    | some (.expanding e hg) =>
        match cmd with
        | "xb.add" =>
            match reqHashes hg e.k args with
            | none => (st, "bad-op")
            | some hs =>
                let (e', err) := e.addAlt hs (parseForce args)
                (st.put h (.expanding e' hg), facets (("ret", showOptErr err) :: expObs e'))
        | "xb.chk" =>
            match reqHashes hg e.k args with
            | none => (st, "bad-op")
            | some hs => (st, facets (("ret", showR showBool (e.checkAlt hs)) :: expObs e))
        | "xb.push" =>
            let e' := e.push
            (st.put h (.expanding e' hg), facets (("ret", "None") :: expObs e'))
        | "xb.export" => (st, facets (("ret", "ok") :: ("payload", showR showHex e.exportBytes) :: expObs e))
        | "xb.obs" => (st, facets (("ret", "None") :: expObs e))
        | _ => (st, "bad-op")
    | some (.rotating r hg) =>
        match cmd with
        | "rb.add" =>
            match reqHashes hg r.k args with
            | none => (st, "bad-op")
            | some hs =>
                let (r', err) := r.addAlt hs (parseForce args)
                (st.put h (.rotating r' hg), facets (("ret", showOptErr err) :: expObs r'.toExpanding))
        | "rb.chk" =>
            match reqHashes hg r.k args with
            | none => (st, "bad-op")
            | some hs => (st, facets (("ret", showR showBool (r.toExpanding.checkAlt hs)) :: expObs r.toExpanding))
        | "rb.push" =>
            let r' := r.push
            (st.put h (.rotating r' hg), facets (("ret", "None") :: expObs r'.toExpanding))
        | "rb.pop" =>
            match r.pop with
            | .ok r' => (st.put h (.rotating r' hg), facets (("ret", "None") :: expObs r'.toExpanding))
            | .error e => (st, facets (("ret", showErr e) :: expObs r.toExpanding))
        | "rb.export" => (st, facets (("ret", "ok") :: ("payload", showR showHex r.toExpanding.exportBytes) :: expObs r.toExpanding))
        | "rb.obs" => (st, facets (("ret", "None") :: expObs r.toExpanding))
        | _ => (st, "bad-op")
    | _ => (st, "bad-handle")

end PyProb.Drv
