/-
  Dispatcher of the line protocol: objects, handles, `step`.
-/
import PyProb.Driver.Obj
import PyProb.Driver.Bloom
import PyProb.Driver.Expanding
import PyProb.Driver.CMS
import PyProb.Driver.Cuckoo
import PyProb.Driver.QF
import PyProb.Driver.OnDisk
import PyProb.Driver.Sizing

namespace PyProb.Drv
open PyProb

def stepHashes (cmd : String) (args : List String) : String :=
  match cmd, args with
  | "h.fnv64", [k, s] =>
      match parseKey? k, parseInt? s with
      | some k, some s => facets [("ret", toString (fnv1a64 k s))]
      | _, _ => "bad-op"
  | "h.fnv32", [k, s] =>
      match parseKey? k, parseInt? s with
      | some k, some s => facets [("ret", toString (fnv1a32 k s))]
      | _, _ => "bad-op"
  | "h.default", [k, d] =>
      match parseKey? k, d.toNat? with
      | some k, some d => facets [("ret", showNats (defaultFnv k d))]
      | _, _ => "bad-op"
  | "h.dint", [f, k, d] =>
      match innerInt f, parseKey? k, d.toNat? with
      | some f, some k, some d => facets [("ret", showNats (withDepthInt f k d))]
      | _, _, _ => "bad-op"
  | "h.dbytes", [f, k, d] =>
      match innerBytes f, parseKey? k, d.toNat? with
      | some f, some k, some d => facets [("ret", showNats (withDepthBytes f k d))]
      | _, _, _ => "bad-op"
  | "h.md5", [k, d] =>
      match parseKey? k, d.toNat? with
      | some k, some d => facets [("ret", showNats (defaultMd5 k d))]
      | _, _ => "bad-op"
  | "h.sha256", [k, d] =>
      match parseKey? k, d.toNat? with
      | some k, some d => facets [("ret", showNats (defaultSha256 k d))]
      | _, _ => "bad-op"
  | "h.digest", [alg, k] =>
      match parseKey? k with
      | some k => facets [("ret", showHex (if alg == "md5" then md5 k.bytes else sha256 k.bytes))]
      | none => "bad-op"
  | "h.utf8", [k] =>
      match parseKey? k with
      | some k => facets [("ret", showNats k.bytes)]
      | none => "bad-op"
  | _, _ => "bad-op"

/-! ### bitarray -/

def baObs (b : Bitarray) : List (String × String) :=
  [("bits", b.asString), ("cnt", toString b.numBitsSet), ("nbytes", toString b.bytes.length),
   ("raw", showHex b.bytes)]

def baUpd (st : St) (h : Nat) (b : Bitarray) (r : R Bitarray) : St × String :=
  match r with
  | .ok b' => ({ st with objs := st.objs.insert h (.bitarray b') }, facets (("ret", "None") :: baObs b'))
  | .error e => (st, facets (("ret", showErr e) :: baObs b))

def stepBitarray (st : St) (cmd : String) (h : Nat) (args : List String) : St × String :=
  if cmd == "ba.new" then
    match args with
    | [n] =>
        match parseInt? n with
        | some n =>
            match Bitarray.new n with
            | .ok b => ({ st with objs := st.objs.insert h (.bitarray b) }, facets (("ret", "ok") :: baObs b))
            | .error e => (st, facets [("ret", showErr e)])
        | none => (st, "bad-op")
    | _ => (st, "bad-op")
  else
    match st.objs[h]? with
    | some (.bitarray b) =>
        match cmd, args.map parseInt? with
        | "ba.set", [some i] => baUpd st h b (b.setBit i)
        | "ba.clr", [some i] => baUpd st h b (b.clearBit i)
        | "ba.put", [some i, some v] => baUpd st h b (b.setItem i v)
        | "ba.get", [some i] =>
            match b.checkBit i with
            | .ok v => (st, facets (("ret", toString v) :: baObs b))
            | .error e => (st, facets (("ret", showErr e) :: baObs b))
        | "ba.clear", [] => baUpd st h b (.ok b.clear)
        | "ba.obs", [] => (st, facets (("ret", "None") :: baObs b))
        | _, _ => (st, "bad-op")
    | _ => (st, "bad-handle")

/-! ### dispatcher -/

def step (st : St) (line : String) : St × String :=
  match (line.trimAscii.toString.splitOn " ").filter (· ≠ "") with
  | [] => (st, "bad-op")
  | ["reset"] => ({}, "reset")
  | cmd :: rest =>
      if cmd.startsWith "h." then (st, stepHashes cmd rest)
      else if cmd.startsWith "sz." then (st, stepSizing cmd rest)
      else
        match rest with
        | h :: args =>
            match h.toNat? with
            | none => (st, "bad-op")
            | some h =>
                if cmd.startsWith "ba." then stepBitarray st cmd h args
                else if cmd.startsWith "bf." then stepBloom st cmd h args
                else if cmd.startsWith "cb." then stepCBF st cmd h args
                else if cmd.startsWith "cm." then stepCMS st cmd h args
                else if cmd.startsWith "ck." then stepCuckoo st cmd h args
                else if cmd.startsWith "qf." then stepQF st cmd h args
                else if cmd.startsWith "od." then stepOnDisk st cmd h args
                else if cmd.startsWith "xb." || cmd.startsWith "rb." then stepExpanding st cmd h args
                else (st, "bad-op")
        | [] => (st, "bad-op")

end PyProb.Drv
