/-
  The documented, C-compatible export layouts of the library and reference readers / writers,
  written from the documentation and **independently of the model** (nothing under `Model/` or
  `Generated/` is imported; integers are laid out byte by byte here again).

  * Bloom filter:      ⌈m/8⌉ bytes, bit i of the filter = bit (i mod 8) of byte (i div 8);
                       footer (20 bytes): uint64 LE estimated_elements, uint64 LE elements_added,
                       float32 LE false_positive_rate (carried as its 32-bit pattern).
  * counting Bloom:    m uint32 LE counters, then the same footer.
  * count-min sketch:  width*depth int32 LE (two's complement), row-major (row i, column j at
                       index i*width+j); footer (16 bytes): uint32 LE width, uint32 LE depth,
                       int64 LE elements_added.
  * expanding/rotating: per sub-filter uint64 LE elements_added then its bit array; footer
                       (28 bytes): uint64 LE number of filters, uint64 LE estimated_elements,
                       uint64 LE elements_added, float32 LE false_positive_rate.
  * cuckoo:            capacity*bucket_size uint32 LE fingerprints (0 = empty slot, buckets padded
                       with empty slots); footer: uint32 LE bucket_size, uint32 LE max_swaps.
  * counting cuckoo:   the slots are pairs (uint32 LE fingerprint, uint32 LE count).
  * hashing rule:      position_i = FNV-1a-64(key, offset basis 14695981039346656037 + 31·i,
                       prime 1099511628211) mod m, for i < k.
-/
import PyProb.Spec.Fnv

namespace PyProb.Spec

abbrev Octets := List Nat

/-! ### fixed-width little-endian integers, byte by byte -/

def u32le (v : Nat) : Octets :=
  [v % 256, v / 256 % 256, v / 65536 % 256, v / 16777216 % 256]

def u64le (v : Nat) : Octets :=
  [v % 256, v / 256 % 256, v / 65536 % 256, v / 16777216 % 256,
   v / 4294967296 % 256, v / 1099511627776 % 256, v / 281474976710656 % 256, v / 72057594037927936 % 256]

/-- two's complement: a negative value `v` is stored as `2^32 + v` -/
def i32le (v : Int) : Octets := u32le (if v < 0 then (v + 4294967296).toNat else v.toNat)

def i64le (v : Int) : Octets := u64le (if v < 0 then (v + 18446744073709551616).toNat else v.toNat)

/-- byte `i` of a file (0 beyond the end; the readers below only read inside the file) -/
def at' (file : Octets) (i : Nat) : Nat := file.getD i 0

/-- read a uint32 LE at byte offset `off` -/
def rdU32 (file : Octets) (off : Nat) : Nat :=
  at' file off + 256 * at' file (off + 1) + 65536 * at' file (off + 2) + 16777216 * at' file (off + 3)

/-- read an int32 LE (two's complement) at byte offset `off` -/
def rdI32 (file : Octets) (off : Nat) : Int :=
  let u := rdU32 file off
  if u < 2147483648 then (u : Int) else (u : Int) - 4294967296

/-- read a uint64 LE at byte offset `off` -/
def rdU64 (file : Octets) (off : Nat) : Nat :=
  rdU32 file off + 4294967296 * rdU32 file (off + 4)

/-- read an int64 LE (two's complement) at byte offset `off` -/
def rdI64 (file : Octets) (off : Nat) : Int :=
  let u := rdU64 file off
  if u < 9223372036854775808 then (u : Int) else (u : Int) - 18446744073709551616

/-! ### the documented hashing rule -/

def offsetBasis (i : Nat) : Nat := (14695981039346656037 + 31 * i) % 2 ^ 64

/-- the `i`-th hash of a key: FNV-1a-64 with the published prime, basis advanced by `31·i` -/
def hashI (key : Octets) (i : Nat) : Nat := fnv1a64 (offsetBasis i) key

/-- `position_i = hash_i mod m` for `i < k` -/
def bloomPositions (k m : Nat) (key : Octets) : List Nat := (List.range k).map fun i => hashI key i % m

/-! ### Bloom filter -/

/-- the byte whose bit `t` is `f t` -/
def byteOfBits (f : Nat → Bool) : Nat :=
  (if f 0 then 1 else 0) + (if f 1 then 2 else 0) + (if f 2 then 4 else 0) + (if f 3 then 8 else 0) +
  (if f 4 then 16 else 0) + (if f 5 then 32 else 0) + (if f 6 then 64 else 0) + (if f 7 then 128 else 0)

def bloomFooter (est added fpr32 : Nat) : Octets := u64le est ++ u64le added ++ u32le fpr32

/-- the file of a filter of `m` bits whose bit `i` is `setBits i` -/
def bloomFile (m : Nat) (setBits : Nat → Bool) (est added fpr32 : Nat) : Octets :=
  ((List.range ((m + 7) / 8)).map fun j => byteOfBits fun t => setBits (8 * j + t)) ++
    bloomFooter est added fpr32

/-- bit `i` of the filter, read directly from the file -/
def bitOfFile (file : Octets) (i : Nat) : Bool := Nat.testBit (at' file (i / 8)) (i % 8)

/-- reference reader: all documented positions of the key are set in the file -/
def refReaderBloom (k m : Nat) (file : Octets) (key : Octets) : Bool :=
  (bloomPositions k m key).all (bitOfFile file)

/-- `arr[j] |= 1 << t` -/
def orByteAt : Octets → Nat → Nat → Octets
  | [], _, _ => []
  | b :: bs, 0, t => (b ||| 2 ^ t) :: bs
  | b :: bs, j + 1, t => b :: orByteAt bs j t

/-- set bit `i` of a bit array -/
def setBit (arr : Octets) (i : Nat) : Octets := orByteAt arr (i / 8) (i % 8)

/-- reference writer: a zero array of ⌈m/8⌉ bytes, the documented positions of every key set,
    then the footer with `elements_added` = number of additions -/
def refWriterBloom (est fpr32 k m : Nat) (keys : List Octets) : Octets :=
  (keys.foldl (fun arr key => (bloomPositions k m key).foldl setBit arr) (List.replicate ((m + 7) / 8) 0)) ++
    bloomFooter est keys.length fpr32

/-! ### counting Bloom filter -/

def cbfFile (counters : List Nat) (est added fpr32 : Nat) : Octets :=
  counters.flatMap u32le ++ bloomFooter est added fpr32

/-- reference reader: the minimum of the counters at the documented positions (`none` for k = 0) -/
def refReaderCbf (k m : Nat) (file : Octets) (key : Octets) : Option Nat :=
  match (bloomPositions k m key).map fun p => rdU32 file (4 * p) with
  | [] => none
  | x :: xs => some (xs.foldl min x)

/-- `arr[p] = min(arr[p] + 1, UINT32_MAX)` -/
def incrSat : List Nat → Nat → List Nat
  | [], _ => []
  | c :: cs, 0 => (if c + 1 > 4294967295 then 4294967295 else c + 1) :: cs
  | c :: cs, p + 1 => c :: incrSat cs p

def refWriterCbf (est fpr32 k m : Nat) (keys : List Octets) : Octets :=
  cbfFile (keys.foldl (fun arr key => (bloomPositions k m key).foldl incrSat arr) (List.replicate m 0))
    est keys.length fpr32

/-! ### count-min sketch -/

def cmsFooter (width depth : Nat) (added : Int) : Octets := u32le width ++ u32le depth ++ i64le added

/-- row-major: row `i`, column `j` at index `i*width + j` -/
def cmsFile (width depth : Nat) (cell : Nat → Nat → Int) (added : Int) : Octets :=
  ((List.range depth).flatMap fun i => (List.range width).flatMap fun j => i32le (cell i j)) ++
    cmsFooter width depth added

/-- the same file given the flat counter array -/
def cmsFileFlat (width depth : Nat) (cells : List Int) (added : Int) : Octets :=
  cells.flatMap i32le ++ cmsFooter width depth added

/-- the counter the key selects in row `i`: column `hash_i mod width` -/
def cmsCellOf (width : Nat) (file : Octets) (key : Octets) (i : Nat) : Int :=
  rdI32 file (4 * (i * width + hashI key i % width))

/-- reference reader, min query: the minimum over the rows (`none` for depth 0) -/
def refReaderCmsMin (width depth : Nat) (file : Octets) (key : Octets) : Option Int :=
  match (List.range depth).map (cmsCellOf width file key) with
  | [] => none
  | x :: xs => some (xs.foldl min x)

/-- the selected counters, one per row, in ascending order (as the library and the C code sort them) -/
def cmsSorted (width depth : Nat) (file : Octets) (key : Octets) : List Int :=
  ((List.range depth).map (cmsCellOf width file key)).mergeSort fun a b => decide (a ≤ b)

/-- reference reader, mean query: floor of the mean of the selected counters (`none` for depth 0) -/
def refReaderCmsMean (width depth : Nat) (file : Octets) (key : Octets) : Option Int :=
  if depth = 0 then none
  else some (((List.range depth).map (cmsCellOf width file key)).sum / (depth : Int))

/-- reference reader, mean-min query.  `elements_added` is read from the footer (bytes 8..15 after
    the `width*depth` counters).  Every selected counter `t` is corrected by the expected noise
    `(elements_added - t) div (width - 1)`; the answer is the median of the corrected values
    (mean of the two middle values, floored, for an even depth); 0 when all selected counters are 0.
    `none`: depth 0, or width 1 (division by zero) -/
def refReaderCmsMeanMin (width depth : Nat) (file : Octets) (key : Octets) : Option Int :=
  let sorted := cmsSorted width depth file key
  let added := rdI64 file (4 * (width * depth) + 8)
  match sorted.head?, sorted.getLast? with
  | some lo, some hi =>
      if lo = 0 ∧ hi = 0 then some 0
      else if width = 1 then none
      else
        let mm := (sorted.map fun t => t - (added - t) / ((width : Int) - 1)).mergeSort fun a b => decide (a ≤ b)
        if depth % 2 = 0 then some ((mm.getD (depth / 2) 0 + mm.getD (depth / 2 - 1) 0) / 2)
        else some (mm.getD (depth / 2) 0)
  | _, _ => none

/-- `arr[p] = min(arr[p] + 1, INT32_MAX)` -/
def incrSatI : List Int → Nat → List Int
  | [], _ => []
  | c :: cs, 0 => (if c + 1 > 2147483647 then 2147483647 else c + 1) :: cs
  | c :: cs, p + 1 => c :: incrSatI cs p

/-- reference writer: every key increments one counter per row -/
def refWriterCms (width depth : Nat) (keys : List Octets) : Octets :=
  cmsFileFlat width depth
    (keys.foldl (fun arr key => (List.range depth).foldl (fun a i => incrSatI a (i * width + hashI key i % width)) arr)
      (List.replicate (width * depth) 0))
    keys.length

/-! ### expanding / rotating Bloom filter -/

/-- `subs` = per sub-filter `(elements_added, bit array)` -/
def expandingFile (subs : List (Nat × Octets)) (est added fpr32 : Nat) : Octets :=
  (subs.flatMap fun s => u64le s.1 ++ s.2) ++ u64le subs.length ++ u64le est ++ u64le added ++ u32le fpr32

/-! ### expanding / rotating reference writers -/

/-- a sub-filter of the reference writer: `(elements_added, bit array)` -/
abbrev Sub := Nat × Octets

/-- all documented positions of the key are set in the sub-filter -/
def subHas (k m : Nat) (key : Octets) (s : Sub) : Bool := (bloomPositions k m key).all (bitOfFile s.2)

def subAdd (k m : Nat) (key : Octets) (s : Sub) : Sub := (s.1 + 1, (bloomPositions k m key).foldl setBit s.2)

def freshSub (m : Nat) : Sub := (0, List.replicate ((m + 7) / 8) 0)

/-- the key goes into the newest sub-filter -/
def addNewest (k m : Nat) (key : Octets) (subs : List Sub) : List Sub :=
  match subs.getLast? with
  | some s => subs.dropLast ++ [subAdd k m key s]
  | none => subs

/-- expanding filter: a fresh sub-filter is appended once the newest holds `est` elements -/
def growExpanding (est m : Nat) (subs : List Sub) : List Sub :=
  match subs.getLast? with
  | some s => if s.1 ≥ est then subs ++ [freshSub m] else subs
  | none => subs

/-- rotating filter: when the newest sub-filter holds exactly `est` elements a fresh one is
    appended, after dropping the oldest if the queue already has `q` sub-filters -/
def growRotating (est q m : Nat) (subs : List Sub) : List Sub :=
  match subs.getLast? with
  | some s =>
      if s.1 = est then (if subs.length < q then subs ++ [freshSub m] else subs.drop 1 ++ [freshSub m])
      else subs
  | none => subs

/-- one `add(key)`: every call counts; a key some sub-filter already reports is not stored again -/
def addStep (grow : List Sub → List Sub) (k m : Nat) (st : List Sub × Nat) (key : Octets) : List Sub × Nat :=
  if st.1.any (subHas k m key) then (st.1, st.2 + 1)
  else (addNewest k m key (grow st.1), st.2 + 1)

def refWriterExpanding (est fpr32 k m : Nat) (keys : List Octets) : Octets :=
  let st := keys.foldl (addStep (growExpanding est m) k m) ([freshSub m], 0)
  expandingFile st.1 est st.2 fpr32

def refWriterRotating (est fpr32 k m q : Nat) (keys : List Octets) : Octets :=
  let st := keys.foldl (addStep (growRotating est q m) k m) ([freshSub m], 0)
  expandingFile st.1 est st.2 fpr32

/-! ### cuckoo filters -/

/-- every bucket is padded to `bucketSize` slots with the empty-slot marker 0 -/
def cuckooFile (bucketSize maxSwaps : Nat) (buckets : List (List Nat)) : Octets :=
  (buckets.flatMap fun bkt => (bkt ++ List.replicate (bucketSize - bkt.length) 0).flatMap u32le) ++
    u32le bucketSize ++ u32le maxSwaps

/-- counting cuckoo: slots are `(fingerprint, count)` pairs, `(0, 0)` is empty -/
def countingCuckooFile (bucketSize maxSwaps : Nat) (buckets : List (List (Nat × Nat))) : Octets :=
  (buckets.flatMap fun bkt =>
      (bkt ++ List.replicate (bucketSize - bkt.length) (0, 0)).flatMap fun s => u32le s.1 ++ u32le s.2) ++
    u32le bucketSize ++ u32le maxSwaps

end PyProb.Spec
