/-
  Specification of the quotient filter, written independently of the model's algorithms
  (only the record type `QF` is imported):

  * the abstract state is a duplicate-free list of elements sorted strictly increasingly
    (`insertBy`, `List.erase`, `List.contains` are the set operations);
  * `layout q auto S` is the CANONICAL TABLE of the set `S` of (quotient, remainder) pairs:
    the unique arrangement of sorted runs that the quotient-filter discipline allows.
    It is a total, executable function (usable with `decide`, `#eval` and from a driver).

  Core Lean only.
-/
import PyProb.Model.QF

namespace PyProb.Spec

/-! ### finite sets as strictly sorted lists -/

/-- insertion into a strictly sorted list (no-op when the element is already there) -/
def insertBy {α : Type} [DecidableEq α] (lt : α → α → Bool) (x : α) : List α → List α
  | [] => [x]
  | y :: ys => if lt x y then x :: y :: ys else if x = y then y :: ys else y :: insertBy lt x ys

/-- strictly sorted (hence duplicate-free for an irreflexive order) -/
def SortedBy {α : Type} (lt : α → α → Bool) (l : List α) : Prop := l.Pairwise (fun a b => lt a b = true)

instance {α : Type} (lt : α → α → Bool) (l : List α) : Decidable (SortedBy lt l) := by
  unfold SortedBy; infer_instance

/-- an element of the filter: (quotient, remainder) -/
abbrev Elem := Nat × Nat

/-- the lexicographic order on elements -/
def ltE (a b : Elem) : Bool := decide (a.1 < b.1) || (a.1 == b.1 && decide (a.2 < b.2))

/-- the order on hashes -/
def ltN (a b : Nat) : Bool := decide (a < b)

def insert (h : Elem) (S : List Elem) : List Elem := insertBy ltE h S
def erase (h : Elem) (S : List Elem) : List Elem := S.erase h
def mem (h : Elem) (S : List Elem) : Bool := S.contains h

def insertN (h : Nat) (H : List Nat) : List Nat := insertBy ltN h H
def eraseN (h : Nat) (H : List Nat) : List Nat := H.erase h
def memN (h : Nat) (H : List Nat) : Bool := H.contains h

abbrev Sorted (S : List Elem) : Prop := SortedBy ltE S
abbrev SortedN (H : List Nat) : Prop := SortedBy ltN H

/-- `S` is a legal content of a table with `2^q` slots and `32 - q` remainder bits:
    sorted, duplicate-free, in range and leaving at least one slot empty -/
def Canon (q : Nat) (S : List Elem) : Prop :=
  3 ≤ q ∧ q ≤ 31 ∧ Sorted S ∧ (∀ x ∈ S, x.1 < 2 ^ q ∧ x.2 < 2 ^ (32 - q)) ∧ S.length < 2 ^ q

instance (q : Nat) (S : List Elem) : Decidable (Canon q S) := by
  unfold Canon; infer_instance

/-! ### the canonical layout -/

/-- number of elements whose quotient is `i` -/
def cnt (S : List Elem) (i : Nat) : Nat := S.countP (fun x => x.1 == i)

/-- `carry n S k`: number of elements pushed into slot `k % n` from the left after walking `k`
    slots from slot 0 (starting with nothing); after one full round (`k ≥ n`) it is the true
    overflow into that slot -/
def carry (n : Nat) (S : List Elem) : Nat → Nat
  | 0 => 0
  | k + 1 => carry n S k + cnt S (k % n) - 1

/-- slot `k % n` stays empty: nothing is pushed into it and nothing hashes to it -/
def isFree (n : Nat) (S : List Elem) (k : Nat) : Bool := carry n S k == 0 && cnt S (k % n) == 0

/-- first free slot of the second round, searched from slot `i` with `fuel` slots to look at -/
def findFree (n : Nat) (S : List Elem) : Nat → Nat → Nat
  | 0, i => i
  | fuel + 1, i => if isFree n S (n + i) then i else findFree n S fuel (i + 1)

/-- a slot that stays empty (the first one, counted from slot 0) -/
def emptySlot (n : Nat) (S : List Elem) : Nat := findFree n S n 0

/-- the elements in the order in which they are met when reading the table from `e + 1` round
    to `e` -/
def rot (e : Nat) (S : List Elem) : List Elem :=
  S.filter (fun x => decide (e < x.1)) ++ S.filter (fun x => decide (x.1 < e))

/-- distance of slot `i` from slot `e + 1`, reading to the right -/
def off (n e i : Nat) : Nat := (i + n - (e + 1)) % n

/-- one stored element: the slot, the element, and "is a continuation" -/
structure Cell where
  idx : Nat
  quot : Nat
  rem : Nat
  cont : Bool
  deriving DecidableEq, Repr

/-- place the elements one after the other: `lo` is the first offset that is still free and `pq`
    the quotient of the previous element.  An element goes to its own slot when that is still
    free, and directly behind its predecessor otherwise. -/
def place (n e : Nat) : Nat → Option Nat → List Elem → List Cell
  | _, _, [] => []
  | lo, pq, x :: xs =>
      let p := max lo (off n e x.1)
      ⟨(e + 1 + p) % n, x.1, x.2, pq == some x.1⟩ :: place n e (p + 1) (some x.1) xs

/-- the cells of the canonical table of `S` -/
def cells (n : Nat) (S : List Elem) : List Cell :=
  let e := emptySlot n S
  place n e 0 none (rot e S)

/-- the canonical table of the set `S` (for `S` sorted, duplicate-free, quotients `< 2^q`,
    `|S| < 2^q`) -/
def layout (q : Nat) (auto : Bool) (S : List Elem) : QF :=
  let n := 2 ^ q
  let cs := cells n S
  { q := q
    rem := cs.foldl (fun a c => a.set c.idx c.rem) (List.replicate n 0)
    occ := cs.foldl (fun a c => a.set c.quot true) (List.replicate n false)
    cont := cs.foldl (fun a c => a.set c.idx c.cont) (List.replicate n false)
    shift := cs.foldl (fun a c => a.set c.idx (c.idx != c.quot)) (List.replicate n false)
    count := (S.length : Nat)
    auto := auto }

/-! ### hashes and elements -/

/-- the 32-bit hash `h` as an element of a table with `2^q` slots -/
def dec (q : Nat) (h : Nat) : Elem := (h / 2 ^ (32 - q), h % 2 ^ (32 - q))

/-- the hash of an element -/
def enc (q : Nat) (x : Elem) : Nat := x.1 * 2 ^ (32 - q) + x.2

/-- the set of hashes `H` as elements -/
def pairs (q : Nat) (H : List Nat) : List Elem := H.map (dec q)

end PyProb.Spec
