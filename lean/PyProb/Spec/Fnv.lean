/-
  Published FNV-1a (Fowler–Noll–Vo), written from the reference definition, independently of the
  model: hash = offset_basis; for each octet: hash = hash xor octet; hash = hash * FNV_prime (mod 2^n).
-/
namespace PyProb.Spec

def fnv64Basis : Nat := 0xcbf29ce484222325
def fnv64Prime : Nat := 0x100000001b3
def fnv32Basis : Nat := 0x811c9dc5
def fnv32Prime : Nat := 0x01000193

def fnv1a (prime bits : Nat) (basis : Nat) (data : List Nat) : Nat :=
  data.foldl (fun h b => ((h ^^^ b) * prime) % 2 ^ bits) basis

def fnv1a64 (basis : Nat) (data : List Nat) : Nat := fnv1a fnv64Prime 64 basis data
def fnv1a32 (basis : Nat) (data : List Nat) : Nat := fnv1a fnv32Prime 32 basis data

end PyProb.Spec
