/-
  C04 — the quotient filter is an exact set of 32-bit hashes.

  The model (`PyProb/Model/QF.lean`) mirrors the REPAIRED Python code: `remove` decrements
  `elements_added` (D1) and `_add` refuses an insertion when `count ≥ size − 1`, so that one slot
  always stays empty (D2).  The specification (`PyProb/Spec/QF.lean`) is the canonical layout
  `layout q auto S` of a sorted duplicate-free set `S` of (quotient, remainder) pairs.

  PROVED, for every table size 3 ≤ q ≤ 31, every set, every history (no bound anywhere):

  * Layer A (read paths), unconditionally:
    `C04_contained : A1_contained` — `_contained_at_loc` on the canonical table of ANY canonical
      set terminates within its fuel and finds exactly the stored elements;
    `C04_hashes : A2_hashes` — `get_hashes` terminates and returns a permutation of the set;
    `C04_layout_fits` — the slot chosen by the layout stays empty and the placement ends in
      front of it (the combinatorial core: a cycle lemma); `C04_check_layout`.
  * Layer C given Layer B: `C04_partial` (hypotheses A1, A2, B1, B2) and `C04_partial_B`
    (hypotheses B1, B2 only — A1 and A2 are discharged): after every history of
    `add | remove | resize | merge` calls, manual and automatic resize, starting from
    `QuotientFilter(q, auto)`, in which no call raised, the complete state equals
    `layout q' (set of the history)`, `check_alt` is membership, `get_hashes` is a duplicate-free
    listing of that set, `elements_added` is its size.  `C04_partial_remove_total`,
    `C04_partial_add_outcome`: `remove` never raises or diverges, `add` (no auto-resize) succeeds
    or is refused with `QuotientFilterError` exactly when the hash is new and the table is full.
    `C04_setOf_spec`, `C04_setOf_sorted`: the specification set is the mathematical one.
  * `C04_exact_set_universe` (+ instances `C04_exact_set_bounded` for the 7-element universe
    `QFBounded.UA`, `C04_exact_set_bounded_B` for the 6-element universe `QFBounded.UB`): the full
    exact-set statement WITHOUT refinement hypotheses for `add`/`remove` histories of ANY length
    over a universe of elements of the 8-slot table for which the four refinement facts have been
    established by exhaustive kernel evaluation (`UniverseOK`).
  * `C04_run_prefix`: a history that ends in `.ok` contains no call that raised or diverged.
  * small unconditional facts: `C04_new`, `C04_new_arrays`, `C04_layout_shape`, `C04_check_empty`,
    `C04_add_first`, `C04_add_refused_iff`, `C04_add_refused_unchanged`, `C04_remove_absent`,
    `C04_shape_add`, `C04_shape_remove`, `C04_count_step_add`, `C04_count_step_remove`,
    `C04_count_step`.

  * Layer B (write paths), unconditionally — added after the first version of this file:
    `C04_B1_add : B1_add` (`_add` maps `layout S` to `layout (S ∪ {x})`, proof in
    `Lemmas/QFExt.lean`, `QFWriteAdd*.lean`) and `C04_B2_remove : B2_remove` (`_remove_element` maps
    `layout S` to `layout (S ∖ {x})`: the metadata repair pass restores canonical form; proof in
    `Lemmas/QFExtRemove.lean`, `QFWriteRemove*.lean`), for all table sizes and all canonical sets.
    Hence **`C04_exact_set : C04_full_statement`** is a theorem without hypotheses, and so are
    `C04_remove_total` and `C04_add_outcome`.

  TERMINATION of the budgeted calls (`add_alt` with auto-resize, `resize`, `merge`) is proved in the
  second module `Properties/C04_termination.lean` (it has to import this file): with the budget the
  driver uses they never report `diverged`.  The bounded checks of `PyProb/Lemmas/QFBounded*.lean`
  (all canonical tables of the 8-slot filter over two universes) are kept as tests.
-/
import PyProb.Lemmas.QFWriteAdd
import PyProb.Lemmas.QFWriteRemove
import PyProb.Lemmas.QFSet
import PyProb.Lemmas.QFBasic
import PyProb.Lemmas.QFLayout
import PyProb.Lemmas.QFReadLayout
import PyProb.Lemmas.QFBoundedAdd
import PyProb.Lemmas.QFBoundedRemove
import PyProb.Lemmas.QFBoundedRead
import PyProb.Lemmas.QFBoundedAddAlt

namespace PyProb.C04
open PyProb PyProb.Spec PyProb.QF

/-! ### the refinement hypotheses (Layers A and B) -/

/-- an element that fits a table with `2^q` slots and `32 - q` remainder bits -/
def InRange (q : Nat) (x : Elem) : Prop := x.1 < 2 ^ q ∧ x.2 < 2 ^ (32 - q)

instance (q : Nat) (x : Elem) : Decidable (InRange q x) := by unfold InRange; infer_instance

/-- Layer A1: on a canonical table the look-up terminates and finds exactly the stored elements -/
def A1_contained : Prop :=
  ∀ (q : Nat) (auto : Bool) (S : List Elem) (x : Elem), Canon q S → InRange q x →
    ∃ o, containedAtLoc (layout q auto S) x.1 x.2 = .ok o ∧ (o.isSome = true ↔ x ∈ S)

/-- Layer A2: on a canonical table the iteration terminates and yields every stored hash once -/
def A2_hashes : Prop :=
  ∀ (q : Nat) (auto : Bool) (S : List Elem), Canon q S →
    ∃ l, getHashes (layout q auto S) = .ok l ∧ l.Perm (S.map (enc q))

/-- Layer B1: inserting a new element into a canonical table that keeps one slot empty gives the
    canonical table of the larger set (with the counter incremented) -/
def B1_add : Prop :=
  ∀ (q : Nat) (auto : Bool) (S : List Elem) (x : Elem), Canon q S → InRange q x →
    S.length + 1 < 2 ^ q → x ∉ S →
    addQR (layout q auto S) x.1 x.2 = .ok (layout q auto (insert x S))

/-- Layer B2: removing a stored element from a canonical table gives the canonical table of the
    smaller set (with the counter decremented) -/
def B2_remove : Prop :=
  ∀ (q : Nat) (auto : Bool) (S : List Elem) (x : Elem), Canon q S → x ∈ S →
    removeQR (layout q auto S) x.1 x.2 = .ok (layout q auto (erase x S))

/-! ### histories -/

/-- the public operations, on pre-hashed values; `merge` is given the hashes of the other filter -/
inductive Op
  | add (h : Nat)
  | remove (h : Nat)
  | resize (quotient : Option Int)
  | merge (hs : List Nat)

/-- all hashes are 32-bit values -/
def Op.InRange : Op → Prop
  | .add h => h < 2 ^ 32
  | .remove h => h < 2 ^ 32
  | .resize _ => True
  | .merge hs => ∀ h ∈ hs, h < 2 ^ 32

/-- one call on the model; `b` is the model's budget for nested resizes (the driver uses
    `QF.budgetOf s = 4·count + 128`; `QF.merge s hs` is `addAll (budgetOf s + 4·|hs|) s hs`).  A `merge` that fails half
    way counts as raised. -/
def step (b : Nat) (s : QF) : Op → R QF
  | .add h => addAlt b s h
  | .remove h => removeAlt s h
  | .resize qn => QF.resize b s qn
  | .merge hs => match addAll b s hs with
      | (t, none) => .ok t
      | (_, some e) => .error e

/-- a history in which no call raised ends in `.ok` -/
def run (b : Nat) : QF → List Op → R QF
  | s, [] => .ok s
  | s, op :: ops => match step b s op with
      | .error e => .error e
      | .ok t => run b t ops

/-- `load_factor >= max_load_factor` for `c` elements in `2^q` slots (the comparison the code makes) -/
def over (q c : Nat) : Bool :=
  Gen.qfResizeCmp.evalInt ((c : Int) * Gen.qfMaxLoadDen) ((Gen.qfMaxLoadNum : Int) * ((2 ^ q : Nat) : Int))

/-- the specification state: the quotient size and the set of hashes (strictly sorted list) -/
structure Abs where
  q : Nat
  H : List Nat
  deriving DecidableEq, Repr

/-- `add`: the table doubles first when auto-resize is on and the load factor is reached -/
def absAdd (auto : Bool) (a : Abs) (h : Nat) : Abs :=
  ⟨if auto && over a.q a.H.length then a.q + 1 else a.q, insertN h a.H⟩

/-- quotient size after re-inserting `k` new hashes into a table holding `c` -/
def qIter (auto : Bool) : Nat → Nat → Nat → Nat
  | q, _, 0 => q
  | q, c, k + 1 => qIter auto (if auto && over q c then q + 1 else q) (c + 1) k

def absStep (auto : Bool) (a : Abs) : Op → Abs
  | .add h => absAdd auto a h
  | .remove h => ⟨a.q, eraseN h a.H⟩
  | .resize qn => ⟨qIter auto (qn.getD (a.q + 1)).toNat 0 a.H.length, a.H⟩
  | .merge hs => hs.foldl (absAdd auto) a

/-- the set of hashes (and the table size) a history leads to -/
def absRun (auto : Bool) (a : Abs) (ops : List Op) : Abs := ops.foldl (absStep auto) a

/-- the set of hashes of a history: added and not removed since -/
def setOf (auto : Bool) (q : Nat) (ops : List Op) : List Nat := (absRun auto ⟨q, []⟩ ops).H

/-- the refinement invariant: the complete state is the canonical table of the set -/
structure Inv (auto : Bool) (s : QF) (a : Abs) : Prop where
  q3 : 3 ≤ a.q
  q31 : a.q ≤ 31
  sorted : SortedN a.H
  range : ∀ h ∈ a.H, h < 2 ^ 32
  room : a.H.length < 2 ^ a.q
  eq : s = layout a.q auto (pairs a.q a.H)

/-! ### unconditional facts -/

/-- `QuotientFilter(q, auto)`: the canonical table of the empty set for 3 ≤ q ≤ 31 (all-zero
    arrays of length `2^q`, counter 0), `QuotientFilterError` otherwise -/
theorem C04_new (q : Int) (auto : Bool) :
    QF.new q auto = if 3 ≤ q ∧ q ≤ 31 then .ok (layout q.toNat auto []) else .error .qfError := by
  unfold QF.new
  rw [layout_nil]
  by_cases h : 3 ≤ q ∧ q ≤ 31
  · rw [if_pos h, if_neg (by omega)]
  · rw [if_neg h, if_pos (by omega)]

theorem C04_new_arrays (q : Nat) (auto : Bool) :
    layout q auto [] = ⟨q, List.replicate (2 ^ q) 0, List.replicate (2 ^ q) false,
      List.replicate (2 ^ q) false, List.replicate (2 ^ q) false, 0, auto⟩ := by
  rw [layout_nil]; rfl

/-- every canonical table has the shape of its quotient size -/
theorem C04_layout_shape (q : Nat) (auto : Bool) (S : List Elem) :
    let s := layout q auto S
    s.q = q ∧ s.auto = auto ∧ s.count = (S.length : Nat) ∧ s.rem.length = 2 ^ q ∧
      s.occ.length = 2 ^ q ∧ s.cont.length = 2 ^ q ∧ s.shift.length = 2 ^ q := by
  simp

private theorem bit_replicate (n i : Nat) : bit (List.replicate n false) i = false := by
  simp only [bit, List.getD_eq_getElem?_getD, List.getElem?_replicate]
  split <;> rfl

/-- nothing is contained in the empty filter -/
theorem C04_check_empty (q : Nat) (auto : Bool) (h : Nat) :
    checkAlt (layout q auto []) h = .ok false := by
  simp [checkAlt, containedAtLoc, layout_nil, QF.empty, bit_replicate]

/-- `_add` refuses with `QuotientFilterError` exactly when only one empty slot is left -/
theorem C04_add_refused_iff (s : QF) (qq rr : Nat) :
    addQR s qq rr = .error .qfError ↔ s.count ≥ (s.size : Int) - 1 := by
  rw [addQR_eq]
  constructor
  · intro h
    split at h
    · assumption
    · split at h
      · rename_i e he
        have := addCore_err _ _ _ _ he
        subst this; cases h
      · cases h
  · intro h; rw [if_pos h]

/-- a refused `_add` raises, so the caller's state is the old one: `add_alt` returns the error and
    nothing else (the model is functional; the Python method raises before any store) -/
theorem C04_add_refused_unchanged (b : Nat) (s : QF) (h : Nat) (hauto : s.auto = false)
    (hc : containedAtLoc s (s.quotOf h) (s.remOf h) = .ok none)
    (hfull : s.count ≥ (s.size : Int) - 1) : addAlt (b + 1) s h = .error .qfError := by
  rw [addAlt_noresize b s h (by simp [hauto])]
  simp only [addTail, hc]
  exact (C04_add_refused_iff s _ _).2 hfull

/-- removing a hash that the look-up does not find leaves the state unchanged -/
theorem C04_remove_absent (s : QF) (qq rr : Nat) (h : containedAtLoc s qq rr = .ok none) :
    removeQR s qq rr = .ok s := by
  simp [removeQR, h]

/-- a successful `_add` keeps the shape of the table and increments the counter by one -/
theorem C04_shape_add (s : QF) (qq rr : Nat) (t : QF) (h : addQR s qq rr = .ok t) :
    SameShape { s with count := s.count + 1 } t := by
  rw [addQR_eq] at h
  split at h
  · cases h
  · split at h
    · cases h
    · rename_i t' ht'
      cases h
      have := addCore_shape _ _ _ _ ht'
      constructor <;> simp [this.q, this.auto, this.rem, this.occ, this.cont, this.shift, this.count]

theorem C04_count_step_add (s : QF) (qq rr : Nat) (t : QF) (h : addQR s qq rr = .ok t) :
    t.count = s.count + 1 := (C04_shape_add s qq rr t h).count

/-- `_remove_element` keeps the shape of the table; the counter is decremented by one when the
    look-up found the element and unchanged otherwise -/
theorem C04_shape_remove (s : QF) (qq rr : Nat) (t : QF) (h : removeQR s qq rr = .ok t) :
    ∃ o, containedAtLoc s qq rr = .ok o ∧
      SameShape { s with count := if o.isSome then s.count - 1 else s.count } t := by
  cases hc : containedAtLoc s qq rr with
  | error e => simp [removeQR, hc] at h
  | ok o =>
      refine ⟨o, rfl, ?_⟩
      cases o with
      | none =>
          rw [C04_remove_absent s qq rr hc] at h
          cases h; exact SameShape.refl _
      | some idx => exact removeQR_shape_some s qq rr idx t hc h

theorem C04_count_step_remove (s : QF) (qq rr : Nat) (t : QF) (h : removeQR s qq rr = .ok t) :
    (∃ idx, containedAtLoc s qq rr = .ok (some idx) ∧ t.count = s.count - 1) ∨
    (containedAtLoc s qq rr = .ok none ∧ t = s) := by
  obtain ⟨o, ho, hs⟩ := C04_shape_remove s qq rr t h
  cases o with
  | none =>
      right; refine ⟨ho, ?_⟩
      rw [C04_remove_absent s qq rr ho] at h; cases h; rfl
  | some idx => left; exact ⟨idx, ho, hs.count⟩

/-- `add_alt` without auto-resize changes the counter by one exactly when the look-up did not
    find the hash -/
theorem C04_count_step (b : Nat) (s : QF) (h : Nat) (t : QF) (hauto : s.auto = false)
    (hr : addAlt (b + 1) s h = .ok t) :
    (∃ idx, containedAtLoc s (s.quotOf h) (s.remOf h) = .ok (some idx) ∧ t = s) ∨
    (containedAtLoc s (s.quotOf h) (s.remOf h) = .ok none ∧ t.count = s.count + 1) := by
  rw [addAlt_noresize b s h (by simp [hauto])] at hr
  simp only [addTail] at hr
  cases hc : containedAtLoc s (s.quotOf h) (s.remOf h) with
  | error e => simp [hc] at hr
  | ok o =>
      cases o with
      | none =>
          right; simp only [hc] at hr
          exact ⟨rfl, C04_count_step_add _ _ _ _ hr⟩
      | some idx =>
          left; simp only [hc] at hr
          cases hr; exact ⟨idx, rfl, rfl⟩

/-- adding to the empty filter gives the canonical table of one element -/
theorem C04_add_first (q : Nat) (hq : 1 ≤ q) (auto : Bool) (x : Elem) (hx : x.1 < 2 ^ q) :
    addQR (layout q auto []) x.1 x.2 = .ok (layout q auto [x]) := by
  have hn : 2 ≤ 2 ^ q := by
    calc 2 = 2 ^ 1 := rfl
      _ ≤ 2 ^ q := Nat.pow_le_pow_right (by omega) hq
  rw [layout_single q hq auto x hx, layout_nil, addQR_eq]
  have h1 : ¬ ((QF.empty q auto).count ≥ ((QF.empty q auto).size : Int) - 1) := by
    simp only [QF.empty, QF.size]
    have : ((2 ^ q : Nat) : Int) ≥ 2 := by exact_mod_cast hn
    omega
  rw [if_neg h1]
  simp [addCore, QF.isEmpty, QF.empty, bit_replicate]

/-! ### the set of a history is the mathematical set "added and not removed since" -/

private theorem mem_foldl_insertN (l : List Nat) (H : List Nat) (x : Nat) :
    x ∈ l.foldl (fun H h => insertN h H) H ↔ x ∈ l ∨ x ∈ H := by
  induction l generalizing H with
  | nil => simp
  | cons h l ih =>
      rw [List.foldl_cons, ih, insertN, mem_insertBy, List.mem_cons]
      constructor
      · rintro (h1 | h1 | h1) <;> simp [h1]
      · rintro ((h1 | h1) | h1) <;> simp [h1]

private theorem sorted_foldl_insertN (l : List Nat) (H : List Nat) (hH : SortedN H) :
    SortedN (l.foldl (fun H h => insertN h H) H) := by
  induction l generalizing H with
  | nil => exact hH
  | cons h l ih => rw [List.foldl_cons]; exact ih _ (sorted_insertBy ltN_total h H hH)

private theorem absAdd_H (auto : Bool) (a : Abs) (h : Nat) : (absAdd auto a h).H = insertN h a.H := rfl

private theorem foldl_absAdd_H (auto : Bool) (l : List Nat) (a : Abs) :
    (l.foldl (absAdd auto) a).H = l.foldl (fun H h => insertN h H) a.H := by
  induction l generalizing a with
  | nil => rfl
  | cons h l ih => rw [List.foldl_cons, List.foldl_cons, ih]; rfl

/-- the specification set is kept strictly sorted (hence duplicate-free) by every operation -/
theorem C04_setOf_sorted (auto : Bool) (a : Abs) (op : Op) (h : SortedN a.H) :
    SortedN (absStep auto a op).H := by
  cases op with
  | add x => exact sorted_insertBy ltN_total x _ h
  | remove x => exact sorted_erase h x
  | resize qn => exact h
  | merge hs =>
      show SortedN (hs.foldl (absAdd auto) a).H
      rw [foldl_absAdd_H]; exact sorted_foldl_insertN hs _ h

/-- … and changes as a mathematical set does: `add` inserts, `remove` deletes, `resize` keeps,
    `merge` unites -/
theorem C04_setOf_spec (auto : Bool) (a : Abs) (hs : SortedN a.H) (x : Nat) :
    (∀ h, x ∈ (absStep auto a (.add h)).H ↔ x = h ∨ x ∈ a.H) ∧
    (∀ h, x ∈ (absStep auto a (.remove h)).H ↔ x ≠ h ∧ x ∈ a.H) ∧
    (∀ qn, x ∈ (absStep auto a (.resize qn)).H ↔ x ∈ a.H) ∧
    (∀ l, x ∈ (absStep auto a (.merge l)).H ↔ x ∈ l ∨ x ∈ a.H) := by
  refine ⟨?_, ?_, ?_, ?_⟩
  · intro h; exact mem_insertBy h x a.H
  · intro h; exact mem_erase_sorted ltN_total hs h x
  · intro qn; exact Iff.rfl
  · intro l
    show x ∈ (l.foldl (absAdd auto) a).H ↔ _
    rw [foldl_absAdd_H]; exact mem_foldl_insertN l _ x

/-! ### Layer C: histories -/

private theorem dec_inRange (q h : Nat) (hq : q ≤ 32) (hh : h < 2 ^ 32) : InRange q (dec q h) :=
  ⟨dec_fst_lt q h hq hh, dec_snd_lt q h⟩

private theorem inv_canon {auto : Bool} {s : QF} {a : Abs} (hI : Inv auto s a) :
    Canon a.q (pairs a.q a.H) := by
  refine ⟨hI.q3, hI.q31, pairs_sorted _ _ hI.sorted, ?_, ?_⟩
  · intro x hx
    simp only [pairs, List.mem_map] at hx
    obtain ⟨h, hh, rfl⟩ := hx
    exact ⟨dec_fst_lt _ _ (by have := hI.q31; omega) (hI.range h hh), dec_snd_lt _ _⟩
  · simp only [pairs, List.length_map]; exact hI.room

private theorem inv_empty (auto : Bool) (q : Nat) (h3 : 3 ≤ q) (h31 : q ≤ 31) :
    Inv auto (QF.empty q auto) ⟨q, []⟩ :=
  ⟨h3, h31, by simp [SortedBy], by simp, by simp [Nat.two_pow_pos], by simp [pairs, layout_nil]⟩

/-- look-up and insertion on a canonical table -/
private theorem addTail_inv (hA1 : A1_contained) (hB1 : B1_add) {auto : Bool} {s : QF} {a : Abs}
    (hI : Inv auto s a) {h : Nat} (hh : h < 2 ^ 32) {t : QF} (ht : addTail s h = .ok t) :
    Inv auto t ⟨a.q, insertN h a.H⟩ := by
  have hC := inv_canon hI
  have hq32 : a.q ≤ 32 := by have := hI.q31; omega
  have hR := dec_inRange a.q h hq32 hh
  obtain ⟨o, ho, hiff⟩ := hA1 a.q auto _ (dec a.q h) hC hR
  have hs := hI.eq
  subst hs
  simp only [addTail] at ht
  have e1 : (layout a.q auto (pairs a.q a.H)).quotOf h = (dec a.q h).1 := rfl
  have e2 : (layout a.q auto (pairs a.q a.H)).remOf h = (dec a.q h).2 := rfl
  rw [e1, e2, ho] at ht
  cases o with
  | some idx =>
      have hm : h ∈ a.H := (mem_pairs a.q h a.H).1 (hiff.1 rfl)
      cases ht
      have : insertN h a.H = a.H := insertBy_of_mem ltN_total h a.H hI.sorted hm
      rw [this]
      exact ⟨hI.q3, hI.q31, hI.sorted, hI.range, hI.room, rfl⟩
  | none =>
      have hnm : h ∉ a.H := by
        intro hm
        have := hiff.2 ((mem_pairs a.q h a.H).2 hm)
        simp at this
      have hnp : dec a.q h ∉ pairs a.q a.H := fun hm => hnm ((mem_pairs a.q h a.H).1 hm)
      simp only at ht
      have hroom : (pairs a.q a.H).length + 1 < 2 ^ a.q := by
        by_cases hfull : (layout a.q auto (pairs a.q a.H)).count ≥
            ((layout a.q auto (pairs a.q a.H)).size : Int) - 1
        · rw [(C04_add_refused_iff _ _ _).2 hfull] at ht; cases ht
        · simp only [layout_count, layout_size] at hfull
          omega
      rw [hB1 a.q auto _ _ hC hR hroom hnp] at ht
      cases ht
      have hlen : (insertN h a.H).length = a.H.length + 1 := length_insertBy_of_not_mem h a.H hnm
      refine ⟨hI.q3, hI.q31, sorted_insertBy ltN_total h a.H hI.sorted, ?_, ?_, ?_⟩
      · intro x hx
        rcases (mem_insertBy h x a.H).1 hx with e | hx
        · rw [e]; exact hh
        · exact hI.range x hx
      · simp only [pairs, List.length_map] at hroom
        rw [hlen]; exact hroom
      · simp only [pairs_insertN]

private theorem over_false_of_half (q c : Nat) (hc : c < 2 ^ q) : over (q + 1) c = false := by
  have hp : 2 ^ (q + 1) = 2 * 2 ^ q := by rw [Nat.pow_succ]; omega
  simp only [over, Gen.qfResizeCmp, Cmp.evalInt, Gen.qfMaxLoadDen, Gen.qfMaxLoadNum, hp,
    decide_eq_false_iff_not]
  omega

private theorem qIter_const (auto : Bool) (q c k : Nat) (h : ∀ i, i < k → over q (c + i) = false) :
    qIter auto q c k = q := by
  induction k generalizing c with
  | zero => rfl
  | succ k ih =>
      have h0 := h 0 (by omega)
      simp only [Nat.add_zero] at h0
      simp only [qIter, h0, Bool.and_false, Bool.false_eq_true, if_false]
      apply ih
      intro i hi
      have := h (i + 1) (by omega)
      rwa [show c + (i + 1) = c + 1 + i by omega] at this

private theorem foldl_absAdd_fresh (auto : Bool) (l : List Nat) (a : Abs) (hnd : l.Nodup)
    (hfresh : ∀ h ∈ l, h ∉ a.H) :
    l.foldl (absAdd auto) a =
      ⟨qIter auto a.q a.H.length l.length, l.foldl (fun H h => insertN h H) a.H⟩ := by
  induction l generalizing a with
  | nil => rfl
  | cons h l ih =>
      rw [List.nodup_cons] at hnd
      have hh : h ∉ a.H := hfresh h (by simp)
      rw [List.foldl_cons, ih _ hnd.2]
      · have hlen : (insertN h a.H).length = a.H.length + 1 := length_insertBy_of_not_mem h a.H hh
        simp only [absAdd, hlen, List.length_cons, qIter, List.foldl_cons]
      · intro x hx hm
        rcases (mem_insertBy h x a.H).1 hm with e | hm
        · subst e; exact hnd.1 hx
        · exact hfresh x (List.mem_cons_of_mem _ hx) hm

/-- re-inserting a permutation of a set into the empty table gives that set -/
private theorem foldl_absAdd_perm (auto : Bool) (l H : List Nat) (q : Nat) (hH : SortedN H)
    (hp : l.Perm H) :
    l.foldl (absAdd auto) ⟨q, []⟩ = ⟨qIter auto q 0 H.length, H⟩ := by
  have hnd : l.Nodup := hp.nodup_iff.2 (sorted_nodup ltN_total hH)
  rw [foldl_absAdd_fresh auto l ⟨q, []⟩ hnd (by simp)]
  simp only [List.length_nil, hp.length_eq]
  congr 1
  apply sorted_ext ltN_total (sorted_foldl_insertN l [] (by simp [SortedBy])) hH
  intro x
  rw [mem_foldl_insertN, hp.mem_iff]; simp

/-- the three mutually recursive write entries preserve the refinement invariant -/
private theorem budget_inv (hA1 : A1_contained) (hA2 : A2_hashes) (hB1 : B1_add) (auto : Bool)
    (b : Nat) :
    (∀ s a h t, Inv auto s a → h < 2 ^ 32 → addAlt b s h = .ok t → Inv auto t (absAdd auto a h)) ∧
    (∀ hs s a t, Inv auto s a → (∀ h ∈ hs, h < 2 ^ 32) → addAll b s hs = (t, none) →
      Inv auto t (hs.foldl (absAdd auto) a)) ∧
    (∀ s a qn t, Inv auto s a → QF.resize b s qn = .ok t → Inv auto t (absStep auto a (.resize qn))) := by
  induction b with
  | zero =>
      refine ⟨?_, ?_, ?_⟩
      · intro s a h t _ _ ht; rw [addAlt] at ht; cases ht
      · intro hs s a t _ _ ht; rw [addAll] at ht; cases ht
      · intro s a qn t _ ht; rw [QF.resize] at ht; cases ht
  | succ b ih =>
      obtain ⟨ihA, ihL, ihR⟩ := ih
      refine ⟨?_, ?_, ?_⟩
      · -- add_alt
        intro s a h t hI hh ht
        rw [addAlt_succ] at ht
        have hauto : s.auto = auto := by rw [hI.eq]; rfl
        have hov : s.overLoaded = over a.q a.H.length := by
          rw [hI.eq]; simp only [pairs]
          show over a.q (a.H.map (dec a.q)).length = _
          rw [List.length_map]
        rw [hauto, hov] at ht
        by_cases hc : (auto && over a.q a.H.length) = true
        · rw [if_pos hc] at ht
          cases hr : QF.resize b s none with
          | error e => rw [hr] at ht; cases ht
          | ok s1 =>
              rw [hr] at ht
              have hI1 := ihR s a none s1 hI hr
              have hq : qIter auto (a.q + 1) 0 a.H.length = a.q + 1 := by
                apply qIter_const
                intro i hi
                rw [Nat.zero_add]
                exact over_false_of_half a.q i (by have := hI.room; omega)
              have hI1' : Inv auto s1 ⟨a.q + 1, a.H⟩ := by
                have e : absStep auto a (.resize none) = ⟨a.q + 1, a.H⟩ := by
                  simp only [absStep, Option.getD_none]
                  rw [show ((a.q : Int) + 1).toNat = a.q + 1 by omega, hq]
                rw [e] at hI1; exact hI1
              have := addTail_inv hA1 hB1 hI1' hh ht
              simp only [absAdd, hc, if_true]
              exact this
        · rw [if_neg hc] at ht
          have := addTail_inv hA1 hB1 hI hh ht
          simp only [absAdd, hc]
          exact this
      · -- the re-insertion loop
        intro hs
        induction hs with
        | nil =>
            intro s a t hI _ ht
            rw [addAll] at ht
            cases ht; exact hI
        | cons h hs ihl =>
            intro s a t hI hr ht
            rw [addAll] at ht
            cases ha : addAlt b s h with
            | error e => rw [ha] at ht; cases ht
            | ok s' =>
                rw [ha] at ht
                have hI' := ihA s a h s' hI (hr h (by simp)) ha
                rw [List.foldl_cons]
                exact ihL hs s' _ t hI' (fun x hx => hr x (List.mem_cons_of_mem _ hx)) ht
      · -- resize
        intro s a qn t hI ht
        rw [QF.resize] at ht
        have hsq : s.q = a.q := by rw [hI.eq]; rfl
        have hauto : s.auto = auto := by rw [hI.eq]; rfl
        rw [hsq, hauto] at ht
        generalize hqn : qn.getD ((a.q : Int) + 1) = qn' at ht
        split at ht
        · cases ht
        · split at ht
          · cases ht
          · rename_i h1 h2
            obtain ⟨l, hl, hp⟩ := hA2 a.q auto _ (inv_canon hI)
            rw [map_enc_pairs] at hp
            rw [hI.eq, hl] at ht
            simp only at ht
            have hIe : Inv auto (QF.empty qn'.toNat auto) ⟨qn'.toNat, []⟩ :=
              inv_empty auto _ (by omega) (by omega)
            cases hr : addAll b (QF.empty qn'.toNat auto) l with
            | mk t' oe =>
                rw [hr] at ht
                cases oe with
                | some e => cases ht
                | none =>
                    cases ht
                    have := ihL l _ _ _ hIe (fun x hx => hI.range x (hp.mem_iff.1 hx)) hr
                    rw [foldl_absAdd_perm auto l a.H _ hI.sorted hp] at this
                    simp only [absStep, hqn]
                    exact this

private theorem step_inv (hA1 : A1_contained) (hA2 : A2_hashes) (hB1 : B1_add) (hB2 : B2_remove)
    (auto : Bool) (b : Nat) (s : QF) (a : Abs) (op : Op) (t : QF) (hI : Inv auto s a)
    (hr : op.InRange) (ht : step b s op = .ok t) : Inv auto t (absStep auto a op) := by
  obtain ⟨hadd, hall, hres⟩ := budget_inv hA1 hA2 hB1 auto b
  cases op with
  | add h => exact hadd s a h t hI hr ht
  | resize qn => exact hres s a qn t hI ht
  | merge hs =>
      simp only [step] at ht
      cases hm : addAll b s hs with
      | mk t' oe =>
          rw [hm] at ht
          cases oe with
          | some e => cases ht
          | none => cases ht; exact hall hs s a _ hI hr hm
  | remove h =>
      have hC := inv_canon hI
      have hq32 : a.q ≤ 32 := by have := hI.q31; omega
      have hR := dec_inRange a.q h hq32 hr
      simp only [step, removeAlt] at ht
      have hs := hI.eq
      subst hs
      have e1 : (layout a.q auto (pairs a.q a.H)).quotOf h = (dec a.q h).1 := rfl
      have e2 : (layout a.q auto (pairs a.q a.H)).remOf h = (dec a.q h).2 := rfl
      rw [e1, e2] at ht
      by_cases hm : h ∈ a.H
      · rw [hB2 a.q auto _ _ hC ((mem_pairs a.q h a.H).2 hm)] at ht
        cases ht
        refine ⟨hI.q3, hI.q31, sorted_erase hI.sorted h, ?_, ?_, ?_⟩
        · intro x hx; exact hI.range x (List.mem_of_mem_erase hx)
        · have := hI.room
          have := length_erase_of_mem hm
          simp only [absStep, eraseN]; omega
        · simp only [absStep, eraseN, pairs_erase]
      · obtain ⟨o, ho, hiff⟩ := hA1 a.q auto _ (dec a.q h) hC hR
        cases o with
        | some idx => exact absurd ((mem_pairs a.q h a.H).1 (hiff.1 rfl)) hm
        | none =>
            rw [C04_remove_absent _ _ _ ho] at ht
            cases ht
            have : eraseN h a.H = a.H := List.erase_of_not_mem hm
            simp only [absStep, this]
            exact hI

private theorem run_inv (hA1 : A1_contained) (hA2 : A2_hashes) (hB1 : B1_add) (hB2 : B2_remove)
    (auto : Bool) (b : Nat) (ops : List Op) (s : QF) (a : Abs) (t : QF) (hI : Inv auto s a)
    (hr : ∀ op ∈ ops, op.InRange) (ht : run b s ops = .ok t) : Inv auto t (absRun auto a ops) := by
  induction ops generalizing s a with
  | nil => simp only [run] at ht; cases ht; exact hI
  | cons op ops ih =>
      simp only [run] at ht
      cases hs : step b s op with
      | error e => rw [hs] at ht; cases ht
      | ok s' =>
          rw [hs] at ht
          have hI' := step_inv hA1 hA2 hB1 hB2 auto b s a op s' hI (hr op (by simp)) hs
          simp only [absRun, List.foldl_cons]
          exact ih s' _ hI' (fun o ho => hr o (List.mem_cons_of_mem _ ho)) ht

/-- what the refinement invariant says about the observers -/
private theorem inv_observe (hA1 : A1_contained) (hA2 : A2_hashes) {auto : Bool} {s : QF} {a : Abs}
    (hI : Inv auto s a) :
    (∀ h, h < 2 ^ 32 → checkAlt s h = .ok (decide (h ∈ a.H))) ∧
    (∃ l, getHashes s = .ok l ∧ l.Perm a.H) ∧
    s.count = (a.H.length : Nat) ∧ s.size = 2 ^ a.q := by
  have hC := inv_canon hI
  have hq32 : a.q ≤ 32 := by have := hI.q31; omega
  refine ⟨?_, ?_, ?_, ?_⟩
  · intro h hh
    obtain ⟨o, ho, hiff⟩ := hA1 a.q auto _ (dec a.q h) hC (dec_inRange a.q h hq32 hh)
    rw [hI.eq]
    have e1 : (layout a.q auto (pairs a.q a.H)).quotOf h = (dec a.q h).1 := rfl
    have e2 : (layout a.q auto (pairs a.q a.H)).remOf h = (dec a.q h).2 := rfl
    simp only [checkAlt, e1, e2, ho]
    congr 1
    rw [mem_pairs] at hiff
    by_cases hm : h ∈ a.H
    · simp [hm, hiff.2 hm]
    · have : o.isSome = false := by
        cases ho' : o.isSome
        · rfl
        · exact absurd (hiff.1 ho') hm
      simp [hm, this]
  · obtain ⟨l, hl, hp⟩ := hA2 a.q auto _ hC
    rw [map_enc_pairs] at hp
    rw [hI.eq]; exact ⟨l, hl, hp⟩
  · rw [hI.eq]; simp [pairs]
  · rw [hI.eq]; rfl

/-- **C04, Layer C given Layers A and B.**  If look-up, iteration, insertion and removal refine the
    canonical layout, then after any history of `add | remove | resize | merge` calls (with or
    without auto-resize, any budget `b` of the model) from `QuotientFilter(q, auto)` in which no
    call raised: the complete state is the canonical table of the set of the history,
    `check_alt` is membership in that set, `get_hashes` lists exactly that set without duplicates,
    and `elements_added` is its size. -/
theorem C04_partial (hA1 : A1_contained) (hA2 : A2_hashes) (hB1 : B1_add) (hB2 : B2_remove)
    (q : Int) (auto : Bool) (b : Nat) (ops : List Op) (hops : ∀ op ∈ ops, op.InRange)
    (s0 s : QF) (hnew : QF.new q auto = .ok s0) (hrun : run b s0 ops = .ok s) :
    let a := absRun auto ⟨q.toNat, []⟩ ops
    s = layout a.q auto (pairs a.q a.H) ∧
    (∀ h, h < 2 ^ 32 → checkAlt s h = .ok (decide (h ∈ a.H))) ∧
    (∃ l, getHashes s = .ok l ∧ l.Perm a.H ∧ l.Nodup) ∧
    s.count = (a.H.length : Nat) ∧ s.size = 2 ^ a.q ∧
    SortedN a.H ∧ 3 ≤ a.q ∧ a.q ≤ 31 ∧ a.H.length < 2 ^ a.q := by
  intro a
  rw [C04_new] at hnew
  split at hnew
  · rename_i hq
    cases hnew
    have hI0 : Inv auto (layout q.toNat auto []) ⟨q.toNat, []⟩ := by
      rw [layout_nil]; exact inv_empty auto _ (by omega) (by omega)
    have hI := run_inv hA1 hA2 hB1 hB2 auto b ops _ _ s hI0 hops hrun
    obtain ⟨h1, ⟨l, hl, hp⟩, h3, h4⟩ := inv_observe hA1 hA2 hI
    exact ⟨hI.eq, h1, ⟨l, hl, hp, hp.nodup_iff.2 (sorted_nodup ltN_total hI.sorted)⟩, h3, h4,
      hI.sorted, hI.q3, hI.q31, hI.room⟩
  · cases hnew

/-- a history ends in `.ok` only if every one of its calls returned: no call raised and no loop of
    the model ran out of fuel -/
theorem C04_run_prefix (b : Nat) (s0 s : QF) (ops₁ : List Op) (op : Op) (ops₂ : List Op)
    (h : run b s0 (ops₁ ++ op :: ops₂) = .ok s) :
    ∃ s1 s2, run b s0 ops₁ = .ok s1 ∧ step b s1 op = .ok s2 ∧ run b s2 ops₂ = .ok s := by
  induction ops₁ generalizing s0 with
  | nil =>
      simp only [List.nil_append, run] at h ⊢
      cases hs : step b s0 op with
      | error e => rw [hs] at h; cases h
      | ok s2 => rw [hs] at h; exact ⟨s0, s2, rfl, hs, h⟩
  | cons o os ih =>
      simp only [List.cons_append, run] at h ⊢
      cases hs : step b s0 o with
      | error e => rw [hs] at h; cases h
      | ok s' => rw [hs] at h; exact ih s' h

/-- the refinement invariant holds after every history in which no call raised -/
theorem C04_partial_inv (hA1 : A1_contained) (hA2 : A2_hashes) (hB1 : B1_add) (hB2 : B2_remove)
    (q : Int) (auto : Bool) (b : Nat) (ops : List Op) (hops : ∀ op ∈ ops, op.InRange)
    (s0 s : QF) (hnew : QF.new q auto = .ok s0) (hrun : run b s0 ops = .ok s) :
    Inv auto s (absRun auto ⟨q.toNat, []⟩ ops) := by
  rw [C04_new] at hnew
  split at hnew
  · rename_i hq
    cases hnew
    have hI0 : Inv auto (layout q.toNat auto []) ⟨q.toNat, []⟩ := by
      rw [layout_nil]; exact inv_empty auto _ (by omega) (by omega)
    exact run_inv hA1 hA2 hB1 hB2 auto b ops _ _ s hI0 hops hrun
  · cases hnew

/-- under the refinement hypotheses `remove` never raises and never diverges, in any state the
    filter can reach -/
theorem C04_partial_remove_total (hA1 : A1_contained) (hA2 : A2_hashes) (hB1 : B1_add)
    (hB2 : B2_remove) (q : Int) (auto : Bool) (b : Nat) (ops : List Op)
    (hops : ∀ op ∈ ops, op.InRange) (s0 s : QF) (hnew : QF.new q auto = .ok s0)
    (hrun : run b s0 ops = .ok s) (h : Nat) (hh : h < 2 ^ 32) :
    ∃ t, step b s (.remove h) = .ok t := by
  have hI := C04_partial_inv hA1 hA2 hB1 hB2 q auto b ops hops s0 s hnew hrun
  generalize absRun auto ⟨q.toNat, []⟩ ops = a at hI
  have hC := inv_canon hI
  have hq32 : a.q ≤ 32 := by have := hI.q31; omega
  have hR := dec_inRange a.q h hq32 hh
  simp only [step, removeAlt]
  rw [hI.eq]
  have e1 : (layout a.q auto (pairs a.q a.H)).quotOf h = (dec a.q h).1 := rfl
  have e2 : (layout a.q auto (pairs a.q a.H)).remOf h = (dec a.q h).2 := rfl
  rw [e1, e2]
  by_cases hm : h ∈ a.H
  · exact ⟨_, hB2 a.q auto _ _ hC ((mem_pairs a.q h a.H).2 hm)⟩
  · obtain ⟨o, ho, hiff⟩ := hA1 a.q auto _ (dec a.q h) hC hR
    cases o with
    | some idx => exact absurd ((mem_pairs a.q h a.H).1 (hiff.1 rfl)) hm
    | none => exact ⟨_, C04_remove_absent _ _ _ ho⟩

/-- under the refinement hypotheses `add` without auto-resize never diverges, in any state the
    filter can reach: it is refused with `QuotientFilterError` exactly when the hash is new and
    only one empty slot is left, and succeeds otherwise -/
theorem C04_partial_add_outcome (hA1 : A1_contained) (hA2 : A2_hashes) (hB1 : B1_add)
    (hB2 : B2_remove) (q : Int) (b : Nat) (ops : List Op)
    (hops : ∀ op ∈ ops, op.InRange) (s0 s : QF) (hnew : QF.new q false = .ok s0)
    (hrun : run (b + 1) s0 ops = .ok s) (h : Nat) (hh : h < 2 ^ 32) :
    let a := absRun false ⟨q.toNat, []⟩ ops
    if h ∉ a.H ∧ a.H.length + 1 ≥ 2 ^ a.q then step (b + 1) s (.add h) = .error .qfError
    else ∃ t, step (b + 1) s (.add h) = .ok t := by
  intro a
  have hI : Inv false s a := C04_partial_inv hA1 hA2 hB1 hB2 q false (b + 1) ops hops s0 s hnew hrun
  clear_value a
  have hC := inv_canon hI
  have hq32 : a.q ≤ 32 := by have := hI.q31; omega
  have hR := dec_inRange a.q h hq32 hh
  obtain ⟨o, ho, hiff⟩ := hA1 a.q false _ (dec a.q h) hC hR
  rw [mem_pairs] at hiff
  simp only [step]
  rw [addAlt_noresize _ _ _ (by rw [hI.eq]; rfl), hI.eq]
  have e1 : (layout a.q false (pairs a.q a.H)).quotOf h = (dec a.q h).1 := rfl
  have e2 : (layout a.q false (pairs a.q a.H)).remOf h = (dec a.q h).2 := rfl
  simp only [addTail, e1, e2, ho]
  cases o with
  | some idx =>
      have hm : h ∈ a.H := hiff.1 rfl
      rw [if_neg (by simp [hm])]
      exact ⟨_, rfl⟩
  | none =>
      have hnm : h ∉ a.H := by
        intro hm; have := hiff.2 hm; simp at this
      simp only
      by_cases hfull : a.H.length + 1 ≥ 2 ^ a.q
      · rw [if_pos ⟨hnm, hfull⟩]
        apply (C04_add_refused_iff _ _ _).2
        simp only [layout_count, layout_size, pairs, List.length_map]
        omega
      · rw [if_neg (by simp [hfull])]
        refine ⟨_, hB1 a.q false _ _ hC hR ?_ ?_⟩
        · simp only [pairs, List.length_map]; omega
        · intro hm; exact hnm ((mem_pairs a.q h a.H).1 hm)

/-! ### Layer A proper: the read paths, for every table size, unconditionally -/

/-- **Layer A1 proved**: on the canonical table of any canonical set (any 3 ≤ q ≤ 31, any number of
    elements below `2^q`, any cluster shape, with wrap-around) `_contained_at_loc` terminates within
    its fuel and returns an index exactly for the stored elements -/
theorem C04_contained : A1_contained := by
  intro q auto S x hC hx
  obtain ⟨h3, _, hS, hr, hl⟩ := hC
  exact contained_layout q (by omega) auto S hS (fun y hy => (hr y hy).1) hl x hx.1

/-- **Layer A2 proved**: on the canonical table of any canonical set `get_hashes` terminates and
    returns a permutation of the hashes of the set -/
theorem C04_hashes : A2_hashes := by
  intro q auto S hC
  obtain ⟨h3, _, hS, hr, hl⟩ := hC
  exact hashes_layout q (by omega) auto S hS (fun y hy => (hr y hy).1) hl

/-- look-up on a canonical table is exact: no false negatives and no false positives among
    32-bit hashes (unconditional) -/
theorem C04_check_layout (q : Nat) (h3 : 3 ≤ q) (h31 : q ≤ 31) (auto : Bool) (H : List Nat)
    (hs : SortedN H) (hr : ∀ h ∈ H, h < 2 ^ 32) (hl : H.length < 2 ^ q) (h : Nat) (hh : h < 2 ^ 32) :
    checkAlt (layout q auto (pairs q H)) h = .ok (decide (h ∈ H)) :=
  (inv_observe C04_contained C04_hashes (a := ⟨q, H⟩) ⟨h3, h31, hs, hr, hl, rfl⟩).1 h hh

/-- every canonical set has a slot that stays empty and its placement ends in front of it -/
theorem C04_layout_fits (q : Nat) (S : List Elem) (hC : Canon q S) : Fits (2 ^ q) S :=
  canon_fits (2 ^ q) S hC.2.2.1 (fun y hy => (hC.2.2.2.1 y hy).1) hC.2.2.2.2

/-- the full statement of C04 for the model (no hypotheses) -/
def C04_full_statement : Prop :=
  ∀ (q : Int) (auto : Bool) (b : Nat) (ops : List Op), (∀ op ∈ ops, op.InRange) →
    ∀ (s0 s : QF), QF.new q auto = .ok s0 → run b s0 ops = .ok s →
    let a := absRun auto ⟨q.toNat, []⟩ ops
    s = layout a.q auto (pairs a.q a.H) ∧
    (∀ h, h < 2 ^ 32 → checkAlt s h = .ok (decide (h ∈ a.H))) ∧
    (∃ l, getHashes s = .ok l ∧ l.Perm a.H ∧ l.Nodup) ∧
    s.count = (a.H.length : Nat) ∧ s.size = 2 ^ a.q ∧
    SortedN a.H ∧ 3 ≤ a.q ∧ a.q ≤ 31 ∧ a.H.length < 2 ^ a.q

/-- **C04 given Layer B only**: with the read paths proved, the full statement follows from the
    two write-path refinement hypotheses `B1_add` and `B2_remove` alone -/
theorem C04_partial_B (hB1 : B1_add) (hB2 : B2_remove) : C04_full_statement :=
  fun q auto b ops hops s0 s hnew hrun =>
    C04_partial C04_contained C04_hashes hB1 hB2 q auto b ops hops s0 s hnew hrun

/-- `remove` is total on every reachable state — given Layer B only -/
theorem C04_partial_remove_total_B (hB1 : B1_add) (hB2 : B2_remove) (q : Int) (auto : Bool) (b : Nat)
    (ops : List Op) (hops : ∀ op ∈ ops, op.InRange) (s0 s : QF) (hnew : QF.new q auto = .ok s0)
    (hrun : run b s0 ops = .ok s) (h : Nat) (hh : h < 2 ^ 32) :
    ∃ t, step b s (.remove h) = .ok t :=
  C04_partial_remove_total C04_contained C04_hashes hB1 hB2 q auto b ops hops s0 s hnew hrun h hh

/-- the outcome of `add` without auto-resize on every reachable state — given Layer B only -/
theorem C04_partial_add_outcome_B (hB1 : B1_add) (hB2 : B2_remove) (q : Int) (b : Nat)
    (ops : List Op) (hops : ∀ op ∈ ops, op.InRange) (s0 s : QF) (hnew : QF.new q false = .ok s0)
    (hrun : run (b + 1) s0 ops = .ok s) (h : Nat) (hh : h < 2 ^ 32) :
    let a := absRun false ⟨q.toNat, []⟩ ops
    if h ∉ a.H ∧ a.H.length + 1 ≥ 2 ^ a.q then step (b + 1) s (.add h) = .error .qfError
    else ∃ t, step (b + 1) s (.add h) = .ok t :=
  C04_partial_add_outcome C04_contained C04_hashes hB1 hB2 q b ops hops s0 s hnew hrun h hh

/-! ### Layer B proved: the exact-set theorem is unconditional -/

/-- **Layer B1** (all table sizes, all canonical sets): `_add` maps the canonical table of `S` to the
    canonical table of `S ∪ {x}` — proved in `Lemmas/QFWriteAdd*.lean` -/
theorem C04_B1_add : B1_add :=
  fun q auto S x hc hx hroom hnew => QF.add_layout q auto S x hc hx hroom hnew

/-- **Layer B2**: `_remove_element` maps the canonical table of `S` to that of `S ∖ {x}` (the metadata
    repair pass does restore canonical form) — proved in `Lemmas/QFWriteRemove*.lean` -/
theorem C04_B2_remove : B2_remove :=
  fun q auto S x hc hx => QF.remove_layout q auto S x hc hx

/-- **C04, unconditional**: for every quotient size 3..31, auto-expand on or off, and every history
    of add / remove / resize (manual or automatic) / merge on 32-bit hashes in which no call raised:
    the table is the canonical table of the set of hashes added and not removed since, `check` is
    exact membership, `get_hashes` is that set without duplicates, and `elements_added` is its size -/
theorem C04_exact_set : C04_full_statement := C04_partial_B C04_B1_add C04_B2_remove

/-- `remove` never raises and never diverges on a reachable state -/
theorem C04_remove_total (q : Int) (auto : Bool) (b : Nat)
    (ops : List Op) (hops : ∀ op ∈ ops, op.InRange) (s0 s : QF) (hnew : QF.new q auto = .ok s0)
    (hrun : run b s0 ops = .ok s) (h : Nat) (hh : h < 2 ^ 32) :
    ∃ t, step b s (.remove h) = .ok t :=
  C04_partial_remove_total_B C04_B1_add C04_B2_remove q auto b ops hops s0 s hnew hrun h hh

/-- without auto-resize `add` is refused (QuotientFilterError) exactly for a new hash into a table
    holding `size − 1` hashes, and otherwise returns normally — it never diverges -/
theorem C04_add_outcome (q : Int) (b : Nat)
    (ops : List Op) (hops : ∀ op ∈ ops, op.InRange) (s0 s : QF) (hnew : QF.new q false = .ok s0)
    (hrun : run (b + 1) s0 ops = .ok s) (h : Nat) (hh : h < 2 ^ 32) :
    let a := absRun false ⟨q.toNat, []⟩ ops
    if h ∉ a.H ∧ a.H.length + 1 ≥ 2 ^ a.q then step (b + 1) s (.add h) = .error .qfError
    else ∃ t, step (b + 1) s (.add h) = .ok t :=
  C04_partial_add_outcome_B C04_B1_add C04_B2_remove q b ops hops s0 s hnew hrun h hh

/-! ### an unconditional instance: unbounded histories over a bounded universe

The hypotheses of `C04_partial` hold on all canonical tables of the 8-slot filter over the
universes `QFBounded.UA` (7 elements, 128 sets) and `QFBounded.UB` (6 elements, 64 sets) — checked
by kernel evaluation of the model; therefore every history of `add`/`remove` calls over such a
universe, of any length, is an exact set. -/

/-- the (decidable) facts about a universe `U` of elements of the 8-slot table that the exhaustive
    evaluation establishes -/
structure UniverseOK (U : List Elem) : Prop where
  contained : QFBounded.checkContained U = true
  hashes : QFBounded.checkHashes U = true
  add : QFBounded.checkAdd U = true
  remove : QFBounded.checkRemove U = true
  closed : QFBounded.checkClosed U = true
  small : ∀ y ∈ U, y.2 < 8
  nil : [] ∈ QFBounded.subsets U

theorem UniverseOK_UA : UniverseOK QFBounded.UA :=
  ⟨QFBounded.checkContained_UA, QFBounded.checkHashes_UA, QFBounded.checkAdd_UA,
    QFBounded.checkRemove_UA, QFBounded.checkClosed_UA, by decide, by decide⟩

theorem UniverseOK_UB : UniverseOK QFBounded.UB :=
  ⟨QFBounded.checkContained_UB, QFBounded.checkHashes_UB, QFBounded.checkAdd_UB,
    QFBounded.checkRemove_UB, QFBounded.checkClosed_UB, by decide, by decide⟩

open QFBounded in
private structure JB (U : List Elem) (s : QF) (a : Abs) : Prop where
  q : a.q = 3
  sub : pairs 3 a.H ∈ subsets U
  len : a.H.length < 8
  sorted : SortedN a.H
  eq : s = layout 3 false (pairs 3 a.H)

open QFBounded in
private theorem UA_dec_enc {U : List Elem} (hU : UniverseOK U) : ∀ x ∈ U, dec 3 (enc 3 x) = x := by
  intro x hx
  apply dec_enc
  have := hU.small x hx
  have : (8 : Nat) ≤ 2 ^ (32 - 3) := by decide
  omega

open QFBounded in
private theorem jb_step {U : List Elem} (hU : UniverseOK U) (b : Nat) (s : QF) (a : Abs) (x : Elem)
    (hx : x ∈ U) (hJ : JB U s a) :
    (∀ t, step (b + 1) s (.add (enc 3 x)) = .ok t → JB U t (absStep false a (.add (enc 3 x)))) ∧
    (∀ t, step (b + 1) s (.remove (enc 3 x)) = .ok t → JB U t (absStep false a (.remove (enc 3 x)))) := by
  have hde := UA_dec_enc hU x hx
  have hlen : (pairs 3 a.H).length < 8 := by simp only [pairs, List.length_map]; exact hJ.len
  obtain ⟨hins, hers⟩ := closed_sub hU.closed hJ.sub hlen hx
  have hs := hJ.eq
  have e1 : (layout 3 false (pairs 3 a.H)).quotOf (enc 3 x) = x.1 := by
    show (dec 3 (enc 3 x)).1 = x.1
    rw [hde]
  have e2 : (layout 3 false (pairs 3 a.H)).remOf (enc 3 x) = x.2 := by
    show (dec 3 (enc 3 x)).2 = x.2
    rw [hde]
  have hmem : x ∈ pairs 3 a.H ↔ enc 3 x ∈ a.H := by
    have := mem_pairs 3 (enc 3 x) a.H
    rwa [hde] at this
  constructor
  · intro t ht
    simp only [step] at ht
    rw [addAlt_noresize _ _ _ (by rw [hs]; rfl), hs] at ht
    simp only [addTail, e1, e2] at ht
    have hc := all_sub hU.contained hJ.sub hlen hx
    simp only [containedOk] at hc
    cases hcl : containedAtLoc (layout 3 false (pairs 3 a.H)) x.1 x.2 with
    | error e => rw [hcl] at hc; cases hc
    | ok o =>
        rw [hcl] at hc ht
        simp only [beq_iff_eq] at hc
        cases o with
        | some idx =>
            simp only [Option.isSome_some] at hc
            have hm : enc 3 x ∈ a.H := hmem.1 (List.contains_iff_mem.1 hc.symm)
            cases ht
            have : insertN (enc 3 x) a.H = a.H := insertBy_of_mem ltN_total _ _ hJ.sorted hm
            simp only [absStep, absAdd, Bool.false_and, Bool.false_eq_true, if_false, this]
            exact ⟨hJ.q, hJ.sub, hJ.len, hJ.sorted, rfl⟩
        | none =>
            simp only [Option.isSome_none] at hc
            have hnc : (pairs 3 a.H).contains x = false := hc.symm
            have hnm : enc 3 x ∉ a.H := by
              intro hm
              have := List.contains_iff_mem.2 (hmem.2 hm)
              rw [hnc] at this; cases this
            simp only at ht
            have ha := all_sub hU.add hJ.sub hlen hx
            simp only [addOk, hnc, Bool.false_or, Bool.or_eq_true, decide_eq_true_eq, okEq_iff] at ha
            have hl1 : (insertN (enc 3 x) a.H).length = a.H.length + 1 :=
              length_insertBy_of_not_mem _ _ hnm
            rcases ha with ha | ha
            · -- the table is full: `_add` refuses
              have : (layout 3 false (pairs 3 a.H)).count ≥
                  ((layout 3 false (pairs 3 a.H)).size : Int) - 1 := by
                simp only [layout_count, layout_size]
                omega
              rw [(C04_add_refused_iff _ _ _).2 this] at ht
              cases ht
            · rw [ha] at ht
              cases ht
              have hp : pairs 3 (insertN (enc 3 x) a.H) = insert x (pairs 3 a.H) := by
                rw [pairs_insertN, hde]
              have hlt : a.H.length + 1 < 8 := by
                by_cases h8 : a.H.length + 1 < 8
                · exact h8
                · exfalso
                  have : (layout 3 false (pairs 3 a.H)).count ≥
                      ((layout 3 false (pairs 3 a.H)).size : Int) - 1 := by
                    simp only [layout_count, layout_size, pairs, List.length_map]
                    omega
                  rw [(C04_add_refused_iff _ _ _).2 this] at ha
                  cases ha
              simp only [absStep, absAdd, Bool.false_and, Bool.false_eq_true, if_false]
              refine ⟨hJ.q, ?_, ?_, sorted_insertBy ltN_total _ _ hJ.sorted, ?_⟩
              · show pairs 3 (insertN (enc 3 x) a.H) ∈ subsets U
                rw [hp]; exact hins
              · show (insertN (enc 3 x) a.H).length < 8
                rw [hl1]; exact hlt
              · show layout 3 false (insert x (pairs 3 a.H)) = layout 3 false (pairs 3 (insertN (enc 3 x) a.H))
                rw [hp]
  · intro t ht
    simp only [step, removeAlt] at ht
    rw [hs, e1, e2] at ht
    have hr := all_sub hU.remove hJ.sub hlen hx
    simp only [removeOk, okEq_iff] at hr
    rw [hr] at ht
    cases ht
    have hp : pairs 3 (eraseN (enc 3 x) a.H) = erase x (pairs 3 a.H) := by
      simp only [eraseN]; rw [pairs_erase, hde]
    simp only [absStep]
    refine ⟨hJ.q, ?_, ?_, sorted_erase hJ.sorted _, ?_⟩
    · show pairs 3 (eraseN (enc 3 x) a.H) ∈ subsets U
      rw [hp]; exact hers
    · show (eraseN (enc 3 x) a.H).length < 8
      have := List.length_erase_le (a := enc 3 x) (l := a.H)
      simp only [eraseN]; have := hJ.len; omega
    · show layout 3 false (erase x (pairs 3 a.H)) = layout 3 false (pairs 3 (eraseN (enc 3 x) a.H))
      rw [hp]

open QFBounded in
/-- **C04 on an 8-slot table over a checked universe, without refinement hypotheses**: histories
    of any length of `add`/`remove` calls with hashes from `U` in which no call raised.  The four
    refinement facts on the subsets of `U` are the decidable hypothesis `UniverseOK U`; the
    induction over the history is a proof. -/
theorem C04_exact_set_universe (U : List Elem) (hU : UniverseOK U) (b : Nat) (ops : List Op)
    (hops : ∀ op ∈ ops, ∃ x ∈ U, op = .add (enc 3 x) ∨ op = .remove (enc 3 x))
    (s : QF) (hrun : run (b + 1) (QF.empty 3 false) ops = .ok s) :
    let a := absRun false ⟨3, []⟩ ops
    s = layout 3 false (pairs 3 a.H) ∧
    (∀ x ∈ U, checkAlt s (enc 3 x) = .ok (decide (enc 3 x ∈ a.H))) ∧
    (∃ l, getHashes s = .ok l ∧ l.Perm a.H) ∧
    s.count = (a.H.length : Nat) ∧ a.q = 3 := by
  intro a
  have hJ0 : JB U (QF.empty 3 false) ⟨3, []⟩ :=
    ⟨rfl, hU.nil, by decide, by simp [SortedBy], by simp [pairs, layout_nil]⟩
  have key : ∀ (ops : List Op) (s0 : QF) (a0 : Abs), JB U s0 a0 →
      (∀ op ∈ ops, ∃ x ∈ U, op = .add (enc 3 x) ∨ op = .remove (enc 3 x)) →
      run (b + 1) s0 ops = .ok s → JB U s (absRun false a0 ops) := by
    intro ops
    induction ops with
    | nil => intro s0 a0 hJ _ hr; simp only [run] at hr; cases hr; exact hJ
    | cons op ops ih =>
        intro s0 a0 hJ ho hr
        simp only [run] at hr
        obtain ⟨x, hx, hop⟩ := ho op (by simp)
        cases hst : step (b + 1) s0 op with
        | error e => rw [hst] at hr; cases hr
        | ok s1 =>
            rw [hst] at hr
            have hJ1 : JB U s1 (absStep false a0 op) := by
              rcases hop with e | e
              · subst e; exact (jb_step hU b s0 a0 x hx hJ).1 s1 hst
              · subst e; exact (jb_step hU b s0 a0 x hx hJ).2 s1 hst
            simp only [absRun, List.foldl_cons]
            exact ih s1 _ hJ1 (fun o hoo => ho o (List.mem_cons_of_mem _ hoo)) hr
  have hJ : JB U s a := key ops _ _ hJ0 hops hrun
  clear_value a
  have hlen : (pairs 3 a.H).length < 8 := by simp only [pairs, List.length_map]; exact hJ.len
  refine ⟨hJ.eq, ?_, ?_, ?_, hJ.q⟩
  · intro x hx
    have hde := UA_dec_enc hU x hx
    have hc := all_sub hU.contained hJ.sub hlen hx
    simp only [containedOk] at hc
    rw [hJ.eq]
    have e1 : (layout 3 false (pairs 3 a.H)).quotOf (enc 3 x) = x.1 := by
      show (dec 3 (enc 3 x)).1 = x.1
      rw [hde]
    have e2 : (layout 3 false (pairs 3 a.H)).remOf (enc 3 x) = x.2 := by
      show (dec 3 (enc 3 x)).2 = x.2
      rw [hde]
    simp only [checkAlt, e1, e2]
    cases hcl : containedAtLoc (layout 3 false (pairs 3 a.H)) x.1 x.2 with
    | error e => rw [hcl] at hc; cases hc
    | ok o =>
        rw [hcl] at hc
        simp only [beq_iff_eq] at hc
        simp only [hc]
        congr 1
        have := mem_pairs 3 (enc 3 x) a.H
        rw [hde] at this
        by_cases hm : enc 3 x ∈ a.H
        · simp [hm, this.2 hm]
        · have h2 : x ∉ pairs 3 a.H := fun h => hm (this.1 h)
          simp [hm, h2]
  · have hh : hashesOk (pairs 3 a.H) = true := by
      have := hU.hashes
      unfold checkHashes at this
      rw [List.all_eq_true] at this
      have := this _ hJ.sub
      rw [Bool.or_eq_true, decide_eq_true_eq] at this
      rcases this with h | h
      · omega
      · exact h
    simp only [hashesOk] at hh
    rw [hJ.eq]
    cases hg : getHashes (layout 3 false (pairs 3 a.H)) with
    | error e => rw [hg] at hh; cases hh
    | ok l =>
        rw [hg] at hh
        simp only [List.isPerm_iff, map_enc_pairs] at hh
        exact ⟨l, rfl, hh⟩
  · rw [hJ.eq]; simp [pairs]

open QFBounded in
/-- **C04 on an 8-slot table over the 7-element universe `UA`, unconditionally** (runs of up to
    three elements, a run wrapping round the end of the table, the table filled up to its last
    free slot): every history of `add`/`remove` calls of any length in which no call raised -/
theorem C04_exact_set_bounded (b : Nat) (ops : List Op)
    (hops : ∀ op ∈ ops, ∃ x ∈ UA, op = .add (enc 3 x) ∨ op = .remove (enc 3 x))
    (s : QF) (hrun : run (b + 1) (QF.empty 3 false) ops = .ok s) :
    let a := absRun false ⟨3, []⟩ ops
    s = layout 3 false (pairs 3 a.H) ∧
    (∀ x ∈ UA, checkAlt s (enc 3 x) = .ok (decide (enc 3 x ∈ a.H))) ∧
    (∃ l, getHashes s = .ok l ∧ l.Perm a.H) ∧
    s.count = (a.H.length : Nat) ∧ a.q = 3 :=
  C04_exact_set_universe UA UniverseOK_UA b ops hops s hrun

open QFBounded in
/-- … and over the 6-element universe `UB` (adjacent runs in the middle of the table) -/
theorem C04_exact_set_bounded_B (b : Nat) (ops : List Op)
    (hops : ∀ op ∈ ops, ∃ x ∈ UB, op = .add (enc 3 x) ∨ op = .remove (enc 3 x))
    (s : QF) (hrun : run (b + 1) (QF.empty 3 false) ops = .ok s) :
    let a := absRun false ⟨3, []⟩ ops
    s = layout 3 false (pairs 3 a.H) ∧
    (∀ x ∈ UB, checkAlt s (enc 3 x) = .ok (decide (enc 3 x ∈ a.H))) ∧
    (∃ l, getHashes s = .ok l ∧ l.Perm a.H) ∧
    s.count = (a.H.length : Nat) ∧ a.q = 3 :=
  C04_exact_set_universe UB UniverseOK_UB b ops hops s hrun

/-! ### non-vacuity, and the bounded checks (TESTS by kernel evaluation, not proofs) -/

section examples
open QFBounded

/-- a canonical set whose canonical table wraps round the end of the table: the run of quotient 7
    occupies slots 7, 0, 1 and pushes the element of quotient 0 to slot 2; slot 3 is the first
    empty one -/
example : Canon 3 [(0, 1), (6, 0), (7, 0), (7, 2), (7, 5)] := by decide

example : layout 3 false [(0, 1), (6, 0), (7, 0), (7, 2), (7, 5)] =
    ⟨3, [2, 5, 1, 0, 0, 0, 0, 0],
        [true, false, false, false, false, false, true, true],
        [true, true, false, false, false, false, false, false],
        [true, true, true, false, false, false, false, false], 5, false⟩ := by decide +kernel

example : emptySlot 8 [(0, 1), (6, 0), (7, 0), (7, 2), (7, 5)] = 3 := by decide +kernel
example : Fits 8 [(0, 1), (6, 0), (7, 0), (7, 2), (7, 5)] := C04_layout_fits 3 _ (by decide)

/-- the (proved) read-path theorems applied to that table -/
example : ∃ o, containedAtLoc (layout 3 false [(0, 1), (6, 0), (7, 0), (7, 2), (7, 5)]) 7 2 = .ok o ∧
    (o.isSome = true ↔ ((7, 2) : Elem) ∈ [(0, 1), (6, 0), (7, 0), (7, 2), (7, 5)]) :=
  C04_contained 3 false _ (7, 2) (by decide) (by decide)

/-- instances of the two hypotheses that are NOT proved in general (TESTS): inserting into the
    middle of the wrapping run, and removing its first element -/
example : addQR (layout 3 false [(0, 1), (6, 0), (7, 0), (7, 5)]) 7 2 =
    .ok (layout 3 false (insert (7, 2) [(0, 1), (6, 0), (7, 0), (7, 5)])) :=
  (okEq_iff _ _).1 (by decide +kernel)

example : removeQR (layout 3 false [(0, 1), (6, 0), (7, 0), (7, 2), (7, 5)]) 7 0 =
    .ok (layout 3 false (erase (7, 0) [(0, 1), (6, 0), (7, 0), (7, 2), (7, 5)])) :=
  (okEq_iff _ _).1 (by decide +kernel)

/-- TEST: the four refinement facts on ALL canonical tables of the 8-slot filter whose elements
    come from `UA` (128 sets, up to the full table of 7 elements) and from `UB` (64 sets): every
    element of the universe is looked up in, inserted into and removed from every set -/
example : checkContained UA = true ∧ checkHashes UA = true ∧ checkAdd UA = true ∧ checkRemove UA = true :=
  ⟨checkContained_UA, checkHashes_UA, checkAdd_UA, checkRemove_UA⟩
example : checkContained UB = true ∧ checkHashes UB = true ∧ checkAdd UB = true ∧ checkRemove UB = true ∧
    checkAddAlt UB = true :=
  ⟨checkContained_UB, checkHashes_UB, checkAdd_UB, checkRemove_UB, checkAddAlt_UB⟩

/-- a concrete history satisfying the hypotheses of `C04_exact_set_bounded` (and of `C04_partial`):
    it did not raise, and ends in the canonical table of the set `{(7,0), (7,2)}` -/
example : run 1 (QF.empty 3 false)
    [.add (enc 3 (0, 1)), .add (enc 3 (7, 2)), .add (enc 3 (7, 0)), .remove (enc 3 (0, 1))] =
    .ok (layout 3 false [(7, 0), (7, 2)]) :=
  (okEq_iff _ _).1 (by decide +kernel)

example : setOf false 3 [.add (enc 3 (0, 1)), .add (enc 3 (7, 2)), .add (enc 3 (7, 0)), .remove (enc 3 (0, 1))] =
    [enc 3 (7, 0), enc 3 (7, 2)] := by decide +kernel

example : ∀ op ∈ [Op.add (enc 3 (0, 1)), .add (enc 3 (7, 2)), .add (enc 3 (7, 0)), .remove (enc 3 (0, 1))],
    op.InRange := by
  intro op hop
  simp only [List.mem_cons, List.not_mem_nil, or_false] at hop
  rcases hop with rfl | rfl | rfl | rfl <;> simp only [Op.InRange] <;> decide

/-- the refusal: a full 8-slot table (7 elements) refuses an eighth element -/
example : addQR (layout 3 false UA) 3 0 = .error .qfError :=
  (C04_add_refused_iff _ _ _).2 (by decide)

end examples

end PyProb.C04
