/-
  C09 — the expanding Bloom filter grows exactly when its newest sub-filter is full.

  Proved here, for every `est ≥ 1`, every rate/geometry and every history (unbounded length):
  * histories are lists of `Op.add present hs force | Op.push` where the membership answer
    `present` is an ARBITRARY Boolean at every step (so the theorems do not depend on what the
    sub-filters answer; the real `add_alt`, which computes the answer with `check_alt`, is the
    special case `C09_api`).  Every `add` carries at least `k` hashes (`Op.ok`; with fewer the
    model reports the IndexError of the real code: `C09_short_add_raises`).
  * `C09_inv_new`, `C09_inv_run`: the invariant `Expanding.Inv` holds of `new` and is preserved;
    all theorems are stated from ANY state satisfying it (`…_from`), which is what a filter
    restored from an export needs (the round trip itself is C05), and from `new`.
  * `C09_bound`, `C09_nonempty`: every sub-filter count stays in `[0, est]`, the queue is never
    empty — also with `push` in the history.
  * `C09_shape`, `C09_expansions`, `C09_expansions_ceil`: without `push`, after `I` effective
    insertions the per-filter counts are `est, …, est, c` with `I = e·est + c`, `c ≤ est`,
    `c ≥ 1` once grown; `expansions = if I = 0 then 0 else (I-1)/est = ⌈I/est⌉ - 1` (truncated).
  * `C09_counted`: `elements_added` counts every `add`, effective or not.
  * `C09_grow_iff`, `C09_grow_only_when_full`, `C09_no_early_growth`: one `add` lengthens the
    queue by one iff it is effective and the newest sub-filter holds `est` insertions.
  * `C09_add_no_error`: under the invariant an `add` raises nothing.
  * `C09_reload`: the same from any state with the invariant and the shape (a restored filter).
  Not proved here: the export/load round trip itself (C05).
-/
import PyProb.Lemmas.ExpandingCore

namespace PyProb.C09
open PyProb Expanding

/-! ### histories -/

/-- one call; `present` is the answer of the membership test, chosen arbitrarily -/
inductive Op
  | add (present : Bool) (hs : List Nat) (force : Bool)
  | push
  deriving DecidableEq, Repr

/-- an `add` that really inserts: forced, or the key was reported absent -/
def Op.effective : Op → Bool
  | .add p _ f => f || !p
  | .push => false

def Op.isAdd : Op → Bool
  | .add .. => true
  | .push => false

/-- the hash list is long enough for a filter with `k` hashes -/
def Op.ok (k : Nat) : Op → Prop
  | .add _ hs _ => k ≤ hs.length
  | .push => True

instance (k : Nat) (op : Op) : Decidable (op.ok k) := by
  cases op <;> unfold Op.ok <;> infer_instance

def step (e : Expanding) : Op → Expanding
  | .add p hs f => (e.addCore p hs f).1
  | .push => e.push

def run (e : Expanding) (ops : List Op) : Expanding := ops.foldl step e

/-- `I`: number of effective insertions of a history -/
def effCount (ops : List Op) : Nat := ops.countP Op.effective
/-- number of `add` calls of a history -/
def addCount (ops : List Op) : Nat := ops.countP Op.isAdd

/-- the invariant, spelled out -/
theorem C09_inv_def (e : Expanding) :
    e.Inv ↔ (1 ≤ e.est ∧ e.blooms ≠ [] ∧
      ∀ b ∈ e.blooms, 0 ≤ b.count ∧ b.count ≤ e.est ∧ b.k = e.k) := Iff.rfl

/-! ### static fields -/

theorem step_static (e : Expanding) (op : Op) :
    (step e op).est = e.est ∧ (step e op).k = e.k ∧ (step e op).m = e.m ∧
    (step e op).fpr32 = e.fpr32 := by
  cases op with
  | add p hs f =>
      obtain ⟨a, b, c, d, -⟩ := addCore_static e p hs f
      exact ⟨a, c, d, b⟩
  | push => exact ⟨rfl, rfl, rfl, rfl⟩

theorem run_static (e : Expanding) (ops : List Op) :
    (run e ops).est = e.est ∧ (run e ops).k = e.k ∧ (run e ops).m = e.m ∧
    (run e ops).fpr32 = e.fpr32 := by
  induction ops generalizing e with
  | nil => exact ⟨rfl, rfl, rfl, rfl⟩
  | cons op ops ih =>
      obtain ⟨a, b, c, d⟩ := ih (step e op)
      obtain ⟨a', b', c', d'⟩ := step_static e op
      exact ⟨a.trans a', b.trans b', c.trans c', d.trans d'⟩

/-! ### the invariant -/

theorem C09_inv_new (est fpr32 k m : Nat) (h : 1 ≤ est) : (Expanding.new est fpr32 k m).Inv :=
  inv_new est fpr32 k m h

theorem C09_inv_step (e : Expanding) (op : Op) (hok : op.ok e.k) (hi : e.Inv) : (step e op).Inv := by
  cases op with
  | add p hs f => exact inv_addCore e p hs f hok hi
  | push => exact inv_push e hi

theorem C09_inv_run (e : Expanding) (ops : List Op) (hok : ∀ op ∈ ops, op.ok e.k) (hi : e.Inv) :
    (run e ops).Inv := by
  induction ops generalizing e with
  | nil => exact hi
  | cons op ops ih =>
      apply ih (step e op)
      · intro o ho; rw [(step_static e op).2.1]; exact hok o (by simp [ho])
      · exact C09_inv_step e op (hok op (by simp)) hi

/-- no sub-filter ever holds more than `est` insertions (from any invariant state, e.g. a reload) -/
theorem C09_bound_from (e : Expanding) (ops : List Op) (hok : ∀ op ∈ ops, op.ok e.k) (hi : e.Inv) :
    ∀ b ∈ (run e ops).blooms, 0 ≤ b.count ∧ b.count ≤ e.est := by
  intro b hb
  have h := (C09_inv_run e ops hok hi).2.2 b hb
  rw [(run_static e ops).1] at h
  exact ⟨h.1, h.2.1⟩

theorem C09_bound (est fpr32 k m : Nat) (h1 : 1 ≤ est) (ops : List Op) (hok : ∀ op ∈ ops, op.ok k) :
    ∀ b ∈ (run (Expanding.new est fpr32 k m) ops).blooms, 0 ≤ b.count ∧ b.count ≤ est :=
  C09_bound_from _ ops hok (inv_new est fpr32 k m h1)

theorem C09_nonempty_from (e : Expanding) (ops : List Op) (hok : ∀ op ∈ ops, op.ok e.k) (hi : e.Inv) :
    (run e ops).blooms ≠ [] := (C09_inv_run e ops hok hi).2.1

theorem C09_nonempty (est fpr32 k m : Nat) (h1 : 1 ≤ est) (ops : List Op) (hok : ∀ op ∈ ops, op.ok k) :
    (run (Expanding.new est fpr32 k m) ops).blooms ≠ [] :=
  C09_nonempty_from _ ops hok (inv_new est fpr32 k m h1)

/-- under the invariant an `add` with at least `k` hashes raises nothing … -/
theorem C09_add_no_error (e : Expanding) (p : Bool) (hs : List Nat) (f : Bool) (hk : e.k ≤ hs.length)
    (hi : e.Inv) : (e.addCore p hs f).2 = none := addCore_no_error e p hs f hk hi

/-- … and an effective one with fewer hashes raises IndexError (why `Op.ok` is assumed) -/
theorem C09_short_add_raises (e : Expanding) (p : Bool) (hs : List Nat) (f : Bool)
    (hk : hs.length < e.k) (hf : (f || !p) = true) (hi : e.Inv) :
    (e.addCore p hs f).2 = some .indexError := addCore_short_error e p hs f hk hf hi

/-! ### every `add` is counted -/

theorem C09_counted (e : Expanding) (ops : List Op) :
    (run e ops).added = e.added + addCount ops := by
  induction ops generalizing e with
  | nil => simp [run, addCount]
  | cons op ops ih =>
      have := ih (step e op)
      simp only [run, List.foldl_cons] at this ⊢
      rw [this]
      cases op with
      | add p hs f =>
          rw [show (step e (.add p hs f)).added = e.added + 1 from (addCore_static e p hs f).2.2.2.2]
          simp only [addCount, List.countP_cons, Op.isAdd, if_true]
          omega
      | push =>
          simp only [addCount, List.countP_cons, Op.isAdd]
          simp [step, push]

/-- a suppressed duplicate changes nothing but the counter -/
theorem C09_duplicate (e : Expanding) (hs : List Nat) :
    (e.addCore true hs false).1 = { e with added := e.added + 1 } ∧ (e.addCore true hs false).2 = none := by
  simp [addCore]

/-! ### growth happens exactly when the newest sub-filter is full -/

theorem C09_grow_iff (e : Expanding) (init : List Bloom) (z : Bloom) (p : Bool) (hs : List Nat)
    (f : Bool) (hb : e.blooms = init ++ [z]) :
    (e.addCore p hs f).1.blooms.length =
      e.blooms.length + (if (f || !p) = true ∧ (e.est : Int) ≤ z.count then 1 else 0) := by
  cases hf : (f || !p)
  · rw [(addCore_noeff e p hs f hf).1]; simp
  · rw [addCore_blooms_eff e init z p hs f hb hf, hb]
    by_cases hc : (e.est : Int) ≤ z.count <;> simp [hc]

/-- if an `add` made the filter grow, it was effective and the newest sub-filter was full
    (holding exactly `est` insertions under the invariant) -/
theorem C09_grow_only_when_full (e : Expanding) (p : Bool) (hs : List Nat) (f : Bool) (hi : e.Inv)
    (hg : e.blooms.length < (e.addCore p hs f).1.blooms.length) :
    (f || !p) = true ∧ ∃ z, e.blooms.getLast? = some z ∧ z.count = e.est ∧
      (e.addCore p hs f).1.blooms.length = e.blooms.length + 1 := by
  obtain ⟨init, z, hb⟩ := exists_concat e.blooms hi.2.1
  have h := C09_grow_iff e init z p hs f hb
  have hz := hi.2.2 z (by simp [hb])
  split at h
  · rename_i hc
    refine ⟨hc.1, z, by simp [hb], by omega, h⟩
  · omega

/-- no growth before the newest sub-filter is full -/
theorem C09_no_early_growth (e : Expanding) (z : Bloom) (p : Bool) (hs : List Nat) (f : Bool)
    (hz : e.blooms.getLast? = some z) (hc : z.count < e.est) :
    (e.addCore p hs f).1.blooms.length = e.blooms.length := by
  have hne : e.blooms ≠ [] := by intro h0; simp [h0] at hz
  obtain ⟨init, z', hb⟩ := exists_concat e.blooms hne
  have : z' = z := by simpa [hb] using hz
  subst this
  rw [C09_grow_iff e init z' p hs f hb]
  have : ¬ (e.est : Int) ≤ z'.count := by omega
  simp [this]

/-! ### the exact shape without `push` -/

/-- the shape predicate, spelled out: `x` full sub-filters then one holding `c`; `n = x·est + c` -/
theorem C09_shape_def (e : Expanding) (n : Nat) :
    e.Shape n ↔ ∃ x c : Nat,
      e.blooms.map (·.count) = List.replicate x (e.est : Int) ++ [(c : Int)] ∧
      (0 < x → 1 ≤ c) ∧ c ≤ e.est ∧ n = x * e.est + c := Iff.rfl

/-- from any invariant state with the shape for `n` insertions, a history of `add`s (no `push`)
    leads to the shape for `n + I` insertions -/
theorem C09_shape_from (e : Expanding) (n : Nat) (ops : List Op) (hok : ∀ op ∈ ops, op.ok e.k)
    (hadds : ∀ op ∈ ops, op.isAdd = true) (hi : e.Inv) (hs : e.Shape n) :
    (run e ops).Shape (n + effCount ops) := by
  induction ops generalizing e n with
  | nil => simpa [run, effCount] using hs
  | cons op ops ih =>
      have hi' := C09_inv_step e op (hok op (by simp)) hi
      have hok' : ∀ o ∈ ops, o.ok (step e op).k := by
        intro o ho; rw [(step_static e op).2.1]; exact hok o (by simp [ho])
      have hadds' : ∀ o ∈ ops, o.isAdd = true := fun o ho => hadds o (by simp [ho])
      cases op with
      | push => have := hadds .push (by simp); simp [Op.isAdd] at this
      | add p hl f =>
          have hk : e.k ≤ hl.length := hok (.add p hl f) (by simp)
          cases hf : (f || !p)
          · have h := ih (step e (.add p hl f)) n hok' hadds' hi'
              (shape_addCore_noeff e n p hl f hf hs)
            simpa [run, effCount, List.countP_cons, Op.effective, hf] using h
          · have h := ih (step e (.add p hl f)) (n + 1) hok' hadds' hi'
              (shape_addCore_eff e n p hl f hk hi.1 (fun b hb => (hi.2.2 b hb).2.2) hf hs)
            have e1 : n + 1 + effCount ops = n + effCount (.add p hl f :: ops) := by
              simp [effCount, Op.effective, hf]; omega
            rw [e1] at h
            exact h

/-- from `new`, without `push`: counts are `est, …, est, c` with `I = e·est + c` -/
theorem C09_shape (est fpr32 k m : Nat) (h1 : 1 ≤ est) (ops : List Op) (hok : ∀ op ∈ ops, op.ok k)
    (hadds : ∀ op ∈ ops, op.isAdd = true) :
    ∃ x c : Nat,
      (run (Expanding.new est fpr32 k m) ops).blooms.map (·.count) =
        List.replicate x (est : Int) ++ [(c : Int)] ∧
      (0 < x → 1 ≤ c) ∧ c ≤ est ∧ effCount ops = x * est + c := by
  have h := C09_shape_from (Expanding.new est fpr32 k m) 0 ops hok hadds (inv_new est fpr32 k m h1)
    (shape_new est fpr32 k m)
  rw [Nat.zero_add] at h
  obtain ⟨x, c, a, b, c', d⟩ := h
  rw [(run_static _ ops).1] at a c' d
  exact ⟨x, c, a, b, c', d⟩

/-- number of expansions from a shaped state -/
theorem C09_expansions_from (e : Expanding) (n : Nat) (ops : List Op) (hok : ∀ op ∈ ops, op.ok e.k)
    (hadds : ∀ op ∈ ops, op.isAdd = true) (hi : e.Inv) (hs : e.Shape n) :
    (run e ops).expansions =
      ((if n + effCount ops = 0 then 0 else (n + effCount ops - 1) / e.est : Nat) : Int) := by
  have h := (C09_shape_from e n ops hok hadds hi hs).length (by rw [(run_static e ops).1]; exact hi.1)
  rw [(run_static e ops).1] at h
  unfold Expanding.expansions
  rw [h]
  omega

/-- the "restored from an export" clause: a state whose per-filter counts have the shape written by
    a `push`-free history of `n` effective insertions (what C05's round trip restores) behaves,
    under any further `push`-free history, exactly like the filter that was saved -/
theorem C09_reload (e : Expanding) (n : Nat) (ops : List Op) (hok : ∀ op ∈ ops, op.ok e.k)
    (hadds : ∀ op ∈ ops, op.isAdd = true) (hi : e.Inv) (hs : e.Shape n) :
    (∀ b ∈ (run e ops).blooms, 0 ≤ b.count ∧ b.count ≤ e.est) ∧
    (run e ops).Shape (n + effCount ops) ∧
    (run e ops).expansions =
      ((if n + effCount ops = 0 then 0 else (n + effCount ops - 1) / e.est : Nat) : Int) ∧
    (run e ops).added = e.added + addCount ops :=
  ⟨C09_bound_from e ops hok hi, C09_shape_from e n ops hok hadds hi hs,
    C09_expansions_from e n ops hok hadds hi hs, C09_counted e ops⟩

/-- `expansions = max(0, ⌈I/est⌉ − 1)` written with natural-number division -/
theorem C09_expansions (est fpr32 k m : Nat) (h1 : 1 ≤ est) (ops : List Op) (hok : ∀ op ∈ ops, op.ok k)
    (hadds : ∀ op ∈ ops, op.isAdd = true) :
    (run (Expanding.new est fpr32 k m) ops).expansions =
      ((if effCount ops = 0 then 0 else (effCount ops - 1) / est : Nat) : Int) := by
  have h := C09_expansions_from (Expanding.new est fpr32 k m) 0 ops hok hadds
    (inv_new est fpr32 k m h1) (shape_new est fpr32 k m)
  simpa [Expanding.new] using h

/-- the closed form is `⌈I/est⌉ − 1` truncated at zero (`⌈I/est⌉ = (I + est − 1) / est`) -/
theorem C09_expansions_ceil (I est : Nat) (h1 : 1 ≤ est) :
    (if I = 0 then 0 else (I - 1) / est) = (I + est - 1) / est - 1 := by
  split
  · rename_i h; subst h
    rw [Nat.zero_add, Nat.div_eq_of_lt (by omega)]
  · have : I + est - 1 = (I - 1) + est := by omega
    rw [this, Nat.add_div_right _ (by omega)]
    rfl

/-! ### the real API: `add_alt` computes the membership answer itself -/

inductive AOp
  | add (hs : List Nat) (force : Bool)
  | push
  deriving DecidableEq, Repr

def stepA (e : Expanding) : AOp → Expanding
  | .add hs f => (e.addAlt hs f).1
  | .push => e.push

def runA (e : Expanding) (aops : List AOp) : Expanding := aops.foldl stepA e

/-- forget the membership answer -/
def Op.erase : Op → AOp
  | .add _ hs f => .add hs f
  | .push => .push

def AOp.ok (k : Nat) : AOp → Prop
  | .add hs _ => k ≤ hs.length
  | .push => True

instance (k : Nat) (a : AOp) : Decidable (a.ok k) := by
  cases a <;> unfold AOp.ok <;> infer_instance

/-- every history of real calls is a history of `Op`s with the answers the filter computed, so
    all theorems above apply to it -/
theorem C09_api (e : Expanding) (aops : List AOp) (hok : ∀ a ∈ aops, a.ok e.k) (hi : e.Inv) :
    ∃ ops : List Op, ops.map Op.erase = aops ∧ (∀ op ∈ ops, op.ok e.k) ∧ runA e aops = run e ops := by
  induction aops generalizing e with
  | nil => exact ⟨[], rfl, by simp, rfl⟩
  | cons a aops ih =>
      cases a with
      | push =>
          obtain ⟨ops, h1, h2, h3⟩ := ih e.push (fun a ha => hok a (by simp [ha])) (inv_push e hi)
          refine ⟨.push :: ops, by simp [Op.erase, h1], ?_, by simpa [runA, run, stepA, step] using h3⟩
          intro op hop
          rcases List.mem_cons.mp hop with rfl | hop
          · trivial
          · exact h2 op hop
      | add hs f =>
          have hk : e.k ≤ hs.length := hok (.add hs f) (by simp)
          obtain ⟨p, -, hp⟩ := addAlt_eq_addCore e hs f hk hi
          have hk' : (e.addCore p hs f).1.k = e.k := (addCore_static e p hs f).2.2.1
          obtain ⟨ops, h1, h2, h3⟩ := ih (e.addCore p hs f).1
            (fun a ha => by rw [hk']; exact hok a (by simp [ha])) (inv_addCore e p hs f hk hi)
          refine ⟨.add p hs f :: ops, by simp [Op.erase, h1], ?_, ?_⟩
          · intro op hop
            rcases List.mem_cons.mp hop with rfl | hop
            · exact hk
            · rw [← hk']; exact h2 op hop
          · simpa [runA, run, stepA, step, hp] using h3

/-- user-level corollary: with the real `add_alt`/`push`, no sub-filter exceeds `est` -/
theorem C09_bound_api (est fpr32 k m : Nat) (h1 : 1 ≤ est) (aops : List AOp)
    (hok : ∀ a ∈ aops, a.ok k) :
    (runA (Expanding.new est fpr32 k m) aops).blooms ≠ [] ∧
    ∀ b ∈ (runA (Expanding.new est fpr32 k m) aops).blooms, 0 ≤ b.count ∧ b.count ≤ est := by
  obtain ⟨ops, -, h2, h3⟩ := C09_api (Expanding.new est fpr32 k m) aops hok (inv_new est fpr32 k m h1)
  rw [h3]
  exact ⟨C09_nonempty est fpr32 k m h1 ops h2, C09_bound est fpr32 k m h1 ops h2⟩

/-! ### non-vacuity (tests on concrete instances, `est = 2`, `k = 2`, `m = 16`) -/

/-- five effective insertions, one duplicate, one forced duplicate: I = 6 -/
def sampleOps : List Op :=
  [.add false [1, 2] false, .add false [3, 4] false, .add true [1, 2] false,
   .add false [5, 6] false, .add true [5, 6] true, .add false [7, 8] false, .add false [9, 10] false]

example : (Expanding.new 2 0 2 16).Inv := C09_inv_new 2 0 2 16 (by decide)
example : ∀ op ∈ sampleOps, op.ok 2 := by decide
example : ∀ op ∈ sampleOps, op.isAdd = true := by decide
example : effCount sampleOps = 6 ∧ addCount sampleOps = 7 := by decide
example : (run (Expanding.new 2 0 2 16) sampleOps).blooms.map (·.count) = [2, 2, 2] := by decide
example : (run (Expanding.new 2 0 2 16) sampleOps).expansions = 2 := by decide
example : (run (Expanding.new 2 0 2 16) sampleOps).added = 7 := by decide
/-- the theorems instantiated on the sample -/
example : (run (Expanding.new 2 0 2 16) sampleOps).expansions = ((if effCount sampleOps = 0 then 0
    else (effCount sampleOps - 1) / 2 : Nat) : Int) :=
  C09_expansions 2 0 2 16 (by decide) sampleOps (by decide) (by decide)
/-- the boundary: the `est`-th insertion does not grow, the `est+1`-th does -/
example : (run (Expanding.new 2 0 2 16) (sampleOps.take 2)).blooms.map (·.count) = [2] := by decide
example : (run (Expanding.new 2 0 2 16) (sampleOps.take 4)).blooms.map (·.count) = [2, 1] := by decide
/-- with `push` the shape is lost but the bound holds -/
example : (run (Expanding.new 2 0 2 16) [.add false [1, 2] false, .push, .add false [3, 4] false]).blooms.map
    (·.count) = [1, 1] := by decide
/-- the real API on the same keys: the duplicate is detected by `check_alt` -/
example : (runA (Expanding.new 2 0 2 16)
    [.add [1, 2] false, .add [3, 4] false, .add [1, 2] false, .add [5, 6] false]).blooms.map (·.count) = [2, 1]
    ∧ (runA (Expanding.new 2 0 2 16)
    [.add [1, 2] false, .add [3, 4] false, .add [1, 2] false, .add [5, 6] false]).added = 4 := by decide
/-- too few hashes: IndexError -/
example : ((Expanding.new 2 0 2 16).addCore false [1] false).2 = some .indexError := by decide

end PyProb.C09
