/-
  C05 — export followed by load reproduces the structure: cuckoo and counting cuckoo filters.  The
  overview of the whole property, with the hypotheses and what they mean, is in
  `Properties/C05.lean`; the Bloom part is in `Properties/C05_bloom.lean` and the count-min part in
  `Properties/C05_cms.lean`.
-/
import PyProb.Lemmas.FormatsCuckoo
import PyProb.Lemmas.CuckooAcct
import PyProb.Properties.C15

namespace PyProb.C05
open PyProb

/-! ## well-formedness predicates -/

/-- sum of the counts of all bins -/
def binCount (bks : List (List CBin)) : Nat := (bks.map fun bkt => (bkt.map (·.2)).sum).sum
/-- number of bins -/
def binNumber (bks : List (List CBin)) : Nat := (bks.map List.length).sum

/-- the table part of the cuckoo well-formedness: implied by the table invariant of reachable
    states (property C15) together with "no stored fingerprint is 0" -/
structure CuckooTableWF (c : Cuckoo) : Prop where
  cap : c.buckets.length = c.cap
  bpos : 0 < c.b
  bkts : ∀ bkt ∈ c.buckets, bkt.length ≤ c.b ∧
    ∀ bin ∈ bkt, 0 < bin.1 ∧ (c.counting = false → bin.2 = 1)

/-- table part plus the bookkeeping of the two element counters -/
structure CuckooWF (c : Cuckoo) : Prop extends CuckooTableWF c where
  count : c.count = (binCount c.buckets : Int)
  unique : c.unique = if c.counting then (binNumber c.buckets : Int) else 0

/-- everything fits its 32-bit field (otherwise `export` raises) -/
structure CuckooFits (c : Cuckoo) : Prop where
  blt : c.b < 2 ^ 32
  swaps : c.maxSwaps < 2 ^ 32
  bins : ∀ bkt ∈ c.buckets, ∀ bin ∈ bkt, bin.1 < 2 ^ 32 ∧ bin.2 < 2 ^ 32

/-! ## cuckoo and counting cuckoo filters -/

private theorem cuckoo_export_eq (c : Cuckoo) : c.exportBytes =
    if c.buckets.any (fun bkt => bkt.any fun bin => bin.1 ≥ 2 ^ 32 ∨ bin.2 ≥ 2 ^ 32) then .error .overflow
    else
      match Gen.cuckooFooter.pack [c.b, c.maxSwaps] with
      | .ok f => .ok (c.buckets.flatMap (bucketBytes c.counting c.b) ++ f)
      | .error e => .error e := rfl

theorem C05_cuckoo_export_ok (c : Cuckoo) (fits : CuckooFits c) : ∃ bytes, c.exportBytes = .ok bytes := by
  have h1 := fits.blt; have h2 := fits.swaps
  rw [cuckoo_export_eq, if_neg]
  · rw [cuckooFooter_pack, if_neg (by omega), if_neg (by omega)]
    exact ⟨_, rfl⟩
  · simp only [List.any_eq_true, decide_eq_true_eq, not_exists, not_and]
    intro bkt hbkt bin hbin
    have := fits.bins bkt hbkt bin hbin
    omega

/-- conversely a successful export means everything fitted -/
theorem C05_cuckoo_export_fits (c : Cuckoo) (bytes : Bytes) (h : c.exportBytes = .ok bytes) : CuckooFits c := by
  rw [cuckoo_export_eq] at h
  split at h
  · cases h
  · rename_i hany
    rw [cuckooFooter_pack] at h
    have hbins : ∀ bkt ∈ c.buckets, ∀ bin ∈ bkt, bin.1 < 2 ^ 32 ∧ bin.2 < 2 ^ 32 := by
      simp only [List.any_eq_true, decide_eq_true_eq, not_exists, not_and] at hany
      intro bkt hbkt bin hbin
      have := hany bkt hbkt bin hbin
      omega
    by_cases h1 : (c.b : Int) < 0 ∨ (c.b : Int) > 4294967295
    · rw [if_pos h1] at h; cases h
    · by_cases h2 : (c.maxSwaps : Int) < 0 ∨ (c.maxSwaps : Int) > 4294967295
      · rw [if_neg h1, if_pos h2] at h; cases h
      · exact ⟨by omega, by omega, hbins⟩

/-- the table, the bucket size and the swap limit come back; the two element counters are
    recomputed from the table.  What the format does not store (`rate`, `auto`, `fpBits`, and which
    of the two classes) comes from the `template` the caller constructs -/
theorem C05_cuckoo_roundtrip_table (template c : Cuckoo) (bytes : Bytes) (wf : CuckooTableWF c)
    (ht : template.counting = c.counting)
    (h : c.exportBytes = .ok bytes) :
    Cuckoo.load template bytes =
      .ok { template with cap := c.cap, b := c.b, maxSwaps := c.maxSwaps, buckets := c.buckets,
                          count := (binCount c.buckets : Int),
                          unique := if c.counting then (binNumber c.buckets : Int) else 0 } := by
  have fits := C05_cuckoo_export_fits c bytes h
  have hbk : ∀ bkt ∈ c.buckets, bkt.length ≤ c.b ∧ ∀ bin ∈ bkt, BinOK c.counting bin := by
    intro bkt hbkt
    refine ⟨(wf.bkts bkt hbkt).1, fun bin hbin => ?_⟩
    have h1 := (wf.bkts bkt hbkt).2 bin hbin
    have h2 := fits.bins bkt hbkt bin hbin
    exact ⟨h1.1, h2.1, h2.2, h1.2⟩
  rw [cuckoo_export_eq] at h
  split at h
  · cases h
  · split at h
    · rename_i f hf
      injection h with h; subst h
      have hfl : f.length = 8 := by rw [pack_length _ _ _ hf, cuckooFooter_size]
      have hbl := body_length c.counting c.b c.buckets (fun bkt hb => (wf.bkts bkt hb).1)
      have hbpos := wf.bpos
      unfold Cuckoo.load
      simp only [cuckooFooter_size, List.length_append, hfl, Nat.add_sub_cancel]
      rw [if_neg (by omega), List.drop_left, unpack_pack _ _ _ hf]
      simp only [Int.toNat_natCast]
      have hb0 : (c.b == 0) = false := by simp only [beq_eq_false_iff_ne, ne_eq]; omega
      simp only [hb0, Bool.false_eq_true, if_false, ht]
      have hcap : (c.buckets.flatMap (bucketBytes c.counting c.b)).length / (if c.counting = true then 8 else 4) / c.b
          = c.buckets.length := by
        rw [hbl, Nat.div_div_eq_div_mul]
        have : cuckooW c.counting = if c.counting = true then 8 else 4 := rfl
        rw [← this]
        exact Nat.mul_div_cancel _ (Nat.mul_pos (by unfold cuckooW; split <;> decide) hbpos)
      rw [hcap, parseBuckets_body c.counting c.b c.buckets f hbk, wf.cap]
      rfl
    · cases h

/-- with the counters' bookkeeping (`count = Σ counts`, `unique = number of bins`) the loaded
    filter has the same counters -/
theorem C05_cuckoo_roundtrip (template c : Cuckoo) (bytes : Bytes) (wf : CuckooWF c)
    (ht : template.counting = c.counting)
    (h : c.exportBytes = .ok bytes) :
    Cuckoo.load template bytes =
      .ok { template with cap := c.cap, b := c.b, maxSwaps := c.maxSwaps, buckets := c.buckets,
                          count := c.count, unique := c.unique } := by
  rw [C05_cuckoo_roundtrip_table template c bytes wf.toCuckooTableWF ht h, wf.count, wf.unique]

/-- re-supplying the filter's own settings gives the filter back -/
theorem C05_cuckoo_roundtrip_self (c : Cuckoo) (bytes : Bytes) (wf : CuckooWF c)
    (h : c.exportBytes = .ok bytes) : Cuckoo.load c bytes = .ok c :=
  C05_cuckoo_roundtrip c c bytes wf rfl h

theorem C05_cuckoo_stable (template c : Cuckoo) (bytes : Bytes) (wf : CuckooTableWF c)
    (ht : template.counting = c.counting) (h : c.exportBytes = .ok bytes) :
    ∃ c', Cuckoo.load template bytes = .ok c' ∧ c'.exportBytes = .ok bytes := by
  refine ⟨_, C05_cuckoo_roundtrip_table template c bytes wf ht h, ?_⟩
  rw [cuckoo_export_eq] at h ⊢
  simpa [ht] using h

/-- the reloaded table is again well formed (so it can be exported and reloaded again, and the
    structural clauses of the table invariant C15 carry over to loaded filters) -/
theorem C05_cuckoo_loaded_wf (template c c' : Cuckoo) (bytes : Bytes) (wf : CuckooTableWF c)
    (ht : template.counting = c.counting) (h : c.exportBytes = .ok bytes)
    (hl : Cuckoo.load template bytes = .ok c') :
    CuckooWF c' ∧ c'.buckets = c.buckets ∧ c'.cap = c.cap ∧ c'.b = c.b ∧ c'.maxSwaps = c.maxSwaps ∧
      c'.rate = template.rate ∧ c'.auto = template.auto ∧ c'.fpBits = template.fpBits ∧
      c'.counting = template.counting := by
  rw [C05_cuckoo_roundtrip_table template c bytes wf ht h] at hl
  injection hl with hl
  subst hl
  refine ⟨⟨⟨wf.cap, wf.bpos, ?_⟩, rfl, ?_⟩, rfl, rfl, rfl, rfl, rfl, rfl, rfl, rfl⟩
  · simpa [ht] using wf.bkts
  · simp [ht]

theorem C05_cuckoo_new_wf (counting : Bool) (cap b maxSwaps rate : Nat) (auto : Bool) (fpBits : Nat)
    (hb0 : 0 < b) :
    CuckooWF (Cuckoo.new counting cap b maxSwaps rate auto fpBits) := by
  refine ⟨⟨by simp [Cuckoo.new], hb0, ?_⟩, ?_, ?_⟩
  · intro bkt hbkt
    simp only [Cuckoo.new, List.mem_replicate] at hbkt
    rw [hbkt.2]; simp
  · simp [Cuckoo.new, binCount]
  · simp [Cuckoo.new, binNumber]

/-! ### reachable cuckoo states satisfy the well-formedness of the round trip -/

section Reachable
open PyProb.Cuckoo

/-- the table invariant of C15 together with the counters' bookkeeping gives `CuckooWF` -/
theorem C05_cuckoo_wf_of_inv (G : Nat → Nat) (c : Cuckoo) (hinv : C15.Inv G c) (ha : Acct c) : CuckooWF c := by
  obtain ⟨hlen, _, hb, _, hsize, _, _, _, hplain⟩ := hinv
  refine ⟨⟨hlen, hb, ?_⟩, ?_, ?_⟩
  · intro bkt hbkt
    refine ⟨hsize bkt hbkt, fun bin hbin => ⟨?_, fun hc => hplain hc bin (List.mem_flatten.mpr ⟨bkt, hbkt, hbin⟩)⟩⟩
    have hst : stored c bin := List.mem_flatten.mpr ⟨bkt, hbkt, hbin⟩
    by_cases h0 : bin.1 = 0
    · have : 0 < tsum (isFp 0) c := (tsum_pos_iff _ _).mpr ⟨bin, hst, by simp [isFp, h0]⟩
      have := ha.fpPos
      omega
    · omega
  · rw [ha.count]; rfl
  · rw [ha.unique]
    unfold uInc binNumber
    have : tsum (fun _ => 1) c = (c.buckets.map List.length).sum := by
      unfold tsum; congr 1
      exact List.map_congr_left (fun bkt _ => bsum_one_length bkt)
    rw [this]
    split <;> simp

theorem C05_cuckoo_acct_init (counting : Bool) (cap b maxSwaps rate : Nat) (auto : Bool) (fpBits : Nat) :
    Acct (Cuckoo.new counting cap b maxSwaps rate auto fpBits) := acct_new _ _ _ _ _ _ _

/-- every public operation keeps the bookkeeping, whether it returns normally or raises -/
theorem C05_cuckoo_acct_step (G : Nat → Nat) (c : Cuckoo) (op : C15.Op × List Nat)
    (hinv : C15.Inv G c) (ha : Acct c) : Acct (C15.step G c op) := by
  have hw := (C15.inv_iff_wf G c).mp hinv
  obtain ⟨op, oracle⟩ := op
  cases op with
  | add h => exact acct_add h oracle hw ha
  | remove h => exact acct_remove h hw ha
  | expand => exact acct_expand oracle hw ha

theorem C05_cuckoo_acct_run (G : Nat → Nat) (c : Cuckoo) (ops : List (C15.Op × List Nat))
    (hinv : C15.Inv G c) (ha : Acct c) : Acct (C15.run G c ops) := by
  unfold C15.run
  induction ops generalizing c with
  | nil => exact ha
  | cons op ops ih => exact ih (C15.step G c op) (C15.C15_step G c op hinv) (C05_cuckoo_acct_step G c op hinv ha)

/-- every state reachable from a fresh filter by any history of add / remove / expand (any second
    hash `G`, any oracles) that can be exported at all is reproduced exactly by loading its export -/
theorem C05_cuckoo_roundtrip_reachable (G : Nat → Nat) (counting : Bool) (cap b maxSwaps rate : Nat)
    (auto : Bool) (fpBits : Nat) (hcap : 0 < cap) (hb : 0 < b) (hrate : 0 < rate)
    (ops : List (C15.Op × List Nat)) (bytes : Bytes)
    (h : (C15.run G (Cuckoo.new counting cap b maxSwaps rate auto fpBits) ops).exportBytes = .ok bytes) :
    Cuckoo.load (C15.run G (Cuckoo.new counting cap b maxSwaps rate auto fpBits) ops) bytes =
      .ok (C15.run G (Cuckoo.new counting cap b maxSwaps rate auto fpBits) ops) := by
  have hinv0 := C15.C15_init G counting cap b maxSwaps rate auto fpBits hcap hb hrate
  have hinv := C15.C15_run G _ ops hinv0
  have ha := C05_cuckoo_acct_run G _ ops hinv0 (C05_cuckoo_acct_init counting cap b maxSwaps rate auto fpBits)
  exact C05_cuckoo_roundtrip_self _ bytes (C05_cuckoo_wf_of_inv G _ hinv ha) h

/-- the clause of C15 about loaded filters: what `load` builds from the export of a filter
    satisfying the table invariant satisfies the invariant (and the bookkeeping) again -/
theorem C05_cuckoo_loaded_inv (G : Nat → Nat) (template c c' : Cuckoo) (bytes : Bytes)
    (hinv : C15.Inv G c) (ha : Acct c) (ht : template.counting = c.counting) (hr : 0 < template.rate)
    (h : c.exportBytes = .ok bytes) (hl : Cuckoo.load template bytes = .ok c') :
    C15.Inv G c' ∧ Acct c' := by
  have wf := C05_cuckoo_wf_of_inv G c hinv ha
  rw [C05_cuckoo_roundtrip template c bytes wf ht h] at hl
  injection hl with hl
  subst hl
  obtain ⟨hlen, hcap, hb, _, hsize, hpos, hnd, hcnt, hplain⟩ := hinv
  refine ⟨⟨hlen, hcap, hb, hr, hsize, hpos, hnd, hcnt, ?_⟩, ⟨ha.fpPos, ha.count, ?_⟩⟩
  · intro hc; exact hplain (ht ▸ hc)
  · have hu := ha.unique
    unfold uInc at hu ⊢
    simp only [ht]
    exact hu

end Reachable

/-! ## non-vacuity: concrete states, exported and reloaded (tests) -/

/-- partially filled buckets, an empty bucket, a full bucket -/
private def k3 : Cuckoo := ⟨false, 3, 2, 500, 2, true, 8, [[(7, 1)], [], [(255, 1), (1, 1)]], 3, 0⟩
example : CuckooWF k3 := ⟨⟨rfl, by decide, by decide⟩, by decide, by decide⟩
example : Cuckoo.load k3 (k3.exportBytes.toOption.getD []) = .ok k3 := by rfl

private def kc3 : Cuckoo := ⟨true, 3, 2, 500, 2, true, 8, [[(7, 4)], [], [(255, 1), (1, 9)]], 14, 3⟩
example : CuckooWF kc3 := ⟨⟨rfl, by decide, by decide⟩, by decide, by decide⟩
example : Cuckoo.load kc3 (kc3.exportBytes.toOption.getD []) = .ok kc3 := by rfl

/-- a reachable plain filter (kicks and a removal included) and a reachable counting filter -/
example :
    let c := C15.run (fun x => x / 3) (Cuckoo.new false 2 2 10 2 false 8)
      [(.add 5, [0, 1]), (.add 77, [1]), (.add 9, [1, 0, 1]), (.remove 5, []), (.add 300, []), (.add 1024, [0, 0, 1])]
    Cuckoo.load c (c.exportBytes.toOption.getD []) = .ok c :=
  C05_cuckoo_roundtrip_reachable _ false 2 2 10 2 false 8 (by decide) (by decide) (by decide) _ _ (by rfl)
example :
    let c := C15.run (fun x => x / 3) (Cuckoo.new true 2 1 10 2 true 8)
      [(.add 5, [0, 1]), (.add 5, []), (.add 9, [1, 0, 1]), (.add 7, [0, 1, 1, 0]), (.remove 5, []), (.expand, [])]
    Cuckoo.load c (c.exportBytes.toOption.getD []) = .ok c :=
  C05_cuckoo_roundtrip_reachable _ true 2 1 10 2 true 8 (by decide) (by decide) (by decide) _ _ (by rfl)

/-- the excluded case is real: a stored fingerprint 0 (impossible in the fixed code) is lost -/
example : (Cuckoo.load k3 (({ k3 with buckets := [[(0, 1)], [], []], count := 1 } : Cuckoo).exportBytes.toOption.getD [])).toOption.map
    (fun c => (c.buckets, c.count)) = some ([[], [], []], 0) := by rfl

end PyProb.C05
