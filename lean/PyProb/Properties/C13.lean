/-
  C13 — Intersection, Jaccard index and operand compatibility rules.

  Proved here about `Model/Bloom.lean` (`Bloom`, `CBF`) and `Model/CMS.lean` (`CMS.join`), for all
  geometries, all operand states, any estimator:
  * the intersection of two similar Bloom filters has exactly the positions set in both
    (`C13_inter_bits`, all `8 * ceil(m/8)` positions), is well formed, and reports a hash list
    exactly when both operands report it (`C13_inter_member`, `C13_inter_member_iff`);
  * Jaccard: the numerator is the number of positions set in both operands, the denominator the
    number set in either (`C13_jaccard_positions`); they are the set-bit counts of the
    intersection and of the union (`C13_jaccard_set_ops`); symmetric; `num ≤ den`; `num = den` for
    operands with identical bytes — so the index, with the library's convention "1.0 when the
    union is empty" (`jaccardRatio`), is symmetric, lies in [0,1] and is 1 for identical operands
    including empty ones;
  * counting variants on non-zero cells (`C13_cbf_*`);
  * compatibility: `similar` is "same k, same m, same probe hashes"; when it fails union,
    intersection and Jaccard are `none`, when it holds they are `some`; count-min `join` raises
    CountMinSketchError exactly when width, depth or probe hashes differ.

  Not proved here (carried by the correspondence harness, outside the model): TypeError for foreign
  operand kinds; "operands are unchanged" holds by the types (the operations are pure functions
  of their operands).  The index itself is the float `num / den`; here it is the exact pair.
-/
import PyProb.Lemmas.BloomOps
import PyProb.Lemmas.CbfOps
import PyProb.Model.CMS

namespace PyProb.C13
open PyProb

abbrev WF (b : Bloom) : Prop := b.WF

/-! ### compatibility -/

/-- `_verify_bloom_similarity`: same number of hashes, same number of bits, same probe hashes -/
theorem C13_similar_iff (a b : Bloom) (same : Bool) :
    a.similar b same = true ↔ a.k = b.k ∧ a.m = b.m ∧ same = true := Bloom.similar_iff a b same

/-- `jaccard_index(second)` as the exact pair (numerator, denominator); `none` when not similar -/
def jaccard (a b : Bloom) (sameProbe : Bool) : Option (Nat × Nat) :=
  if a.similar b sameProbe then some (a.jaccardCounts b) else none

/-- incompatible operands: every set operation answers `None` -/
theorem C13_incompatible (est : Estimator) (a b : Bloom) (same : Bool) (h : a.similar b same = false) :
    Bloom.union est a b same = none ∧ Bloom.intersection est a b same = none ∧ jaccard a b same = none := by
  simp [Bloom.union, Bloom.intersection, jaccard, h]

/-- in particular: a different number of hashes, of bits, or different probe hashes -/
theorem C13_incompatible_cases (est : Estimator) (a b : Bloom) (same : Bool)
    (h : a.k ≠ b.k ∨ a.m ≠ b.m ∨ same = false) :
    Bloom.union est a b same = none ∧ Bloom.intersection est a b same = none ∧ jaccard a b same = none := by
  apply C13_incompatible
  cases hs : a.similar b same with
  | false => rfl
  | true =>
      obtain ⟨h1, h2, h3⟩ := (Bloom.similar_iff a b same).1 hs
      rcases h with h | h | h
      · exact absurd h1 h
      · exact absurd h2 h
      · rw [h] at h3; cases h3

/-- compatible operands: every set operation answers -/
theorem C13_compatible (est : Estimator) (a b : Bloom) (same : Bool) (h : a.similar b same = true) :
    (∃ r, Bloom.union est a b same = some r) ∧ (∃ r, Bloom.intersection est a b same = some r) ∧
    jaccard a b same = some (a.jaccardCounts b) :=
  ⟨Bloom.union_of_similar est a b same h, Bloom.intersection_of_similar est a b same h, by simp [jaccard, h]⟩

/-! ### intersection -/

/-- the intersection has exactly the positions set in both operands -/
theorem C13_inter_bits (est : Estimator) (a b r : Bloom) (same : Bool)
    (h : Bloom.intersection est a b same = some r) (i : Nat) (hi : i < 8 * a.bloomLength) :
    testBitB r.bits i = (testBitB a.bits i && testBitB b.bits i) :=
  Bloom.testBitB_intersection est a b r same h i hi

/-- (and the union has exactly the positions set in either) -/
theorem C13_union_bits (est : Estimator) (a b r : Bloom) (same : Bool)
    (h : Bloom.union est a b same = some r) (i : Nat) (hi : i < 8 * a.bloomLength) :
    testBitB r.bits i = (testBitB a.bits i || testBitB b.bits i) :=
  Bloom.testBitB_union est a b r same h i hi

theorem C13_inter_wf (est : Estimator) (a b r : Bloom) (same : Bool) (hw : WF a)
    (h : Bloom.intersection est a b same = some r) : WF r ∧ r.k = a.k ∧ r.m = a.m := by
  obtain ⟨_, hk, hm, _⟩ := Bloom.intersection_eq_some est a b r same h
  exact ⟨Bloom.intersection_wf est a b r same hw.2 h, hk, hm⟩

/-- the intersection reports a hash list exactly when both operands report it -/
theorem C13_inter_member_iff (est : Estimator) (a b r : Bloom) (same : Bool) (hw : WF a)
    (h : Bloom.intersection est a b same = some r) (hs : List Nat) :
    r.checkAlt hs = .ok true ↔ a.checkAlt hs = .ok true ∧ b.checkAlt hs = .ok true := by
  obtain ⟨hsim, hk, hm, _, _, _⟩ := Bloom.intersection_eq_some est a b r same h
  obtain ⟨ek, em, _⟩ := (Bloom.similar_iff a b same).1 hsim
  have hpos : ∀ p ∈ a.positions hs, testBitB r.bits p = (testBitB a.bits p && testBitB b.bits p) :=
    fun p hp => C13_inter_bits est a b r same h p
      (Bloom.pos_lt_bits _ _ (Bloom.positions_lt a hs hw.2 p hp))
  have hr : r.positions hs = a.positions hs := by simp [Bloom.positions, hk, hm]
  have hb : b.positions hs = a.positions hs := by simp [Bloom.positions, ek, em]
  simp only [Bloom.checkAlt_true_iff, hr, hb, hk, ← ek]
  constructor
  · rintro ⟨hl, hall⟩
    refine ⟨⟨hl, fun p hp => ?_⟩, ⟨hl, fun p hp => ?_⟩⟩
    · have := hall p hp; rw [hpos p hp] at this; simp at this; exact this.1
    · have := hall p hp; rw [hpos p hp] at this; simp at this; exact this.2
  · rintro ⟨⟨hl, h1⟩, ⟨_, h2⟩⟩
    exact ⟨hl, fun p hp => by rw [hpos p hp, h1 p hp, h2 p hp]; rfl⟩

/-- hence it reports every key both operands report -/
theorem C13_inter_member (est : Estimator) (a b r : Bloom) (same : Bool) (hw : WF a)
    (h : Bloom.intersection est a b same = some r) (hs : List Nat)
    (ha : a.checkAlt hs = .ok true) (hb : b.checkAlt hs = .ok true) : r.checkAlt hs = .ok true :=
  (C13_inter_member_iff est a b r same hw h hs).2 ⟨ha, hb⟩

/-! ### Jaccard index -/

/-- numerator: number of positions set in both; denominator: number of positions set in either
    (positions of the `ceil(m/8)` bytes) -/
theorem C13_jaccard_positions (a b : Bloom) :
    a.jaccardCounts b =
      (((List.range (8 * a.bloomLength)).filter fun p => testBitB a.bits p && testBitB b.bits p).length,
       ((List.range (8 * a.bloomLength)).filter fun p => testBitB a.bits p || testBitB b.bits p).length) := by
  unfold Bloom.jaccardCounts
  rw [sum_popByte_zip_eq_count (· &&& ·) (· && ·) _ _ _ (fun u v i => Nat.testBit_and u v i),
    sum_popByte_zip_eq_count (· ||| ·) (· || ·) _ _ _ (fun u v i => Nat.testBit_or u v i)]

/-- the two counts are the set-bit counts of the intersection and of the union -/
theorem C13_jaccard_set_ops (est : Estimator) (a b ri ru : Bloom) (same : Bool)
    (hi : Bloom.intersection est a b same = some ri) (hu : Bloom.union est a b same = some ru) :
    a.jaccardCounts b = (ri.setBits, ru.setBits) := by
  obtain ⟨_, _, im, _, _, ib⟩ := Bloom.intersection_eq_some est a b ri same hi
  obtain ⟨_, _, um, _, _, ub⟩ := Bloom.union_eq_some est a b ru same hu
  have h1 : ri.bloomLength = a.bloomLength := by show Bloom.lengthOf ri.m = Bloom.lengthOf a.m; rw [im]
  have h2 : ru.bloomLength = a.bloomLength := by show Bloom.lengthOf ru.m = Bloom.lengthOf a.m; rw [um]
  unfold Bloom.jaccardCounts Bloom.setBits
  rw [h1, h2, ib, ub, take_zipBytes, take_zipBytes]

theorem C13_jaccard_symm (a b : Bloom) (hm : a.m = b.m) : a.jaccardCounts b = b.jaccardCounts a := by
  have hl : a.bloomLength = b.bloomLength := by show Bloom.lengthOf a.m = Bloom.lengthOf b.m; rw [hm]
  unfold Bloom.jaccardCounts
  rw [hl]
  simp only [Bloom.zipBytes, Nat.and_comm (a.bits.getD _ 0), Nat.or_comm (a.bits.getD _ 0)]

theorem C13_jaccard_le (a b : Bloom) : (a.jaccardCounts b).1 ≤ (a.jaccardCounts b).2 := by
  unfold Bloom.jaccardCounts
  rw [sum_popByte_zip, sum_popByte_zip]
  exact sum_map_le_sum_map _ _ _ (fun i _ => popByte_and_le_or _ _)

theorem C13_jaccard_self (a b : Bloom) (h : a.bits = b.bits) : (a.jaccardCounts b).1 = (a.jaccardCounts b).2 := by
  unfold Bloom.jaccardCounts
  simp [Bloom.zipBytes, h]

/-- the index as an exact fraction, with the library's convention for an empty union -/
def jaccardRatio (p : Nat × Nat) : Nat × Nat := if p.2 = 0 then (1, 1) else p

/-- symmetric, a proper fraction in [0, 1], and 1 for identical operands (including empty ones) -/
theorem C13_jaccard (a b : Bloom) (same : Bool) (hs : a.similar b same = true) :
    (∃ p, jaccard a b same = some p ∧ jaccard b a same = some p ∧
      (jaccardRatio p).1 ≤ (jaccardRatio p).2 ∧ 0 < (jaccardRatio p).2) ∧
    (a.bits = b.bits → ∃ p, jaccard a b same = some p ∧ (jaccardRatio p).1 = (jaccardRatio p).2) := by
  obtain ⟨ek, em, es⟩ := (Bloom.similar_iff a b same).1 hs
  have hs' : b.similar a same = true := (Bloom.similar_iff b a same).2 ⟨ek.symm, em.symm, es⟩
  have hle := C13_jaccard_le a b
  constructor
  · refine ⟨a.jaccardCounts b, by simp [jaccard, hs], by simp [jaccard, hs', C13_jaccard_symm a b em], ?_⟩
    unfold jaccardRatio
    split
    · simp
    · exact ⟨hle, by omega⟩
  · intro hb
    refine ⟨a.jaccardCounts b, by simp [jaccard, hs], ?_⟩
    have := C13_jaccard_self a b hb
    unfold jaccardRatio
    split
    · rfl
    · exact this

/-! ### counting Bloom filter -/

abbrev CWF (c : CBF) : Prop := c.WF

theorem C13_cbf_wf_iff (c : CBF) : CWF c ↔ c.cells.length = c.m ∧ 0 < c.m := Iff.rfl

theorem C13_cbf_new_wf (e f k m : Nat) (hm : 0 < m) : CWF (CBF.new e f k m) := CBF.new_wf e f k m hm

def cbfJaccard (a b : CBF) (sameProbe : Bool) : Option (Nat × Nat) :=
  if a.similar b sameProbe then some (a.jaccardCounts b) else none

theorem C13_cbf_similar_iff (a b : CBF) (same : Bool) :
    a.similar b same = true ↔ a.k = b.k ∧ a.m = b.m ∧ same = true := CBF.similar_iff a b same

theorem C13_cbf_incompatible (est : Estimator) (a b : CBF) (same : Bool) (h : a.similar b same = false) :
    CBF.union est a b same = none ∧ CBF.intersection est a b same = none ∧ cbfJaccard a b same = none := by
  simp [CBF.union, CBF.intersection, cbfJaccard, h]

theorem C13_cbf_compatible (est : Estimator) (a b : CBF) (same : Bool) (h : a.similar b same = true) :
    (∃ r, CBF.union est a b same = some r) ∧ (∃ r, CBF.intersection est a b same = some r) ∧
    cbfJaccard a b same = some (a.jaccardCounts b) :=
  ⟨CBF.union_of_similar est a b same h, by simp [CBF.intersection, h], by simp [cbfJaccard, h]⟩

/-- the intersection is non-zero exactly at the positions non-zero in both operands, where it
    holds the (clamped) sum -/
theorem C13_cbf_inter_cells (est : Estimator) (a b r : CBF) (same : Bool)
    (h : CBF.intersection est a b same = some r) :
    r.cells.length = a.cells.length ∧ r.k = a.k ∧ r.m = a.m ∧
    ∀ i, i < a.cells.length →
      (0 < r.cells.getD i 0 ↔ 0 < a.cells.getD i 0 ∧ 0 < b.cells.getD i 0) ∧
      (0 < a.cells.getD i 0 → 0 < b.cells.getD i 0 →
        r.cells.getD i 0 = CBF.clampCell (a.cells.getD i 0 + b.cells.getD i 0)) := by
  obtain ⟨_, hk, hm, _, _, hc⟩ := CBF.intersection_eq_some est a b r same h
  refine ⟨by simp [hc], hk, hm, fun i hi => ?_⟩
  have hg : r.cells.getD i 0 = if a.cells.getD i 0 > 0 ∧ b.cells.getD i 0 > 0
      then CBF.clampCell (a.cells.getD i 0 + b.cells.getD i 0) else 0 := by
    rw [hc]; simp [List.getD_eq_getElem?_getD, hi]
  rw [hg]
  by_cases hp : a.cells.getD i 0 > 0 ∧ b.cells.getD i 0 > 0
  · rw [if_pos hp, clampCell_pos]
    exact ⟨⟨fun _ => hp, fun _ => by omega⟩, fun _ _ => rfl⟩
  · rw [if_neg hp]
    exact ⟨⟨fun h0 => by omega, fun h0 => absurd h0 hp⟩, fun h1 h2 => absurd ⟨h1, h2⟩ hp⟩

/-- the counting intersection reports a hash list (positive count) exactly when both operands do -/
theorem C13_cbf_inter_member_iff (est : Estimator) (a b r : CBF) (same : Bool) (hw : CWF a)
    (h : CBF.intersection est a b same = some r) (hs : List Nat) :
    (∃ v, r.checkAlt hs = .ok v ∧ 0 < v) ↔
      (∃ v, a.checkAlt hs = .ok v ∧ 0 < v) ∧ (∃ v, b.checkAlt hs = .ok v ∧ 0 < v) := by
  obtain ⟨hsim, _⟩ := CBF.intersection_eq_some est a b r same h
  obtain ⟨_, em, _⟩ := (CBF.similar_iff a b same).1 hsim
  obtain ⟨_, _, hm, hcell⟩ := C13_cbf_inter_cells est a b r same h
  have hlt : ∀ x : Nat, x % a.m < a.cells.length := fun x => by rw [hw.1]; exact Nat.mod_lt _ hw.2
  simp only [CBF.checkAlt_pos_iff, hm, ← em]
  constructor
  · rintro ⟨hne, hall⟩
    exact ⟨⟨hne, fun x hx => (((hcell _ (hlt x)).1).1 (hall x hx)).1⟩,
      ⟨hne, fun x hx => (((hcell _ (hlt x)).1).1 (hall x hx)).2⟩⟩
  · rintro ⟨⟨hne, h1⟩, ⟨_, h2⟩⟩
    exact ⟨hne, fun x hx => ((hcell _ (hlt x)).1).2 ⟨h1 x hx, h2 x hx⟩⟩

/-- counting Jaccard: positions non-zero in both over positions non-zero in either; symmetric -/
theorem C13_cbf_jaccard_symm (a b : CBF) (hl : a.cells.length = b.cells.length) :
    a.jaccardCounts b = b.jaccardCounts a := by
  unfold CBF.jaccardCounts
  simp only [hl, and_comm, or_comm]

theorem C13_cbf_jaccard_le (a b : CBF) : (a.jaccardCounts b).1 ≤ (a.jaccardCounts b).2 := by
  unfold CBF.jaccardCounts
  apply length_filter_le_of_imp
  intro i
  simp only [decide_eq_true_eq]
  exact fun h => Or.inl h.1

theorem C13_cbf_jaccard_self (a b : CBF) (h : a.cells = b.cells) :
    (a.jaccardCounts b).1 = (a.jaccardCounts b).2 := by
  unfold CBF.jaccardCounts
  simp [h]

theorem C13_cbf_jaccard (a b : CBF) (same : Bool) (hwa : CWF a) (hwb : CWF b)
    (hs : a.similar b same = true) :
    (∃ p, cbfJaccard a b same = some p ∧ cbfJaccard b a same = some p ∧
      (jaccardRatio p).1 ≤ (jaccardRatio p).2 ∧ 0 < (jaccardRatio p).2) ∧
    (a.cells = b.cells → ∃ p, cbfJaccard a b same = some p ∧ (jaccardRatio p).1 = (jaccardRatio p).2) := by
  obtain ⟨ek, em, es⟩ := (CBF.similar_iff a b same).1 hs
  have hs' : b.similar a same = true := (CBF.similar_iff b a same).2 ⟨ek.symm, em.symm, es⟩
  have hl : a.cells.length = b.cells.length := by rw [hwa.1, hwb.1, em]
  have hle := C13_cbf_jaccard_le a b
  constructor
  · refine ⟨a.jaccardCounts b, by simp [cbfJaccard, hs],
      by simp [cbfJaccard, hs', C13_cbf_jaccard_symm a b hl], ?_⟩
    unfold jaccardRatio
    split
    · simp
    · exact ⟨hle, by omega⟩
  · intro hb
    refine ⟨a.jaccardCounts b, by simp [cbfJaccard, hs], ?_⟩
    have := C13_cbf_jaccard_self a b hb
    unfold jaccardRatio
    split
    · rfl
    · exact this

/-! ### count-min join -/

/-- `join` raises CountMinSketchError exactly when width, depth or the probe hashes differ -/
theorem C13_join_incompatible (a b : CMS) (same : Bool) (h : a.w ≠ b.w ∨ a.d ≠ b.d ∨ same = false) :
    CMS.join a b same = .error .cmsError := by
  unfold CMS.join
  rw [if_pos]
  rcases h with h | h | h <;> simp [h]

theorem C13_join_compatible (a b : CMS) (hw : a.w = b.w) (hd : a.d = b.d) :
    ∃ s, CMS.join a b true = .ok s ∧ s.w = a.w ∧ s.d = a.d ∧ s.mode = a.mode ∧ s.bins.length = a.w * a.d := by
  unfold CMS.join
  rw [if_neg (by simp [hw, hd])]
  exact ⟨_, rfl, rfl, rfl, rfl, by simp⟩

theorem C13_join_error_iff (a b : CMS) (same : Bool) :
    CMS.join a b same = .error .cmsError ↔ (a.w ≠ b.w ∨ a.d ≠ b.d ∨ same = false) := by
  constructor
  · intro h
    by_cases hc : a.w ≠ b.w ∨ a.d ≠ b.d ∨ same = false
    · exact hc
    · have hw : a.w = b.w := by
        apply Classical.byContradiction; intro x; exact hc (Or.inl x)
      have hd : a.d = b.d := by
        apply Classical.byContradiction; intro x; exact hc (Or.inr (Or.inl x))
      have hsame : same = true := by
        cases same with
        | true => rfl
        | false => exact absurd (Or.inr (Or.inr rfl)) hc
      subst hsame
      obtain ⟨s, hs, _⟩ := C13_join_compatible a b hw hd
      rw [hs] at h; cases h
  · exact C13_join_incompatible a b same

/-! ### non-vacuity (tests) -/

/-- test: two 10-bit, 3-hash filters; intersection, Jaccard counts and an incompatible pair -/
example :
    let a := ((Bloom.new 5 0 3 10).addAlt [3, 14, 25]).1
    let b := (((Bloom.new 5 0 3 10).addAlt [3, 14, 26]).1.addAlt [9, 9, 9]).1
    WF a ∧ a.similar b true = true ∧
    (Bloom.intersection (fun _ _ _ => 0) a b true).map (·.bits) = some [24, 0] ∧
    jaccard a b true = some (2, 5) ∧ jaccard b a true = some (2, 5) ∧ jaccard a a true = some (3, 3) ∧
    jaccard (Bloom.new 5 0 3 10) (Bloom.new 5 0 3 10) true = some (0, 0) ∧
    jaccardRatio (0, 0) = (1, 1) ∧
    jaccard a (Bloom.new 5 0 4 10) true = none ∧ jaccard a b false = none := by
  refine ⟨Bloom.addAlt_wf _ _ (Bloom.new_wf 5 0 3 10 (by decide)), ?_⟩
  decide

/-- test: counting filters -/
example :
    let a := ((CBF.new 5 0 3 10).addAlt [3, 14, 25] 2).1
    let b := ((CBF.new 5 0 3 10).addAlt [3, 14, 26] 1).1
    CWF a ∧ CWF b ∧ a.similar b true = true ∧
    (CBF.intersection (fun _ _ _ => 0) a b true).map (·.cells) = some [0, 0, 0, 3, 3, 0, 0, 0, 0, 0] ∧
    cbfJaccard a b true = some (2, 4) ∧ cbfJaccard a b false = none := by
  refine ⟨⟨by decide, by decide⟩, ⟨by decide, by decide⟩, by decide⟩

/-- test: count-min join guard -/
example : CMS.join (CMS.new 4 2 .min) (CMS.new 4 3 .min) true = .error .cmsError ∧
    CMS.join (CMS.new 4 2 .min) (CMS.new 4 2 .min) false = .error .cmsError ∧
    (∃ s, CMS.join (CMS.new 4 2 .min) (CMS.new 4 2 .min) true = .ok s) :=
  ⟨rfl, rfl, _, rfl⟩

end PyProb.C13
