/-
  C14, second module — whole-history corollaries that join the separately proved pieces
  (statements in full in `Lemmas/Corollaries*.lean`; restated here by `type_of%` so that they are
  counted and audited as obligations of C14).
-/
import PyProb.Lemmas.CorollariesQF
import PyProb.Lemmas.CorollariesCcf
import PyProb.Lemmas.CorollariesExp

namespace PyProb.C14
open PyProb

/-- quotient filter, every history of add/remove/resize/merge that did not raise: `get_hashes`
    returns a duplicate-free list `l` with `elements_added = |l|`, `l` a permutation of the set of the
    history, `size = 2^q`, `|l| < size` (from `C04_exact_set`) -/
theorem C14_qf_count_history : type_of% @Corollaries.qf_count_history := @Corollaries.qf_count_history

/-- the C14 clause alone: `elements_added` = number of stored hashes -/
theorem C14_qf_count_eq_stored : type_of% @Corollaries.qf_count_eq_stored := @Corollaries.qf_count_eq_stored

/-- `0 ≤ elements_added < size` on every reachable state (so the load factor is in [0, 1)) -/
theorem C14_qf_count_bounds : type_of% @Corollaries.qf_count_bounds := @Corollaries.qf_count_bounds

/-- the counter follows the set step by step: +1 exactly for a new hash, −1 exactly for a stored one,
    unchanged by resize, between +0 and +|hs| for merge -/
theorem C14_qf_count_delta : type_of% @Corollaries.qf_count_delta := @Corollaries.qf_count_delta

/-- counting cuckoo filter: after any non-raising history (kicks, expansions, all oracles) followed
    by export+load, every key's count — and hence `elements_added`, `unique_elements` — is what it was -/
theorem C14_ccf_reload_exact : type_of% @Corollaries.ccf_reload_exact := @Corollaries.ccf_reload_exact

/-- expanding filter: per-filter counts, expansions and `elements_added` across an export+load in
    the middle of a history equal those of the uninterrupted history -/
theorem C14_expanding_reload_growth : type_of% @Corollaries.expanding_reload_growth :=
  @Corollaries.expanding_reload_growth

end PyProb.C14
