/-
  C05 — export followed by load reproduces the structure, on every channel.

  Proved, for states of unbounded size, for every format of the library:
    * Bloom (binary and hex), counting Bloom (binary and hex), expanding / rotating, count-min
      family, cuckoo and counting cuckoo:  `load (export s) = .ok s`  — full equality of the model
      state, so every query answers identically, geometry and element counts agree, and a second
      export gives the same bytes (`_stable`);
    * the hex channel carries the same payload and the same footer values as the binary channel
      (`C05_bloom_hex_same_payload`, `C05_bloom_hex_same_footer`, `C05_cbf_hex_same_payload`);
    * what the formats do not store is re-supplied exactly as the property says: the hash function
      (not part of the model state), the rotating queue limit `q` (`C05_rotating_roundtrip`), the
      count-min query `mode` = the receiver's class (`C05_cms_roundtrip`), and the cuckoo `template`
      (fingerprint width, expansion rate, auto-expand, counting flag: `C05_cuckoo_roundtrip`).
  The round-trip theorems are stated for every state whose export *succeeds*; the range conditions
  on the stored values (est < 2^64, 0 ≤ count < 2^64, 32-bit fingerprints, …) are consequences of
  that hypothesis (`C05_cuckoo_export_fits`) and `_export_ok` shows that the explicit range
  predicates (`BloomWF`, `CBFWF`, `ExpandingWF`, `CMSWF`, `CuckooFits`) imply it.

  Hypotheses that are genuinely needed, each an invariant of reachable states, with the
  preservation theorems proved here:
    * Bloom family: `GeomStable geom est fpr32 k m` — the loader re-derives the same geometry from
      the footer (float32 narrowing is idempotent; this is a fact about the float parameter function
      `geom`, checked against the real code by the correspondence suites);
      `bits.length = ⌈m/8⌉` (`C05_bloom_new_wf`, `C05_bloom_add_wf`), byte values < 256 (hex only);
      `cells.length = m`, cells within uint32 (`C05_cbf_new_wf`, `C05_cbf_add_wf`, `C05_cbf_remove_wf`);
      expanding / rotating: non-empty, uniform sub-filters (`C05_expanding_new_wf`,
      `C05_expanding_add_wf`, `C05_expanding_push_subs`, `C05_rotating_add_wf`, `_push_wf`, `_pop_wf`);
    * count-min: `bins.length = w*d`, bins within int32 (`C05_cms_new_wf`, `C05_cms_add_wf`,
      `C05_cms_remove_wf`);
    * cuckoo: `CuckooWF` = table shape (`buckets.length = cap`, bucket sizes ≤ b, b > 0), no stored
      fingerprint 0 (the fixed code never stores it: `Cuckoo.fingerprint` maps 0 to 1), plain filter
      counts = 1, and the bookkeeping `count = Σ counts`, `unique = number of bins` (counting) / 0
      (plain).  `C05_cuckoo_wf_of_inv`: this follows from the table invariant `C15.Inv` and the
      bookkeeping invariant `Cuckoo.Acct`, which holds initially and is preserved by add / remove /
      expand for all second hashes and oracles (`C05_cuckoo_acct_step`, `C05_cuckoo_acct_run`), so
      `C05_cuckoo_roundtrip_reachable` needs no well-formedness hypothesis at all.
      `C05_cuckoo_loaded_inv`: a loaded filter satisfies `C15.Inv` and the bookkeeping again.
  Nothing is left as `_partial`.

  The theorems live in one module per data-structure family, all in the namespace `PyProb.C05`, so
  that a change of one family's extracted facts does not invalidate the other families:
    * `Properties/C05_bloom.lean`  — `GeomStable`, `BloomWF`, `CBFWF`, `SubsOK`, `ExpandingWF`,
      Bloom, counting Bloom, expanding / rotating;
    * `Properties/C05_cms.lean`    — `CMSWF`, count-min family;
    * `Properties/C05_cuckoo.lean` — `binCount`, `binNumber`, `CuckooTableWF`, `CuckooWF`,
      `CuckooFits`, cuckoo and counting cuckoo (incl. reachable states).
  This module only gathers them.
-/
import PyProb.Properties.C05_bloom
import PyProb.Properties.C05_cms
import PyProb.Properties.C05_cuckoo
