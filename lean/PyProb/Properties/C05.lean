/-
  C05 — export followed by load reproduces the structure, on every channel.

  Proved, for states of unbounded size, for every format of the library:
    * Bloom (binary and hex), counting Bloom (binary and hex), expanding / rotating, count-min
      family, cuckoo and counting cuckoo:  `load (export s) = .ok s`  — full equality of the model
      state, so every query answers identically, geometry and element counts agree, and a second
      export gives the same bytes (`_stable`);
    * the hex channel carries the same payload and the same footer values as the binary channel
      (`C05_bloom_hex_same_payload`, `C05_bloom_hex_same_footer`, `C05_cbf_hex_same_payload`);
    * what the formats do not store is re-supplied exactly as the property says: the hash function
      (not part of the model state), the rotating queue limit `q` (`C05_rotating_roundtrip`), the
      count-min query `mode` = the receiver's class (`C05_cms_roundtrip`), and the cuckoo `template`
      (fingerprint width, expansion rate, auto-expand, counting flag: `C05_cuckoo_roundtrip`).
  The round-trip theorems are stated for every state whose export *succeeds*; the range conditions
  on the stored values (est < 2^64, 0 ≤ count < 2^64, 32-bit fingerprints, …) are consequences of
  that hypothesis (`C05_cuckoo_export_fits`) and `_export_ok` shows that the explicit range
  predicates (`BloomWF`, `CBFWF`, `ExpandingWF`, `CMSWF`, `CuckooFits`) imply it.

  Hypotheses that are genuinely needed, each an invariant of reachable states, with the
  preservation theorems proved here:
    * Bloom family: `GeomStable geom est fpr32 k m` — the loader re-derives the same geometry from
      the footer (float32 narrowing is idempotent; this is a fact about the float parameter function
      `geom`, checked against the real code by the correspondence suites);
      `bits.length = ⌈m/8⌉` (`C05_bloom_new_wf`, `C05_bloom_add_wf`), byte values < 256 (hex only);
      `cells.length = m`, cells within uint32 (`C05_cbf_new_wf`, `C05_cbf_add_wf`, `C05_cbf_remove_wf`);
      expanding / rotating: non-empty, uniform sub-filters (`C05_expanding_new_wf`,
      `C05_expanding_add_wf`, `C05_expanding_push_subs`, `C05_rotating_add_wf`, `_push_wf`, `_pop_wf`);
    * count-min: `bins.length = w*d`, bins within int32 (`C05_cms_new_wf`, `C05_cms_add_wf`,
      `C05_cms_remove_wf`);
    * cuckoo: `CuckooWF` = table shape (`buckets.length = cap`, bucket sizes ≤ b, b > 0), no stored
      fingerprint 0 (the fixed code never stores it: `Cuckoo.fingerprint` maps 0 to 1), plain filter
      counts = 1, and the bookkeeping `count = Σ counts`, `unique = number of bins` (counting) / 0
      (plain).  `C05_cuckoo_wf_of_inv`: this follows from the table invariant `C15.Inv` and the
      bookkeeping invariant `Cuckoo.Acct`, which holds initially and is preserved by add / remove /
      expand for all second hashes and oracles (`C05_cuckoo_acct_step`, `C05_cuckoo_acct_run`), so
      `C05_cuckoo_roundtrip_reachable` needs no well-formedness hypothesis at all.
      `C05_cuckoo_loaded_inv`: a loaded filter satisfies `C15.Inv` and the bookkeeping again.
  Nothing is left as `_partial`.
-/
import PyProb.Lemmas.Formats
import PyProb.Lemmas.WFOps
import PyProb.Lemmas.CuckooAcct
import PyProb.Properties.C15

namespace PyProb.C05
open PyProb

/-! ## well-formedness predicates -/

/-- "reloading re-derives the same geometry" -/
def GeomStable (geom : Geom) (est fpr32 k m : Nat) : Prop := geom est fpr32 = .ok (fpr32, k, m)

structure BloomWF (b : Bloom) : Prop where
  len : b.bits.length = Bloom.lengthOf b.m
  bytes : ∀ x ∈ b.bits, x < 256
  est : b.est < 2 ^ 64
  fpr : b.fpr32 < 2 ^ 32
  cnt0 : 0 ≤ b.count
  cnt1 : b.count < 2 ^ 64

structure CBFWF (c : CBF) : Prop where
  len : c.cells.length = c.m
  cells : ∀ x ∈ c.cells, 0 ≤ x ∧ x ≤ 4294967295
  est : c.est < 2 ^ 64
  fpr : c.fpr32 < 2 ^ 32
  cnt0 : 0 ≤ c.count
  cnt1 : c.count < 2 ^ 64

/-- every sub-filter has the shared parameters and a full-size bit array -/
def SubsOK (e : Expanding) : Prop :=
  ∀ b ∈ e.blooms, b.est = e.est ∧ b.fpr32 = e.fpr32 ∧ b.k = e.k ∧ b.m = e.m ∧
    b.bits.length = Bloom.lengthOf e.m

instance (e : Expanding) : Decidable (SubsOK e) := by unfold SubsOK; infer_instance

structure ExpandingWF (e : Expanding) : Prop where
  nonempty : e.blooms ≠ []
  subs : SubsOK e
  counts : ∀ b ∈ e.blooms, 0 ≤ b.count ∧ b.count < 2 ^ 64
  size : e.blooms.length < 2 ^ 64
  est : e.est < 2 ^ 64
  fpr : e.fpr32 < 2 ^ 32
  added0 : 0 ≤ e.added
  added1 : e.added < 2 ^ 64

structure CMSWF (c : CMS) : Prop where
  len : c.bins.length = c.w * c.d
  bins : ∀ x ∈ c.bins, -2147483648 ≤ x ∧ x ≤ 2147483647
  w : c.w < 2 ^ 32
  d : c.d < 2 ^ 32
  total0 : -9223372036854775808 ≤ c.total
  total1 : c.total ≤ 9223372036854775807

/-- sum of the counts of all bins -/
def binCount (bks : List (List CBin)) : Nat := (bks.map fun bkt => (bkt.map (·.2)).sum).sum
/-- number of bins -/
def binNumber (bks : List (List CBin)) : Nat := (bks.map List.length).sum

/-- the table part of the cuckoo well-formedness: implied by the table invariant of reachable
    states (property C15) together with "no stored fingerprint is 0" -/
structure CuckooTableWF (c : Cuckoo) : Prop where
  cap : c.buckets.length = c.cap
  bpos : 0 < c.b
  bkts : ∀ bkt ∈ c.buckets, bkt.length ≤ c.b ∧
    ∀ bin ∈ bkt, 0 < bin.1 ∧ (c.counting = false → bin.2 = 1)

/-- table part plus the bookkeeping of the two element counters -/
structure CuckooWF (c : Cuckoo) : Prop extends CuckooTableWF c where
  count : c.count = (binCount c.buckets : Int)
  unique : c.unique = if c.counting then (binNumber c.buckets : Int) else 0

/-- everything fits its 32-bit field (otherwise `export` raises) -/
structure CuckooFits (c : Cuckoo) : Prop where
  blt : c.b < 2 ^ 32
  swaps : c.maxSwaps < 2 ^ 32
  bins : ∀ bkt ∈ c.buckets, ∀ bin ∈ bkt, bin.1 < 2 ^ 32 ∧ bin.2 < 2 ^ 32

/-! ## Bloom filter -/

theorem C05_bloom_export_ok (b : Bloom) (wf : BloomWF b) : ∃ bytes, b.exportBytes = .ok bytes := by
  have h1 := wf.est; have h2 := wf.fpr; have h3 := wf.cnt0; have h4 := wf.cnt1
  unfold Bloom.exportBytes Bloom.footerVals
  rw [bloomFooter_pack, if_neg (by omega), if_neg (by omega), if_neg (by omega)]
  exact ⟨_, rfl⟩

/-- binary channel (`export`/`bytes()` then `frombytes`/`_load`) -/
theorem C05_bloom_roundtrip (geom : Geom) (b : Bloom) (bytes : Bytes)
    (hlen : b.bits.length = Bloom.lengthOf b.m)
    (hg : GeomStable geom b.est b.fpr32 b.k b.m)
    (h : b.exportBytes = .ok bytes) : Bloom.load geom bytes = .ok b := by
  unfold Bloom.exportBytes at h
  split at h
  · rename_i f hf
    injection h with h; subst h
    unfold Bloom.load
    rw [lastN_append _ _ _ (pack_length _ _ _ hf), ofFooter_pack geom _ f _ _ _ _ _ _ hf hg]
    simp only [Bloom.bloomLength, bloomCell_size, Nat.one_mul]
    rw [take_append_of_length _ _ _ hlen]
  · cases h

/-- a second export of the reloaded filter gives exactly the same bytes -/
theorem C05_bloom_stable (geom : Geom) (b : Bloom) (bytes : Bytes)
    (hlen : b.bits.length = Bloom.lengthOf b.m)
    (hg : GeomStable geom b.est b.fpr32 b.k b.m)
    (h : b.exportBytes = .ok bytes) :
    ∃ b', Bloom.load geom bytes = .ok b' ∧ b'.exportBytes = .ok bytes :=
  ⟨b, C05_bloom_roundtrip geom b bytes hlen hg h, h⟩

/-- hex channel (`export_hex` then `_load_hex`) -/
theorem C05_bloom_hex_roundtrip (geom : Geom) (b : Bloom) (hex : List Char)
    (hlen : b.bits.length = Bloom.lengthOf b.m)
    (hbytes : ∀ x ∈ b.bits, x < 256)
    (hg : GeomStable geom b.est b.fpr32 b.k b.m)
    (h : b.exportHex = .ok hex) : Bloom.loadHex geom hex = .ok b := by
  unfold Bloom.exportHex at h
  split at h
  · rename_i f hf
    injection h with h; subst h
    have hfl : f.length = 20 := by rw [pack_length _ _ _ hf, bloomFooterHex_size]
    have htake : b.bits.take b.bloomLength = b.bits := List.take_of_length_le (by simp [Bloom.bloomLength, hlen])
    unfold Bloom.loadHex
    simp only [bloomFooterHex_size, htake]
    rw [lastN_append _ _ _ (by rw [hexlify_length, hfl])]
    rw [List.length_append, hexlify_length f, hfl, Nat.add_sub_cancel, List.take_left]
    rw [unhexlify_hexlify _ (pack_lt _ _ _ hf), unhexlify_hexlify _ hbytes]
    simp only [ofFooter_pack geom _ f _ _ _ _ _ _ hf hg]
  · cases h

/-- the hex text is the hex of the binary export's cell prefix, and decodes to it -/
theorem C05_bloom_hex_same_payload (b : Bloom) (hex : List Char) (bytes : Bytes)
    (hlen : b.bits.length = Bloom.lengthOf b.m)
    (hh : b.exportHex = .ok hex) (hb : b.exportBytes = .ok bytes) :
    hex.take (2 * b.bloomLength) = hexlify (bytes.take b.bloomLength) ∧
    ((∀ x ∈ b.bits, x < 256) → unhexlify (hex.take (2 * b.bloomLength)) = some (bytes.take b.bloomLength)) := by
  unfold Bloom.exportHex at hh
  unfold Bloom.exportBytes at hb
  split at hh
  · split at hb
    · injection hh with hh; injection hb with hb; subst hh; subst hb
      have hl : b.bits.length = b.bloomLength := hlen
      have htake : b.bits.take b.bloomLength = b.bits := List.take_of_length_le (by omega)
      rw [htake, take_append_of_length _ _ _ (by rw [hexlify_length, hl]), take_append_of_length _ _ _ hl]
      exact ⟨rfl, fun hx => unhexlify_hexlify _ hx⟩
    · cases hb
  · cases hh

/-- both channels carry the same footer values, in the byte order of their layout -/
theorem C05_bloom_hex_same_footer (b : Bloom) (hex : List Char) (bytes : Bytes)
    (hh : b.exportHex = .ok hex) (hb : b.exportBytes = .ok bytes) :
    (unhexlify (Bloom.lastN (2 * Gen.bloomFooterHex.size) hex)).map Gen.bloomFooterHex.unpack
      = some (Gen.bloomFooter.unpack (Bloom.lastN Gen.bloomFooter.size bytes)) := by
  unfold Bloom.exportHex at hh
  unfold Bloom.exportBytes at hb
  split at hh
  · rename_i fh hfh
    split at hb
    · rename_i fb hfb
      injection hh with hh; injection hb with hb; subst hh; subst hb
      have hfl : fh.length = 20 := by rw [pack_length _ _ _ hfh, bloomFooterHex_size]
      rw [lastN_append _ _ _ (pack_length _ _ _ hfb), bloomFooterHex_size,
        lastN_append _ _ _ (by rw [hexlify_length, hfl]), unhexlify_hexlify _ (pack_lt _ _ _ hfh)]
      simp only [Option.map_some, unpack_pack _ _ _ hfh, unpack_pack _ _ _ hfb]
    · cases hb
  · cases hh

/-! ### reachable Bloom states are well formed -/

theorem C05_bloom_new_wf (est fpr32 k m : Nat) (he : est < 2 ^ 64) (hf : fpr32 < 2 ^ 32) :
    BloomWF (Bloom.new est fpr32 k m) := by
  refine ⟨by simp [Bloom.new], ?_, he, hf, by simp [Bloom.new], by simp [Bloom.new]⟩
  intro x hx
  simp only [Bloom.new, List.mem_replicate] at hx
  omega

private theorem setBitB_lt (bs : Bytes) (k : Nat) (h : ∀ x ∈ bs, x < 256) : ∀ x ∈ setBitB bs k, x < 256 := by
  intro x hx
  unfold setBitB at hx
  rcases List.mem_or_eq_of_mem_set hx with hx | rfl
  · exact h x hx
  · have h1 : bs.getD (k / 8) 0 < 2 ^ 8 := by
      rw [List.getD_eq_getElem?_getD]
      cases hq : bs[k / 8]? with
      | none => simp
      | some v => simpa using h v (List.mem_of_getElem? hq)
    have h2 : 1 <<< (k % 8) < 2 ^ 8 := by
      rw [Nat.one_shiftLeft]; exact Nat.pow_lt_pow_right (by decide) (Nat.mod_lt _ (by decide))
    exact Nat.or_lt_two_pow h1 h2

private theorem foldl_setBitB_inv (ps : List Nat) (bs : Bytes) (n : Nat)
    (hl : bs.length = n) (h : ∀ x ∈ bs, x < 256) :
    (ps.foldl setBitB bs).length = n ∧ ∀ x ∈ ps.foldl setBitB bs, x < 256 := by
  induction ps generalizing bs with
  | nil => exact ⟨hl, h⟩
  | cons p ps ih =>
      simp only [List.foldl_cons]
      exact ih _ (by simp [setBitB, hl]) (setBitB_lt _ _ h)

/-- `add_alt` keeps the array shape and the byte range; the counter stays below 2^64 as long as
    fewer than 2^64 elements were added (beyond that the real `export` raises `struct.error`) -/
theorem C05_bloom_add_wf (b : Bloom) (hs : List Nat) (wf : BloomWF b) (hc : b.count + 1 < 2 ^ 64) :
    BloomWF (b.addAlt hs).1 := by
  have hinv := foldl_setBitB_inv (b.positions hs) b.bits _ wf.len wf.bytes
  have h0 := wf.cnt0; have h1 := wf.cnt1
  unfold Bloom.addAlt
  simp only
  split
  · exact ⟨hinv.1, hinv.2, wf.est, wf.fpr, wf.cnt0, wf.cnt1⟩
  · exact ⟨hinv.1, hinv.2, wf.est, wf.fpr, by simp only; omega, hc⟩

/-! ## counting Bloom filter -/

theorem C05_cbf_export_ok (c : CBF) (wf : CBFWF c) : ∃ bytes, c.exportBytes = .ok bytes := by
  have h1 := wf.est; have h2 := wf.fpr; have h3 := wf.cnt0; have h4 := wf.cnt1
  unfold CBF.exportBytes CBF.footerVals
  rw [bloomFooter_pack, if_neg (by omega), if_neg (by omega), if_neg (by omega)]
  exact ⟨_, rfl⟩

private theorem u32_range {cells : List Int} (h : ∀ x ∈ cells, 0 ≤ x ∧ x ≤ 4294967295) :
    ∀ c ∈ cells, Field.u32.lo ≤ c ∧ c ≤ Field.u32.hi := by
  intro c hc; simpa [Field.lo, Field.hi, Gen.uint32Max] using h c hc

theorem C05_cbf_roundtrip (geom : Geom) (c : CBF) (bytes : Bytes)
    (hlen : c.cells.length = c.m)
    (hcells : ∀ x ∈ c.cells, 0 ≤ x ∧ x ≤ 4294967295)
    (hg : GeomStable geom c.est c.fpr32 c.k c.m)
    (h : c.exportBytes = .ok bytes) : CBF.load geom bytes = .ok c := by
  unfold CBF.exportBytes at h
  split at h
  · rename_i f hf
    injection h with h; subst h
    unfold CBF.load
    rw [lastN_append _ _ _ (pack_length _ _ _ hf), ofFooter_pack geom _ f _ _ _ _ _ _ hf hg]
    simp only [cbfCell_size]
    rw [take_append_of_length _ _ _ (by rw [cellsBytes_length, hlen]; rfl)]
    rw [bytesCells_cellsBytes _ _ _ hlen.symm (u32_range hcells)]
  · cases h

theorem C05_cbf_stable (geom : Geom) (c : CBF) (bytes : Bytes)
    (hlen : c.cells.length = c.m)
    (hcells : ∀ x ∈ c.cells, 0 ≤ x ∧ x ≤ 4294967295)
    (hg : GeomStable geom c.est c.fpr32 c.k c.m)
    (h : c.exportBytes = .ok bytes) :
    ∃ c', CBF.load geom bytes = .ok c' ∧ c'.exportBytes = .ok bytes :=
  ⟨c, C05_cbf_roundtrip geom c bytes hlen hcells hg h, h⟩

theorem C05_cbf_hex_roundtrip (geom : Geom) (c : CBF) (hex : List Char)
    (hlen : c.cells.length = c.m)
    (hcells : ∀ x ∈ c.cells, 0 ≤ x ∧ x ≤ 4294967295)
    (hg : GeomStable geom c.est c.fpr32 c.k c.m)
    (h : c.exportHex = .ok hex) : CBF.loadHex geom hex = .ok c := by
  unfold CBF.exportHex at h
  split at h
  · rename_i f hf
    injection h with h; subst h
    have hfl : f.length = 20 := by rw [pack_length _ _ _ hf, bloomFooterHex_size]
    unfold CBF.loadHex
    simp only [bloomFooterHex_size]
    rw [lastN_append _ _ _ (by rw [hexlify_length, hfl])]
    rw [List.length_append, hexlify_length f, hfl, Nat.add_sub_cancel, List.take_left]
    rw [unhexlify_hexlify _ (pack_lt _ _ _ hf), unhexlify_hexlify _ (cellsBytes_lt _ _)]
    simp only [ofFooter_pack geom _ f _ _ _ _ _ _ hf hg, cbfCell_size, cellsBytes_length, Field.size]
    rw [if_neg (by simp)]
    rw [bytesCells_cellsBytes _ _ _ (by omega) (u32_range hcells)]
  · cases h

/-- the hex text is the hex of the binary export's cell prefix -/
theorem C05_cbf_hex_same_payload (c : CBF) (hex : List Char) (bytes : Bytes)
    (hh : c.exportHex = .ok hex) (hb : c.exportBytes = .ok bytes) :
    hex.take (2 * (4 * c.cells.length)) = hexlify (bytes.take (4 * c.cells.length)) ∧
    unhexlify (hex.take (2 * (4 * c.cells.length))) = some (bytes.take (4 * c.cells.length)) := by
  unfold CBF.exportHex at hh
  unfold CBF.exportBytes at hb
  split at hh
  · split at hb
    · injection hh with hh; injection hb with hb; subst hh; subst hb
      have hl : (cellsBytes .u32 c.cells).length = 4 * c.cells.length := by rw [cellsBytes_length]; rfl
      rw [take_append_of_length _ _ _ (by rw [hexlify_length, hl]), take_append_of_length _ _ _ hl]
      exact ⟨rfl, unhexlify_hexlify _ (cellsBytes_lt _ _)⟩
    · cases hb
  · cases hh

theorem C05_cbf_new_wf (est fpr32 k m : Nat) (he : est < 2 ^ 64) (hf : fpr32 < 2 ^ 32) :
    CBFWF (CBF.new est fpr32 k m) := by
  refine ⟨by simp [CBF.new], ?_, he, hf, by simp [CBF.new], by simp [CBF.new]⟩
  intro x hx
  simp only [CBF.new, List.mem_replicate] at hx
  omega

/-- `add_alt` (any hash list, any `num_els`) keeps the array shape and the cell range -/
theorem C05_cbf_add_wf (c : CBF) (hs : List Nat) (n : Int)
    (hlen : c.cells.length = c.m) (hcells : ∀ x ∈ c.cells, 0 ≤ x ∧ x ≤ 4294967295) :
    (c.addAlt hs n).1.cells.length = (c.addAlt hs n).1.m ∧
      ∀ x ∈ (c.addAlt hs n).1.cells, 0 ≤ x ∧ x ≤ 4294967295 := by
  obtain ⟨h1, h2, h3⟩ := cbf_addAlt_ok c hs n hcells
  exact ⟨by rw [h2, h3, hlen], h1⟩

/-- `remove_alt` with a non-negative `num_els` keeps the array shape and the cell range -/
theorem C05_cbf_remove_wf (c : CBF) (hs : List Nat) (n : Int) (hn : 0 ≤ n)
    (hlen : c.cells.length = c.m) (hcells : ∀ x ∈ c.cells, 0 ≤ x ∧ x ≤ 4294967295) :
    (c.removeAlt hs n).1.cells.length = (c.removeAlt hs n).1.m ∧
      ∀ x ∈ (c.removeAlt hs n).1.cells, 0 ≤ x ∧ x ≤ 4294967295 := by
  obtain ⟨h1, h2, h3⟩ := cbf_removeAlt_ok c hs n hn hcells
  exact ⟨by rw [h2, h3, hlen], h1⟩

/-! ## expanding and rotating Bloom filters -/

private theorem go_ok (blooms : List Bloom) (h : ∀ b ∈ blooms, 0 ≤ b.count ∧ b.count < 2 ^ 64) :
    ∃ body, Expanding.exportBytes.go blooms = .ok body := by
  induction blooms with
  | nil => exact ⟨_, rfl⟩
  | cons b bs ih =>
      obtain ⟨rest, hrest⟩ := ih (fun x hx => h x (List.mem_cons_of_mem _ hx))
      have hb := h b (by simp)
      simp only [Expanding.exportBytes.go, expCount_pack, hrest]
      rw [if_neg (by omega)]
      exact ⟨_, rfl⟩

theorem C05_expanding_export_ok (e : Expanding) (wf : ExpandingWF e) : ∃ bytes, e.exportBytes = .ok bytes := by
  obtain ⟨body, hbody⟩ := go_ok e.blooms wf.counts
  have h1 := wf.size; have h2 := wf.est; have h3 := wf.fpr; have h4 := wf.added0; have h5 := wf.added1
  unfold Expanding.exportBytes
  rw [hbody, expFooter_pack, if_neg (by omega), if_neg (by omega), if_neg (by omega), if_neg (by omega)]
  exact ⟨_, rfl⟩

theorem C05_expanding_roundtrip (geom : Geom) (e : Expanding) (bytes : Bytes)
    (hne : e.blooms ≠ [])
    (hsubs : SubsOK e)
    (hg : GeomStable geom e.est e.fpr32 e.k e.m)
    (h : e.exportBytes = .ok bytes) : Expanding.load geom bytes = .ok e := by
  unfold Expanding.exportBytes at h
  split at h
  · rename_i body f hbody hf
    injection h with h; subst h
    unfold Expanding.load
    rw [lastN_append _ _ _ (pack_length _ _ _ hf), unpack_pack _ _ _ hf]
    have hlen : 0 < e.blooms.length := List.length_pos_iff.mpr hne
    have hsz : ((e.blooms.length : Int) == 0) = false := by
      simp only [beq_eq_false_iff_ne, ne_eq]; omega
    simp only [hsz, Bool.false_eq_true, if_false, Int.toNat_natCast]
    have hg' : geom (e.est : Int) e.fpr32 = .ok (e.fpr32, e.k, e.m) := hg
    rw [hg']
    simp only [bloomCell_size, Nat.one_mul]
    have hp := parseBlooms_go (Bloom.new e.est e.fpr32 e.k e.m) (Bloom.lengthOf e.m) e.blooms body f
      (by intro b hb; simpa [Bloom.new] using hsubs b hb) hbody
    have : (Bloom.new e.est e.fpr32 e.k e.m).bloomLength = Bloom.lengthOf e.m := rfl
    rw [this, hp]
  · cases h
  · cases h

theorem C05_expanding_stable (geom : Geom) (e : Expanding) (bytes : Bytes)
    (hne : e.blooms ≠ []) (hsubs : SubsOK e)
    (hg : GeomStable geom e.est e.fpr32 e.k e.m)
    (h : e.exportBytes = .ok bytes) :
    ∃ e', Expanding.load geom bytes = .ok e' ∧ e'.exportBytes = .ok bytes :=
  ⟨e, C05_expanding_roundtrip geom e bytes hne hsubs hg h, h⟩

/-- the rotating filter shares the format; its queue limit is re-supplied by the caller -/
def Rotating.load (geom : Geom) (q : Int) (file : Bytes) : R Rotating :=
  match Expanding.load geom file with
  | .ok e => .ok { e with q := q }
  | .error x => .error x

theorem C05_rotating_roundtrip (geom : Geom) (r : Rotating) (bytes : Bytes)
    (hne : r.blooms ≠ []) (hsubs : SubsOK r.toExpanding)
    (hg : GeomStable geom r.est r.fpr32 r.k r.m)
    (h : r.toExpanding.exportBytes = .ok bytes) : Rotating.load geom r.q bytes = .ok r := by
  unfold Rotating.load
  rw [C05_expanding_roundtrip geom r.toExpanding bytes hne hsubs hg h]

theorem C05_expanding_new_wf (est fpr32 k m : Nat) (he : est < 2 ^ 64) (hf : fpr32 < 2 ^ 32) :
    ExpandingWF (Expanding.new est fpr32 k m) := by
  refine ⟨by simp [Expanding.new], ?_, ?_, by simp [Expanding.new], he, hf, by simp [Expanding.new],
    by simp [Expanding.new]⟩
  · intro b hb
    simp only [Expanding.new, List.mem_singleton] at hb
    subst hb; simp [Bloom.new, Expanding.new]
  · intro b hb
    simp only [Expanding.new, List.mem_singleton] at hb
    subst hb; simp [Bloom.new]

/-- growth (`push`, and the growth step of `add_alt`) keeps the sub-filters uniform -/
theorem C05_expanding_push_subs (e : Expanding) (h : SubsOK e) : SubsOK e.push := by
  intro b hb
  simp only [Expanding.push, List.mem_append, List.mem_singleton] at hb
  rcases hb with hb | hb
  · exact h b hb
  · rw [hb]; simp [Expanding.fresh, Bloom.new, Expanding.push]

/-- `add_alt` (growth included) keeps the sub-filters uniform and the list non-empty -/
theorem C05_expanding_add_wf (e : Expanding) (hs : List Nat) (force : Bool)
    (hne : e.blooms ≠ []) (hsubs : SubsOK e) :
    (e.addAlt hs force).1.blooms ≠ [] ∧ SubsOK (e.addAlt hs force).1 :=
  let h := expanding_addAlt_ok e hs force hsubs hne
  ⟨h.2, h.1⟩

/-- rotating filter: `add_alt` (rotation included), `push` and `pop` keep the sub-filters uniform,
    the queue non-empty and the queue limit -/
theorem C05_rotating_add_wf (r : Rotating) (hs : List Nat) (force : Bool)
    (hne : r.blooms ≠ []) (hsubs : SubsOK r.toExpanding) :
    (r.addAlt hs force).1.blooms ≠ [] ∧ SubsOK (r.addAlt hs force).1.toExpanding ∧ (r.addAlt hs force).1.q = r.q :=
  let h := rotating_addAlt_ok r hs force hsubs hne
  ⟨h.2.1, h.1, h.2.2⟩

theorem C05_rotating_push_wf (r : Rotating) (hne : r.blooms ≠ []) (hsubs : SubsOK r.toExpanding) :
    r.push.blooms ≠ [] ∧ SubsOK r.push.toExpanding ∧ r.push.q = r.q := by
  obtain ⟨h1, h2, g1, g2, g3, g4, g5⟩ := rotate_ok r true hsubs hne
  refine ⟨h2, ?_, g5⟩
  intro b hb
  have := h1 b hb
  unfold Rotating.push
  rw [g1, g2, g3, g4]
  exact this

theorem C05_rotating_pop_wf (r r' : Rotating) (hsubs : SubsOK r.toExpanding) (hne : r.blooms ≠ [])
    (hp : r.pop = .ok r') :
    r'.blooms ≠ [] ∧ SubsOK r'.toExpanding ∧ r'.q = r.q := by
  unfold Rotating.pop at hp
  split at hp
  · cases hp
  · rename_i hlen
    injection hp with hp; subst hp
    refine ⟨?_, fun b hb => hsubs b (List.mem_of_mem_drop hb), rfl⟩
    simp only [ne_eq, List.drop_eq_nil_iff, Nat.not_le]
    have : r.blooms.length ≠ 1 := by simpa using hlen
    have : 0 < r.blooms.length := List.length_pos_iff.mpr hne
    omega

/-! ## count-min sketch family -/

theorem C05_cms_export_ok (c : CMS) (wf : CMSWF c) : ∃ bytes, c.exportBytes = .ok bytes := by
  have h1 := wf.w; have h2 := wf.d; have h3 := wf.total0; have h4 := wf.total1
  unfold CMS.exportBytes
  rw [cmsFooter_pack, if_neg (by omega), if_neg (by omega), if_neg (by omega)]
  exact ⟨_, rfl⟩

/-- the loader rebuilds the receiver's class: the query mode is re-supplied -/
theorem C05_cms_roundtrip (mode : Mode) (c : CMS) (bytes : Bytes)
    (hlen : c.bins.length = c.w * c.d)
    (hbins : ∀ x ∈ c.bins, -2147483648 ≤ x ∧ x ≤ 2147483647)
    (h : c.exportBytes = .ok bytes) : CMS.load mode bytes = .ok { c with mode := mode } := by
  unfold CMS.exportBytes at h
  split at h
  · rename_i f hf
    injection h with h; subst h
    unfold CMS.load
    rw [cms_lastN_append _ _ _ (pack_length _ _ _ hf), unpack_pack _ _ _ hf]
    have hcl : (cellsBytes .i32 c.bins).length = 4 * (c.w * c.d) := by rw [cellsBytes_length, hlen]; rfl
    simp only [cmsCell_size, Int.toNat_natCast]
    rw [take_append_of_length _ _ _ hcl, hcl]
    rw [if_neg (by simp)]
    rw [bytesCells_cellsBytes _ _ _ (by omega)
      (by intro x hx; simpa [Field.lo, Field.hi, Gen.int32Min, Gen.int32Max] using hbins x hx)]
  · cases h

theorem C05_cms_roundtrip_same_mode (c : CMS) (bytes : Bytes)
    (hlen : c.bins.length = c.w * c.d)
    (hbins : ∀ x ∈ c.bins, -2147483648 ≤ x ∧ x ≤ 2147483647)
    (h : c.exportBytes = .ok bytes) : CMS.load c.mode bytes = .ok c :=
  C05_cms_roundtrip c.mode c bytes hlen hbins h

theorem C05_cms_stable (mode : Mode) (c : CMS) (bytes : Bytes)
    (hlen : c.bins.length = c.w * c.d)
    (hbins : ∀ x ∈ c.bins, -2147483648 ≤ x ∧ x ≤ 2147483647)
    (h : c.exportBytes = .ok bytes) :
    ∃ c', CMS.load mode bytes = .ok c' ∧ c'.exportBytes = .ok bytes :=
  ⟨_, C05_cms_roundtrip mode c bytes hlen hbins h, h⟩

theorem C05_cms_new_wf (w d : Nat) (mode : Mode) (hw : w < 2 ^ 32) (hd : d < 2 ^ 32) :
    CMSWF (CMS.new w d mode) := by
  refine ⟨by simp [CMS.new], ?_, hw, hd, by simp [CMS.new], by simp [CMS.new]⟩
  intro x hx
  simp only [CMS.new, List.mem_replicate] at hx
  omega

/-- `add_alt` / `remove_alt` (any hash list, any `num_els`) keep the array shape and the int32 range -/
theorem C05_cms_add_wf (c : CMS) (hs : List Nat) (n : Int)
    (hlen : c.bins.length = c.w * c.d) (hbins : ∀ x ∈ c.bins, -2147483648 ≤ x ∧ x ≤ 2147483647) :
    (c.addAlt hs n).1.bins.length = (c.addAlt hs n).1.w * (c.addAlt hs n).1.d ∧
      ∀ x ∈ (c.addAlt hs n).1.bins, -2147483648 ≤ x ∧ x ≤ 2147483647 := by
  obtain ⟨h1, h2, h3, h4⟩ := cms_addAlt_ok c hs n hbins
  exact ⟨by rw [h2, h3, h4, hlen], h1⟩

theorem C05_cms_remove_wf (c : CMS) (hs : List Nat) (n : Int)
    (hlen : c.bins.length = c.w * c.d) (hbins : ∀ x ∈ c.bins, -2147483648 ≤ x ∧ x ≤ 2147483647) :
    (c.removeAlt hs n).1.bins.length = (c.removeAlt hs n).1.w * (c.removeAlt hs n).1.d ∧
      ∀ x ∈ (c.removeAlt hs n).1.bins, -2147483648 ≤ x ∧ x ≤ 2147483647 := by
  obtain ⟨h1, h2, h3, h4⟩ := cms_removeAlt_ok c hs n hbins
  exact ⟨by rw [h2, h3, h4, hlen], h1⟩

/-! ## cuckoo and counting cuckoo filters -/

private theorem cuckoo_export_eq (c : Cuckoo) : c.exportBytes =
    if c.buckets.any (fun bkt => bkt.any fun bin => bin.1 ≥ 2 ^ 32 ∨ bin.2 ≥ 2 ^ 32) then .error .overflow
    else
      match Gen.cuckooFooter.pack [c.b, c.maxSwaps] with
      | .ok f => .ok (c.buckets.flatMap (bucketBytes c.counting c.b) ++ f)
      | .error e => .error e := rfl

theorem C05_cuckoo_export_ok (c : Cuckoo) (fits : CuckooFits c) : ∃ bytes, c.exportBytes = .ok bytes := by
  have h1 := fits.blt; have h2 := fits.swaps
  rw [cuckoo_export_eq, if_neg]
  · rw [cuckooFooter_pack, if_neg (by omega), if_neg (by omega)]
    exact ⟨_, rfl⟩
  · simp only [List.any_eq_true, decide_eq_true_eq, not_exists, not_and]
    intro bkt hbkt bin hbin
    have := fits.bins bkt hbkt bin hbin
    omega

/-- conversely a successful export means everything fitted -/
theorem C05_cuckoo_export_fits (c : Cuckoo) (bytes : Bytes) (h : c.exportBytes = .ok bytes) : CuckooFits c := by
  rw [cuckoo_export_eq] at h
  split at h
  · cases h
  · rename_i hany
    rw [cuckooFooter_pack] at h
    have hbins : ∀ bkt ∈ c.buckets, ∀ bin ∈ bkt, bin.1 < 2 ^ 32 ∧ bin.2 < 2 ^ 32 := by
      simp only [List.any_eq_true, decide_eq_true_eq, not_exists, not_and] at hany
      intro bkt hbkt bin hbin
      have := hany bkt hbkt bin hbin
      omega
    by_cases h1 : (c.b : Int) < 0 ∨ (c.b : Int) > 4294967295
    · rw [if_pos h1] at h; cases h
    · by_cases h2 : (c.maxSwaps : Int) < 0 ∨ (c.maxSwaps : Int) > 4294967295
      · rw [if_neg h1, if_pos h2] at h; cases h
      · exact ⟨by omega, by omega, hbins⟩

/-- the table, the bucket size and the swap limit come back; the two element counters are
    recomputed from the table.  What the format does not store (`rate`, `auto`, `fpBits`, and which
    of the two classes) comes from the `template` the caller constructs -/
theorem C05_cuckoo_roundtrip_table (template c : Cuckoo) (bytes : Bytes) (wf : CuckooTableWF c)
    (ht : template.counting = c.counting)
    (h : c.exportBytes = .ok bytes) :
    Cuckoo.load template bytes =
      .ok { template with cap := c.cap, b := c.b, maxSwaps := c.maxSwaps, buckets := c.buckets,
                          count := (binCount c.buckets : Int),
                          unique := if c.counting then (binNumber c.buckets : Int) else 0 } := by
  have fits := C05_cuckoo_export_fits c bytes h
  have hbk : ∀ bkt ∈ c.buckets, bkt.length ≤ c.b ∧ ∀ bin ∈ bkt, BinOK c.counting bin := by
    intro bkt hbkt
    refine ⟨(wf.bkts bkt hbkt).1, fun bin hbin => ?_⟩
    have h1 := (wf.bkts bkt hbkt).2 bin hbin
    have h2 := fits.bins bkt hbkt bin hbin
    exact ⟨h1.1, h2.1, h2.2, h1.2⟩
  rw [cuckoo_export_eq] at h
  split at h
  · cases h
  · split at h
    · rename_i f hf
      injection h with h; subst h
      have hfl : f.length = 8 := by rw [pack_length _ _ _ hf, cuckooFooter_size]
      have hbl := body_length c.counting c.b c.buckets (fun bkt hb => (wf.bkts bkt hb).1)
      have hbpos := wf.bpos
      unfold Cuckoo.load
      simp only [cuckooFooter_size, List.length_append, hfl, Nat.add_sub_cancel]
      rw [if_neg (by omega), List.drop_left, unpack_pack _ _ _ hf]
      simp only [Int.toNat_natCast]
      have hb0 : (c.b == 0) = false := by simp only [beq_eq_false_iff_ne, ne_eq]; omega
      simp only [hb0, Bool.false_eq_true, if_false, ht]
      have hcap : (c.buckets.flatMap (bucketBytes c.counting c.b)).length / (if c.counting = true then 8 else 4) / c.b
          = c.buckets.length := by
        rw [hbl, Nat.div_div_eq_div_mul]
        have : cuckooW c.counting = if c.counting = true then 8 else 4 := rfl
        rw [← this]
        exact Nat.mul_div_cancel _ (Nat.mul_pos (by unfold cuckooW; split <;> decide) hbpos)
      rw [hcap, parseBuckets_body c.counting c.b c.buckets f hbk, wf.cap]
      rfl
    · cases h

/-- with the counters' bookkeeping (`count = Σ counts`, `unique = number of bins`) the loaded
    filter has the same counters -/
theorem C05_cuckoo_roundtrip (template c : Cuckoo) (bytes : Bytes) (wf : CuckooWF c)
    (ht : template.counting = c.counting)
    (h : c.exportBytes = .ok bytes) :
    Cuckoo.load template bytes =
      .ok { template with cap := c.cap, b := c.b, maxSwaps := c.maxSwaps, buckets := c.buckets,
                          count := c.count, unique := c.unique } := by
  rw [C05_cuckoo_roundtrip_table template c bytes wf.toCuckooTableWF ht h, wf.count, wf.unique]

/-- re-supplying the filter's own settings gives the filter back -/
theorem C05_cuckoo_roundtrip_self (c : Cuckoo) (bytes : Bytes) (wf : CuckooWF c)
    (h : c.exportBytes = .ok bytes) : Cuckoo.load c bytes = .ok c :=
  C05_cuckoo_roundtrip c c bytes wf rfl h

theorem C05_cuckoo_stable (template c : Cuckoo) (bytes : Bytes) (wf : CuckooTableWF c)
    (ht : template.counting = c.counting) (h : c.exportBytes = .ok bytes) :
    ∃ c', Cuckoo.load template bytes = .ok c' ∧ c'.exportBytes = .ok bytes := by
  refine ⟨_, C05_cuckoo_roundtrip_table template c bytes wf ht h, ?_⟩
  rw [cuckoo_export_eq] at h ⊢
  simpa [ht] using h

/-- the reloaded table is again well formed (so it can be exported and reloaded again, and the
    structural clauses of the table invariant C15 carry over to loaded filters) -/
theorem C05_cuckoo_loaded_wf (template c c' : Cuckoo) (bytes : Bytes) (wf : CuckooTableWF c)
    (ht : template.counting = c.counting) (h : c.exportBytes = .ok bytes)
    (hl : Cuckoo.load template bytes = .ok c') :
    CuckooWF c' ∧ c'.buckets = c.buckets ∧ c'.cap = c.cap ∧ c'.b = c.b ∧ c'.maxSwaps = c.maxSwaps ∧
      c'.rate = template.rate ∧ c'.auto = template.auto ∧ c'.fpBits = template.fpBits ∧
      c'.counting = template.counting := by
  rw [C05_cuckoo_roundtrip_table template c bytes wf ht h] at hl
  injection hl with hl
  subst hl
  refine ⟨⟨⟨wf.cap, wf.bpos, ?_⟩, rfl, ?_⟩, rfl, rfl, rfl, rfl, rfl, rfl, rfl, rfl⟩
  · simpa [ht] using wf.bkts
  · simp [ht]

theorem C05_cuckoo_new_wf (counting : Bool) (cap b maxSwaps rate : Nat) (auto : Bool) (fpBits : Nat)
    (hb0 : 0 < b) :
    CuckooWF (Cuckoo.new counting cap b maxSwaps rate auto fpBits) := by
  refine ⟨⟨by simp [Cuckoo.new], hb0, ?_⟩, ?_, ?_⟩
  · intro bkt hbkt
    simp only [Cuckoo.new, List.mem_replicate] at hbkt
    rw [hbkt.2]; simp
  · simp [Cuckoo.new, binCount]
  · simp [Cuckoo.new, binNumber]

/-! ### reachable cuckoo states satisfy the well-formedness of the round trip -/

section Reachable
open PyProb.Cuckoo

/-- the table invariant of C15 together with the counters' bookkeeping gives `CuckooWF` -/
theorem C05_cuckoo_wf_of_inv (G : Nat → Nat) (c : Cuckoo) (hinv : C15.Inv G c) (ha : Acct c) : CuckooWF c := by
  obtain ⟨hlen, _, hb, _, hsize, _, _, _, hplain⟩ := hinv
  refine ⟨⟨hlen, hb, ?_⟩, ?_, ?_⟩
  · intro bkt hbkt
    refine ⟨hsize bkt hbkt, fun bin hbin => ⟨?_, fun hc => hplain hc bin (List.mem_flatten.mpr ⟨bkt, hbkt, hbin⟩)⟩⟩
    have hst : stored c bin := List.mem_flatten.mpr ⟨bkt, hbkt, hbin⟩
    by_cases h0 : bin.1 = 0
    · have : 0 < tsum (isFp 0) c := (tsum_pos_iff _ _).mpr ⟨bin, hst, by simp [isFp, h0]⟩
      have := ha.fpPos
      omega
    · omega
  · rw [ha.count]; rfl
  · rw [ha.unique]
    unfold uInc binNumber
    have : tsum (fun _ => 1) c = (c.buckets.map List.length).sum := by
      unfold tsum; congr 1
      exact List.map_congr_left (fun bkt _ => bsum_one_length bkt)
    rw [this]
    split <;> simp

theorem C05_cuckoo_acct_init (counting : Bool) (cap b maxSwaps rate : Nat) (auto : Bool) (fpBits : Nat) :
    Acct (Cuckoo.new counting cap b maxSwaps rate auto fpBits) := acct_new _ _ _ _ _ _ _

/-- every public operation keeps the bookkeeping, whether it returns normally or raises -/
theorem C05_cuckoo_acct_step (G : Nat → Nat) (c : Cuckoo) (op : C15.Op × List Nat)
    (hinv : C15.Inv G c) (ha : Acct c) : Acct (C15.step G c op) := by
  have hw := (C15.inv_iff_wf G c).mp hinv
  obtain ⟨op, oracle⟩ := op
  cases op with
  | add h => exact acct_add h oracle hw ha
  | remove h => exact acct_remove h hw ha
  | expand => exact acct_expand oracle hw ha

theorem C05_cuckoo_acct_run (G : Nat → Nat) (c : Cuckoo) (ops : List (C15.Op × List Nat))
    (hinv : C15.Inv G c) (ha : Acct c) : Acct (C15.run G c ops) := by
  unfold C15.run
  induction ops generalizing c with
  | nil => exact ha
  | cons op ops ih => exact ih (C15.step G c op) (C15.C15_step G c op hinv) (C05_cuckoo_acct_step G c op hinv ha)

/-- every state reachable from a fresh filter by any history of add / remove / expand (any second
    hash `G`, any oracles) that can be exported at all is reproduced exactly by loading its export -/
theorem C05_cuckoo_roundtrip_reachable (G : Nat → Nat) (counting : Bool) (cap b maxSwaps rate : Nat)
    (auto : Bool) (fpBits : Nat) (hcap : 0 < cap) (hb : 0 < b) (hrate : 0 < rate)
    (ops : List (C15.Op × List Nat)) (bytes : Bytes)
    (h : (C15.run G (Cuckoo.new counting cap b maxSwaps rate auto fpBits) ops).exportBytes = .ok bytes) :
    Cuckoo.load (C15.run G (Cuckoo.new counting cap b maxSwaps rate auto fpBits) ops) bytes =
      .ok (C15.run G (Cuckoo.new counting cap b maxSwaps rate auto fpBits) ops) := by
  have hinv0 := C15.C15_init G counting cap b maxSwaps rate auto fpBits hcap hb hrate
  have hinv := C15.C15_run G _ ops hinv0
  have ha := C05_cuckoo_acct_run G _ ops hinv0 (C05_cuckoo_acct_init counting cap b maxSwaps rate auto fpBits)
  exact C05_cuckoo_roundtrip_self _ bytes (C05_cuckoo_wf_of_inv G _ hinv ha) h

/-- the clause of C15 about loaded filters: what `load` builds from the export of a filter
    satisfying the table invariant satisfies the invariant (and the bookkeeping) again -/
theorem C05_cuckoo_loaded_inv (G : Nat → Nat) (template c c' : Cuckoo) (bytes : Bytes)
    (hinv : C15.Inv G c) (ha : Acct c) (ht : template.counting = c.counting) (hr : 0 < template.rate)
    (h : c.exportBytes = .ok bytes) (hl : Cuckoo.load template bytes = .ok c') :
    C15.Inv G c' ∧ Acct c' := by
  have wf := C05_cuckoo_wf_of_inv G c hinv ha
  rw [C05_cuckoo_roundtrip template c bytes wf ht h] at hl
  injection hl with hl
  subst hl
  obtain ⟨hlen, hcap, hb, _, hsize, hpos, hnd, hcnt, hplain⟩ := hinv
  refine ⟨⟨hlen, hcap, hb, hr, hsize, hpos, hnd, hcnt, ?_⟩, ⟨ha.fpPos, ha.count, ?_⟩⟩
  · intro hc; exact hplain (ht ▸ hc)
  · have hu := ha.unique
    unfold uInc at hu ⊢
    simp only [ht]
    exact hu

end Reachable

/-! ## non-vacuity: concrete states, exported and reloaded (tests) -/

/-- a geometry function for the examples: est 10, some rate pattern ↦ k = 3, m = 13 -/
private def g13 : Geom := fun _ f => .ok (f, 3, 13)

private def b13 : Bloom := ⟨10, 1028443341, 3, 13, [0x25, 0x11], 2⟩
example : BloomWF b13 := ⟨rfl, by decide, by decide, by decide, by decide, by decide⟩
example : Bloom.load g13 (b13.exportBytes.toOption.getD []) = .ok b13 := by rfl
example : ∃ bytes, b13.exportBytes = .ok bytes ∧ bytes.length = 22 ∧ Bloom.load g13 bytes = .ok b13 := by
  obtain ⟨bytes, h⟩ := C05_bloom_export_ok b13 ⟨rfl, by decide, by decide, by decide, by decide, by decide⟩
  refine ⟨bytes, h, ?_, C05_bloom_roundtrip g13 b13 bytes rfl rfl h⟩
  have : b13.exportBytes = .ok (b13.exportBytes.toOption.getD []) := by rfl
  rw [this] at h; injection h with h; rw [← h]; decide
example : Bloom.loadHex g13 (b13.exportHex.toOption.getD []) = .ok b13 := by rfl

private def c5 : CBF := ⟨10, 1028443341, 3, 5, [0, 7, 4294967295, 1, 0], 8⟩
example : CBF.load (fun _ f => .ok (f, 3, 5)) (c5.exportBytes.toOption.getD []) = .ok c5 := by rfl
example : CBF.loadHex (fun _ f => .ok (f, 3, 5)) (c5.exportHex.toOption.getD []) = .ok c5 := by rfl

private def e2 : Expanding :=
  ⟨10, 1028443341, 3, 13, [⟨10, 1028443341, 3, 13, [0xff, 0x1f], 10⟩, ⟨10, 1028443341, 3, 13, [1, 0], 1⟩], 11⟩
example : e2.blooms ≠ [] ∧ SubsOK e2 := ⟨by decide, by decide⟩
example : Expanding.load g13 (e2.exportBytes.toOption.getD []) = .ok e2 := by rfl

private def s23 : CMS := ⟨2, 3, [1, -2147483648, 0, 2147483647, -1, 5], -7, .mean⟩
example : CMS.load .mean (s23.exportBytes.toOption.getD []) = .ok s23 := by rfl

/-- partially filled buckets, an empty bucket, a full bucket -/
private def k3 : Cuckoo := ⟨false, 3, 2, 500, 2, true, 8, [[(7, 1)], [], [(255, 1), (1, 1)]], 3, 0⟩
example : CuckooWF k3 := ⟨⟨rfl, by decide, by decide⟩, by decide, by decide⟩
example : Cuckoo.load k3 (k3.exportBytes.toOption.getD []) = .ok k3 := by rfl

private def kc3 : Cuckoo := ⟨true, 3, 2, 500, 2, true, 8, [[(7, 4)], [], [(255, 1), (1, 9)]], 14, 3⟩
example : CuckooWF kc3 := ⟨⟨rfl, by decide, by decide⟩, by decide, by decide⟩
example : Cuckoo.load kc3 (kc3.exportBytes.toOption.getD []) = .ok kc3 := by rfl

/-- a reachable plain filter (kicks and a removal included) and a reachable counting filter -/
example :
    let c := C15.run (fun x => x / 3) (Cuckoo.new false 2 2 10 2 false 8)
      [(.add 5, [0, 1]), (.add 77, [1]), (.add 9, [1, 0, 1]), (.remove 5, []), (.add 300, []), (.add 1024, [0, 0, 1])]
    Cuckoo.load c (c.exportBytes.toOption.getD []) = .ok c :=
  C05_cuckoo_roundtrip_reachable _ false 2 2 10 2 false 8 (by decide) (by decide) (by decide) _ _ (by rfl)
example :
    let c := C15.run (fun x => x / 3) (Cuckoo.new true 2 1 10 2 true 8)
      [(.add 5, [0, 1]), (.add 5, []), (.add 9, [1, 0, 1]), (.add 7, [0, 1, 1, 0]), (.remove 5, []), (.expand, [])]
    Cuckoo.load c (c.exportBytes.toOption.getD []) = .ok c :=
  C05_cuckoo_roundtrip_reachable _ true 2 1 10 2 true 8 (by decide) (by decide) (by decide) _ _ (by rfl)

/-- the excluded case is real: a stored fingerprint 0 (impossible in the fixed code) is lost -/
example : (Cuckoo.load k3 (({ k3 with buckets := [[(0, 1)], [], []], count := 1 } : Cuckoo).exportBytes.toOption.getD [])).toOption.map
    (fun c => (c.buckets, c.count)) = some ([[], [], []], 0) := by rfl

end PyProb.C05
