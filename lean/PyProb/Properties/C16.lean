/-
  C16 — Counters saturate at their integer limits instead of wrapping or failing.

  Proved here, about the models `PyProb.CMS` (countminsketch.py) and `PyProb.CBF`
  (countingbloom.py), for ALL amounts `n ≥ 1` (unbounded `Int`, in particular beyond 2^64), all
  geometries, all hash lists, all reachable (= well-formed) states:

  count-min half (`Inv` = length `w*d`, every bin in [-2^31, 2^31-1], total in the int64 range)
  * `C16_cms_new/add_inv/remove_inv/join_inv/clear_inv`, `C16_cms_history` : `Inv` holds initially and is
    preserved by every operation, hence along every history (no constraint on the hash lists).
  * `C16_cms_add_state`, `C16_cms_remove_state` : the new table in closed form — a touched bin is
    `max (-2^31) (min (2^31-1) (old ± n))`, an untouched bin is unchanged (no half update), the
    total is clamped into the 64-bit range, geometry and mode unchanged.
  * `C16_cms_add_ok`, `C16_cms_remove_ok` : the call returns `.ok` (never an error) in every query
    mode in which `check` itself is defined (`min`, `mean`; `mean-min` needs `w ≠ 1`, the code
    divides by `w-1`), and the returned value is `check` of the new state;
    `C16_cms_add_min`, `C16_cms_remove_min` : in `min` mode it is the least new touched bin;
    `C16_cms_add_pinned` : if every touched bin crosses the limit the call returns `2^31-1`.
  * `C16_cms_join`, `C16_cms_join_limit`, `C16_cms_join_mismatch` : `join` returns `.ok`, bin `j`
    is `joinCell old other`, in range; a bin already at a limit is left untouched.
  * `C16_cms_export`, `C16_cms_history_export` : `exportBytes` succeeds when `w, d < 2^32`.

  counting-Bloom half (`CInv` = `m > 0` cells, every cell in [0, 2^32-1])
  * `C16_cbf_add` : `add_alt` returns `.ok`, the cell `j` becomes
    `min (2^32-1) (old + n * (number of the key's k positions equal to j))` (coinciding positions are
    incremented once per occurrence, clamped), `CInv` is kept, count = `min (count+n) (2^64-1)`;
    `C16_cbf_add_pinned` : returns `2^32-1` when all touched cells cross the limit.
  * `C16_cbf_remove_frozen` : `remove_alt` never changes a cell that is at `2^32-1` (any branch,
    including the error branch); `C16_cbf_remove_at_limit` : if the least touched cell is at the
    limit the call returns `2^32-1` and the filter is unchanged; `C16_cbf_remove_inv`.
  * `C16_cbf_union`, `C16_cbf_intersection` : return `some`, cells are the clamped sums, in range.
  * `C16_cbf_history` : `CInv` along every history of add / remove / union / intersection / clear;
    `C16_cbf_add_export` : after an add the footer can be packed (count within uint64).

  Not proved here: export/load round trip (C05), behaviour for `n ≤ 0`.
-/
import PyProb.Lemmas.CmsCore
import PyProb.Lemmas.Saturation

namespace PyProb.C16
open PyProb CmsCore Saturation

/-! ## count-min sketch -/

/-- well-formed sketch: what `new` establishes and every operation keeps -/
def Inv (c : CMS) : Prop :=
  c.bins.length = c.w * c.d ∧ (∀ v ∈ c.bins, Gen.int32Min ≤ v ∧ v ≤ Gen.int32Max) ∧
    Gen.int64Min ≤ c.total ∧ c.total ≤ Gen.int64Max

private theorem Inv.getD {c : CMS} (h : Inv c) (k : Nat) :
    Gen.int32Min ≤ c.bins.getD k 0 ∧ c.bins.getD k 0 ≤ Gen.int32Max := by
  rw [List.getD_eq_getElem?_getD]
  cases e : c.bins[k]? with
  | none => simp [Gen.int32Min, Gen.int32Max]
  | some x => exact h.2.1 x (List.mem_of_getElem? e)

theorem C16_cms_new (w d : Nat) (mode : Mode) : Inv (CMS.new w d mode) := by
  refine ⟨by simp [CMS.new], ?_, by simp [CMS.new, Gen.int64Min], by simp [CMS.new, Gen.int64Max]⟩
  intro v hv
  have := (List.mem_replicate.1 hv).2
  subst this; simp [Gen.int32Min, Gen.int32Max]

/-- the saturated 32-bit value, as in the property text -/
private theorem clamp32_def (v : Int) : clamp32 v = max Gen.int32Min (min Gen.int32Max v) := rfl

private theorem add_lo {c : CMS} (hI : Inv c) (hs : List Nat) {n : Int} (hn : 1 ≤ n) :
    ∀ x ∈ c.binIdx hs, Gen.int32Min ≤ c.bins.getD x 0 + n := by
  intro x _; have := (hI.getD x).1; omega

private theorem rem_hi {c : CMS} (hI : Inv c) (hs : List Nat) {n : Int} (hn : 1 ≤ n) :
    ∀ x ∈ c.binIdx hs, c.bins.getD x 0 - n ≤ Gen.int32Max := by
  intro x _; have := (hI.getD x).2; omega

private theorem inv_bump {c : CMS} (hI : Inv c) (hs : List Nat) (δ t : Int)
    (h0 : Gen.int64Min ≤ t) (h1 : t ≤ Gen.int64Max) :
    Inv { c with bins := bumpBins c hs δ, total := t } :=
  ⟨by simp only [bumpBins_length]; exact hI.1, bumpBins_range c hs δ hI.2.1, h0, h1⟩

/-- state after `add_alt` when `d` hashes are supplied: closed form, nothing half-updated -/
theorem C16_cms_add_state (c : CMS) (hs : List Nat) (n : Int) (hI : Inv c) (hw : 0 < c.w)
    (hl : hs.length = c.d) (hn : 1 ≤ n) :
    (c.addAlt hs n).1.w = c.w ∧ (c.addAlt hs n).1.d = c.d ∧ (c.addAlt hs n).1.mode = c.mode ∧
    (c.addAlt hs n).1.bins.length = c.w * c.d ∧
    (∀ j, j < c.w * c.d → (c.addAlt hs n).1.bins[j]? =
      some (if j ∈ c.binIdx hs then max Gen.int32Min (min Gen.int32Max (c.bins.getD j 0 + n))
            else c.bins.getD j 0)) ∧
    (c.addAlt hs n).1.total = max Gen.int64Min (min Gen.int64Max (c.total + n)) := by
  have hany := binIdx_any_false c hs hw (by omega) hI.1
  rw [addAlt_eq c hs n hany (add_lo hI hs hn)]
  refine ⟨rfl, rfl, rfl, by simp only [bumpBins_length]; exact hI.1, ?_, ?_⟩
  · intro j hj
    exact bumpBins_getElem? c hs n j (by rw [hI.1]; exact hj)
  · have := hI.2.2.1; simp only [Gen.int64Min, Gen.int64Max] at *; omega

/-- state after `remove_alt` -/
theorem C16_cms_remove_state (c : CMS) (hs : List Nat) (n : Int) (hI : Inv c) (hw : 0 < c.w)
    (hl : hs.length = c.d) (hn : 1 ≤ n) :
    (c.removeAlt hs n).1.w = c.w ∧ (c.removeAlt hs n).1.d = c.d ∧
    (c.removeAlt hs n).1.mode = c.mode ∧ (c.removeAlt hs n).1.bins.length = c.w * c.d ∧
    (∀ j, j < c.w * c.d → (c.removeAlt hs n).1.bins[j]? =
      some (if j ∈ c.binIdx hs then max Gen.int32Min (min Gen.int32Max (c.bins.getD j 0 - n))
            else c.bins.getD j 0)) ∧
    (c.removeAlt hs n).1.total = max Gen.int64Min (min Gen.int64Max (c.total - n)) := by
  have hany := binIdx_any_false c hs hw (by omega) hI.1
  rw [removeAlt_eq c hs n hany (rem_hi hI hs hn)]
  refine ⟨rfl, rfl, rfl, by simp only [bumpBins_length]; exact hI.1, ?_, ?_⟩
  · intro j hj
    have := bumpBins_getElem? c hs (-n) j (by rw [hI.1]; exact hj)
    simpa only [clamp32_def, ← Int.sub_eq_add_neg] using this
  · have := hI.2.2.2; simp only [Gen.int64Min, Gen.int64Max] at *; omega

/-- which bins are touched: row `i` at column `hashes[i] % w` -/
theorem C16_cms_touched (c : CMS) (hs : List Nat) (j : Nat) :
    j ∈ c.binIdx hs ↔ ∃ i, ∃ h : i < hs.length, j = hs[i] % c.w + i * c.w := mem_binIdx c hs j

/-- `add_alt` keeps the invariant, whatever hash list is supplied -/
theorem C16_cms_add_inv (c : CMS) (hs : List Nat) (n : Int) (hI : Inv c) (hn : 1 ≤ n) :
    Inv (c.addAlt hs n).1 ∧ (c.addAlt hs n).1.w = c.w ∧ (c.addAlt hs n).1.d = c.d := by
  cases hany : (c.binIdx hs).any (· ≥ c.bins.length) with
  | true => simp [CMS.addAlt, hany, hI]
  | false =>
      rw [addAlt_eq c hs n hany (add_lo hI hs hn)]
      refine ⟨inv_bump hI hs n _ ?_ ?_, rfl, rfl⟩
      · have := hI.2.2.1; simp only [Gen.int64Min, Gen.int64Max] at *; omega
      · simp only [Gen.int64Max]; omega

theorem C16_cms_remove_inv (c : CMS) (hs : List Nat) (n : Int) (hI : Inv c) (hn : 1 ≤ n) :
    Inv (c.removeAlt hs n).1 ∧ (c.removeAlt hs n).1.w = c.w ∧ (c.removeAlt hs n).1.d = c.d := by
  cases hany : (c.binIdx hs).any (· ≥ c.bins.length) with
  | true => simp [CMS.removeAlt, hany, hI]
  | false =>
      rw [removeAlt_eq c hs n hany (rem_hi hI hs hn)]
      refine ⟨inv_bump hI hs (-n) _ ?_ ?_, rfl, rfl⟩
      · simp only [Gen.int64Min]; omega
      · have := hI.2.2.2; simp only [Gen.int64Min, Gen.int64Max] at *; omega

/-- the returned value is what `check_alt` reports in the new state — every mode, every hash list -/
theorem C16_cms_add_ret (c : CMS) (hs : List Nat) (n : Int) (hI : Inv c) (hn : 1 ≤ n) :
    (c.addAlt hs n).2 = (c.addAlt hs n).1.checkAlt hs := addAlt_ret c hs n (add_lo hI hs hn)

theorem C16_cms_remove_ret (c : CMS) (hs : List Nat) (n : Int) (hI : Inv c) (hn : 1 ≤ n) :
    (c.removeAlt hs n).2 = (c.removeAlt hs n).1.checkAlt hs :=
  removeAlt_ret c hs n (rem_hi hI hs hn)

private theorem query_ok (c : CMS) (t : Int) (l : List Int) (hd : 0 < c.d) (hl : l.length = c.d)
    (hmm : c.mode = .meanMin → c.w ≠ 1) : ∃ v, c.query t (CMS.sortInts l) = .ok v := by
  cases hm : c.mode with
  | min =>
      have hne : l ≠ [] := by intro e; rw [e] at hl; simp at hl; omega
      obtain ⟨v, hv, _⟩ := query_min c t l hm hne
      exact ⟨v, hv⟩
  | mean => exact ⟨_, query_mean c t _ hm hd⟩
  | meanMin => exact query_meanMin c t _ hm hd (by rw [sortInts_length, hl]) (hmm hm)

/-- `add_alt` returns normally for every amount `n ≥ 1` -/
theorem C16_cms_add_ok (c : CMS) (hs : List Nat) (n : Int) (hI : Inv c) (hw : 0 < c.w)
    (hd : 0 < c.d) (hl : hs.length = c.d) (hn : 1 ≤ n) (hmm : c.mode = .meanMin → c.w ≠ 1) :
    ∃ v, (c.addAlt hs n).2 = .ok v := by
  have hany := binIdx_any_false c hs hw (by omega) hI.1
  rw [addAlt_eq c hs n hany (add_lo hI hs hn)]
  exact query_ok _ _ _ hd (by simp [binIdx_length, hl]) hmm

theorem C16_cms_remove_ok (c : CMS) (hs : List Nat) (n : Int) (hI : Inv c) (hw : 0 < c.w)
    (hd : 0 < c.d) (hl : hs.length = c.d) (hn : 1 ≤ n) (hmm : c.mode = .meanMin → c.w ≠ 1) :
    ∃ v, (c.removeAlt hs n).2 = .ok v := by
  have hany := binIdx_any_false c hs hw (by omega) hI.1
  rw [removeAlt_eq c hs n hany (rem_hi hI hs hn)]
  exact query_ok _ _ _ hd (by simp [binIdx_length, hl]) hmm

private theorem min_of_vals (c : CMS) (hs : List Nat) (δ t : Int) (hw : 0 < c.w) (hd : 0 < c.d)
    (hl : hs.length = c.d) (hb : c.bins.length = c.w * c.d) (hm : c.mode = .min) :
    ∃ v, CMS.query { c with bins := bumpBins c hs δ, total := t } t
        (CMS.sortInts ((c.binIdx hs).map fun x => clamp32 (c.bins.getD x 0 + δ))) = .ok v ∧
      (∃ x ∈ c.binIdx hs, v = clamp32 (c.bins.getD x 0 + δ) ∧ (bumpBins c hs δ)[x]? = some v) ∧
      ∀ x ∈ c.binIdx hs, v ≤ clamp32 (c.bins.getD x 0 + δ) := by
  have hany := binIdx_any_false c hs hw (by omega) hb
  have hne : (c.binIdx hs).map (fun x => clamp32 (c.bins.getD x 0 + δ)) ≠ [] := by
    intro e
    have := congrArg List.length e
    simp [binIdx_length, hl] at this; omega
  obtain ⟨v, hv, hmem, hmin⟩ := query_min { c with bins := bumpBins c hs δ, total := t } t _ hm hne
  refine ⟨v, hv, ?_, ?_⟩
  · obtain ⟨x, hx, e⟩ := List.mem_map.1 hmem
    refine ⟨x, hx, e.symm, ?_⟩
    have hlt : x < c.bins.length := by
      rw [hb]; exact binIdx_lt c hs hw (by omega) x hx
    rw [bumpBins_getElem? c hs δ x hlt, if_pos hx, e]
  · intro x hx
    exact hmin _ (List.mem_map.2 ⟨x, hx, rfl⟩)

/-- `min` mode: the returned value is the least of the new touched bins (so a pinned bin is
    reported as pinned) -/
theorem C16_cms_add_min (c : CMS) (hs : List Nat) (n : Int) (hI : Inv c) (hw : 0 < c.w)
    (hd : 0 < c.d) (hl : hs.length = c.d) (hn : 1 ≤ n) (hm : c.mode = .min) :
    ∃ v, (c.addAlt hs n).2 = .ok v ∧
      (∃ x ∈ c.binIdx hs, (c.addAlt hs n).1.bins[x]? = some v) ∧
      ∀ x ∈ c.binIdx hs, v ≤ max Gen.int32Min (min Gen.int32Max (c.bins.getD x 0 + n)) := by
  have hany := binIdx_any_false c hs hw (by omega) hI.1
  rw [addAlt_eq c hs n hany (add_lo hI hs hn)]
  obtain ⟨v, hv, ⟨x, hx, _, hx2⟩, hmin⟩ := min_of_vals c hs n _ hw hd hl hI.1 hm
  exact ⟨v, hv, ⟨x, hx, hx2⟩, hmin⟩

theorem C16_cms_remove_min (c : CMS) (hs : List Nat) (n : Int) (hI : Inv c) (hw : 0 < c.w)
    (hd : 0 < c.d) (hl : hs.length = c.d) (hn : 1 ≤ n) (hm : c.mode = .min) :
    ∃ v, (c.removeAlt hs n).2 = .ok v ∧
      (∃ x ∈ c.binIdx hs, (c.removeAlt hs n).1.bins[x]? = some v) ∧
      ∀ x ∈ c.binIdx hs, v ≤ max Gen.int32Min (min Gen.int32Max (c.bins.getD x 0 - n)) := by
  have hany := binIdx_any_false c hs hw (by omega) hI.1
  rw [removeAlt_eq c hs n hany (rem_hi hI hs hn)]
  obtain ⟨v, hv, ⟨x, hx, _, hx2⟩, hmin⟩ := min_of_vals c hs (-n) _ hw hd hl hI.1 hm
  refine ⟨v, hv, ⟨x, hx, hx2⟩, ?_⟩
  intro y hy
  have := hmin y hy
  simpa only [clamp32_def, ← Int.sub_eq_add_neg] using this

/-- if every touched bin would exceed the limit, the call returns the limit -/
theorem C16_cms_add_pinned (c : CMS) (hs : List Nat) (n : Int) (hI : Inv c) (hw : 0 < c.w)
    (hd : 0 < c.d) (hl : hs.length = c.d) (hn : 1 ≤ n) (hm : c.mode = .min)
    (hbig : ∀ x ∈ c.binIdx hs, Gen.int32Max ≤ c.bins.getD x 0 + n) :
    (c.addAlt hs n).2 = .ok Gen.int32Max := by
  have hany := binIdx_any_false c hs hw (by omega) hI.1
  rw [addAlt_eq c hs n hany (add_lo hI hs hn)]
  obtain ⟨v, hv, ⟨x, hx, e, _⟩, _⟩ := min_of_vals c hs n (min Gen.int64Max (c.total + n)) hw hd hl hI.1 hm
  have hc : clamp32 (c.bins.getD x 0 + n) = Gen.int32Max := by
    have := hbig x hx
    simp only [clamp32, Gen.int32Min, Gen.int32Max] at *; omega
  rw [hv, e, hc]

/-! ### join -/

/-- `join` of two sketches with the same geometry: returns `.ok`, every bin is `joinCell`, the
    result is well formed (the second sketch need not even be in range) -/
theorem C16_cms_join (a b : CMS) (hI : Inv a) (hw : a.w = b.w) (hd : a.d = b.d) :
    ∃ r, a.join b true = .ok r ∧ Inv r ∧ r.w = a.w ∧ r.d = a.d ∧ r.mode = a.mode ∧
      (∀ j, j < a.w * a.d → r.bins[j]? = some (CMS.joinCell (a.bins.getD j 0) (b.bins.getD j 0))) ∧
      r.total = max Gen.int64Min (min Gen.int64Max (a.total + b.total)) := by
  have hc : ¬ ((a.w != b.w || a.d != b.d || !true) = true) := by simp [hw, hd]
  unfold CMS.join
  rw [if_neg hc]
  refine ⟨_, rfl, ⟨by simp, ?_, ?_, ?_⟩, rfl, rfl, rfl, ?_, ?_⟩
  · intro v hv
    simp only [List.mem_map] at hv
    obtain ⟨i, _, e⟩ := hv
    rw [← e]; exact joinCell_range _ _ (hI.getD i)
  · simp only [Gen.int64Min, Gen.int64Max]; omega
  · simp only [Gen.int64Min, Gen.int64Max]; omega
  · intro j hj; simp [hj]
  · simp only [Gen.int64Min, Gen.int64Max]; omega

/-- a bin already at a limit is left untouched by `join`; any other bin is the clamped sum -/
theorem C16_cms_join_limit (x y : Int) :
    ((x = Gen.int32Min ∨ x = Gen.int32Max) → CMS.joinCell x y = x) ∧
    (x ≠ Gen.int32Min → x ≠ Gen.int32Max →
      CMS.joinCell x y = max Gen.int32Min (min Gen.int32Max (x + y))) := by
  constructor
  · intro h; rcases h with h | h <;> simp [CMS.joinCell, h]
  · intro h1 h2
    have e1 : (x == Gen.int32Min) = false := by simpa using h1
    have e2 : (x == Gen.int32Max) = false := by simpa using h2
    simp only [CMS.joinCell, e1, e2, Bool.or_false, Bool.false_eq_true, if_false]
    simp only [Gen.int32Min, Gen.int32Max]
    omega

theorem C16_cms_join_mismatch (a b : CMS) (p : Bool) (h : a.w ≠ b.w ∨ a.d ≠ b.d ∨ p = false) :
    a.join b p = .error .cmsError := by
  rcases h with h | h | h <;> simp [CMS.join, h]

theorem C16_cms_join_inv (a b : CMS) (p : Bool) (hI : Inv a) :
    ∀ r, a.join b p = .ok r → Inv r ∧ r.w = a.w ∧ r.d = a.d := by
  intro r hr
  unfold CMS.join at hr
  split at hr
  · cases hr
  · injection hr with hr
    subst hr
    refine ⟨⟨by simp, ?_, ?_, ?_⟩, rfl, rfl⟩
    · intro v hv
      simp only [List.mem_map] at hv
      obtain ⟨i, _, e⟩ := hv
      rw [← e]; exact joinCell_range _ _ (hI.getD i)
    · simp only [Gen.int64Min, Gen.int64Max]; omega
    · simp only [Gen.int64Min, Gen.int64Max]; omega

theorem C16_cms_clear_inv (c : CMS) (hI : Inv c) :
    Inv c.clear ∧ c.clear.w = c.w ∧ c.clear.d = c.d := by
  refine ⟨⟨by simp [CMS.clear, hI.1], ?_, by simp [CMS.clear, Gen.int64Min],
    by simp [CMS.clear, Gen.int64Max]⟩, rfl, rfl⟩
  intro v hv
  have := (List.mem_replicate.1 hv).2
  subst this; simp [Gen.int32Min, Gen.int32Max]

/-! ### histories -/

inductive Op
  | add (hs : List Nat) (n : Int)
  | remove (hs : List Nat) (n : Int)
  | join (other : CMS) (sameProbe : Bool)
  | clear

/-- amounts are at least 1; hash lists and joined sketches are arbitrary -/
def Op.AmountOK : Op → Prop
  | .add _ n => 1 ≤ n
  | .remove _ n => 1 ≤ n
  | _ => True

/-- an operation that raises leaves the (possibly partially updated) model state -/
def step (c : CMS) : Op → CMS
  | .add hs n => (c.addAlt hs n).1
  | .remove hs n => (c.removeAlt hs n).1
  | .join o p => match c.join o p with | .ok r => r | .error _ => c
  | .clear => c.clear

def run (c : CMS) (ops : List Op) : CMS := ops.foldl step c

theorem C16_cms_step (c : CMS) (op : Op) (hI : Inv c) (hop : op.AmountOK) :
    Inv (step c op) ∧ (step c op).w = c.w ∧ (step c op).d = c.d := by
  cases op with
  | add hs n => exact C16_cms_add_inv c hs n hI hop
  | remove hs n => exact C16_cms_remove_inv c hs n hI hop
  | join o p =>
      simp only [step]
      cases h : c.join o p with
      | ok r => exact C16_cms_join_inv c o p hI r h
      | error e => exact ⟨hI, rfl, rfl⟩
  | clear => exact C16_cms_clear_inv c hI

/-- every history keeps every bin and the total inside their storage ranges -/
theorem C16_cms_history (c : CMS) (ops : List Op) (hI : Inv c) (hops : ∀ op ∈ ops, op.AmountOK) :
    Inv (run c ops) ∧ (run c ops).w = c.w ∧ (run c ops).d = c.d := by
  induction ops generalizing c with
  | nil => exact ⟨hI, rfl, rfl⟩
  | cons op t ih =>
      obtain ⟨h1, h2, h3⟩ := C16_cms_step c op hI (hops op (by simp))
      obtain ⟨k1, k2, k3⟩ := ih (step c op) h1 (fun o ho => hops o (by simp [ho]))
      exact ⟨k1, by rw [← h2]; exact k2, by rw [← h3]; exact k3⟩

/-- a well-formed sketch whose geometry fits the footer can be exported -/
theorem C16_cms_export (c : CMS) (hI : Inv c) (hw : c.w < 2 ^ 32) (hd : c.d < 2 ^ 32) :
    ∃ f, Gen.cmsFooter.pack [c.w, c.d, c.total] = .ok f ∧
      c.exportBytes = .ok (cellsBytes .i32 c.bins ++ f) := by
  have h1 : ¬ ((c.w : Int) < 0 ∨ (c.w : Int) > 4294967295) := by omega
  have h2 : ¬ ((c.d : Int) < 0 ∨ (c.d : Int) > 4294967295) := by omega
  have h3 : ¬ (c.total < -9223372036854775808 ∨ c.total > 9223372036854775807) := by
    have := hI.2.2; simp only [Gen.int64Min, Gen.int64Max] at this; omega
  simp [CMS.exportBytes, Layout.pack, packGo, Gen.cmsFooter, Field.lo, Field.hi, Gen.uint32Max,
    Gen.int64Min, Gen.int64Max, h1, h2, h3]

theorem C16_cms_history_export (w d : Nat) (mode : Mode) (ops : List Op) (hw : w < 2 ^ 32)
    (hd : d < 2 ^ 32) (hops : ∀ op ∈ ops, op.AmountOK) :
    ∃ bs, (run (CMS.new w d mode) ops).exportBytes = .ok bs := by
  obtain ⟨h1, h2, h3⟩ := C16_cms_history (CMS.new w d mode) ops (C16_cms_new w d mode) hops
  obtain ⟨f, _, e⟩ := C16_cms_export _ h1 (by rw [h2]; exact hw) (by rw [h3]; exact hd)
  exact ⟨_, e⟩

/-! ## counting Bloom filter -/

/-- well-formed counting filter -/
def CInv (c : CBF) : Prop := c.cells.length = c.m ∧ 0 < c.m ∧ CellsOK c.cells

theorem C16_cbf_new (est fpr32 k m : Nat) (hm : 0 < m) : CInv (CBF.new est fpr32 k m) :=
  ⟨by simp [CBF.new], hm, CellsOK.replicate m⟩

/-- the `k` positions of a key -/
abbrev positions (c : CBF) (hs : List Nat) : List Nat := (hs.take c.k).map (· % c.m)

private theorem positions_eq (c : CBF) (hs : List Nat) (hI : CInv c) :
    cbfIdx c hs = positions c hs := by simp [cbfIdx, positions, hI.1]

private theorem positions_ne_nil {β} (c : CBF) (hs : List Nat) (f : Nat → β) (hk : 0 < c.k)
    (hl : c.k ≤ hs.length) : (positions c hs).map f ≠ [] := by
  intro e
  have := congrArg List.length e
  simp only [List.length_map, List.length_take, List.length_nil] at this
  omega

/-- `add_alt` for every `n ≥ 1`: returns `.ok`; cell `j` is the clamped sum over the occurrences
    of `j` among the key's positions; nothing else changes; the element count saturates -/
theorem C16_cbf_add (c : CBF) (hs : List Nat) (n : Int) (hI : CInv c) (hl : c.k ≤ hs.length)
    (hn : 1 ≤ n) :
    (c.addAlt hs n).2 =
      .ok (CBF.minList ((positions c hs).map fun k => min Gen.uint32Max (c.cells.getD k 0 + n))) ∧
    CInv (c.addAlt hs n).1 ∧
    (∀ j, j < c.m → (c.addAlt hs n).1.cells[j]? =
      some (min Gen.uint32Max (c.cells.getD j 0 + n * ((positions c hs).count j : Int)))) ∧
    (c.addAlt hs n).1.count = min (c.count + n) Gen.uint64Max ∧
    (c.addAlt hs n).1.k = c.k ∧ (c.addAlt hs n).1.m = c.m ∧
    (c.addAlt hs n).1.est = c.est ∧ (c.addAlt hs n).1.fpr32 = c.fpr32 := by
  have hn0 : 0 ≤ n := by omega
  rw [cbf_addAlt_eq c hs n hn0 hl hI.2.2, positions_eq c hs hI]
  refine ⟨rfl, ⟨by simp only [bumpCells_length]; exact hI.1, hI.2.1,
    bumpCells_ok n hn0 _ _ hI.2.2⟩, ?_, rfl, rfl, rfl, rfl, rfl⟩
  intro j hj
  have hlen : j < (bumpCells n (positions c hs) c.cells).length := by
    rw [bumpCells_length, hI.1]; exact hj
  have hidx : ∀ k ∈ positions c hs, k < c.cells.length := by
    rw [← positions_eq c hs hI]; exact cbfIdx_lt c hs (by rw [hI.1]; exact hI.2.1)
  have := bumpCells_getD n hn0 (positions c hs) c.cells j hidx (hI.2.2.getD j).2
  rw [List.getD_eq_getElem?_getD, List.getElem?_eq_getElem hlen] at this
  rw [List.getElem?_eq_getElem hlen]
  simpa [sat32] using this

/-- all touched cells cross the limit: the call returns the limit -/
theorem C16_cbf_add_pinned (c : CBF) (hs : List Nat) (n : Int) (hI : CInv c)
    (hl : c.k ≤ hs.length) (hk : 0 < c.k) (hn : 1 ≤ n)
    (hbig : ∀ k ∈ positions c hs, Gen.uint32Max ≤ c.cells.getD k 0 + n) :
    (c.addAlt hs n).2 = .ok Gen.uint32Max := by
  rw [(C16_cbf_add c hs n hI hl hn).1]
  congr 1
  apply minList_const
  · exact positions_ne_nil c hs _ hk hl
  · intro y hy
    obtain ⟨k, hk, e⟩ := List.mem_map.1 hy
    have := hbig k hk
    rw [← e]; omega

/-- a cell at the limit is frozen: `remove_alt` never changes it, whatever it returns
    (any amount, any hash list, also in the branch that raises) -/
theorem C16_cbf_remove_frozen (c : CBF) (hs : List Nat) (n : Int) (j : Nat)
    (hj : c.cells[j]? = some Gen.uint32Max) :
    (c.removeAlt hs n).1.cells[j]? = some Gen.uint32Max := by
  rcases cbf_removeAlt_cases c hs n with h | ⟨r, _, h, _, _⟩
  · rw [h]; exact hj
  · have hlt : j < c.cells.length := by
      rcases Nat.lt_or_ge j c.cells.length with h | h
      · exact h
      · rw [List.getElem?_eq_none h] at hj; cases hj
    have hD : c.cells.getD j 0 = Gen.uint32Max := by
      rw [List.getD_eq_getElem?_getD, hj]; rfl
    have h1 := cbf_removeLoop_length r (cbfIdx c hs) c.cells
    have h2 := cbf_removeLoop_frozen r (cbfIdx c hs) c.cells j hD
    rw [h]
    rw [List.getD_eq_getElem?_getD, List.getElem?_eq_getElem (by omega)] at h2
    rw [List.getElem?_eq_getElem (by omega)]
    simpa using h2

/-- the least touched cell is at the limit: `remove_alt` returns the limit, nothing changes -/
theorem C16_cbf_remove_at_limit (c : CBF) (hs : List Nat) (n : Int) (hI : CInv c)
    (hl : c.k ≤ hs.length) (hk : 0 < c.k)
    (hmin : CBF.minList ((positions c hs).map fun k => c.cells.getD k 0) = Gen.uint32Max) :
    c.removeAlt hs n = (c, .ok Gen.uint32Max) := by
  apply cbf_removeAlt_at_limit c hs n hl
  · rw [positions_eq c hs hI]
    have := positions_ne_nil c hs id hk hl
    simpa using this
  · rw [positions_eq c hs hI]; exact hmin

/-- the same, stated on the cells: all positions of the key are saturated -/
theorem C16_cbf_remove_all_at_limit (c : CBF) (hs : List Nat) (n : Int) (hI : CInv c)
    (hl : c.k ≤ hs.length) (hk : 0 < c.k)
    (hall : ∀ k ∈ positions c hs, c.cells.getD k 0 = Gen.uint32Max) :
    c.removeAlt hs n = (c, .ok Gen.uint32Max) := by
  apply C16_cbf_remove_at_limit c hs n hI hl hk
  apply minList_const
  · exact positions_ne_nil c hs _ hk hl
  · intro y hy
    obtain ⟨k, hk, e⟩ := List.mem_map.1 hy
    rw [← e]; exact hall k hk

/-- `remove_alt` keeps every cell inside [0, 2^32-1] (also when it raises half-way) -/
theorem C16_cbf_remove_inv (c : CBF) (hs : List Nat) (n : Int) (hI : CInv c) (hn : 1 ≤ n) :
    CInv (c.removeAlt hs n).1 := by
  rcases cbf_removeAlt_cases c hs n with h | ⟨r, hr, h, hm, _⟩
  · rw [h]; exact hI
  · refine ⟨?_, ?_, ?_⟩
    · rw [h, cbf_removeLoop_length, hm]; exact hI.1
    · rw [hm]; exact hI.2.1
    · rw [h]; exact cbf_removeLoop_ok r (hr (by omega) hI.2.2) _ _ hI.2.2

/-! ### union / intersection -/

/-- `union` of two similar, well-formed filters: cells are the clamped sums -/
theorem C16_cbf_union (est : Estimator) (a b : CBF) (p : Bool) (ha : CInv a) (hb : CInv b)
    (hs : a.similar b p = true) :
    ∃ r, CBF.union est a b p = some r ∧ CInv r ∧ r.k = a.k ∧ r.m = a.m ∧
      ∀ j, j < a.m → r.cells[j]? = some (min Gen.uint32Max (a.cells.getD j 0 + b.cells.getD j 0)) := by
  unfold CBF.union
  rw [if_neg (by simp [hs])]
  refine ⟨_, rfl, ⟨by simp [ha.1], ha.2.1, ?_⟩, rfl, rfl, ?_⟩
  · intro v hv
    simp only [List.mem_map] at hv
    obtain ⟨i, _, e⟩ := hv
    have h1 := (ha.2.2.getD i).1
    have h2 := (hb.2.2.getD i).1
    have := clampCell_range (a.cells.getD i 0 + b.cells.getD i 0) (by omega)
    rw [← e]; exact ⟨this.1, this.2.1⟩
  · intro j hj
    have h1 := (ha.2.2.getD j).1
    have h2 := (hb.2.2.getD j).1
    have := (clampCell_range (a.cells.getD j 0 + b.cells.getD j 0) (by omega)).2.2
    have hj' : j < a.cells.length := by rw [ha.1]; exact hj
    simp only [List.getElem?_map, List.getElem?_range hj', Option.map_some, this]

/-- `intersection`: clamped sum where both cells are non-zero, else 0 -/
theorem C16_cbf_intersection (est : Estimator) (a b : CBF) (p : Bool) (ha : CInv a) (hb : CInv b)
    (hs : a.similar b p = true) :
    ∃ r, CBF.intersection est a b p = some r ∧ CInv r ∧ r.k = a.k ∧ r.m = a.m ∧
      ∀ j, j < a.m → r.cells[j]? = some
        (if a.cells.getD j 0 > 0 ∧ b.cells.getD j 0 > 0
          then min Gen.uint32Max (a.cells.getD j 0 + b.cells.getD j 0) else 0) := by
  unfold CBF.intersection
  rw [if_neg (by simp [hs])]
  refine ⟨_, rfl, ⟨by simp [ha.1], ha.2.1, ?_⟩, rfl, rfl, ?_⟩
  · intro v hv
    simp only [List.mem_map] at hv
    obtain ⟨i, _, e⟩ := hv
    have h1 := (ha.2.2.getD i).1
    have h2 := (hb.2.2.getD i).1
    have := clampCell_range (a.cells.getD i 0 + b.cells.getD i 0) (by omega)
    rw [← e]
    split
    · exact ⟨this.1, this.2.1⟩
    · simp [Gen.uint32Max]
  · intro j hj
    have h1 := (ha.2.2.getD j).1
    have h2 := (hb.2.2.getD j).1
    have := (clampCell_range (a.cells.getD j 0 + b.cells.getD j 0) (by omega)).2.2
    have hj' : j < a.cells.length := by rw [ha.1]; exact hj
    simp only [List.getElem?_map, List.getElem?_range hj', Option.map_some, this]

theorem C16_cbf_setops_mismatch (est : Estimator) (a b : CBF) (p : Bool)
    (hs : a.similar b p = false) :
    CBF.union est a b p = none ∧ CBF.intersection est a b p = none := by
  simp [CBF.union, CBF.intersection, hs]

theorem C16_cbf_clear_inv (c : CBF) (hI : CInv c) : CInv c.clear :=
  ⟨by simp [CBF.clear, hI.1], hI.2.1, CellsOK.replicate _⟩

/-! ### histories -/

inductive COp
  | add (hs : List Nat) (n : Int)
  | remove (hs : List Nat) (n : Int)
  | union (other : CBF) (sameProbe : Bool)
  | inter (other : CBF) (sameProbe : Bool)
  | clear

/-- amounts ≥ 1, enough hashes for an add, merged filters well formed -/
def COp.OK (c : CBF) : COp → Prop
  | .add hs n => 1 ≤ n ∧ c.k ≤ hs.length
  | .remove _ n => 1 ≤ n
  | .union o _ => CInv o
  | .inter o _ => CInv o
  | .clear => True

def cstep (est : Estimator) (c : CBF) : COp → CBF
  | .add hs n => (c.addAlt hs n).1
  | .remove hs n => (c.removeAlt hs n).1
  | .union o p => (CBF.union est c o p).getD c
  | .inter o p => (CBF.intersection est c o p).getD c
  | .clear => c.clear

theorem C16_cbf_step (est : Estimator) (c : CBF) (op : COp) (hI : CInv c) (hop : op.OK c) :
    CInv (cstep est c op) ∧ (cstep est c op).k = c.k := by
  cases op with
  | add hs n =>
      have := C16_cbf_add c hs n hI hop.2 hop.1
      exact ⟨this.2.1, this.2.2.2.2.1⟩
  | remove hs n =>
      refine ⟨C16_cbf_remove_inv c hs n hI hop, ?_⟩
      rcases cbf_removeAlt_cases c hs n with h | ⟨_, _, _, _, h⟩
      · simp only [cstep]; rw [h]
      · exact h
  | union o p =>
      simp only [cstep]
      cases hs : c.similar o p with
      | true =>
          obtain ⟨r, e, h1, h2, _⟩ := C16_cbf_union est c o p hI hop hs
          rw [e]; exact ⟨h1, h2⟩
      | false => rw [(C16_cbf_setops_mismatch est c o p hs).1]; exact ⟨hI, rfl⟩
  | inter o p =>
      simp only [cstep]
      cases hs : c.similar o p with
      | true =>
          obtain ⟨r, e, h1, h2, _⟩ := C16_cbf_intersection est c o p hI hop hs
          rw [e]; exact ⟨h1, h2⟩
      | false => rw [(C16_cbf_setops_mismatch est c o p hs).2]; exact ⟨hI, rfl⟩
  | clear => exact ⟨C16_cbf_clear_inv c hI, rfl⟩

/-- a history in which every operation is admissible in the state it is applied to -/
def CHist (est : Estimator) : CBF → List COp → Prop
  | _, [] => True
  | c, op :: rest => op.OK c ∧ CHist est (cstep est c op) rest

def crun (est : Estimator) (c : CBF) (ops : List COp) : CBF := ops.foldl (cstep est) c

/-- every history keeps every cell inside [0, 2^32-1] -/
theorem C16_cbf_history (est : Estimator) (c : CBF) (ops : List COp) (hI : CInv c)
    (hops : CHist est c ops) : CInv (crun est c ops) := by
  induction ops generalizing c with
  | nil => exact hI
  | cons op t ih => exact ih _ (C16_cbf_step est c op hI hops.1).1 hops.2

/-- after an add the footer `QQf` can be packed: the element count is within uint64 -/
theorem C16_cbf_add_export (c : CBF) (hs : List Nat) (n : Int) (hI : CInv c) (hl : c.k ≤ hs.length)
    (hn : 1 ≤ n) (hc : 0 ≤ c.count) (he : c.est < 2 ^ 64) (hf : c.fpr32 < 2 ^ 32) :
    ∃ bs, (c.addAlt hs n).1.exportBytes = .ok bs := by
  obtain ⟨_, _, _, h4, _, _, h7, h8⟩ := C16_cbf_add c hs n hI hl hn
  have h1 : ¬ ((c.est : Int) < 0 ∨ (c.est : Int) > 18446744073709551615) := by omega
  have h2 : ¬ (min (c.count + n) 18446744073709551615 < 0 ∨
      min (c.count + n) 18446744073709551615 > 18446744073709551615) := by omega
  have h3 : ¬ ((c.fpr32 : Int) < 0 ∨ (c.fpr32 : Int) > 4294967295) := by omega
  simp [CBF.exportBytes, CBF.footerVals, Layout.pack, packGo, Gen.bloomFooter, Field.lo, Field.hi,
    Gen.uint32Max, Gen.uint64Max, h4, h7, h8, h1, h2, h3]

/-! ## non-vacuity: concrete instances (tests, not theorems) -/

/-- a 2×2 sketch: one bin one below the upper limit, one at the lower limit, total near 2^63 -/
def exC : CMS := ⟨2, 2, [2147483646, 0, 5, -2147483648], 9223372036854775800, .min⟩

private theorem exC_inv : Inv exC := ⟨rfl, by decide, by decide, by decide⟩

/-- the hashes `[0, 1]` touch bins 0 and 3 -/
example : exC.binIdx [0, 1] = [0, 3] := by decide

/-- adding 2^70: both touched bins pinned at 2^31-1, the others untouched, total pinned at 2^63-1 -/
example : (exC.addAlt [0, 1] (2 ^ 70)).1 =
    ⟨2, 2, [2147483647, 0, 5, 2147483647], 9223372036854775807, .min⟩ := by decide

/-- … and the call returns the pinned value (instance of `C16_cms_add_pinned`) -/
example : (exC.addAlt [0, 1] (2 ^ 70)).2 = .ok 2147483647 :=
  C16_cms_add_pinned exC [0, 1] (2 ^ 70) exC_inv (by decide) (by decide) rfl (by decide) rfl
    (by decide)

/-- removing 2^70: both touched bins pinned at -2^31, total pinned at -2^63 -/
example : (exC.removeAlt [0, 1] (2 ^ 70)).1 =
    ⟨2, 2, [-2147483648, 0, 5, -2147483648], -9223372036854775808, .min⟩ := by decide

example : ∃ v, (exC.removeAlt [0, 1] (2 ^ 70)).2 = .ok v :=
  C16_cms_remove_ok exC [0, 1] (2 ^ 70) exC_inv (by decide) (by decide) rfl (by decide)
    (by decide)

/-- join with itself: the bin at the lower limit stays, 2147483646 + 2147483646 is pinned -/
example : (exC.join exC true).map (·.bins) = .ok [2147483647, 0, 10, -2147483648] := by rfl

/-- a history that crosses both limits and merges keeps the invariant and can be exported -/
example : ∃ bs, (run (CMS.new 2 2 .min)
    [.add [0, 1] (2 ^ 70), .join exC true, .remove [1, 1] (2 ^ 64 + 1), .add [7, 9] 1]).exportBytes
      = .ok bs :=
  C16_cms_history_export 2 2 .min _ (by decide) (by decide) (by
    intro op hop
    simp only [List.mem_cons, List.not_mem_nil, or_false] at hop
    rcases hop with h | h | h | h <;> subst h <;> simp [Op.AmountOK])

/-- a counting filter with `k = 2`, `m = 3`: cell 0 one below the limit, cell 2 at the limit -/
def exB : CBF := ⟨10, 0, 2, 3, [4294967294, 7, 4294967295], 18446744073709551614⟩

private theorem exB_inv : CInv exB := ⟨rfl, by decide, by unfold CellsOK; decide⟩

/-- the hashes `[0, 3]` give the coinciding positions `[0, 0]` (the D10 situation) -/
example : positions exB [0, 3] = [0, 0] := by decide

/-- coinciding positions and 2^70: returns normally, cell 0 pinned once, count pinned -/
example : exB.addAlt [0, 3] (2 ^ 70) =
    (⟨10, 0, 2, 3, [4294967295, 7, 4294967295], 18446744073709551615⟩, .ok 4294967295) := by
  rfl

/-- coinciding positions and amount 1: 4294967294 + 1·2 is clamped (multiplicity 2) -/
example : (exB.addAlt [0, 3] 1).1.cells = [4294967295, 7, 4294967295] := by decide

/-- removal of a saturated key: nothing changes -/
example : exB.removeAlt [2, 5] 1 = (exB, .ok 4294967295) := by rfl

/-- removal through a saturated and an unsaturated cell: the saturated cell stays -/
example : (exB.removeAlt [1, 2] 3).1.cells = [4294967294, 4, 4294967295] := by decide

/-- union of two near-limit filters is clamped (the D11 situation) -/
example : (CBF.union (fun _ _ _ => 0) exB exB true).map (·.cells) =
    some [4294967295, 14, 4294967295] := by decide

end PyProb.C16
