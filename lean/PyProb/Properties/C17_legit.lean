/-
  C17, second module — the tables against TRUE counts (joining C17 with C02): statements in full in
  `Lemmas/CorollariesST.lean` / `CorollariesHH.lean`.
-/
import PyProb.Lemmas.CorollariesST
import PyProb.Lemmas.CorollariesHH

namespace PyProb.C17
open PyProb

/-- StreamThreshold with adds and LEGITIMATE removals (C02's `Legit`/`Small`): a key whose true
    count is ≥ the threshold is in the table, with an estimate ≥ its true count — "a key whose true
    count reaches the threshold is never missing" -/
theorem C17_st_never_missing_legit : type_of% @Corollaries.st_never_missing_legit :=
  @Corollaries.st_never_missing_legit

/-- every tracked value is ≥ the key's true count and ≥ the threshold -/
theorem C17_st_tracked_ge_count : type_of% @Corollaries.st_tracked_ge_count := @Corollaries.st_tracked_ge_count

/-- HeavyHitters (add-only, unclamped): an untracked key's true count is ≤ every tracked estimate … -/
theorem C17_hh_untracked_count_le_tracked : type_of% @Corollaries.hh_untracked_count_le_tracked :=
  @Corollaries.hh_untracked_count_le_tracked

/-- … hence a key whose true count exceeds some tracked estimate is itself tracked -/
theorem C17_hh_tracks_heaviest : type_of% @Corollaries.hh_tracks_heaviest := @Corollaries.hh_tracks_heaviest

end PyProb.C17
