/-
  C01 — Bloom filters never report an added key as absent.

  Proved here, about `Model/Bloom.lean` (`Bloom`) and `Model/Expanding.lean` (`Expanding`), for every
  geometry `m ≥ 1`, every `k`, every hash strategy and every history:
  * `Bloom.new` is well formed, `add_alt`/`clear`/`union` preserve well-formedness;
  * `add_alt hs` followed by `check_alt hs` answers present (`hs` at least `k` long);
  * set bits stay set, a present answer stays present under any later `add_alt` (also one that
    raises IndexError half-way because its hash list is too short) and under `union` with any
    filter and any estimator;
  * for every sequence of add / union / query / clear: every hash list (resp. key, through an
    arbitrary strategy `H` with `(H key d).length ≥ d`) added since the last `clear` is present;
    `clear` does forget (a cleared filter reports nothing when `k ≥ 1`);
  * for the expanding filter: for every sequence of `add_alt hs force` / `push`, every hash list
    ever added is present afterwards, whatever growth events happened.

  Not proved here: export/load and reopen round trips (C05/C11), the rotating filter (it forgets by
  design).  The hash lists themselves are arbitrary: `H` is a parameter.
-/
import PyProb.Lemmas.BloomOps
import PyProb.Lemmas.ExpandingOps

namespace PyProb.C01
open PyProb

/-- representation invariant: `ceil(m/8)` bytes, at least one bit -/
abbrev WF (b : Bloom) : Prop := b.WF

theorem C01_wf_iff (b : Bloom) : WF b ↔ b.bits.length = (b.m + 7) / 8 ∧ 0 < b.m := Iff.rfl

theorem C01_lengthOf (m : Nat) : Bloom.lengthOf m = (m + 7) / 8 := rfl

/-! ### single operations -/

theorem C01_new_wf (est fpr k m : Nat) (hm : 0 < m) : WF (Bloom.new est fpr k m) :=
  Bloom.new_wf est fpr k m hm

/-- `add_alt` keeps the invariant and the geometry, also when it raises IndexError -/
theorem C01_addAlt_wf (b : Bloom) (hs : List Nat) (hw : WF b) :
    WF (b.addAlt hs).1 ∧ (b.addAlt hs).1.k = b.k ∧ (b.addAlt hs).1.m = b.m :=
  ⟨Bloom.addAlt_wf b hs hw, Bloom.addAlt_k b hs, Bloom.addAlt_m b hs⟩

theorem C01_clear_wf (b : Bloom) (hw : WF b) : WF b.clear := Bloom.clear_wf b hw

/-- add, then check: present, and the add did not raise -/
theorem C01_add_then_check (b : Bloom) (hs : List Nat) (hw : WF b) (hl : b.k ≤ hs.length) :
    (b.addAlt hs).1.checkAlt hs = .ok true ∧ (b.addAlt hs).2 = none := by
  refine ⟨Bloom.checkAlt_addAlt_self b hs hw hl, ?_⟩
  rw [Bloom.addAlt_err]; simp; omega

/-- the error branch: a hash list shorter than `k` raises IndexError and still keeps the invariant
    (bits may have been set, none is lost: `C01_bit_mono`) -/
theorem C01_add_short (b : Bloom) (hs : List Nat) (hl : hs.length < b.k) :
    (b.addAlt hs).2 = some .indexError ∧ (b.addAlt hs).1.count = b.count := by
  rw [Bloom.addAlt_err, Bloom.addAlt_count]; simp [hl]

/-- a query with a hash list shorter than `k` never answers present -/
theorem C01_check_short (b : Bloom) (hs : List Nat) (hl : hs.length < b.k) :
    b.checkAlt hs = .error .indexError ∨ b.checkAlt hs = .ok false :=
  Bloom.checkGo_short _ _ _ _ hl

/-- exactly the old bits and the positions of `hs` are set after `add_alt hs` -/
theorem C01_addAlt_bits (b : Bloom) (hs : List Nat) (hw : WF b) (j : Nat) :
    testBitB (b.addAlt hs).1.bits j = (decide (j ∈ b.positions hs) || testBitB b.bits j) :=
  Bloom.testBitB_addAlt b hs j hw.len hw.2

/-- a set bit stays set under any later `add_alt` -/
theorem C01_bit_mono (b : Bloom) (hs : List Nat) (hw : WF b) (j : Nat) (h : testBitB b.bits j = true) :
    testBitB (b.addAlt hs).1.bits j = true := Bloom.testBitB_addAlt_mono b hs j hw h

/-- a present answer stays present under any later `add_alt` -/
theorem C01_check_mono (b : Bloom) (hs hs' : List Nat) (hw : WF b) (h : b.checkAlt hs = .ok true) :
    (b.addAlt hs').1.checkAlt hs = .ok true := Bloom.checkAlt_addAlt_mono b hs hs' hw h

/-- `union` keeps whatever the receiver reports — for any estimator, any second operand -/
theorem C01_union_left (est : Estimator) (a b r : Bloom) (same : Bool) (hw : WF a)
    (hu : Bloom.union est a b same = some r) (hs : List Nat) (h : a.checkAlt hs = .ok true) :
    r.checkAlt hs = .ok true := by
  obtain ⟨_, hk, hm, _, _, _⟩ := Bloom.union_eq_some est a b r same hu
  rw [Bloom.checkAlt_true_iff] at h ⊢
  rw [hk]
  refine ⟨h.1, fun p hp => ?_⟩
  have hp' : p ∈ a.positions hs := by simpa [Bloom.positions, hk, hm] using hp
  have hlt : p < 8 * a.bloomLength := Bloom.pos_lt_bits _ _ (Bloom.positions_lt a hs hw.2 p hp')
  rw [Bloom.testBitB_union est a b r same hu p hlt, h.2 p hp']; rfl

/-- `union` keeps whatever the argument reports -/
theorem C01_union_right (est : Estimator) (a b r : Bloom) (same : Bool) (hw : WF a)
    (hu : Bloom.union est a b same = some r) (hs : List Nat) (h : b.checkAlt hs = .ok true) :
    r.checkAlt hs = .ok true := by
  obtain ⟨hsim, hk, hm, _, _, _⟩ := Bloom.union_eq_some est a b r same hu
  obtain ⟨ek, em, _⟩ := (Bloom.similar_iff a b same).1 hsim
  rw [Bloom.checkAlt_true_iff] at h ⊢
  rw [hk, ek]
  refine ⟨h.1, fun p hp => ?_⟩
  have hp' : p ∈ b.positions hs := by simpa [Bloom.positions, hk, hm, ek, em] using hp
  have hlt : p < 8 * a.bloomLength :=
    Bloom.pos_lt_bits _ _ (by rw [em]; exact Bloom.positions_lt b hs (by have := hw.2; omega) p hp')
  rw [Bloom.testBitB_union est a b r same hu p hlt, h.2 p hp']; simp

theorem C01_union_wf (est : Estimator) (a b r : Bloom) (same : Bool) (hw : WF a)
    (hu : Bloom.union est a b same = some r) : WF r ∧ r.k = a.k ∧ r.m = a.m := by
  obtain ⟨_, hk, hm, _⟩ := Bloom.union_eq_some est a b r same hu
  exact ⟨Bloom.union_wf est a b r same hw.2 hu, hk, hm⟩

/-- only `clear()` forgets: afterwards nothing is reported (for `k ≥ 1`) -/
theorem C01_clear_forgets (b : Bloom) (hs : List Nat) (hk : 0 < b.k) : b.clear.checkAlt hs ≠ .ok true := by
  intro h
  rw [Bloom.checkAlt_true_iff] at h
  obtain ⟨hl, hb⟩ := h
  have hk' : 0 < b.clear.k := hk
  cases hs with
  | nil => simp at hl; omega
  | cons x xs =>
      have hx : x % b.clear.m ∈ b.clear.positions (x :: xs) := by
        unfold Bloom.positions
        obtain ⟨n, hn⟩ : ∃ n, b.clear.k = n + 1 := ⟨b.clear.k - 1, by omega⟩
        rw [hn]; simp
      have := hb _ hx
      simp [Bloom.clear, testBitB_replicate_zero] at this

/-! ### all operation sequences on one filter -/

/-- operations on a filter: `add_alt` with any hash list (a short one raises half-way), rebinding
    the filter to its union with another one, a query, `clear()` -/
inductive Op
  | add (hs : List Nat)
  | union (other : Bloom) (sameProbe : Bool)
  | query (hs : List Nat)
  | clear

def step (est : Estimator) (b : Bloom) : Op → Bloom
  | .add hs => (b.addAlt hs).1
  | .union o same => match Bloom.union est b o same with | some r => r | none => b
  | .query _ => b
  | .clear => b.clear

def run (est : Estimator) (b : Bloom) (ops : List Op) : Bloom := ops.foldl (step est) b

/-- bookkeeping: the hash lists added since the last `clear` -/
def live (acc : List (List Nat)) : Op → List (List Nat)
  | .add hs => hs :: acc
  | .clear => []
  | _ => acc

def addedSinceLastClear (ops : List Op) : List (List Nat) := ops.foldl live []

private theorem step_inv (est : Estimator) (b : Bloom) (op : Op) (L : List (List Nat)) (hw : WF b)
    (hL : ∀ hs ∈ L, b.k ≤ hs.length → b.checkAlt hs = .ok true) :
    WF (step est b op) ∧ (step est b op).k = b.k ∧
      ∀ hs ∈ live L op, b.k ≤ hs.length → (step est b op).checkAlt hs = .ok true := by
  cases op with
  | add hs' =>
      refine ⟨Bloom.addAlt_wf b hs' hw, Bloom.addAlt_k b hs', fun hs hm hl => ?_⟩
      rcases List.mem_cons.1 hm with e | hm
      · subst e; exact Bloom.checkAlt_addAlt_self b hs hw hl
      · exact Bloom.checkAlt_addAlt_mono b hs hs' hw (hL hs hm hl)
  | union o same =>
      simp only [step, live]
      cases hu : Bloom.union est b o same with
      | none => exact ⟨hw, rfl, hL⟩
      | some r =>
          obtain ⟨w, k, _⟩ := C01_union_wf est b o r same hw hu
          exact ⟨w, k, fun hs hm hl => C01_union_left est b o r same hw hu hs (hL hs hm hl)⟩
  | query _ => exact ⟨hw, rfl, hL⟩
  | clear => exact ⟨Bloom.clear_wf b hw, rfl, fun hs hm => by simp [live] at hm⟩

private theorem run_inv (est : Estimator) (b : Bloom) (ops : List Op) (L : List (List Nat)) (hw : WF b)
    (hL : ∀ hs ∈ L, b.k ≤ hs.length → b.checkAlt hs = .ok true) :
    WF (run est b ops) ∧ (run est b ops).k = b.k ∧
      ∀ hs ∈ ops.foldl live L, b.k ≤ hs.length → (run est b ops).checkAlt hs = .ok true := by
  induction ops generalizing b L with
  | nil => exact ⟨hw, rfl, hL⟩
  | cons op ops ih =>
      obtain ⟨w, k, h⟩ := step_inv est b op L hw hL
      obtain ⟨w', k', h'⟩ := ih (step est b op) (live L op) w (by rw [k]; exact h)
      simp only [run, List.foldl_cons] at *
      exact ⟨w', by rw [k', k], by rw [k] at h'; exact h'⟩

/-- every reachable state is well formed and keeps `k` -/
theorem C01_run_wf (est : Estimator) (b₀ : Bloom) (ops : List Op) (hw : WF b₀) :
    WF (run est b₀ ops) ∧ (run est b₀ ops).k = b₀.k := by
  obtain ⟨w, k, _⟩ := run_inv est b₀ ops [] hw (by simp)
  exact ⟨w, k⟩

/-- **C01** on hash lists: after any sequence of operations on a well-formed filter, every hash
    list (of at least `k` hashes) added since the last `clear` is reported present -/
theorem C01_bloom (est : Estimator) (b₀ : Bloom) (ops : List Op) (hw : WF b₀) (hs : List Nat)
    (hmem : hs ∈ addedSinceLastClear ops) (hl : b₀.k ≤ hs.length) :
    (run est b₀ ops).checkAlt hs = .ok true :=
  (run_inv est b₀ ops [] hw (by simp)).2.2 hs hmem hl

/-- what the start state reports is kept too, as long as no `clear` happens -/
theorem C01_bloom_keeps (est : Estimator) (b₀ : Bloom) (ops : List Op) (hw : WF b₀) (hs : List Nat)
    (h0 : b₀.checkAlt hs = .ok true) (hnc : ∀ op ∈ ops, op ≠ Op.clear) :
    (run est b₀ ops).checkAlt hs = .ok true := by
  have hk : b₀.k ≤ hs.length := ((Bloom.checkAlt_true_iff b₀ hs).1 h0).1
  have hmem : hs ∈ ops.foldl live [hs] := by
    clear h0 hk hw
    generalize hL : [hs] = L
    have : hs ∈ L := by simp [← hL]
    clear hL
    induction ops generalizing L with
    | nil => exact this
    | cons op ops ih =>
        rw [List.foldl_cons]
        apply ih (fun o ho => hnc o (by simp [ho]))
        cases op with
        | add hs' => simp [live, this]
        | union o s => exact this
        | query q => exact this
        | clear => exact absurd rfl (hnc Op.clear (by simp))
  exact (run_inv est b₀ ops [hs] hw (by intro x hx _; simp at hx; subst hx; exact h0)).2.2 hs hmem hk

/-! ### the same on keys, for an arbitrary hash strategy -/

inductive KOp
  | add (key : Key)
  | union (other : Bloom) (sameProbe : Bool)
  | query (key : Key)
  | clear

/-- `add(key)` is `add_alt(self.hashes(key))`, `check(key)` is `check_alt(self.hashes(key))` -/
def KOp.toOp (H : Key → Nat → List Nat) (k : Nat) : KOp → Op
  | .add key => .add (H key k)
  | .union o s => .union o s
  | .query key => .query (H key k)
  | .clear => .clear

def liveK (acc : List Key) : KOp → List Key
  | .add key => key :: acc
  | .clear => []
  | _ => acc

def keysAddedSinceLastClear (ops : List KOp) : List Key := ops.foldl liveK []

private theorem live_map (H : Key → Nat → List Nat) (k : Nat) (ops : List KOp) (acc : List Key) :
    (ops.map (KOp.toOp H k)).foldl live (acc.map (H · k)) = (ops.foldl liveK acc).map (H · k) := by
  induction ops generalizing acc with
  | nil => rfl
  | cons op ops ih =>
      simp only [List.map_cons, List.foldl_cons]
      cases op with
      | add key => exact ih (key :: acc)
      | union o s => exact ih acc
      | query key => exact ih acc
      | clear => exact ih []

/-- **C01** on keys: for every hash strategy `H` that returns at least `depth` values, every
    key added since the last `clear` is reported present after any history -/
theorem C01_bloom_keys (H : Key → Nat → List Nat) (hH : ∀ key d, d ≤ (H key d).length)
    (est : Estimator) (b₀ : Bloom) (ops : List KOp) (hw : WF b₀) (key : Key)
    (hmem : key ∈ keysAddedSinceLastClear ops) :
    (run est b₀ (ops.map (KOp.toOp H b₀.k))).checkAlt (H key b₀.k) = .ok true := by
  apply C01_bloom est b₀ _ hw _ _ (hH key b₀.k)
  have := live_map H b₀.k ops []
  simp only [List.map_nil] at this
  unfold addedSinceLastClear
  rw [this]
  exact List.mem_map.2 ⟨key, hmem, rfl⟩

/-! ### the expanding filter -/

/-- invariant of the expanding filter: at least one sub-filter, all well formed and of the
    geometry `(k, m)` of the container, `m ≥ 1` -/
abbrev WFE (e : Expanding) : Prop := e.WF

theorem C01_wfe_iff (e : Expanding) :
    WFE e ↔ 0 < e.m ∧ e.blooms ≠ [] ∧ ∀ b ∈ e.blooms, WF b ∧ b.k = e.k ∧ b.m = e.m := Iff.rfl

theorem C01_expanding_new_wf (est fpr k m : Nat) (hm : 0 < m) : WFE (Expanding.new est fpr k m) :=
  Expanding.new_wf est fpr k m hm

inductive EOp
  | add (hs : List Nat) (force : Bool)
  | push

def estep (e : Expanding) : EOp → Expanding
  | .add hs force => (e.addAlt hs force).1
  | .push => e.push

def erun (e : Expanding) (ops : List EOp) : Expanding := ops.foldl estep e

/-- every hash list handed to `add_alt` in the history -/
def eadded : List EOp → List (List Nat)
  | [] => []
  | .add hs _ :: ops => hs :: eadded ops
  | .push :: ops => eadded ops

private theorem estep_inv (e : Expanding) (op : EOp) (hw : WFE e) :
    WFE (estep e op) ∧ (estep e op).k = e.k ∧
      (∀ hs, Reports e.blooms hs → Reports (estep e op).blooms hs) ∧
      (∀ hs f, op = .add hs f → e.k ≤ hs.length → Reports (estep e op).blooms hs) := by
  cases op with
  | add hs f =>
      obtain ⟨a, b, c, d⟩ := Expanding.addAlt_spec e hs f hw
      refine ⟨a, b, c, fun hs' f' he hl => ?_⟩
      injection he with e1 _; subst e1; exact d hl
  | push =>
      obtain ⟨a, b, c⟩ := Expanding.push_spec e hw
      exact ⟨a, b, c, fun _ _ he => by cases he⟩

private theorem erun_inv (e : Expanding) (ops : List EOp) (hw : WFE e) :
    WFE (erun e ops) ∧ (erun e ops).k = e.k ∧
      (∀ hs, Reports e.blooms hs → Reports (erun e ops).blooms hs) ∧
      (∀ hs ∈ eadded ops, e.k ≤ hs.length → Reports (erun e ops).blooms hs) := by
  induction ops generalizing e with
  | nil => exact ⟨hw, rfl, fun _ h => h, fun hs hm => by simp [eadded] at hm⟩
  | cons op ops ih =>
      obtain ⟨a, b, c, d⟩ := estep_inv e op hw
      obtain ⟨a', b', c', d'⟩ := ih (estep e op) a
      simp only [erun, List.foldl_cons] at *
      refine ⟨a', by rw [b', b], fun hs h => c' hs (c hs h), fun hs hm hl => ?_⟩
      cases op with
      | add hs' f =>
          rcases List.mem_cons.1 hm with e1 | hm
          · subst e1; exact c' hs (d hs f rfl hl)
          · exact d' hs hm (by rw [b]; exact hl)
      | push => exact d' hs hm (by rw [b]; exact hl)

theorem C01_expanding_run_wf (e₀ : Expanding) (ops : List EOp) (hw : WFE e₀) :
    WFE (erun e₀ ops) ∧ (erun e₀ ops).k = e₀.k :=
  ⟨(erun_inv e₀ ops hw).1, (erun_inv e₀ ops hw).2.1⟩

/-- **C01** for the expanding filter: after any sequence of `add_alt(hs, force)` and `push()`
    — hence any number of growth events — every hash list ever added is reported present -/
theorem C01_expanding (e₀ : Expanding) (ops : List EOp) (hw : WFE e₀) (hs : List Nat)
    (hmem : hs ∈ eadded ops) (hl : e₀.k ≤ hs.length) :
    (erun e₀ ops).checkAlt hs = .ok true := by
  obtain ⟨a, b, _, d⟩ := erun_inv e₀ ops hw
  exact (Expanding.checkAlt_iff _ hs a (by rw [b]; exact hl)).2 (d hs hmem hl)

/-- what the start state reports stays reported (the expanding filter has no `clear`) -/
theorem C01_expanding_keeps (e₀ : Expanding) (ops : List EOp) (hw : WFE e₀) (hs : List Nat)
    (hl : e₀.k ≤ hs.length) (h0 : e₀.checkAlt hs = .ok true) : (erun e₀ ops).checkAlt hs = .ok true := by
  obtain ⟨a, b, c, _⟩ := erun_inv e₀ ops hw
  exact (Expanding.checkAlt_iff _ hs a (by rw [b]; exact hl)).2
    (c hs ((Expanding.checkAlt_iff e₀ hs hw hl).1 h0))

/-- on keys, for an arbitrary hash strategy -/
theorem C01_expanding_keys (H : Key → Nat → List Nat) (hH : ∀ key d, d ≤ (H key d).length)
    (e₀ : Expanding) (hw : WFE e₀) (ops : List (Option (Key × Bool))) (key : Key) (force : Bool)
    (hmem : some (key, force) ∈ ops) :
    (erun e₀ (ops.map fun o => match o with
        | some (key, f) => EOp.add (H key e₀.k) f
        | none => EOp.push)).checkAlt (H key e₀.k) = .ok true := by
  apply C01_expanding e₀ _ hw _ _ (hH key e₀.k)
  induction ops with
  | nil => cases hmem
  | cons o ops ih =>
      rcases List.mem_cons.1 hmem with e1 | hm
      · subst e1; simp [eadded]
      · cases o with
        | none => simpa [eadded] using ih hm
        | some p => simp only [List.map_cons, eadded]; exact List.mem_cons_of_mem _ (ih hm)

/-! ### non-vacuity (tests) -/

/-- a 10-bit, 3-hash filter (two bytes, not a multiple of 8) satisfies the hypotheses -/
example : WF (Bloom.new 5 0 3 10) := C01_new_wf 5 0 3 10 (by decide)

/-- test: a concrete history with a union, a short add, a clear; the hypotheses of `C01_bloom`
    hold for `[7, 19, 1000]` and the conclusion is observable -/
example :
    let ops := [Op.add [3, 14, 25], .clear, .add [7, 19, 1000], .add [1], .add [9, 9, 9, 9],
      .union ((Bloom.new 5 0 3 10).addAlt [4, 5, 6]).1 true, .query [1, 2, 3]]
    [7, 19, 1000] ∈ addedSinceLastClear ops ∧
    (run (fun _ _ _ => 0) (Bloom.new 5 0 3 10) ops).checkAlt [7, 19, 1000] = .ok true ∧
    (run (fun _ _ _ => 0) (Bloom.new 5 0 3 10) ops).checkAlt [4, 5, 6] = .ok true ∧
    (run (fun _ _ _ => 0) (Bloom.new 5 0 3 10) ops).checkAlt [3, 14, 25] = .ok false ∧
    (run (fun _ _ _ => 0) (Bloom.new 5 0 3 10) ops).bits = [243, 2] := by
  refine ⟨by decide, rfl, rfl, rfl, rfl⟩

/-- the hypothesis on the hash strategy is satisfiable (e.g. by a strategy shaped like the default
    one: exactly `depth` values) and `C01_bloom_keys` then applies to a concrete history -/
example :
    let H : Key → Nat → List Nat := fun key d => (List.range d).map (· * 7 + key.units.length)
    (∀ key d, d ≤ (H key d).length) ∧
    (run (fun _ _ _ => 0) (Bloom.new 5 0 3 10)
      ([KOp.add ⟨true, [104, 105]⟩, .add ⟨false, [1]⟩].map (KOp.toOp H 3))).checkAlt (H ⟨true, [104, 105]⟩ 3)
      = .ok true := by
  refine ⟨by intro key d; simp, ?_⟩
  exact C01_bloom_keys _ (by intro key d; simp) _ _ _ (C01_new_wf 5 0 3 10 (by decide)) _ (by decide)

/-- test: the expanding filter grows (est = 2) and still reports the first key -/
example :
    let ops := [EOp.add [3, 14, 25] false, .add [7, 19, 1000] false, .push, .add [1, 2, 3] true,
      .add [3, 14, 25] false, .add [40, 41, 42] false, .add [55, 66, 77] false]
    WFE (Expanding.new 2 0 3 10) ∧ (erun (Expanding.new 2 0 3 10) ops).blooms.length = 3 ∧
    (erun (Expanding.new 2 0 3 10) ops).checkAlt [3, 14, 25] = .ok true := by
  refine ⟨C01_expanding_new_wf 2 0 3 10 (by decide), by decide, rfl⟩

end PyProb.C01
