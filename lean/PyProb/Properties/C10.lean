/-
  C10 — the rotating Bloom filter stays bounded and keeps the most recent insertions.

  Proved here, for every `est ≥ 1`, every queue limit `Q ≥ 1`, every rate/geometry and every
  history (unbounded length):
  * histories are lists of `Op.add present hs force | Op.push | Op.pop`; the membership answer
    `present` is an ARBITRARY Boolean at every step (the real `add_alt`, which computes it with
    `check_alt`, is the special case `C10_api`).  Every `add` carries at least `k` hashes
    (`Op.ok`; otherwise the real code raises IndexError).  A refused `pop` leaves the state alone.
  * `C10_inv_new`, `C10_inv_run`: the invariant `Rotating.Inv Q` holds of `new` and is preserved
    by every operation; the theorems are stated from ANY state satisfying it (`…_from`, e.g. a
    filter loaded with the same `Q`) and from `new`.
  * `C10_bounds`: `1 ≤ |queue| ≤ Q` and every sub-filter holds between 0 and `est` insertions.
  * `C10_pop_guard`: `pop` on a one-filter queue returns `rotateError`, otherwise drops the oldest.
  * `C10_window_filters`: bookkeeping form of the retention clause — after an effective insertion
    the receiving sub-filter is still in the queue, `i` places before the newest where `i` is the
    number of rotations since, only ever extended by further insertions, as long as at most
    `(Q − 1)·est` further effective insertions happened (any number of suppressed duplicates in
    between, no explicit `push`/`pop`).
  * `C10_present_after_add`, `C10_window_from`, `C10_window`, `C10_window_api`: the user-level
    statement — the key is reported present immediately and for the next `(Q − 1)·est` effective
    insertions.  These need the bit-level facts "a key is present after its insertion" and
    "insertions never clear bits", which are proved in `Lemmas/ExpandingCore` from
    `Lemmas/BloomOps` under the geometry invariant `Expanding.Geo` (`m > 0`, `⌈m/8⌉` bytes per
    sub-filter), so nothing is assumed.
  * tests at the end: concrete `est = 2`, `Q = 2` and `Q = 1` histories, including one showing
    that the bound `(Q − 1)·est` cannot be improved.
-/
import PyProb.Lemmas.RotatingCore

namespace PyProb.C10
open PyProb Rotating

/-! ### histories -/

/-- one call; `present` is the answer of the membership test, chosen arbitrarily -/
inductive Op
  | add (present : Bool) (hs : List Nat) (force : Bool)
  | push
  | pop
  deriving DecidableEq, Repr

/-- an `add` that really inserts: forced, or the key was reported absent -/
def Op.effective : Op → Bool
  | .add p _ f => f || !p
  | _ => false

def Op.isAdd : Op → Bool
  | .add .. => true
  | _ => false

/-- the hash list is long enough for a filter with `k` hashes -/
def Op.ok (k : Nat) : Op → Prop
  | .add _ hs _ => k ≤ hs.length
  | _ => True

instance (k : Nat) (op : Op) : Decidable (op.ok k) := by
  cases op <;> unfold Op.ok <;> infer_instance

/-- a refused `pop` (RotatingBloomFilterError) leaves the filter as it was -/
def step (r : Rotating) : Op → Rotating
  | .add p hs f => (r.addCore p hs f).1
  | .push => r.push
  | .pop => match r.pop with
      | .ok r' => r'
      | .error _ => r

def run (r : Rotating) (ops : List Op) : Rotating := ops.foldl step r

/-- number of effective insertions of a history -/
def effCount (ops : List Op) : Nat := ops.countP Op.effective

/-- the invariant, spelled out -/
theorem C10_inv_def (Q : Nat) (r : Rotating) :
    r.Inv Q ↔ (1 ≤ r.est ∧ r.q = (Q : Int) ∧ r.blooms ≠ [] ∧ r.blooms.length ≤ Q ∧
      ∀ b ∈ r.blooms, 0 ≤ b.count ∧ b.count ≤ r.est ∧ b.k = r.k ∧ b.est = r.est) := Iff.rfl

/-! ### static fields -/

theorem step_static (r : Rotating) (op : Op) :
    (step r op).est = r.est ∧ (step r op).k = r.k ∧ (step r op).m = r.m ∧ (step r op).q = r.q := by
  cases op with
  | add p hs f =>
      obtain ⟨a, -, c, d, -, e⟩ := addCore_static r p hs f
      exact ⟨a, c, d, e⟩
  | push =>
      obtain ⟨a, -, c, d, -, e⟩ := push_static r
      exact ⟨a, c, d, e⟩
  | pop =>
      by_cases h : r.blooms.length = 1 <;> simp [step, Rotating.pop, h]

theorem run_static (r : Rotating) (ops : List Op) :
    (run r ops).est = r.est ∧ (run r ops).k = r.k ∧ (run r ops).m = r.m ∧ (run r ops).q = r.q := by
  induction ops generalizing r with
  | nil => exact ⟨rfl, rfl, rfl, rfl⟩
  | cons op ops ih =>
      obtain ⟨a, b, c, d⟩ := ih (step r op)
      obtain ⟨a', b', c', d'⟩ := step_static r op
      exact ⟨a.trans a', b.trans b', c.trans c', d.trans d'⟩

theorem run_append (r : Rotating) (xs ys : List Op) : run r (xs ++ ys) = run (run r xs) ys := by
  simp [run, List.foldl_append]

/-! ### the invariant and the bounds -/

theorem C10_inv_new (est fpr32 k m Q : Nat) (h1 : 1 ≤ est) (hq : 1 ≤ Q) :
    (Rotating.new est fpr32 k m Q).Inv Q := inv_new est fpr32 k m Q h1 hq

/-- `add` (any membership answer), `push` and `pop` (accepted or refused) keep the invariant -/
theorem C10_inv_step (Q : Nat) (r : Rotating) (op : Op) (hok : op.ok r.k) (hi : r.Inv Q) :
    (step r op).Inv Q := by
  cases op with
  | add p hs f => exact inv_addCore Q r p hs f hok hi
  | push => exact inv_push Q r hi
  | pop =>
      simp only [step]
      split
      · rename_i r' hp; exact inv_pop Q r r' hi hp
      · exact hi

theorem C10_inv_run (Q : Nat) (r : Rotating) (ops : List Op) (hok : ∀ op ∈ ops, op.ok r.k)
    (hi : r.Inv Q) : (run r ops).Inv Q := by
  induction ops generalizing r with
  | nil => exact hi
  | cons op ops ih =>
      apply ih (step r op)
      · intro o ho; rw [(step_static r op).2.1]; exact hok o (by simp [ho])
      · exact C10_inv_step Q r op (hok op (by simp)) hi

/-- bounded queue, bounded sub-filters — from any invariant state (e.g. loaded with the same `Q`) -/
theorem C10_bounds_from (Q : Nat) (r : Rotating) (ops : List Op) (hok : ∀ op ∈ ops, op.ok r.k)
    (hi : r.Inv Q) :
    1 ≤ (run r ops).blooms.length ∧ (run r ops).blooms.length ≤ Q ∧
    ∀ b ∈ (run r ops).blooms, 0 ≤ b.count ∧ b.count ≤ r.est := by
  obtain ⟨-, -, hne, hlen, hall⟩ := C10_inv_run Q r ops hok hi
  refine ⟨List.length_pos_iff.mpr hne, hlen, ?_⟩
  intro b hb
  have h := hall b hb
  rw [(run_static r ops).1] at h
  exact ⟨h.1, h.2.1⟩

theorem C10_bounds (est fpr32 k m Q : Nat) (h1 : 1 ≤ est) (hq : 1 ≤ Q) (ops : List Op)
    (hok : ∀ op ∈ ops, op.ok k) :
    1 ≤ (run (Rotating.new est fpr32 k m Q) ops).blooms.length ∧
    (run (Rotating.new est fpr32 k m Q) ops).blooms.length ≤ Q ∧
    ∀ b ∈ (run (Rotating.new est fpr32 k m Q) ops).blooms, 0 ≤ b.count ∧ b.count ≤ est :=
  C10_bounds_from Q _ ops hok (inv_new est fpr32 k m Q h1 hq)

/-- under the invariant an `add` with at least `k` hashes raises nothing -/
theorem C10_add_no_error (Q : Nat) (r : Rotating) (p : Bool) (hs : List Nat) (f : Bool)
    (hk : r.k ≤ hs.length) (hi : r.Inv Q) : (r.addCore p hs f).2 = none :=
  addCore_no_error Q r p hs f hk hi

/-- `pop` is refused on a one-filter queue (the state is not touched: the error carries none),
    otherwise it drops the oldest sub-filter and nothing else -/
theorem C10_pop_guard (r : Rotating) :
    (r.blooms.length = 1 → r.pop = .error .rotateError ∧ step r .pop = r) ∧
    (r.blooms.length ≠ 1 → r.pop = .ok { r with blooms := r.blooms.drop 1 } ∧
      (step r .pop).blooms = r.blooms.drop 1) := by
  constructor
  · intro h
    have := pop_single r h
    exact ⟨this, by simp [step, this]⟩
  · intro h
    have := pop_longer r h
    exact ⟨this, by simp [step, this]⟩

/-- under the invariant the only way `pop` is accepted is a queue of at least two, and one remains -/
theorem C10_pop_ok_iff (Q : Nat) (r : Rotating) (hi : r.Inv Q) :
    (∃ r', r.pop = .ok r') ↔ 2 ≤ r.blooms.length := by
  have hpos : 0 < r.blooms.length := List.length_pos_iff.mpr hi.2.2.1
  by_cases h : r.blooms.length = 1
  · rw [pop_single r h]; constructor
    · rintro ⟨r', hr⟩; cases hr
    · omega
  · rw [pop_longer r h]; constructor
    · intro _; omega
    · intro _; exact ⟨_, rfl⟩

/-! ### the sliding window, bookkeeping level -/

private theorem holds_congr (b0 : Bloom) (r r' : Rotating) (i : Nat) (h : r'.blooms = r.blooms)
    (hh : Holds b0 r i) : Holds b0 r' i := by
  unfold Holds at hh ⊢; rw [h]; exact hh

/-- Generalised window: a sub-filter `b0` tracked `i` places before the newest, the newest holding
    `z.count`; a history of `add`s with `I` effective ones and `I + i·est + z.count ≤ Q·est` keeps
    it in the queue, at distance `i'` with `i'·est + (new newest count) = i·est + z.count + I`. -/
theorem C10_window_filters_from (Q est : Nat) (b0 : Bloom) (ops : List Op) :
    ∀ (r : Rotating) (i : Nat) (z : Bloom), r.est = est → r.Inv Q → Holds b0 r i →
      r.blooms.getLast? = some z → (∀ op ∈ ops, op.isAdd = true ∧ op.ok r.k) →
      (effCount ops : Int) + (i : Int) * est + z.count ≤ (Q : Int) * est →
      ∃ i' z', Holds b0 (run r ops) i' ∧ (run r ops).blooms.getLast? = some z' ∧
        (i' : Int) * est + z'.count = (i : Int) * est + z.count + effCount ops := by
  induction ops with
  | nil =>
      intro r i z _ _ hh hz _ _
      exact ⟨i, z, hh, hz, by simp [effCount]⟩
  | cons op ops ih =>
      intro r i z hest hi hh hz hops hpot
      have hops' : ∀ o ∈ ops, o.isAdd = true ∧ o.ok (step r op).k := by
        intro o ho; rw [(step_static r op).2.1]; exact hops o (by simp [ho])
      have hest' : (step r op).est = est := by rw [(step_static r op).1]; exact hest
      have hi' := C10_inv_step Q r op (hops op (by simp)).2 hi
      cases op with
      | push => have := (hops .push (by simp)).1; simp [Op.isAdd] at this
      | pop => have := (hops .pop (by simp)).1; simp [Op.isAdd] at this
      | add p hl f =>
          have hk : r.k ≤ hl.length := (hops (.add p hl f) (by simp)).2
          cases hf : (f || !p)
          · -- suppressed duplicate: the queue is untouched
            have hbl := (addCore_noeff r p hl f hf).1
            have hcnt : effCount (.add p hl f :: ops) = effCount ops := by
              simp [effCount, Op.effective, hf]
            rw [hcnt] at hpot ⊢
            exact ih (step r (.add p hl f)) i z hest' hi'
              (holds_congr b0 r _ i hbl hh) (by simp only [step]; rw [hbl]; exact hz) hops' hpot
          · have hcnt : effCount (.add p hl f :: ops) = effCount ops + 1 := by
              simp [effCount, Op.effective, hf]
            rw [hcnt] at hpot ⊢
            subst hest
            obtain ⟨i1, z1, hh1, hz1, he1⟩ :=
              window_step_eff Q r b0 z i p hl f hk hi hh hz hf (by push_cast at hpot; omega)
            obtain ⟨i2, z2, hh2, hz2, he2⟩ :=
              ih (step r (.add p hl f)) i1 z1 hest' hi' hh1 hz1 hops' (by push_cast at hpot ⊢; omega)
            exact ⟨i2, z2, hh2, hz2, by push_cast at he2 ⊢; omega⟩

/-- Retention, bookkeeping form.  `r1` is the state right after an effective insertion, whose
    newest sub-filter `z1` received the key.  After a history of `add`s containing at most
    `(Q − 1)·est` effective ones, `z1` — only extended by further insertions (`Bloom.Ext`) — is
    still in the queue, `i` places before the newest, where `i` is the number of rotations since:
    `i·est + (count of the newest) = z1.count + I`. -/
theorem C10_window_filters (Q : Nat) (r1 : Rotating) (z1 : Bloom) (ops : List Op)
    (hi : r1.Inv Q) (hz : r1.blooms.getLast? = some z1)
    (hops : ∀ op ∈ ops, op.isAdd = true ∧ op.ok r1.k)
    (hj : effCount ops ≤ (Q - 1) * r1.est) :
    ∃ (i : Nat) (z' b' : Bloom), i < (run r1 ops).blooms.length ∧
      (run r1 ops).blooms[(run r1 ops).blooms.length - 1 - i]? = some b' ∧ Bloom.Ext z1 b' ∧
      (run r1 ops).blooms.getLast? = some z' ∧
      (i : Int) * r1.est + z'.count = z1.count + effCount ops := by
  have hz1 : z1 ∈ r1.blooms := List.mem_of_getLast? hz
  have hc := (hi.2.2.2.2 z1 hz1).2.1
  have hQ : 1 ≤ Q := by
    have := List.length_pos_iff.mpr hi.2.2.1
    have := hi.2.2.2.1
    omega
  have hmul : (Q - 1) * r1.est + r1.est = Q * r1.est := by
    rw [← Nat.succ_mul]; congr 1; omega
  have hpot : (effCount ops : Int) + ((0 : Nat) : Int) * r1.est + z1.count ≤ (Q : Int) * r1.est := by
    have : ((effCount ops + r1.est : Nat) : Int) ≤ ((Q * r1.est : Nat) : Int) :=
      Int.ofNat_le.mpr (by omega)
    push_cast at this ⊢
    omega
  obtain ⟨i, z', ⟨hil, b', hb', hext⟩, hz', he⟩ :=
    C10_window_filters_from Q r1.est z1 ops r1 0 z1 rfl hi (holds_last r1 z1 hz) hz hops hpot
  exact ⟨i, z', b', hil, hb', hext, hz', by push_cast at he; omega⟩

/-! ### the sliding window, user level -/

/-- geometry is preserved by every operation -/
theorem geo_step (Q : Nat) (r : Rotating) (op : Op) (hi : r.Inv Q) (hg : r.toExpanding.Geo) :
    (step r op).toExpanding.Geo := by
  cases op with
  | add p hs f => exact geo_addCore r p hs f hi.2.2.1 hg
  | push => exact geo_push r hi.2.2.1 hg
  | pop =>
      simp only [step]
      split
      · rename_i r' hp; exact geo_pop r r' hg hp
      · exact hg

theorem geo_run (Q : Nat) (r : Rotating) (ops : List Op) (hok : ∀ op ∈ ops, op.ok r.k)
    (hi : r.Inv Q) (hg : r.toExpanding.Geo) : (run r ops).toExpanding.Geo := by
  induction ops generalizing r with
  | nil => exact hg
  | cons op ops ih =>
      apply ih (step r op)
      · intro o ho; rw [(step_static r op).2.1]; exact hok o (by simp [ho])
      · exact C10_inv_step Q r op (hok op (by simp)) hi
      · exact geo_step Q r op hi hg

/-- Retention from any invariant state: after an effective `add` of `hs` (any reason: forced, or
    reported absent) and then a history of `add`s with at most `(Q − 1)·est` effective ones, `hs`
    is reported present.  `ops = []` is "immediately present". -/
theorem C10_window_from (Q : Nat) (r : Rotating) (p : Bool) (hs : List Nat) (f : Bool)
    (ops : List Op) (hi : r.Inv Q) (hg : r.toExpanding.Geo) (hk : r.k ≤ hs.length)
    (hf : (f || !p) = true)
    (hops : ∀ op ∈ ops, op.isAdd = true ∧ op.ok r.k)
    (hj : effCount ops ≤ (Q - 1) * r.est) :
    (run (r.addCore p hs f).1 ops).toExpanding.checkAlt hs = .ok true := by
  obtain ⟨s1, -, s3, s4, -, -⟩ := addCore_static r p hs f
  have hi1 := inv_addCore Q r p hs f hk hi
  obtain ⟨z1, hz1, hc1, hg1, -⟩ := addCore_eff_last Q r p hs f hk hi hg hf
  have hops1 : ∀ op ∈ ops, op.isAdd = true ∧ op.ok (r.addCore p hs f).1.k := by
    rw [s3]; exact hops
  obtain ⟨i, z', b', hil, hb', hext, -, -⟩ :=
    C10_window_filters Q (r.addCore p hs f).1 z1 ops hi1 hz1 hops1 (by rw [s1]; exact hj)
  have hi2 := C10_inv_run Q (r.addCore p hs f).1 ops (fun o ho => (hops1 o ho).2) hi1
  have hk2 : (run (r.addCore p hs f).1 ops).k = r.k := by rw [(run_static _ ops).2.1, s3]
  apply Expanding.checkGo_of_mem hs _ _ b' (List.mem_of_getElem? hb')
    (hext.check r.m hg.1 hg1 hs hc1)
  intro b hb
  rw [(hi2.2.2.2.2 b hb).2.2.1, hk2]; exact hk

/-- a key is reported present right after its (effective) insertion -/
theorem C10_present_after_add (Q : Nat) (r : Rotating) (p : Bool) (hs : List Nat) (f : Bool)
    (hi : r.Inv Q) (hg : r.toExpanding.Geo) (hk : r.k ≤ hs.length) (hf : (f || !p) = true) :
    (r.addCore p hs f).1.toExpanding.checkAlt hs = .ok true :=
  C10_window_from Q r p hs f [] hi hg hk hf (by simp) (by simp [effCount])

/-- Retention, for every key inserted anywhere in a history that starts at the constructor:
    `ops₁` is arbitrary (adds, pushes, pops), then the key is effectively added, then `ops₂` holds
    only adds of which at most `(Q − 1)·est` are effective. -/
theorem C10_window (est fpr32 k m Q : Nat) (h1 : 1 ≤ est) (hq : 1 ≤ Q) (hm : 0 < m)
    (ops₁ ops₂ : List Op) (p : Bool) (hs : List Nat) (f : Bool)
    (hok₁ : ∀ op ∈ ops₁, op.ok k) (hk : k ≤ hs.length) (hf : (f || !p) = true)
    (hops₂ : ∀ op ∈ ops₂, op.isAdd = true ∧ op.ok k)
    (hj : effCount ops₂ ≤ (Q - 1) * est) :
    (run (Rotating.new est fpr32 k m Q) (ops₁ ++ [.add p hs f] ++ ops₂)).toExpanding.checkAlt hs
      = .ok true := by
  have hi0 := inv_new est fpr32 k m Q h1 hq
  have hg0 := geo_new est fpr32 k m (Q : Int) hm
  have hi1 := C10_inv_run Q _ ops₁ hok₁ hi0
  have hg1 := geo_run Q _ ops₁ hok₁ hi0 hg0
  obtain ⟨se, sk, -, -⟩ := run_static (Rotating.new est fpr32 k m Q) ops₁
  rw [run_append, run_append]
  exact C10_window_from Q (run (Rotating.new est fpr32 k m Q) ops₁) p hs f ops₂ hi1 hg1
    (by rw [sk]; exact hk) hf (by rw [sk]; exact hops₂) (by rw [se]; exact hj)

/-! ### the real API: `add_alt` computes the membership answer itself -/

inductive AOp
  | add (hs : List Nat) (force : Bool)
  | push
  | pop
  deriving DecidableEq, Repr

def stepA (r : Rotating) : AOp → Rotating
  | .add hs f => (r.addAlt hs f).1
  | .push => r.push
  | .pop => match r.pop with
      | .ok r' => r'
      | .error _ => r

def runA (r : Rotating) (aops : List AOp) : Rotating := aops.foldl stepA r

def AOp.ok (k : Nat) : AOp → Prop
  | .add hs _ => k ≤ hs.length
  | _ => True

def AOp.isAdd : AOp → Bool
  | .add .. => true
  | _ => false

instance (k : Nat) (a : AOp) : Decidable (a.ok k) := by
  cases a <;> unfold AOp.ok <;> infer_instance

/-- forget the membership answer -/
def Op.erase : Op → AOp
  | .add _ hs f => .add hs f
  | .push => .push
  | .pop => .pop

/-- number of real `add` calls that insert: forced, or `check_alt` did not answer present -/
def effCountA (r : Rotating) : List AOp → Nat
  | [] => 0
  | .add hs f :: rest =>
      (if f || (match r.toExpanding.checkAlt hs with | .ok true => false | _ => true) then 1 else 0) +
        effCountA (stepA r (.add hs f)) rest
  | a :: rest => effCountA (stepA r a) rest

/-- every history of real calls is a history of `Op`s carrying the answers the filter computed,
    with the same effective insertions; so all theorems above apply to it -/
theorem C10_api (Q : Nat) (r : Rotating) (aops : List AOp) (hok : ∀ a ∈ aops, a.ok r.k)
    (hi : r.Inv Q) :
    ∃ ops : List Op, ops.map Op.erase = aops ∧ (∀ op ∈ ops, op.ok r.k) ∧
      runA r aops = run r ops ∧ effCountA r aops = effCount ops := by
  induction aops generalizing r with
  | nil => exact ⟨[], rfl, by simp, rfl, rfl⟩
  | cons a aops ih =>
      have step_case : ∀ (op : Op), op.erase = a → op.ok r.k → stepA r a = step r op →
          (effCountA r (a :: aops) = (if op.effective then 1 else 0) + effCountA (stepA r a) aops) →
          ∃ ops : List Op, ops.map Op.erase = a :: aops ∧ (∀ op ∈ ops, op.ok r.k) ∧
            runA r (a :: aops) = run r ops ∧ effCountA r (a :: aops) = effCount ops := by
        intro op he hopk hst hcnt
        have hk' : (step r op).k = r.k := (step_static r op).2.1
        obtain ⟨ops, h1, h2, h3, h4⟩ := ih (step r op)
          (fun a' ha' => by rw [hk']; exact hok a' (by simp [ha']))
          (C10_inv_step Q r op hopk hi)
        refine ⟨op :: ops, by simp [he, h1], ?_, ?_, ?_⟩
        · intro o ho
          rcases List.mem_cons.mp ho with rfl | ho
          · exact hopk
          · rw [← hk']; exact h2 o ho
        · simp only [runA, run, List.foldl_cons] at h3 ⊢
          rw [hst]; exact h3
        · rw [hcnt, hst, h4]
          simp only [effCount, List.countP_cons]
          omega
      cases a with
      | push => exact step_case .push rfl trivial rfl (by simp [effCountA, Op.effective])
      | pop => exact step_case .pop rfl trivial rfl (by simp [effCountA, Op.effective])
      | add hs f =>
          have hk : r.k ≤ hs.length := hok (.add hs f) (by simp)
          obtain ⟨p, hp1, hp2⟩ := addAlt_eq_addCore Q r hs f hk hi
          refine step_case (.add p hs f) rfl hk (by simp [stepA, step, hp2]) ?_
          simp only [effCountA, Op.effective, hp1]
          cases p <;> cases f <;> simp

/-- retention with the real API, from any invariant state: the key is reported absent, then added;
    afterwards only `add` calls, of which at most `(Q − 1)·est` really insert -/
theorem C10_window_api_from (Q : Nat) (r : Rotating) (hs : List Nat) (aops₂ : List AOp)
    (hi : r.Inv Q) (hg : r.toExpanding.Geo) (hk : r.k ≤ hs.length)
    (habsent : r.toExpanding.checkAlt hs = .ok false)
    (hops₂ : ∀ a ∈ aops₂, a.isAdd = true ∧ a.ok r.k)
    (hj : effCountA (stepA r (.add hs false)) aops₂ ≤ (Q - 1) * r.est) :
    (runA (stepA r (.add hs false)) aops₂).toExpanding.checkAlt hs = .ok true := by
  have hadd : stepA r (.add hs false) = (r.addCore false hs false).1 := by
    simp [stepA, Rotating.addAlt, habsent]
  rw [hadd] at hj ⊢
  have hk1 : (r.addCore false hs false).1.k = r.k := (addCore_static r false hs false).2.2.1
  obtain ⟨ops₂, hm₂, ok₂, hr₂, hc₂⟩ := C10_api Q (r.addCore false hs false).1 aops₂
    (by rw [hk1]; exact fun a ha => (hops₂ a ha).2) (inv_addCore Q r false hs false hk hi)
  rw [hr₂]
  apply C10_window_from Q r false hs false ops₂ hi hg hk rfl
  · intro op hop
    refine ⟨?_, by rw [← hk1]; exact ok₂ op hop⟩
    have hmem : op.erase ∈ aops₂ := by rw [← hm₂]; exact List.mem_map_of_mem hop
    have := (hops₂ _ hmem).1
    cases op <;> simp_all [Op.erase, AOp.isAdd, Op.isAdd]
  · rw [← hc₂]; exact hj

/-- retention with the real API, for every key inserted anywhere in a history that starts at the
    constructor -/
theorem C10_window_api (est fpr32 k m Q : Nat) (h1 : 1 ≤ est) (hq : 1 ≤ Q) (hm : 0 < m)
    (aops₁ aops₂ : List AOp) (hs : List Nat)
    (hok₁ : ∀ a ∈ aops₁, a.ok k) (hk : k ≤ hs.length)
    (habsent : (runA (Rotating.new est fpr32 k m Q) aops₁).toExpanding.checkAlt hs = .ok false)
    (hops₂ : ∀ a ∈ aops₂, a.isAdd = true ∧ a.ok k)
    (hj : effCountA (stepA (runA (Rotating.new est fpr32 k m Q) aops₁) (.add hs false)) aops₂
      ≤ (Q - 1) * est) :
    (runA (Rotating.new est fpr32 k m Q) (aops₁ ++ [.add hs false] ++ aops₂)).toExpanding.checkAlt hs
      = .ok true := by
  have hi0 := inv_new est fpr32 k m Q h1 hq
  have hg0 := geo_new est fpr32 k m (Q : Int) hm
  obtain ⟨ops₁, -, ok₁, hr₁, -⟩ := C10_api Q (Rotating.new est fpr32 k m Q) aops₁ hok₁ hi0
  have hi1 := C10_inv_run Q _ ops₁ ok₁ hi0
  have hg1 := geo_run Q _ ops₁ ok₁ hi0 hg0
  obtain ⟨se, sk, -, -⟩ := run_static (Rotating.new est fpr32 k m Q) ops₁
  rw [← hr₁] at hi1 hg1 se sk
  have sk' : (runA (Rotating.new est fpr32 k m Q) aops₁).k = k := sk
  have se' : (runA (Rotating.new est fpr32 k m Q) aops₁).est = est := se
  have happ : runA (Rotating.new est fpr32 k m Q) (aops₁ ++ [.add hs false] ++ aops₂)
      = runA (stepA (runA (Rotating.new est fpr32 k m Q) aops₁) (.add hs false)) aops₂ := by
    simp [runA, List.foldl_append]
  rw [happ]
  exact C10_window_api_from Q _ hs aops₂ hi1 hg1 (by rw [sk']; exact hk) habsent
    (by rw [sk']; exact hops₂) (by rw [se']; exact hj)

/-! ### non-vacuity (tests on concrete instances: `est = 2`, `Q = 2`, `k = 2`, `m = 64`) -/

def r0 : Rotating := Rotating.new 2 0 2 64 2

/-- results are compared by `decide` in the tests below -/
local instance decEqExcept {ε α} [DecidableEq ε] [DecidableEq α] : DecidableEq (Except ε α) := fun a b =>
  match a, b with
  | .ok x, .ok y => if h : x = y then isTrue (by rw [h]) else isFalse (by intro e; cases e; exact h rfl)
  | .error x, .error y =>
      if h : x = y then isTrue (by rw [h]) else isFalse (by intro e; cases e; exact h rfl)
  | .ok _, .error _ => isFalse (by intro e; cases e)
  | .error _, .ok _ => isFalse (by intro e; cases e)

example : r0.Inv 2 := C10_inv_new 2 0 2 64 2 (by decide) (by decide)
example : r0.toExpanding.Geo := geo_new 2 0 2 64 2 (by decide)

/-- a history with adds, a suppressed duplicate, a forced duplicate, pushes and pops -/
def sampleOps : List Op :=
  [.add false [1, 2] false, .add true [1, 2] false, .add false [3, 4] false, .add false [5, 6] false,
   .pop, .pop, .add true [5, 6] true, .push, .add false [7, 8] false, .add false [9, 10] false,
   .add false [11, 12] false]

example : ∀ op ∈ sampleOps, op.ok 2 := by decide
example : (run r0 sampleOps).blooms.map (·.count) = [2, 1] := by decide
example : (run r0 (sampleOps.take 4)).blooms.map (·.count) = [2, 1] := by decide
/-- the second `pop` is refused and changes nothing -/
example : (run r0 (sampleOps.take 5)).blooms.map (·.count) = [1]
    ∧ (run r0 (sampleOps.take 5)).pop = .error .rotateError
    ∧ run r0 (sampleOps.take 6) = run r0 (sampleOps.take 5) := by decide

/-- window, `Q = 2`, `est = 2`: key `[1, 2]` then `(Q−1)·est = 2` further effective insertions
    (and a suppressed duplicate): still present … -/
def afterKey : List Op :=
  [.add false [10, 11] false, .add true [10, 11] false, .add false [20, 21] false]

example : ∀ op ∈ afterKey, op.isAdd = true ∧ op.ok 2 := by decide
example : effCount afterKey = 2 := by decide
example : (run r0 ([.add false [40, 41] false] ++ [.add false [1, 2] false] ++ afterKey)).toExpanding.checkAlt
    [1, 2] = .ok true :=
  C10_window 2 0 2 64 2 (by decide) (by decide) (by decide) [.add false [40, 41] false] afterKey false [1, 2]
    false (by decide) (by decide) rfl (by decide) (by decide)
example : (run r0 ([.add false [40, 41] false] ++ [.add false [1, 2] false] ++ afterKey)).blooms.map (·.count)
    = [2, 2] := by decide

/-- … and (test) the bound is tight: one more effective insertion rotates the key out -/
example :
    (run r0 ([.add false [40, 41] false] ++ [.add false [1, 2] false] ++ afterKey ++
      [.add false [30, 31] false])).toExpanding.checkAlt [1, 2] = .ok false := by decide

/-- `Q = 1`: the key is only guaranteed right after its insertion -/
example : ((Rotating.new 2 0 2 64 1).addCore false [1, 2] false).1.toExpanding.checkAlt [1, 2] = .ok true := by
  decide
example : (run (Rotating.new 2 0 2 64 1)
    [.add false [40, 41] false, .add false [1, 2] false, .add false [10, 11] false]).toExpanding.checkAlt [1, 2]
    = .ok false := by decide

/-- the real API on the same keys -/
example : (runA r0 [.add [40, 41] false, .add [1, 2] false, .add [10, 11] false, .add [10, 11] false,
    .add [20, 21] false]).toExpanding.checkAlt [1, 2] = .ok true := by decide
example : effCountA (stepA (runA r0 [.add [40, 41] false]) (.add [1, 2] false))
    [.add [10, 11] false, .add [10, 11] false, .add [20, 21] false] = 2 := by decide

end PyProb.C10
