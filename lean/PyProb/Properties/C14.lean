/-
  C14 — `elements_added` tracks the documented quantity through every operation.

  One invariant / history theorem per structure, over unbounded histories and all oracles.

  1. Bloom filter (`C14_bloom_*`): over any history of `add_alt` (any hash list; a short one raises
     and is not counted) and `clear`, `count = ` number of completed adds since the last `clear`
     (on top of the initial value when there was no `clear`); `union` / `intersection` results
     carry the estimate `est m k setBits` as their count.
  2. On-disk Bloom filter (`C14_ondisk_*`): corollary of `C11_history` — the in-memory counter and
     the counter stored in the file both equal initial + number of adds, across close/reopen;
     `clear()` zeroes the bit array and writes the count 0 to the file (`C14_ondisk_clear_file`);
     with `clear` in the history both counters equal the adds since the last clear
     (`C14_ondisk_history_clear`).
  3. Expanding / rotating Bloom filter (`C14_expanding_*`, `C14_rotating_*`): `added = initial +
     number of add calls`, for arbitrary membership answers (suppressed duplicates and forced adds
     are counted), with `push` / `pop` in the history; also for the real API (`add_alt` computing
     the answer itself) with NO hypothesis at all (calls that raise are counted too, as in Python).
  4. Counting Bloom filter (`C14_cbf_*`): a returning `add_alt` sets `count = min (count+n) 2^64-1`,
     a returning `remove_alt` subtracts exactly `min n (minimum touched cell)` in the decrementing
     branch and changes nothing in the saturated / absent branches, i.e. always
     `count' = count − (check before − returned value)`; a raising call leaves the counter alone;
     over a history in which no call raised, adds stay below the 64-bit clamp and removals do
     not exceed what `check` reports (implied by C08's `Legit`/`Unsat`, via `C08_cbf_lower`),
     `count = initial + Σ added − Σ removed`.
  5. Count-min family (`C14_cms_*`): over histories of add / remove / join / clear with `d` hashes
     per call whose running value stays inside the int64 range, `total = ` the running value
     (Σ added − Σ removed, `join` adds the other sketch's total, `clear` resets); the clamped
     single-step forms are `C16_cms_add_state`, `C16_cms_remove_state`, `C16_cms_join` (cited);
     `C14_cms_total_legit` restates `C02_total_is_sum`.
  6. Cuckoo / counting cuckoo filter (`C14_cuckoo_*`, the main new proof): the counter invariant
     `CountInv` — `elements_added = Σ bin counts`, for the counting filter `unique_elements =
     number of bins`, for the plain filter `unique_elements = 0` — holds for `new`, is preserved by
     `add`, `remove`, `expand` for ALL fingerprint hashes `G` and ALL oracles (through kick chains,
     automatic expansion, failed adds, failed expansions), is re-established by `load`, hence
     holds in every reachable state (`C14_cuckoo_run`, `C14_cuckoo_reachable`).  For the plain
     filter `elements_added = ` number of stored fingerprints (`C14_cuckoo_plain`).  The
     numerator of `load_factor` (plain: `elements_added`, counting: `unique_elements`) is the
     number of occupied slots and at most `capacity * bucket_size` (`C14_cuckoo_load_factor`).
  7. Quotient filter (`C14_qf_*`): a successful `_add` increments the counter by exactly one, a
     `_remove_element` decrements it by exactly one when the look-up finds the element and changes
     nothing otherwise (restating `C04_count_step_add` / `C04_count_step_remove`).  That the
     counter is the number of stored hashes over whole histories (including `resize`, `merge`) is
     C04's refinement theorem (`C04_partial`: `s.count = a.H.length`, conditional on C04's layer
     A/B facts; `C04_exact_set_bounded` unconditionally on the bounded universe) — cited, not
     re-proved here.
  8. Statistics at the `ℝ` instance (`C14_stats_*`): `estimate_elements = −1` when `X ≥ m`, and
     `⌊−(m/k)·ln(1 − X/m)⌋` (a non-negative value, so truncation is floor) when `X < m`, `k ≥ 1`;
     `current_false_positive_rate = (1 − e^{−k n/m})^k`.

  Not proved here: the quotient-filter whole-history link (see 7).
-/
import PyProb.Lemmas.CuckooCount
import PyProb.Lemmas.Counters
import PyProb.Properties.C15
import PyProb.Properties.C02
import PyProb.Properties.C16
import PyProb.Properties.C09
import PyProb.Properties.C10
import PyProb.Properties.C11
import PyProb.Properties.C04
import PyProb.Lemmas.RealInst

namespace PyProb.C14
open PyProb

/-! ## 6. cuckoo filter and counting cuckoo filter -/

/-- the counter invariant, spelled out on the table: `elements_added` is the sum of all bin counts;
    for the counting filter `unique_elements` is the number of bins; the plain filter leaves
    `unique_elements` at 0 -/
def CountInv (c : Cuckoo) : Prop :=
  c.count = (((c.buckets.flatten.map (·.2)).sum : Nat) : Int) ∧
  (c.counting = true → c.unique = ((c.buckets.flatten.length : Nat) : Int)) ∧
  (c.counting = false → c.unique = 0)

/-- the same invariant in the lemma library's weighted-sum form
    `count = tsum (·.2) c ∧ (counting → unique = tsum (fun _ => 1) c) ∧ (¬counting → unique = 0)` -/
theorem countInv_iff (c : Cuckoo) : CountInv c ↔ Cuckoo.CountInv c := by
  unfold CountInv Cuckoo.CountInv
  rw [Cuckoo.tsum_wCnt, Cuckoo.tsum_wOne]

theorem C14_cuckoo_init (counting : Bool) (cap b maxSwaps rate : Nat) (auto : Bool) (fpBits : Nat) :
    CountInv (Cuckoo.new counting cap b maxSwaps rate auto fpBits) :=
  (countInv_iff _).mpr (Cuckoo.CountInv_new counting cap b maxSwaps rate auto fpBits)

/-- `add` keeps the counters right, whatever happens inside: duplicate (counting: bin count and
    `elements_added` both +1), first fit, kick chain of any length, swaps exhausted (state
    restored), automatic expansion (recount from zero), failed expansion (state restored) -/
theorem C14_cuckoo_add (G : Nat → Nat) (c : Cuckoo) (h : Nat) (oracle : List Nat)
    (hinv : C15.Inv G c) (hc : CountInv c) : CountInv (c.add G h oracle).1 :=
  (countInv_iff _).mpr (Cuckoo.add_countInv h oracle ((C15.inv_iff_wf G c).mp hinv) ((countInv_iff c).mp hc))

/-- `remove` keeps the counters right: absent (nothing), count > 1 (bin and `elements_added` −1),
    last copy (bin erased, `elements_added` −1, counting: `unique_elements` −1) -/
theorem C14_cuckoo_remove (G : Nat → Nat) (c : Cuckoo) (h : Nat)
    (hinv : C15.Inv G c) (hc : CountInv c) : CountInv (c.remove G h).1 :=
  (countInv_iff _).mpr (Cuckoo.remove_countInv h ((C15.inv_iff_wf G c).mp hinv) ((countInv_iff c).mp hc))

/-- the public `expand()`: both counters restart at 0 and every bin is re-inserted with its count -/
theorem C14_cuckoo_expand (G : Nat → Nat) (c : Cuckoo) (oracle : List Nat)
    (hinv : C15.Inv G c) (hc : CountInv c) : CountInv (Cuckoo.expandLogic G c none oracle).1 := by
  have hw := (C15.inv_iff_wf G c).mp hinv
  exact (countInv_iff _).mpr (Cuckoo.expandLogic_countInv none oracle hw.ts hw.rate_pos ((countInv_iff c).mp hc))

/-- a successful expansion (with or without a pending extra bin) recounts: the counters are right
    afterwards even if they were wrong before (the repaired defect D6: every re-inserted bin is
    counted with its count, not as 1) -/
theorem C14_cuckoo_expand_recounts (G : Nat → Nat) (c : Cuckoo) (extra : Option CBin) (oracle : List Nat)
    (hinv : C15.Inv G c) (hok : (Cuckoo.expandLogic G c extra oracle).2.1 = none) :
    CountInv (Cuckoo.expandLogic G c extra oracle).1 := by
  have hw := (C15.inv_iff_wf G c).mp hinv
  exact (countInv_iff _).mpr (Cuckoo.expandLogic_countInv_of_ok extra oracle hw.ts hw.rate_pos hok)

/-- `load` recounts both counters from the table it parsed -/
theorem C14_cuckoo_load (template : Cuckoo) (file : Bytes) (c : Cuckoo)
    (h : Cuckoo.load template file = .ok c) : CountInv c :=
  (countInv_iff _).mpr (Cuckoo.load_countInv template file c h)

/-- every `add` that returns normally is counted once: `elements_added` goes up by one — for the
    plain filter unless the fingerprint was already stored (`check` reported 1), in which case
    nothing changes.  An `add` that raises leaves the whole state unchanged (`C15_add_result`). -/
theorem C14_cuckoo_add_delta (G : Nat → Nat) (c : Cuckoo) (h : Nat) (oracle : List Nat)
    (hinv : C15.Inv G c) (hc : CountInv c) (hok : (c.add G h oracle).2.1 = none) :
    (c.add G h oracle).1.count = c.count + (if c.counting then 1 else 1 - (c.check G h : Int)) :=
  Cuckoo.add_count_delta h oracle ((C15.inv_iff_wf G c).mp hinv) ((countInv_iff c).mp hc) hok

/-- a `remove` that returns `True` lowers `elements_added` by exactly one; one that returns
    `False` changes nothing (`C15_remove_false`) -/
theorem C14_cuckoo_remove_delta (G : Nat → Nat) (c : Cuckoo) (h : Nat)
    (hinv : C15.Inv G c) (hc : CountInv c) (hret : (c.remove G h).2 = true) :
    (c.remove G h).1.count = c.count - 1 :=
  Cuckoo.remove_count_delta h ((C15.inv_iff_wf G c).mp hinv) ((countInv_iff c).mp hc) hret

theorem C14_cuckoo_step (G : Nat → Nat) (c : Cuckoo) (op : C15.Op × List Nat)
    (hinv : C15.Inv G c) (hc : CountInv c) : CountInv (C15.step G c op) := by
  obtain ⟨op, oracle⟩ := op
  cases op with
  | add h => exact C14_cuckoo_add G c h oracle hinv hc
  | remove h => exact C14_cuckoo_remove G c h hinv hc
  | expand => exact C14_cuckoo_expand G c oracle hinv hc

/-- the counters are right in every state reachable by any history of add / remove / expand, every
    operation with its own arbitrary oracle -/
theorem C14_cuckoo_run (G : Nat → Nat) (c : Cuckoo) (ops : List (C15.Op × List Nat))
    (hinv : C15.Inv G c) (hc : CountInv c) : CountInv (C15.run G c ops) := by
  unfold C15.run
  induction ops generalizing c with
  | nil => exact hc
  | cons op ops ih => exact ih (C15.step G c op) (C15.C15_step G c op hinv) (C14_cuckoo_step G c op hinv hc)

/-- … after every single step, not only at the end -/
theorem C14_cuckoo_every_step (G : Nat → Nat) (c : Cuckoo) (ops : List (C15.Op × List Nat))
    (hinv : C15.Inv G c) (hc : CountInv c) (n : Nat) : CountInv (C15.run G c (ops.take n)) :=
  C14_cuckoo_run G c (ops.take n) hinv hc

/-- from a fresh filter of either kind -/
theorem C14_cuckoo_reachable (G : Nat → Nat) (counting : Bool) (cap b maxSwaps rate : Nat) (auto : Bool)
    (fpBits : Nat) (hcap : 1 ≤ cap) (hb : 1 ≤ b) (hrate : 1 ≤ rate) (ops : List (C15.Op × List Nat)) :
    CountInv (C15.run G (Cuckoo.new counting cap b maxSwaps rate auto fpBits) ops) :=
  C14_cuckoo_run G _ ops (C15.C15_init G counting cap b maxSwaps rate auto fpBits hcap hb hrate)
    (C14_cuckoo_init counting cap b maxSwaps rate auto fpBits)

/-- plain filter: `elements_added` is the number of stored fingerprints -/
theorem C14_cuckoo_plain (G : Nat → Nat) (c : Cuckoo) (hinv : C15.Inv G c) (hc : CountInv c)
    (hplain : c.counting = false) : c.count = ((c.buckets.flatten.length : Nat) : Int) := by
  obtain ⟨_, _, _, _, _, _, _, _, hones⟩ := hinv
  rw [hc.1]
  congr 1
  have := Cuckoo.bsum_wCnt_of_ones c.buckets.flatten (hones hplain)
  exact this

/-- counting filter: `unique_elements` is the number of bins, `elements_added` the sum of their counts -/
theorem C14_ccf_counters (c : Cuckoo) (hc : CountInv c) (hcounting : c.counting = true) :
    c.unique = ((c.buckets.flatten.length : Nat) : Int) ∧
    c.count = (((c.buckets.flatten.map (·.2)).sum : Nat) : Int) := ⟨hc.2.1 hcounting, hc.1⟩

/-- numerator of `load_factor()`: `elements_added` (cuckoo.py:289) resp. `unique_elements`
    (countingcuckoo.py:157); the denominator is `capacity * bucket_size` -/
def loadNum (c : Cuckoo) : Int := if c.counting then c.unique else c.count

private theorem sum_length_le (l : List (List CBin)) (b : Nat) (h : ∀ x ∈ l, x.length ≤ b) :
    l.flatten.length ≤ l.length * b := by
  induction l with
  | nil => simp
  | cons x xs ih =>
    have h1 := h x (by simp)
    have h2 := ih (fun y hy => h y (by simp [hy]))
    simp only [List.flatten_cons, List.length_append, List.length_cons, Nat.add_mul, Nat.one_mul]
    omega

/-- the load factor is (occupied slots) / (all slots), a value in `[0, 1]`, for both kinds -/
theorem C14_cuckoo_load_factor (G : Nat → Nat) (c : Cuckoo) (hinv : C15.Inv G c) (hc : CountInv c) :
    loadNum c = ((c.buckets.flatten.length : Nat) : Int) ∧ c.buckets.flatten.length ≤ c.cap * c.b := by
  refine ⟨?_, ?_⟩
  · unfold loadNum
    by_cases h : c.counting = true
    · rw [if_pos h]; exact hc.2.1 h
    · rw [if_neg h]; exact C14_cuckoo_plain G c hinv hc (by simpa using h)
  · obtain ⟨hlen, _, _, _, hsize, _⟩ := hinv
    rw [← hlen]; exact sum_length_le c.buckets c.b hsize

/-! ## 1. Bloom filter -/

inductive BOp
  | add (hs : List Nat)
  | clear
  deriving DecidableEq, Repr

/-- one call; an `add_alt` that raises IndexError leaves the partially updated filter -/
def bstep (b : Bloom) : BOp → Bloom
  | .add hs => (b.addAlt hs).1
  | .clear => b.clear

def brun (b : Bloom) (ops : List BOp) : Bloom := ops.foldl bstep b

/-- the documented value of the counter after a history, starting from the value `c` in a filter
    with `k` hash functions: completed `add` calls since the last `clear` -/
def bdoc (k : Nat) : Int → List BOp → Int
  | c, [] => c
  | c, .add hs :: r => bdoc k (if k ≤ hs.length then c + 1 else c) r
  | _, .clear :: r => bdoc k 0 r

theorem C14_bloom_add (b : Bloom) (hs : List Nat) (hk : b.k ≤ hs.length) :
    (b.addAlt hs).2 = none ∧ (b.addAlt hs).1.count = b.count + 1 := by
  rw [Counters.bloom_add_err, Counters.bloom_add_count, if_pos hk, if_pos hk]
  exact ⟨rfl, rfl⟩

/-- too few hashes: IndexError, the call is not counted -/
theorem C14_bloom_add_short (b : Bloom) (hs : List Nat) (hk : hs.length < b.k) :
    (b.addAlt hs).2 = some .indexError ∧ (b.addAlt hs).1.count = b.count := by
  rw [Counters.bloom_add_err, Counters.bloom_add_count, if_neg (by omega), if_neg (by omega)]
  exact ⟨rfl, rfl⟩

theorem C14_bloom_clear (b : Bloom) : b.clear.count = 0 := rfl

theorem C14_bloom_history (b : Bloom) (ops : List BOp) : (brun b ops).count = bdoc b.k b.count ops := by
  unfold brun
  induction ops generalizing b with
  | nil => rfl
  | cons op ops ih =>
    cases op with
    | add hs =>
      simp only [List.foldl_cons, bdoc]
      rw [ih, bstep, Counters.bloom_add_k, Counters.bloom_add_count]
    | clear =>
      simp only [List.foldl_cons, bdoc]
      rw [ih]; rfl

/-- histories of adds that all carry enough hashes: the counter is the number of add calls -/
theorem C14_bloom_adds (b : Bloom) (hss : List (List Nat)) (hk : ∀ hs ∈ hss, b.k ≤ hs.length) :
    (brun b (hss.map BOp.add)).count = b.count + hss.length := by
  rw [C14_bloom_history]
  generalize b.count = c
  induction hss generalizing c with
  | nil => simp [bdoc]
  | cons hs hss ih =>
    simp only [List.map_cons, bdoc, List.length_cons]
    rw [if_pos (hk hs (by simp)), ih (fun x hx => hk x (by simp [hx]))]
    push_cast; omega

/-- `union` / `intersection`: the result's counter is the estimate computed from the result's
    own set-bit count (and geometry), for every estimator passed in -/
theorem C14_bloom_union_count (est : Estimator) (a b r : Bloom) (same : Bool)
    (h : Bloom.union est a b same = some r) : r.count = est r.m r.k r.setBits := by
  unfold Bloom.union at h
  split at h
  · cases h
  · simp only [Option.some.injEq] at h; subst h; rfl

theorem C14_bloom_intersection_count (est : Estimator) (a b r : Bloom) (same : Bool)
    (h : Bloom.intersection est a b same = some r) : r.count = est r.m r.k r.setBits := by
  unfold Bloom.intersection at h
  split at h
  · cases h
  · simp only [Option.some.injEq] at h; subst h; rfl

theorem C14_cbf_union_count (est : Estimator) (a b r : CBF) (same : Bool)
    (h : CBF.union est a b same = some r) : r.count = est r.m r.k r.setBits := by
  unfold CBF.union at h
  split at h
  · cases h
  · simp only [Option.some.injEq] at h; subst h; rfl

theorem C14_cbf_intersection_count (est : Estimator) (a b r : CBF) (same : Bool)
    (h : CBF.intersection est a b same = some r) : r.count = est r.m r.k r.setBits := by
  unfold CBF.intersection at h
  split at h
  · cases h
  · simp only [Option.some.injEq] at h; subst h; rfl

/-! ## 2. on-disk Bloom filter -/

/-- after any sequence of adds and close/reopen cycles: the in-memory counter is the initial value
    plus the number of adds, and the file is `bits ++ footer(est, that same value, fpr)` — the
    counter stored in the file agrees (corollary of `C11_history`) -/
theorem C14_ondisk_history (geom : Geom) (o₀ : OnDisk) (bits₀ : Bytes) (ops : List C11.Op)
    (h : C11.Shape o₀ bits₀ o₀.count) (hg : geom o₀.est o₀.fpr32 = .ok (o₀.fpr32, o₀.k, o₀.m))
    (he : o₀.est < 2 ^ 64) (hf : o₀.fpr32 < 2 ^ 32) (hc0 : 0 ≤ o₀.count)
    (hc : o₀.count + (C11.adds ops : Int) < 2 ^ 64) :
    (ops.foldl (C11.step geom) o₀).count = o₀.count + (C11.adds ops : Int) ∧
    ∃ bits, (ops.foldl (C11.step geom) o₀).file
      = fileOf bits o₀.est (o₀.count + (C11.adds ops : Int)) o₀.fpr32 := by
  obtain ⟨⟨bits, hsh, _⟩, gc, ge, gf, _, _⟩ := C11.C11_history geom o₀ bits₀ ops h hg he hf hc0 hc
  refine ⟨gc, bits, ?_⟩
  rw [hsh.file, ge, gf, gc]

/-- a newly created on-disk filter: counter (memory and file) = number of adds so far -/
theorem C14_ondisk_from_create (geom : Geom) (est fpr32 k m : Nat) (hm : 0 < m) (he : est < 2 ^ 64)
    (hf : fpr32 < 2 ^ 32) (hg : geom est fpr32 = .ok (fpr32, k, m)) (ops : List C11.Op)
    (hc : (C11.adds ops : Int) < 2 ^ 64) :
    ∃ o₀, OnDisk.create est fpr32 k m = .ok o₀ ∧
      (ops.foldl (C11.step geom) o₀).count = (C11.adds ops : Int) ∧
      ∃ bits, (ops.foldl (C11.step geom) o₀).file = fileOf bits est (C11.adds ops : Int) fpr32 := by
  obtain ⟨o₀, hcr, hsh, h0, e1, e2, e3, e4⟩ := C11.C11_create est fpr32 k m hm he hf
  have := C14_ondisk_history geom o₀ _ ops (by rw [h0]; exact hsh) (by rw [e1, e2, e3, e4]; exact hg)
    (by rw [e1]; exact he) (by rw [e2]; exact hf) (by omega) (by rw [h0]; simpa using hc)
  rw [h0, e1, e2] at this
  simp only [Int.zero_add] at this
  exact ⟨o₀, hcr, this⟩

theorem C14_ondisk_add (o : OnDisk) (hs : List Nat) : (o.addAlt hs).count = o.count + 1 := rfl

private theorem set_zero_prefix (bits : Bytes) (n : Nat) (hn : n < bits.length) :
    (List.replicate n 0 ++ bits.drop n).set n 0 = List.replicate (n + 1) 0 ++ bits.drop (n + 1) := by
  rw [List.set_append_right _ _ (by simp)]
  simp only [List.length_replicate, Nat.sub_self]
  rw [List.drop_eq_getElem_cons hn, List.set_cons_zero, List.replicate_succ']
  simp

private theorem zero_steps (bits : Bytes) (e : Nat) (c : Int) (f : Nat) (n : Nat) (hn : n ≤ bits.length) :
    OnDisk.applyAll (fileOf bits e c f) ((List.range n).map fun i => MicroStep.storeByte i 0)
      = fileOf (List.replicate n 0 ++ bits.drop n) e c f := by
  induction n with
  | zero => simp [OnDisk.applyAll]
  | succ n ih =>
    rw [List.range_succ, List.map_append, List.map_singleton, applyAll_append_one, ih (by omega)]
    simp only [MicroStep.apply]
    rw [set_fileOf _ _ _ _ _ _ (by simp; omega), set_zero_prefix bits n (by omega)]

/-- `clear()` on a well-shaped file: the bit array is zeroed and the count 0 is written, in memory
    and in the file -/
theorem C14_ondisk_clear_file (o : OnDisk) (bits : Bytes) (c : Int) (h : C11.Shape o bits c) :
    C11.Shape o.clear (List.replicate ((o.m + 7) / 8) 0) 0 ∧ o.clear.count = 0 := by
  refine ⟨⟨?_, by rw [List.length_replicate]; rfl, h.mpos⟩, rfl⟩
  have hoff := C11.countOffset_eq h
  have hL : o.bloomLength = bits.length := by rw [h.len]; exact C11.lengthOf_eq o.m
  show OnDisk.applyAll o.file o.clearSteps = _
  unfold OnDisk.clearSteps
  rw [applyAll_append_one, h.file, hL, zero_steps bits _ _ _ _ (Nat.le_refl _)]
  simp only [OnDisk.updateStep, MicroStep.apply, hoff, List.drop_length, List.append_nil]
  have := patch_count (List.replicate bits.length 0) o.est c 0 o.fpr32
  simp only [List.length_replicate] at this
  rw [this, h.len]
  rfl
/-- on-disk histories with `clear()` -/
inductive DOp
  | add (hs : List Nat)
  | cycle
  | clear

def dstep (geom : Geom) (o : OnDisk) : DOp → OnDisk
  | .add hs => C11.step geom o (.add hs)
  | .cycle => C11.step geom o .cycle
  | .clear => o.clear

/-- documented counter: completed adds since the last `clear` -/
def ddocStep (c : Int) : DOp → Int
  | .add _ => c + 1
  | .cycle => c
  | .clear => 0

def ddoc (c : Int) (ops : List DOp) : Int := ops.foldl ddocStep c

/-- the documented value stays below 2^64 (it is stored in an unsigned 64-bit field) -/
def DFits : Int → List DOp → Prop
  | _, [] => True
  | c, op :: r => ddocStep c op < 2 ^ 64 ∧ DFits (ddocStep c op) r

/-- what an on-disk history preserves: the file is `bits ++ footer(est, count, fpr)` with the
    in-memory count, and the parameters are the original ones -/
structure DGood (o₀ o : OnDisk) : Prop where
  shape : ∃ bits, C11.Shape o bits o.count
  nonneg : 0 ≤ o.count
  est : o.est = o₀.est
  fpr : o.fpr32 = o₀.fpr32
  k : o.k = o₀.k
  m : o.m = o₀.m

theorem dstep_good (geom : Geom) (o₀ o : OnDisk) (op : DOp)
    (hg : geom o₀.est o₀.fpr32 = .ok (o₀.fpr32, o₀.k, o₀.m)) (he : o₀.est < 2 ^ 64) (hf : o₀.fpr32 < 2 ^ 32)
    (g : DGood o₀ o) (hfit : ddocStep o.count op < 2 ^ 64) :
    DGood o₀ (dstep geom o op) ∧ (dstep geom o op).count = ddocStep o.count op := by
  obtain ⟨⟨bits, hsh⟩, h0, ge, gf, gk, gm⟩ := g
  have key : ∀ op' : C11.Op, o.count + (C11.adds [op'] : Int) < 2 ^ 64 →
      DGood o₀ (C11.step geom o op') ∧ (C11.step geom o op').count = o.count + (C11.adds [op'] : Int) := by
    intro op' hc
    obtain ⟨⟨bits', hsh', _⟩, gc', ge', gf', gk', gm'⟩ := C11.C11_history geom o bits [op'] hsh
      (by rw [ge, gf, gk, gm]; exact hg) (by rw [ge]; exact he) (by rw [gf]; exact hf) h0 hc
    simp only [List.foldl_cons, List.foldl_nil] at hsh' gc' ge' gf' gk' gm'
    exact ⟨⟨⟨bits', hsh'⟩, by rw [gc']; omega, ge'.trans ge, gf'.trans gf, gk'.trans gk, gm'.trans gm⟩, gc'⟩
  cases op with
  | add hs =>
    have := key (.add hs) (by simpa [C11.adds, ddocStep] using hfit)
    simpa [dstep, ddocStep, C11.adds] using this
  | cycle =>
    have := key .cycle (by simpa [C11.adds, ddocStep] using hfit)
    simpa [dstep, ddocStep, C11.adds] using this
  | clear =>
    obtain ⟨hsh', hc'⟩ := C14_ondisk_clear_file o bits o.count hsh
    show DGood o₀ o.clear ∧ o.clear.count = 0
    refine ⟨⟨⟨_, by rw [hc']; exact hsh'⟩, by omega, ge, gf, gk, gm⟩, hc'⟩

theorem C14_ondisk_history_clear (geom : Geom) (o₀ : OnDisk) (bits₀ : Bytes) (ops : List DOp)
    (h : C11.Shape o₀ bits₀ o₀.count) (hg : geom o₀.est o₀.fpr32 = .ok (o₀.fpr32, o₀.k, o₀.m))
    (he : o₀.est < 2 ^ 64) (hf : o₀.fpr32 < 2 ^ 32) (hc0 : 0 ≤ o₀.count) (hfit : DFits o₀.count ops) :
    (ops.foldl (dstep geom) o₀).count = ddoc o₀.count ops ∧
    ∃ bits, (ops.foldl (dstep geom) o₀).file = fileOf bits o₀.est (ddoc o₀.count ops) o₀.fpr32 := by
  suffices H : ∀ (ops : List DOp) (o : OnDisk), DGood o₀ o → DFits o.count ops →
      DGood o₀ (ops.foldl (dstep geom) o) ∧ (ops.foldl (dstep geom) o).count = ddoc o.count ops by
    obtain ⟨⟨⟨bits, hsh⟩, _, ge, gf, _, _⟩, gc⟩ := H ops o₀ ⟨⟨bits₀, h⟩, hc0, rfl, rfl, rfl, rfl⟩ hfit
    refine ⟨gc, bits, ?_⟩
    rw [hsh.file, ge, gf, gc]
  intro ops
  induction ops with
  | nil => intro o g _; exact ⟨g, rfl⟩
  | cons op ops ih =>
    intro o g hfit
    obtain ⟨f1, f2⟩ := hfit
    obtain ⟨g', hc'⟩ := dstep_good geom o₀ o op hg he hf g f1
    have := ih (dstep geom o op) g' (by rw [hc']; exact f2)
    rw [hc'] at this
    exact this

/-! ## 3. expanding and rotating Bloom filter -/

/-- arbitrary membership answers, `push` in the history (`C09_counted`) -/
theorem C14_expanding_counted (e : Expanding) (ops : List C09.Op) :
    (C09.run e ops).added = e.added + C09.addCount ops := C09.C09_counted e ops

def eIsAdd : C09.AOp → Bool
  | .add .. => true
  | .push => false

/-- the real API: every `add_alt` call is counted — suppressed duplicate, forced, effective, and
    also a call that raises; no hypothesis on the state or the hash lists -/
theorem C14_expanding_counted_api (e : Expanding) (aops : List C09.AOp) :
    (C09.runA e aops).added = e.added + aops.countP eIsAdd := by
  unfold C09.runA
  induction aops generalizing e with
  | nil => simp
  | cons a aops ih =>
    rw [List.foldl_cons, ih]
    cases a with
    | add hs f =>
      simp only [C09.stepA, Counters.expanding_addAlt_added, List.countP_cons, eIsAdd, if_true]
      push_cast; omega
    | push => simp [C09.stepA, Expanding.push, eIsAdd]

/-- rotating filter, arbitrary membership answers, `push` and `pop` (also a refused `pop`) -/
theorem C14_rotating_counted (r : Rotating) (ops : List C10.Op) :
    (C10.run r ops).added = r.added + ops.countP C10.Op.isAdd := by
  unfold C10.run
  induction ops generalizing r with
  | nil => simp
  | cons op ops ih =>
    rw [List.foldl_cons, ih]
    cases op with
    | add p hs f =>
      simp only [C10.step, (Rotating.addCore_static r p hs f).2.2.2.2.1, List.countP_cons, C10.Op.isAdd, if_true]
      push_cast; omega
    | push =>
      simp only [C10.step, (Rotating.push_static r).2.2.2.2.1, List.countP_cons, C10.Op.isAdd]
      simp
    | pop =>
      have : (C10.step r .pop).added = r.added := by
        simp only [C10.step]
        cases h : r.pop with
        | ok r' => exact Counters.rotating_pop_added r r' h
        | error e => rfl
      rw [this]; simp [C10.Op.isAdd]

theorem C14_rotating_counted_api (r : Rotating) (aops : List C10.AOp) :
    (C10.runA r aops).added = r.added + aops.countP C10.AOp.isAdd := by
  unfold C10.runA
  induction aops generalizing r with
  | nil => simp
  | cons a aops ih =>
    rw [List.foldl_cons, ih]
    cases a with
    | add hs f =>
      simp only [C10.stepA, Counters.rotating_addAlt_added, List.countP_cons, C10.AOp.isAdd, if_true]
      push_cast; omega
    | push =>
      simp only [C10.stepA, (Rotating.push_static r).2.2.2.2.1, List.countP_cons, C10.AOp.isAdd]
      simp
    | pop =>
      have : (C10.stepA r .pop).added = r.added := by
        simp only [C10.stepA]
        cases h : r.pop with
        | ok r' => exact Counters.rotating_pop_added r r' h
        | error e => rfl
      rw [this]; simp [C10.AOp.isAdd]

/-! ## 4. counting Bloom filter -/

/-- `add_alt` that returns: the counter is the sum clamped at 2^64 − 1 -/
theorem C14_cbf_add (c : CBF) (hs : List Nat) (n v : Int) (h : (c.addAlt hs n).2 = .ok v) :
    (c.addAlt hs n).1.count = min (c.count + n) Gen.uint64Max :=
  (Counters.cbf_add_count c hs n).1 v h

/-- `add_alt` that raises (too few hashes; negative store): the counter is untouched -/
theorem C14_cbf_add_error (c : CBF) (hs : List Nat) (n : Int) (e : Err) (h : (c.addAlt hs n).2 = .error e) :
    (c.addAlt hs n).1.count = c.count :=
  (Counters.cbf_add_count c hs n).2 e h

/-- `remove_alt` that returns `v`: with `mn` the minimum of the touched cells (what `check` of
    these positions reports), either the key is saturated (`mn = 2^32−1 = v`, nothing changes), or
    absent (`mn = 0 = v`, nothing changes), or `min n mn` is subtracted from the counter and from
    the returned value -/
theorem C14_cbf_remove (c : CBF) (hs : List Nat) (n v : Int) (h : (c.removeAlt hs n).2 = .ok v) :
    c.k ≤ hs.length ∧
    ((Counters.touchedMin c hs = Gen.uint32Max ∧ v = Gen.uint32Max ∧ (c.removeAlt hs n).1 = c) ∨
     (Counters.touchedMin c hs = 0 ∧ v = 0 ∧ (c.removeAlt hs n).1 = c) ∨
     (Counters.touchedMin c hs ≠ Gen.uint32Max ∧ Counters.touchedMin c hs ≠ 0 ∧
       v = Counters.touchedMin c hs - min n (Counters.touchedMin c hs) ∧
       (c.removeAlt hs n).1.count = c.count - min n (Counters.touchedMin c hs))) :=
  Counters.cbf_remove_ok c hs n v h

/-- uniform form: the counter goes down by exactly what the key's reported value goes down -/
theorem C14_cbf_remove_by_return (c : CBF) (hs : List Nat) (n v : Int) (h : (c.removeAlt hs n).2 = .ok v) :
    (c.removeAlt hs n).1.count = c.count - (Counters.touchedMin c hs - v) := by
  obtain ⟨_, h1 | h1 | h1⟩ := Counters.cbf_remove_ok c hs n v h
  · obtain ⟨a, b, e⟩ := h1; rw [e, a, b]; omega
  · obtain ⟨a, b, e⟩ := h1; rw [e, a, b]; omega
  · obtain ⟨_, _, b, e⟩ := h1; rw [e, b]; omega

theorem C14_cbf_remove_error (c : CBF) (hs : List Nat) (n : Int) (e : Err)
    (h : (c.removeAlt hs n).2 = .error e) : (c.removeAlt hs n).1.count = c.count :=
  Counters.cbf_remove_err c hs n e h

theorem C14_cbf_clear (c : CBF) : c.clear.count = 0 := rfl

inductive CbfOp
  | add (hs : List Nat) (n : Int)
  | remove (hs : List Nat) (n : Int)
  deriving DecidableEq, Repr

def CbfOp.signed : CbfOp → Int
  | .add _ n => n
  | .remove _ n => -n

def cbfStep (c : CBF) : CbfOp → CBF × R Int
  | .add hs n => c.addAlt hs n
  | .remove hs n => c.removeAlt hs n

def cbfRun (c : CBF) (ops : List CbfOp) : CBF := ops.foldl (fun c op => (cbfStep c op).1) c

/-- the operation meets a state in which it is below the limits: an add does not reach the
    64-bit clamp of the counter; a removal takes a positive amount not exceeding what `check`
    reports for the key, and the key is not saturated -/
def CbfOp.Below (c : CBF) : CbfOp → Prop
  | .add _ n => c.count + n ≤ Gen.uint64Max
  | .remove hs n => 1 ≤ n ∧ n ≤ Counters.touchedMin c hs ∧ Counters.touchedMin c hs < Gen.uint32Max

/-- prefix property of a history: no call raised and every call was below the limits -/
def CbfFine : CBF → List CbfOp → Prop
  | _, [] => True
  | c, op :: r => (∃ v, (cbfStep c op).2 = .ok v) ∧ op.Below c ∧ CbfFine (cbfStep c op).1 r

theorem C14_cbf_step (c : CBF) (op : CbfOp) (hok : ∃ v, (cbfStep c op).2 = .ok v) (hb : op.Below c) :
    (cbfStep c op).1.count = c.count + op.signed := by
  obtain ⟨v, hv⟩ := hok
  cases op with
  | add hs n =>
    simp only [cbfStep] at hv ⊢
    rw [C14_cbf_add c hs n v hv]
    simp only [CbfOp.Below] at hb
    simp only [CbfOp.signed]; omega
  | remove hs n =>
    simp only [cbfStep] at hv ⊢
    obtain ⟨h1, h2, h3⟩ := hb
    obtain ⟨_, g | g | g⟩ := C14_cbf_remove c hs n v hv
    · omega
    · omega
    · rw [g.2.2.2]; simp only [CbfOp.signed]; omega

/-- **counting Bloom filter**: `elements_added = initial + Σ added − Σ removed` -/
theorem C14_cbf_history (c : CBF) (ops : List CbfOp) (h : CbfFine c ops) :
    (cbfRun c ops).count = c.count + (ops.map CbfOp.signed).sum := by
  unfold cbfRun
  induction ops generalizing c with
  | nil => simp
  | cons op ops ih =>
    obtain ⟨hok, hb, hr⟩ := h
    rw [List.foldl_cons, ih _ hr, C14_cbf_step c op hok hb]
    simp only [List.map_cons, List.sum_cons]; omega

/-! ## 5. count-min sketch family -/

/-- the documented (unclamped) value of `elements_added` after one call on a sketch of geometry
    `w × d` whose value was `t` -/
def cmsDocStep (w d : Nat) (t : Int) : C16.Op → Int
  | .add _ n => t + n
  | .remove _ n => t - n
  | .join o p => if w = o.w ∧ d = o.d ∧ p = true then t + o.total else t
  | .clear => 0

def cmsDoc (w d : Nat) (t : Int) (ops : List C16.Op) : Int := ops.foldl (cmsDocStep w d) t

/-- every add / remove supplies `d` hashes and an amount ≥ 1 (so no call raises) -/
def CmsOpOK (d : Nat) : C16.Op → Prop
  | .add hs n => hs.length = d ∧ 1 ≤ n
  | .remove hs n => hs.length = d ∧ 1 ≤ n
  | _ => True

/-- prefix property: the documented value never leaves the int64 range -/
def CmsFits (w d : Nat) : Int → List C16.Op → Prop
  | _, [] => True
  | t, op :: r => Gen.int64Min ≤ cmsDocStep w d t op ∧ cmsDocStep w d t op ≤ Gen.int64Max ∧
      CmsFits w d (cmsDocStep w d t op) r

theorem C14_cms_step (c : CMS) (op : C16.Op) (hI : C16.Inv c) (hw : 0 < c.w) (hop : CmsOpOK c.d op) :
    (C16.step c op).total =
      max Gen.int64Min (min Gen.int64Max (cmsDocStep c.w c.d c.total op)) := by
  cases op with
  | add hs n => exact (C16.C16_cms_add_state c hs n hI hw hop.1 hop.2).2.2.2.2.2
  | remove hs n => exact (C16.C16_cms_remove_state c hs n hI hw hop.1 hop.2).2.2.2.2.2
  | join o p =>
    simp only [C16.step, cmsDocStep]
    by_cases hc : c.w = o.w ∧ c.d = o.d ∧ p = true
    · obtain ⟨h1, h2, h3⟩ := hc
      subst h3
      obtain ⟨r, hr, _, _, _, _, _, ht⟩ := C16.C16_cms_join c o hI h1 h2
      rw [hr, if_pos ⟨h1, h2, rfl⟩]; exact ht
    · rw [if_neg hc]
      have : c.join o p = .error .cmsError := by
        apply C16.C16_cms_join_mismatch
        by_cases h1 : c.w = o.w
        · by_cases h2 : c.d = o.d
          · right; right
            cases p with
            | false => rfl
            | true => exact absurd ⟨h1, h2, rfl⟩ hc
          · exact Or.inr (Or.inl h2)
        · exact Or.inl h1
      rw [this]
      have := hI.2.2.1; have := hI.2.2.2
      simp only
      omega
  | clear =>
    simp only [C16.step, cmsDocStep, CMS.clear, Gen.int64Min, Gen.int64Max]
    omega

/-- **count-min family**: below the 64-bit clamps `elements_added` is the documented running value
    — Σ added − Σ removed, `join` adds the other sketch's total, `clear` resets -/
theorem C14_cms_history (c : CMS) (ops : List C16.Op) (hI : C16.Inv c) (hw : 0 < c.w)
    (hops : ∀ op ∈ ops, CmsOpOK c.d op) (hfit : CmsFits c.w c.d c.total ops) :
    (C16.run c ops).total = cmsDoc c.w c.d c.total ops := by
  unfold C16.run cmsDoc
  induction ops generalizing c with
  | nil => rfl
  | cons op ops ih =>
    obtain ⟨f1, f2, f3⟩ := hfit
    have hop := hops op (by simp)
    have hst := C14_cms_step c op hI hw hop
    have htot : (C16.step c op).total = cmsDocStep c.w c.d c.total op := by rw [hst]; omega
    have hamt : op.AmountOK := by
      cases op with
      | add hs n => exact hop.2
      | remove hs n => exact hop.2
      | join o p => trivial
      | clear => trivial
    obtain ⟨hI', hw', hd'⟩ := C16.C16_cms_step c op hI hamt
    rw [List.foldl_cons, List.foldl_cons]
    have := ih (C16.step c op) hI' (by rw [hw']; exact hw)
      (fun o ho => by rw [hd']; exact hops o (by simp [ho])) (by rw [hw', hd', htot]; exact f3)
    rw [this, hw', hd', htot]

/-- adds and removes only: `total = initial + Σ added − Σ removed` -/
theorem C14_cms_sum (w d : Nat) (t : Int) (ops : List C16.Op)
    (h : ∀ op ∈ ops, (∃ hs n, op = .add hs n) ∨ (∃ hs n, op = .remove hs n)) :
    cmsDoc w d t ops = t + (ops.map fun op => match op with
      | .add _ n => n | .remove _ n => -n | _ => 0).sum := by
  unfold cmsDoc
  induction ops generalizing t with
  | nil => simp
  | cons op ops ih =>
    rw [List.foldl_cons, ih _ (fun o ho => h o (by simp [ho]))]
    rcases h op (by simp) with ⟨hs, n, rfl⟩ | ⟨hs, n, rfl⟩
    · simp only [cmsDocStep, List.map_cons, List.sum_cons]; omega
    · simp only [cmsDocStep, List.map_cons, List.sum_cons]; omega

/-- keyed histories from a fresh sketch, legitimate and small (C02): the total is the signed sum,
    which is also the sum of the true counts of the distinct keys (`C02_total_is_sum`) -/
theorem C14_cms_total_legit (w d : Nat) (H : Key → Nat → List Nat) (hw : 0 < w)
    (hH : ∀ key, (H key d).length = d) (mode : Mode) (ops : List C02.Op)
    (hL : C02.Legit ops) (hS : C02.Small ops) :
    (C02.run w d H mode ops).total = C02.totalOf ops ∧
    (C02.run w d H mode ops).total = ((C02.keysOf ops).map (C02.cnt ops)).sum :=
  ⟨(C02.C02_total_is_sum hw hH mode ops hL hS).2, (C02.C02_total_is_sum hw hH mode ops hL hS).1⟩

/-! ## 7. quotient filter -/

/-- a successful `_add(q, r)` increments the counter by exactly one -/
theorem C14_qf_add (s : QF) (qq rr : Nat) (t : QF) (h : QF.addQR s qq rr = .ok t) :
    t.count = s.count + 1 := C04.C04_count_step_add s qq rr t h

/-- `_remove_element(q, r)`: exactly one less when the look-up finds the element, nothing changes
    when it does not -/
theorem C14_qf_remove (s : QF) (qq rr : Nat) (t : QF) (h : QF.removeQR s qq rr = .ok t) :
    (∃ idx, QF.containedAtLoc s qq rr = .ok (some idx) ∧ t.count = s.count - 1) ∨
    (QF.containedAtLoc s qq rr = .ok none ∧ t = s) := C04.C04_count_step_remove s qq rr t h

/-- `add_alt` without auto-resize: +1 exactly when the hash was not found -/
theorem C14_qf_add_alt (b : Nat) (s : QF) (h : Nat) (t : QF) (hauto : s.auto = false)
    (hr : QF.addAlt (b + 1) s h = .ok t) :
    (∃ idx, QF.containedAtLoc s (s.quotOf h) (s.remOf h) = .ok (some idx) ∧ t = s) ∨
    (QF.containedAtLoc s (s.quotOf h) (s.remOf h) = .ok none ∧ t.count = s.count + 1) :=
  C04.C04_count_step b s h t hauto hr

/-! ## 8. statistics of a Bloom filter, at the real-number instance of `RealLike` -/

/-- `estimateElements` unfolded at ℝ (any narrowing function): the generic formula of
    `Model/Sizing.lean` with `int(·)` as truncation toward zero -/
theorem estimateElements_real (nr : ℝ → ℝ) (m k x : Nat) :
    @estimateElements ℝ (realLikeWith nr) m k x =
      if x ≥ m then -1
      else if (-1 * ((m : ℝ) / (k : ℝ))) * Real.log (1 - (x : ℝ) / (m : ℝ)) < 0
        then ⌈(-1 * ((m : ℝ) / (k : ℝ))) * Real.log (1 - (x : ℝ) / (m : ℝ))⌉
        else ⌊(-1 * ((m : ℝ) / (k : ℝ))) * Real.log (1 - (x : ℝ) / (m : ℝ))⌋ := by
  simp [estimateElements, RealLike.ofNat]

/-- all bits set (or more, which cannot happen): the estimate is −1 -/
theorem C14_stats_estimate_full (m k X : Nat) (h : m ≤ X) : estimateElements (α := ℝ) m k X = -1 := by
  rw [show estimateElements (α := ℝ) m k X = _ from estimateElements_real id m k X]
  rw [if_pos h]

/-- the standard estimate `−(m/k)·ln(1 − X/m)` is non-negative for `X < m` … -/
theorem C14_stats_estimate_nonneg (m k X : Nat) (h : X < m) :
    0 ≤ -((m : ℝ) / (k : ℝ)) * Real.log (1 - (X : ℝ) / (m : ℝ)) := by
  have hm : (0 : ℝ) < m := by exact_mod_cast (Nat.lt_of_le_of_lt (Nat.zero_le _) h)
  have hx : (0 : ℝ) ≤ X := by exact_mod_cast Nat.zero_le X
  have hxm : (X : ℝ) < m := by exact_mod_cast h
  have h1 : (X : ℝ) / m < 1 := by rw [div_lt_one hm]; exact hxm
  have h0 : 0 ≤ (X : ℝ) / m := div_nonneg hx hm.le
  have hlog : Real.log (1 - (X : ℝ) / m) ≤ 0 := Real.log_nonpos (by linarith) (by linarith)
  have hmk : 0 ≤ (m : ℝ) / (k : ℝ) := div_nonneg hm.le (by exact_mod_cast Nat.zero_le k)
  have := mul_nonneg hmk (neg_nonneg.mpr hlog)
  nlinarith

/-- … so `int(·)` is the floor: `estimate_elements() = ⌊−(m/k)·ln(1 − X/m)⌋` for `X < m` set bits
    (`k ≥ 1` is the guard of the real code: with `k = 0` Python raises ZeroDivisionError, whereas
    the totalised division of ℝ would give 0) -/
theorem C14_stats_estimate (m k X : Nat) (h : X < m) (_hk : 1 ≤ k) :
    estimateElements (α := ℝ) m k X = ⌊-((m : ℝ) / (k : ℝ)) * Real.log (1 - (X : ℝ) / (m : ℝ))⌋ := by
  rw [show estimateElements (α := ℝ) m k X = _ from estimateElements_real id m k X]
  rw [if_neg (by omega)]
  have := C14_stats_estimate_nonneg m k X h
  have e : (-1 * ((m : ℝ) / (k : ℝ))) = -((m : ℝ) / (k : ℝ)) := by ring
  rw [e, if_neg (by linarith)]

/-- `current_false_positive_rate() = (1 − e^{−k·n/m})^k` with `n` the element counter -/
theorem C14_stats_fpr (m k : Nat) (n : Int) :
    currentFpr (α := ℝ) m k n = (1 - Real.exp (-((k : ℝ) * (n : ℝ)) / (m : ℝ))) ^ k := by
  rw [show currentFpr (α := ℝ) m k n = _ from currentFpr_real id m k n]
  rw [Real.rpow_natCast]
  congr 3
  push_cast
  ring

/-- the counter of a union / intersection is this estimate when the estimator passed to the set
    operations is the library's (`est = estimateElements` at the instance in use) -/
theorem C14_stats_union_count (a b r : Bloom) (same : Bool)
    (h : Bloom.union (fun m k x => estimateElements (α := ℝ) m k x) a b same = some r) :
    r.count = estimateElements (α := ℝ) r.m r.k r.setBits :=
  C14_bloom_union_count _ a b r same h

/-! ## tests and non-vacuity (concrete instances, evaluated by `decide`) -/

section Tests

instance (c : Cuckoo) : Decidable (CountInv c) := by unfold CountInv; infer_instance

/-- plain filter after a kick chain: two fingerprints, counter 2 -/
example : C15.c2.count = 2 ∧ C15.c2.unique = 0 := by decide
example : CountInv C15.c2 :=
  C14_cuckoo_run C15.G0 C15.c0 _ (C15.C15_init C15.G0 false 2 1 2 2 false 8 (by decide) (by decide) (by decide))
    (C14_cuckoo_init false 2 1 2 2 false 8)
/-- the invariant is not trivially true -/
example : ¬ CountInv { C15.c2 with count := 3 } := by decide
example : ¬ CountInv { C15.c2 with unique := 1 } := by decide

/-- counting filter with auto-expansion (the D6 scenario): adds of 2, 4, 4, 6; the last one
    exhausts the swaps and expands the table.  Four additions are reported as four, in three bins. -/
def ccfRun : Cuckoo := C15.run C15.G0 (Cuckoo.new true 2 1 2 2 true 8)
    [(.add 2, []), (.add 4, [0, 0]), (.add 4, []), (.add 6, [0, 0, 0])]
example : ccfRun.buckets = [[(4, 2)], [(2, 1)], [(6, 1)], []] := by decide
example : ccfRun.count = 4 ∧ ccfRun.unique = 3 ∧ ccfRun.cap = 4 := by decide
example : CountInv ccfRun := by decide
example : CountInv ccfRun :=
  C14_cuckoo_reachable C15.G0 true 2 1 2 2 true 8 (by decide) (by decide) (by decide) _
/-- the defective recount (every re-inserted bin counted as 1) would violate the invariant -/
example : ¬ CountInv { ccfRun with count := 3 } := by decide
/-- removing one copy of 4, then the other: 4 → 3 → 2 additions, 3 → 3 → 2 bins -/
example : (C15.run C15.G0 ccfRun [(.remove 4, [])]).count = 3 ∧ (C15.run C15.G0 ccfRun [(.remove 4, [])]).unique = 3 := by
  decide
example : (C15.run C15.G0 ccfRun [(.remove 4, []), (.remove 4, [])]).count = 2 ∧
    (C15.run C15.G0 ccfRun [(.remove 4, []), (.remove 4, [])]).unique = 2 := by decide
example : loadNum ccfRun = 3 ∧ loadNum C15.c2 = 2 := by decide

/-- Bloom: two completed adds, one short add, a clear, one more add -/
def b0 : Bloom := Bloom.new 10 0 2 16
example : (brun b0 [.add [1, 2], .add [3], .add [4, 5, 6]]).count = 2 := by decide
example : bdoc 2 0 [.add [1, 2], .add [3], .add [4, 5, 6], .clear, .add [7, 8]] = 1 := by decide
example : (brun b0 [.add [1, 2], .add [3], .add [4, 5, 6], .clear, .add [7, 8]]).count = 1 := by decide

/-- counting Bloom: the two positions of the first key coincide (3 and 7 mod 4): add 5 (the cell
    holds 10, the call returns the pre-computed 5), remove 2, then a second key: add 4, remove 4 -/
def cb0 : CBF := CBF.new 10 0 2 4
def cbOps : List CbfOp := [.add [3, 7] 5, .remove [3, 7] 2, .add [1, 2] 4, .remove [1, 2] 4]
instance (c : CBF) (op : CbfOp) : Decidable (op.Below c) := by
  cases op <;> simp only [CbfOp.Below] <;> infer_instance
example : (cbfStep cb0 (.add [3, 7] 5)).2 = .ok 5 := rfl
example : (cbfRun cb0 cbOps).count = 3 := by decide
example : (cbOps.map CbfOp.signed).sum = 3 := by decide
example : CbfFine cb0 cbOps := by
  refine ⟨⟨_, rfl⟩, by decide, ⟨_, rfl⟩, by decide, ⟨_, rfl⟩, by decide, ⟨_, rfl⟩, by decide, trivial⟩

/-- count-min: add 3, add 5, remove 2, join with a sketch of total 10 -/
def cm0 : CMS := CMS.new 4 2 .min
def cmOther : CMS := ⟨4, 2, [10, 0, 0, 0, 0, 10, 0, 0], 10, .min⟩
def cmOps : List C16.Op := [.add [1, 2] 3, .add [5, 6] 5, .remove [1, 2] 2, .join cmOther true]
example : (C16.run cm0 cmOps).total = 16 := by decide
example : cmsDoc 4 2 0 cmOps = 16 := by decide
example : ∀ op ∈ cmOps, CmsOpOK 2 op := by
  intro op h
  simp only [cmOps, List.mem_cons, List.not_mem_nil, or_false] at h
  rcases h with rfl | rfl | rfl | rfl <;> simp [CmsOpOK]
example : CmsFits 4 2 0 cmOps := by
  simp [CmsFits, cmOps, cmsDocStep, cmOther, Gen.int64Min, Gen.int64Max]

/-- statistics: an empty filter estimates 0 elements, a full one −1; with no elements added the
    current false-positive rate is 0 -/
example : estimateElements (α := ℝ) 8 2 8 = -1 := C14_stats_estimate_full 8 2 8 (by decide)
example : estimateElements (α := ℝ) 8 2 0 = 0 := by
  rw [C14_stats_estimate 8 2 0 (by decide) (by decide)]; simp
example : currentFpr (α := ℝ) 8 2 0 = 0 := by
  rw [C14_stats_fpr]; simp

/-- the delta theorems on the concrete counting filter: a duplicate add and a remove -/
example : (ccfRun.add C15.G0 4 []).2.1 = none ∧ (ccfRun.add C15.G0 4 []).1.count = 5 := by decide
example : (ccfRun.remove C15.G0 2).2 = true ∧ (ccfRun.remove C15.G0 2).1.count = 3 := by decide

/-- on-disk: create, add, close/reopen, add: the theorem instantiated (the geometry derivation of
    the loader is a parameter; here the constant one matching the file) -/
example : ∃ o₀, OnDisk.create 3 1036831949 2 10 = .ok o₀ ∧
    (([.add [3, 12], .cycle, .add [5, 6]] : List C11.Op).foldl
      (C11.step fun _ _ => .ok (1036831949, 2, 10)) o₀).count
        = (C11.adds [.add [3, 12], .cycle, .add [5, 6]] : Int) ∧
    ∃ bits, (([.add [3, 12], .cycle, .add [5, 6]] : List C11.Op).foldl
      (C11.step fun _ _ => .ok (1036831949, 2, 10)) o₀).file
        = fileOf bits 3 (C11.adds [.add [3, 12], .cycle, .add [5, 6]] : Int) 1036831949 :=
  C14_ondisk_from_create (fun _ _ => .ok (1036831949, 2, 10)) 3 1036831949 2 10 (by decide) (by decide)
    (by decide) rfl [.add [3, 12], .cycle, .add [5, 6]] (by decide)
example : C11.adds [.add [3, 12], .cycle, .add [5, 6]] = 2 := by decide
example : ddoc 0 [.add [3, 12], .add [1, 2], .clear, .cycle, .add [5, 6]] = 1 := by decide
example : DFits 0 [.add [3, 12], .add [1, 2], .clear, .cycle, .add [5, 6]] :=
  ⟨by decide, by decide, by decide, by decide, by decide, trivial⟩

/-- expanding / rotating: the sample histories of C09 / C10 (duplicates, forced adds, push, pop) -/
example : (C09.run (Expanding.new 2 0 2 64) C09.sampleOps).added
    = (Expanding.new 2 0 2 64).added + C09.addCount C09.sampleOps :=
  C14_expanding_counted (Expanding.new 2 0 2 64) C09.sampleOps
example : (C10.run C10.r0 C10.sampleOps).added = C10.r0.added + C10.sampleOps.countP C10.Op.isAdd :=
  C14_rotating_counted C10.r0 C10.sampleOps
example : C10.r0.added = 0 ∧ 0 < C10.sampleOps.countP C10.Op.isAdd := by decide
example : (C09.runA (Expanding.new 2 0 2 64) [.add [1, 2] false, .add [1, 2] false, .push, .add [1] true]).added = 3 := by
  decide

end Tests

end PyProb.C14
