/-
  C12 — Union and join equal the structure built from both streams.

  Proved here, for every geometry, every history length and arbitrary hash lists (hence every hash
  strategy `H`; key-level corollary `C12_bloom_keys`):
  * Bloom (`Bloom.union`): the **byte list** of the union of two filters built from fresh filters by
    the histories `xs`, `ys` is the byte list of the single filter fed `xs ++ ys`
    (`C12_bloom`); more generally for two arbitrary well-formed start filters of one geometry
    the union of the grown filters is the grown union (`C12_bloom_general`).  No hypothesis on the
    lengths of the hash lists: a too short list sets what it has and raises, in both worlds.
    Consequence: the union reports whatever either operand reports (`C12_bloom_member`).
  * counting Bloom (`CBF.union`): below saturation — the exact per-cell counts
    `cbfTot k m j (xs ++ ys)` fit a uint32 cell — the cells of the union equal the cells of the
    single filter fed both streams, and all three cell arrays hold the exact counts
    (`C12_cbf`, `C12_cbf_cells`).  `C12_cbf_simple`: it suffices that `k * Σ amounts ≤ 2^32-1`
    (a hash list may hit one cell up to `k` times, each time adding `n`).
  * count-min (`CMS.join`): when nothing clamps — per-bin exact counts fit int32, the sum of the
    amounts fits int64 — `join (run a) (run b) = run (a ++ b)` as whole sketches, i.e. on bins,
    total, width, depth and mode (`C12_cms`).  `C12_cms_simple`: it suffices that
    `Σ amounts ≤ 2^31-1`.

  Not proved here: the on-disk operands (C11 shows they expose the same byte list), the estimate
  bound that follows from the bins equality (C02), the `elements_added` estimate of a union (the
  estimator is a parameter).
-/
import PyProb.Properties.C01
import PyProb.Lemmas.CbfOps
import PyProb.Lemmas.CmsJoin

namespace PyProb.C12
open PyProb

/-! ### Bloom filter -/

/-- feeding a stream of hash lists: `b.runAdds xs = xs.foldl (fun b hs => (b.addAlt hs).1) b` -/
abbrev runB (b : Bloom) (xs : List (List Nat)) : Bloom := b.runAdds xs

theorem C12_runB_wf (b : Bloom) (xs : List (List Nat)) (h : C01.WF b) :
    C01.WF (runB b xs) ∧ (runB b xs).k = b.k ∧ (runB b xs).m = b.m :=
  ⟨Bloom.runAdds_wf xs b h, (Bloom.runAdds_spec xs b).1, (Bloom.runAdds_spec xs b).2.1⟩

/-- growing two similar well-formed filters and uniting them is uniting them and growing the union
    by both streams: equality of the byte lists -/
theorem C12_bloom_general (est : Estimator) (a₀ b₀ u₀ : Bloom) (ha : C01.WF a₀) (hb : C01.WF b₀)
    (h₀ : Bloom.union est a₀ b₀ true = some u₀) (xs ys : List (List Nat)) :
    ∃ r, Bloom.union est (runB a₀ xs) (runB b₀ ys) true = some r ∧
      r.bits = (runB u₀ (xs ++ ys)).bits ∧ r.k = a₀.k ∧ r.m = a₀.m := by
  obtain ⟨hsim, uk, um, _, _, ub⟩ := Bloom.union_eq_some est a₀ b₀ u₀ true h₀
  obtain ⟨ek, em, _⟩ := (Bloom.similar_iff a₀ b₀ true).1 hsim
  obtain ⟨ak, am, _, _, ab⟩ := Bloom.runAdds_spec xs a₀
  obtain ⟨bk, bm, _, _, bb⟩ := Bloom.runAdds_spec ys b₀
  have hsim' : (runB a₀ xs).similar (runB b₀ ys) true = true :=
    (Bloom.similar_iff _ _ _).2 ⟨by rw [ak, bk, ek], by rw [am, bm, em], rfl⟩
  obtain ⟨r, hr⟩ := Bloom.union_of_similar est _ _ true hsim'
  obtain ⟨_, rk, rm, _, _, rb⟩ := Bloom.union_eq_some est _ _ r true hr
  refine ⟨r, hr, ?_, by rw [rk, ak], by rw [rm, am]⟩
  have hn : (runB a₀ xs).bloomLength = Bloom.lengthOf a₀.m := by
    show Bloom.lengthOf (runB a₀ xs).m = _; rw [am]
  have hpA : ∀ p ∈ xs.flatMap (posOf a₀.k a₀.m), p / 8 < Bloom.lengthOf a₀.m := by
    intro p hp
    obtain ⟨hs, _, hp⟩ := List.mem_flatMap.1 hp
    exact index_in_range (posOf_lt _ _ hs ha.2 p hp)
  have hpB : ∀ p ∈ ys.flatMap (posOf b₀.k b₀.m), p / 8 < Bloom.lengthOf a₀.m := by
    intro p hp
    obtain ⟨hs, _, hp⟩ := List.mem_flatMap.1 hp
    rw [em]; exact index_in_range (posOf_lt _ _ hs hb.2 p hp)
  have hlb : b₀.bits.length = Bloom.lengthOf a₀.m := by rw [em]; exact hb.1
  rw [rb, hn, ab, bb, zipOr_foldl_right _ _ _ _ hlb hpB, zipOr_foldl_left _ _ _ _ ha.1 hpA]
  obtain ⟨_, _, _, _, ue⟩ := Bloom.runAdds_spec (xs ++ ys) u₀
  rw [ue, uk, um, ub, List.flatMap_append, List.foldl_append, ← ek, ← em]
  rfl

/-- **C12, Bloom**: the union of two filters built from fresh filters of one geometry by the
    streams `xs` and `ys` has exactly the bytes of the single filter fed `xs ++ ys` -/
theorem C12_bloom (est : Estimator) (e f k m : Nat) (hm : 0 < m) (xs ys : List (List Nat)) :
    ∃ r, Bloom.union est (runB (Bloom.new e f k m) xs) (runB (Bloom.new e f k m) ys) true = some r ∧
      r.bits = (runB (Bloom.new e f k m) (xs ++ ys)).bits ∧ r.k = k ∧ r.m = m := by
  have hw := Bloom.new_wf e f k m hm
  obtain ⟨u₀, hu⟩ := Bloom.union_of_similar est (Bloom.new e f k m) (Bloom.new e f k m) true
    ((Bloom.similar_iff _ _ _).2 ⟨rfl, rfl, rfl⟩)
  obtain ⟨r, hr, hb, hk, hm'⟩ := C12_bloom_general est _ _ u₀ hw hw hu xs ys
  refine ⟨r, hr, ?_, hk, hm'⟩
  obtain ⟨_, uk, um, _, _, ub⟩ := Bloom.union_eq_some est _ _ u₀ true hu
  have hub : u₀.bits = (Bloom.new e f k m).bits := by
    rw [ub]; exact zipOr_zero _
  rw [hb, (Bloom.runAdds_spec (xs ++ ys) u₀).2.2.2.2, (Bloom.runAdds_spec (xs ++ ys) (Bloom.new e f k m)).2.2.2.2,
    uk, um, hub]

/-- the same on keys, for one arbitrary hash strategy shared by the three filters -/
theorem C12_bloom_keys (H : Key → Nat → List Nat) (est : Estimator) (e f k m : Nat) (hm : 0 < m)
    (xs ys : List Key) :
    ∃ r, Bloom.union est (runB (Bloom.new e f k m) (xs.map (H · k)))
        (runB (Bloom.new e f k m) (ys.map (H · k))) true = some r ∧
      r.bits = (runB (Bloom.new e f k m) ((xs ++ ys).map (H · k))).bits := by
  obtain ⟨r, h1, h2, _⟩ := C12_bloom est e f k m hm (xs.map (H · k)) (ys.map (H · k))
  exact ⟨r, h1, by rw [h2, List.map_append]⟩

/-- hence the union reports every hash list either operand reports -/
theorem C12_bloom_member (est : Estimator) (a b r : Bloom) (same : Bool) (ha : C01.WF a)
    (hu : Bloom.union est a b same = some r) (hs : List Nat)
    (h : a.checkAlt hs = .ok true ∨ b.checkAlt hs = .ok true) : r.checkAlt hs = .ok true := by
  rcases h with h | h
  · exact C01.C01_union_left est a b r same ha hu hs h
  · exact C01.C01_union_right est a b r same ha hu hs h

/-! ### counting Bloom filter -/

/-- feeding a stream of `(hashes, num_els)`; `c.runAdds xs = xs.foldl (fun c p => (c.addAlt p.1 p.2).1) c` -/
abbrev runC (c : CBF) (xs : List (List Nat × Int)) : CBF := c.runAdds xs

/-- the exact count a history contributes to cell `j`: `n` for every occurrence of `j` among the `k`
    indices of every call that supplies at least `k` hashes (`cbfTot`, unfolded one step) -/
theorem C12_cbfTot_cons (k m j : Nat) (hs : List Nat) (n : Int) (xs : List (List Nat × Int)) :
    cbfTot k m j ((hs, n) :: xs)
      = (if k ≤ hs.length then cbfInc n j ((hs.take k).map (· % m)) else 0) + cbfTot k m j xs := rfl

private theorem new_getD (e f k m j : Nat) : (CBF.new e f k m).cells.getD j 0 = 0 := by
  simp only [CBF.new, List.getD_eq_getElem?_getD, List.getElem?_replicate]
  split <;> rfl

private theorem cbf_fresh (e f k m : Nat) (hm : 0 < m) (zs : List (List Nat × Int))
    (hn : ∀ p ∈ zs, 0 ≤ p.2) (hu : ∀ j, j < m → cbfTot k m j zs ≤ Gen.uint32Max) :
    (runC (CBF.new e f k m) zs).cells.length = m ∧ (runC (CBF.new e f k m) zs).k = k ∧
    (runC (CBF.new e f k m) zs).m = m ∧
    ∀ j, (runC (CBF.new e f k m) zs).cells.getD j 0 = cbfTot k m j zs := by
  have hlen : (CBF.new e f k m).cells.length = m := by simp [CBF.new]
  obtain ⟨a, b, c, _, _, d⟩ := CBF.runAdds_unsat zs (CBF.new e f k m) (by rw [hlen]; exact hm) hn (fun j => by
    rw [new_getD, hlen]
    show (0 : Int) ≤ 0 ∧ 0 + cbfTot k m j zs ≤ Gen.uint32Max
    by_cases hj : j < m
    · have := hu j hj; omega
    · rw [cbfTot_eq_zero k m j zs hm (by omega)]; simp [Gen.uint32Max])
  refine ⟨by rw [a, hlen], b, c, fun j => ?_⟩
  rw [d, new_getD, hlen]
  show 0 + cbfTot k m j zs = _
  omega

/-- below saturation the cells hold the exact counts -/
theorem C12_cbf_cells (e f k m : Nat) (hm : 0 < m) (zs : List (List Nat × Int))
    (hn : ∀ p ∈ zs, 0 ≤ p.2) (hu : ∀ j, j < m → cbfTot k m j zs ≤ Gen.uint32Max) :
    (runC (CBF.new e f k m) zs).cells = (List.range m).map fun j => cbfTot k m j zs := by
  obtain ⟨a, _, _, d⟩ := cbf_fresh e f k m hm zs hn hu
  apply List.ext_getElem
  · simp [a]
  · intro i h1 h2
    rw [getElem_eq_getD_int _ _ h1, d]; simp

/-- **C12, counting Bloom**: below saturation the cells of the union of the filters built from the
    streams `xs` and `ys` are the cells of the single filter fed `xs ++ ys` -/
theorem C12_cbf (est : Estimator) (e f k m : Nat) (hm : 0 < m) (xs ys : List (List Nat × Int))
    (hn : ∀ p ∈ xs ++ ys, 0 ≤ p.2)
    (hunsat : ∀ j, j < m → cbfTot k m j (xs ++ ys) ≤ Gen.uint32Max) :
    ∃ r, CBF.union est (runC (CBF.new e f k m) xs) (runC (CBF.new e f k m) ys) true = some r ∧
      r.cells = (runC (CBF.new e f k m) (xs ++ ys)).cells ∧ r.k = k ∧ r.m = m := by
  have hnx : ∀ p ∈ xs, 0 ≤ p.2 := fun p hp => hn p (List.mem_append_left _ hp)
  have hny : ∀ p ∈ ys, 0 ≤ p.2 := fun p hp => hn p (List.mem_append_right _ hp)
  have hsplit : ∀ j, cbfTot k m j (xs ++ ys) = cbfTot k m j xs + cbfTot k m j ys := fun j => cbfTot_append _ _ _ _ _
  have hx0 := fun j => cbfTot_nonneg k m j xs hnx
  have hy0 := fun j => cbfTot_nonneg k m j ys hny
  obtain ⟨xa, xk, xm, xd⟩ := cbf_fresh e f k m hm xs hnx (fun j hj => by
    have := hunsat j hj; have := hsplit j; have := hy0 j; omega)
  obtain ⟨ya, yk, ym, yd⟩ := cbf_fresh e f k m hm ys hny (fun j hj => by
    have := hunsat j hj; have := hsplit j; have := hx0 j; omega)
  obtain ⟨za, _, _, zd⟩ := cbf_fresh e f k m hm (xs ++ ys) hn hunsat
  obtain ⟨r, hr⟩ := CBF.union_of_similar est (runC (CBF.new e f k m) xs) (runC (CBF.new e f k m) ys) true
    ((CBF.similar_iff _ _ _).2 ⟨by rw [xk, yk], by rw [xm, ym], rfl⟩)
  obtain ⟨_, rk, rm, _, _, rc⟩ := CBF.union_eq_some est _ _ r true hr
  refine ⟨r, hr, ?_, by rw [rk, xk], by rw [rm, xm]⟩
  rw [rc]
  apply List.ext_getElem
  · simp [xa, za]
  · intro i h1 h2
    have hi : i < m := by simpa [xa] using h1
    rw [getElem_eq_getD_int _ _ h2, zd]
    simp only [List.getElem_map, List.getElem_range]
    rw [xd, yd]
    have := hunsat i hi
    have := hsplit i
    unfold CBF.clampCell
    rw [if_neg (by omega)]; omega

/-- a simple sufficient condition: `k` times the sum of all amounts fits a cell -/
theorem C12_cbf_simple (est : Estimator) (e f k m : Nat) (hm : 0 < m) (xs ys : List (List Nat × Int))
    (hn : ∀ p ∈ xs ++ ys, 0 ≤ p.2)
    (hsum : (k : Int) * (cbfAmt xs + cbfAmt ys) ≤ Gen.uint32Max) :
    ∃ r, CBF.union est (runC (CBF.new e f k m) xs) (runC (CBF.new e f k m) ys) true = some r ∧
      r.cells = (runC (CBF.new e f k m) (xs ++ ys)).cells ∧ r.k = k ∧ r.m = m := by
  apply C12_cbf est e f k m hm xs ys hn
  intro j _
  have := cbfTot_le_amt k m j (xs ++ ys) hn
  rw [cbfAmt_append] at this
  omega

/-! ### count-min sketch -/

/-- feeding a stream of `(hashes, num_els)` -/
abbrev runS (c : CMS) (xs : List (List Nat × Int)) : CMS := c.runAdds xs

/-- the exact count of bin `j`: `n` for every call one of whose bin indices
    `hashes[i] % w + i * w` is `j` (`cmsTot`, unfolded one step) -/
theorem C12_cmsTot_cons (w j : Nat) (hs : List Nat) (n : Int) (xs : List (List Nat × Int)) :
    cmsTot w j ((hs, n) :: xs)
      = (if j ∈ (CMS.new w hs.length .min).binIdx hs then n else 0) + cmsTot w j xs := rfl

private theorem cms_new_getD (w d : Nat) (mode : Mode) (j : Nat) : (CMS.new w d mode).bins.getD j 0 = 0 := by
  simp only [CMS.new, List.getD_eq_getElem?_getD, List.getElem?_replicate]
  split <;> rfl

private theorem cms_fresh (w d : Nat) (mode : Mode) (hw : 0 < w) (zs : List (List Nat × Int))
    (hl : ∀ p ∈ zs, p.1.length = d) (hn : ∀ p ∈ zs, 0 ≤ p.2)
    (hu : ∀ j, j < w * d → cmsTot w j zs ≤ Gen.int32Max) (ht : cmsAmt zs ≤ Gen.int64Max) :
    runS (CMS.new w d mode) zs =
      ⟨w, d, (List.range (w * d)).map fun j => cmsTot w j zs, cmsAmt zs, mode⟩ := by
  have hlen : (CMS.new w d mode).bins.length = w * d := by simp [CMS.new]
  obtain ⟨a, b, c, t, l, g⟩ := CMS.runAdds_unclamped zs (CMS.new w d mode) hw hlen hl hn
    (fun j => by
      rw [cms_new_getD]
      show (0 : Int) ≤ 0 ∧ 0 + cmsTot w j zs ≤ Gen.int32Max
      by_cases hj : j < w * d
      · have := hu j hj; omega
      · rw [cmsTot_eq_zero w d j zs hw hl (by omega)]; simp [Gen.int32Max])
    (by show (0 : Int) + cmsAmt zs ≤ _; omega)
  have hb : ((CMS.new w d mode).runAdds zs).bins = (List.range (w * d)).map fun j => cmsTot w j zs := by
    apply List.ext_getElem
    · simp [l, hlen]
    · intro i h1 h2
      rw [getElem_eq_getD_int _ _ h1, g, cms_new_getD]
      show 0 + cmsTot w i zs = _
      simp
  have ht' : ((CMS.new w d mode).runAdds zs).total = cmsAmt zs := by
    rw [t]; show (0 : Int) + _ = _; omega
  show (CMS.new w d mode).runAdds zs = _
  generalize (CMS.new w d mode).runAdds zs = s at a b c hb ht'
  cases s with
  | mk w' d' bins' total' mode' =>
      simp only [CMS.new] at a b c hb ht'
      subst a b c hb ht'
      rfl

/-- when nothing clamps, the sketch holds the exact per-bin counts and the exact total -/
theorem C12_cms_cells (w d : Nat) (mode : Mode) (hw : 0 < w) (zs : List (List Nat × Int))
    (hl : ∀ p ∈ zs, p.1.length = d) (hn : ∀ p ∈ zs, 0 ≤ p.2)
    (hu : ∀ j, j < w * d → cmsTot w j zs ≤ Gen.int32Max) (ht : cmsAmt zs ≤ Gen.int64Max) :
    runS (CMS.new w d mode) zs =
      ⟨w, d, (List.range (w * d)).map fun j => cmsTot w j zs, cmsAmt zs, mode⟩ :=
  cms_fresh w d mode hw zs hl hn hu ht

/-- **C12, count-min**: when no bin and no total is clamped, joining the sketches built from the
    streams `xs` and `ys` gives exactly the sketch built from `xs ++ ys` — bins and total -/
theorem C12_cms (w d : Nat) (mode : Mode) (hw : 0 < w) (xs ys : List (List Nat × Int))
    (hl : ∀ p ∈ xs ++ ys, p.1.length = d) (hn : ∀ p ∈ xs ++ ys, 0 ≤ p.2)
    (hu : ∀ j, j < w * d → cmsTot w j (xs ++ ys) ≤ Gen.int32Max)
    (ht : cmsAmt (xs ++ ys) ≤ Gen.int64Max) :
    CMS.join (runS (CMS.new w d mode) xs) (runS (CMS.new w d mode) ys) true
      = .ok (runS (CMS.new w d mode) (xs ++ ys)) := by
  have hlx : ∀ p ∈ xs, p.1.length = d := fun p hp => hl p (List.mem_append_left _ hp)
  have hly : ∀ p ∈ ys, p.1.length = d := fun p hp => hl p (List.mem_append_right _ hp)
  have hnx : ∀ p ∈ xs, 0 ≤ p.2 := fun p hp => hn p (List.mem_append_left _ hp)
  have hny : ∀ p ∈ ys, 0 ≤ p.2 := fun p hp => hn p (List.mem_append_right _ hp)
  have hsplit : ∀ j, cmsTot w j (xs ++ ys) = cmsTot w j xs + cmsTot w j ys := fun j => cmsTot_append _ _ _ _
  have hamt := cmsAmt_append xs ys
  have hx0 := fun j => cmsTot_bounds w j xs hnx
  have hy0 := fun j => cmsTot_bounds w j ys hny
  have hax := cmsAmt_nonneg xs hnx
  have hay := cmsAmt_nonneg ys hny
  rw [cms_fresh w d mode hw xs hlx hnx (fun j hj => by
        have := hu j hj; have := hsplit j; have := hy0 j; omega) (by omega),
    cms_fresh w d mode hw ys hly hny (fun j hj => by
        have := hu j hj; have := hsplit j; have := hx0 j; omega) (by omega),
    cms_fresh w d mode hw (xs ++ ys) hl hn hu ht]
  simp only [CMS.join, bne_self_eq_false, Bool.not_true, Bool.or_self, Bool.false_eq_true, if_false]
  have hmin : (Gen.int64Min : Int) ≤ 0 := by decide
  rw [if_neg (by omega), if_neg (by omega)]
  congr 2
  · apply List.ext_getElem
    · simp
    · intro i h1 h2
      have hi : i < w * d := by simpa using h1
      simp only [List.getElem_map, List.getElem_range, List.getD_eq_getElem?_getD, List.getElem?_map,
        List.getElem?_range hi, Option.map_some, Option.getD_some]
      have := hu i hi; have := hsplit i; have := hx0 i; have := hy0 i
      have hmax : (Gen.int32Max : Int) = 2147483647 := rfl
      have hmin : (Gen.int32Min : Int) = -2147483648 := rfl
      unfold CMS.joinCell
      by_cases e : cmsTot w i xs = Gen.int32Max
      · rw [if_pos (by simp [e])]; omega
      · have e2 : ¬ cmsTot w i xs = Gen.int32Min := by omega
        rw [if_neg (by simp [e, e2])]
        simp only []
        rw [if_neg (by omega), if_neg (by omega)]; omega
  · omega

/-- a simple sufficient condition: the sum of all amounts is at most `2^31 - 1` -/
theorem C12_cms_simple (w d : Nat) (mode : Mode) (hw : 0 < w) (xs ys : List (List Nat × Int))
    (hl : ∀ p ∈ xs ++ ys, p.1.length = d) (hn : ∀ p ∈ xs ++ ys, 0 ≤ p.2)
    (hsum : cmsAmt xs + cmsAmt ys ≤ Gen.int32Max) :
    CMS.join (runS (CMS.new w d mode) xs) (runS (CMS.new w d mode) ys) true
      = .ok (runS (CMS.new w d mode) (xs ++ ys)) := by
  have hamt := cmsAmt_append xs ys
  apply C12_cms w d mode hw xs ys hl hn
  · intro j _
    have := cmsTot_bounds w j (xs ++ ys) hn
    omega
  · simp only [Gen.int32Max, Gen.int64Max] at *; omega

/-! ### non-vacuity (tests) -/

/-- test: a 10-bit, 3-hash Bloom filter; the union has the bytes of the single-stream filter -/
example :
    (Bloom.union (fun _ _ _ => 0) (runB (Bloom.new 5 0 3 10) [[3, 14, 25], [7]])
        (runB (Bloom.new 5 0 3 10) [[9, 19, 1000]]) true).map (·.bits) = some [185, 2] ∧
    (runB (Bloom.new 5 0 3 10) ([[3, 14, 25], [7]] ++ [[9, 19, 1000]])).bits = [185, 2] := by decide

/-- test: a counting filter with a hash list hitting one cell twice; the hypotheses of `C12_cbf` hold -/
example :
    let xs : List (List Nat × Int) := [([3, 13, 5], 2), ([1], 7)]
    let ys : List (List Nat × Int) := [([3, 4, 5], 1)]
    (∀ p ∈ xs ++ ys, 0 ≤ p.2) ∧ (∀ j, j < 10 → cbfTot 3 10 j (xs ++ ys) ≤ Gen.uint32Max) ∧
    (runC (CBF.new 5 0 3 10) (xs ++ ys)).cells = [0, 0, 0, 5, 1, 3, 0, 0, 0, 0] ∧
    (CBF.union (fun _ _ _ => 0) (runC (CBF.new 5 0 3 10) xs) (runC (CBF.new 5 0 3 10) ys) true).map (·.cells)
      = some [0, 0, 0, 5, 1, 3, 0, 0, 0, 0] := by decide

/-- test: a 4 x 2 sketch; the hypotheses of `C12_cms` hold and the join is the single-stream sketch -/
example :
    let xs : List (List Nat × Int) := [([3, 13], 2), ([1, 1], 7)]
    let ys : List (List Nat × Int) := [([3, 4], 1)]
    (∀ p ∈ xs ++ ys, p.1.length = 2) ∧ (∀ p ∈ xs ++ ys, 0 ≤ p.2) ∧
    (∀ j, j < 4 * 2 → cmsTot 4 j (xs ++ ys) ≤ Gen.int32Max) ∧ cmsAmt (xs ++ ys) ≤ Gen.int64Max ∧
    (runS (CMS.new 4 2 .min) (xs ++ ys)).bins = [0, 7, 0, 3, 1, 9, 0, 0] ∧
    (runS (CMS.new 4 2 .min) (xs ++ ys)).total = 10 := by decide

end PyProb.C12
