/-
  C09, second module — "including filters restored from an export" (joining C09 and C05); statements in
  full in `Lemmas/CorollariesExp.lean`.
-/
import PyProb.Lemmas.CorollariesExp

namespace PyProb.C09
open PyProb

/-- loading what any history exported gives back the very state (no well-formedness hypothesis) -/
theorem C09_reload_state : type_of% @Corollaries.expanding_reload_state := @Corollaries.expanding_reload_state

/-- bound, shape, expansion count and `elements_added` after `ops₁`, export+load, `ops₂` are those
    of the uninterrupted history `ops₁ ++ ops₂` -/
theorem C09_reload_growth : type_of% @Corollaries.expanding_reload_growth := @Corollaries.expanding_reload_growth

/-- with `push` in the history: state equality, non-empty queue and the per-filter bound still hold -/
theorem C09_reload_bound : type_of% @Corollaries.expanding_reload_bound := @Corollaries.expanding_reload_bound

end PyProb.C09
