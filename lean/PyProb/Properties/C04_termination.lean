/-
  C04, second module — "every call terminates": the recursion budget the model hands to
  `add_alt` / `resize` / `merge` always suffices on reachable states, so the only outcomes are a normal
  return or `QuotientFilterError`; `diverged` never occurs.  (Termination of look-up, iteration, remove
  and non-resizing add is in `Properties/C04.lean`.)  Proofs in `Lemmas/QFBudget.lean`.
-/
import PyProb.Lemmas.QFBudget

namespace PyProb.C04
open PyProb PyProb.Spec PyProb.QF

/-- after any history that did not raise, the next call — add, remove, resize or merge with in-range
    arguments, run with the budget the driver gives it — returns normally or raises
    `QuotientFilterError`; it never runs out of budget -/
theorem C04_step_terminates (q : Int) (auto : Bool) (b₀ : Nat) (ops : List Op)
    (hops : ∀ op ∈ ops, op.InRange) (s0 s : QF) (hnew : QF.new q auto = .ok s0)
    (hrun : run b₀ s0 ops = .ok s) (op : Op) (hop : op.InRange) (b : Nat) (hb : opBudget s op ≤ b) :
    ((∃ t, step b s op = .ok t) ∨ step b s op = .error .qfError) ∧ step b s op ≠ .error .diverged :=
  QF.step_no_diverge q auto b₀ ops hops s0 s hnew hrun op hop b hb

/-- **every history terminates**: run the way the driver runs it (each call with the model's budget
    for the state it is applied to), every history from `QuotientFilter(q, auto)` ends in a state that
    is the canonical table of its set, or in `QuotientFilterError`; never in `diverged` — with NO
    "no call raised" hypothesis -/
theorem C04_history_terminates (q : Int) (auto : Bool) (ops : List Op) (hops : ∀ op ∈ ops, op.InRange) :
    let r := QF.new q auto >>= fun s0 => runB s0 ops
    ((∃ t, r = .ok t ∧ Inv auto t (absRun auto ⟨q.toNat, []⟩ ops)) ∨ r = .error .qfError) ∧
    r ≠ .error .diverged :=
  QF.runB_no_diverge q auto ops hops

/-- the budgets are explicit and attained: `|H| + 3` units suffice for `add_alt` on a table holding `|H|`
    hashes -/
theorem C04_add_budget (q : Nat) (auto : Bool) (H : List Nat) (h : Nat) (h3 : 3 ≤ q) (h31 : q ≤ 31)
    (hs : SortedN H) (hr : ∀ x ∈ H, x < 2 ^ 32) (hl : H.length < 2 ^ q) (hh : h < 2 ^ 32) :
    addAlt (budgetOf (layout q auto (pairs q H))) (layout q auto (pairs q H)) h ≠ .error .diverged :=
  QF.addAlt_no_diverge_budgetOf q auto H h h3 h31 hs hr hl hh

theorem C04_resize_budget (q : Nat) (auto : Bool) (H : List Nat) (qn : Option Int) (h3 : 3 ≤ q)
    (h31 : q ≤ 31) (hs : SortedN H) (hr : ∀ x ∈ H, x < 2 ^ 32) (hl : H.length < 2 ^ q) :
    QF.resize (budgetOf (layout q auto (pairs q H))) (layout q auto (pairs q H)) qn ≠ .error .diverged :=
  QF.resize_no_diverge_budgetOf q auto H qn h3 h31 hs hr hl

theorem C04_merge_budget (q : Nat) (auto : Bool) (H hs : List Nat) (h3 : 3 ≤ q) (h31 : q ≤ 31)
    (hsH : SortedN H) (hr : ∀ x ∈ H, x < 2 ^ 32) (hl : H.length < 2 ^ q) (hhs : ∀ h ∈ hs, h < 2 ^ 32) :
    (QF.merge (layout q auto (pairs q H)) hs).2 ≠ some .diverged :=
  (QF.merge_no_diverge q auto H hs h3 h31 hsH hr hl hhs).2

end PyProb.C04
