/-
  C05 — export followed by load reproduces the structure: count-min sketch family.  The overview
  of the whole property, with the hypotheses and what they mean, is in `Properties/C05.lean`; the
  Bloom part is in `Properties/C05_bloom.lean` and the cuckoo part in `Properties/C05_cuckoo.lean`.
-/
import PyProb.Lemmas.FormatsCms
import PyProb.Lemmas.WFOpsCms

namespace PyProb.C05
open PyProb

/-! ## well-formedness predicates -/

structure CMSWF (c : CMS) : Prop where
  len : c.bins.length = c.w * c.d
  bins : ∀ x ∈ c.bins, -2147483648 ≤ x ∧ x ≤ 2147483647
  w : c.w < 2 ^ 32
  d : c.d < 2 ^ 32
  total0 : -9223372036854775808 ≤ c.total
  total1 : c.total ≤ 9223372036854775807

/-! ## count-min sketch family -/

theorem C05_cms_export_ok (c : CMS) (wf : CMSWF c) : ∃ bytes, c.exportBytes = .ok bytes := by
  have h1 := wf.w; have h2 := wf.d; have h3 := wf.total0; have h4 := wf.total1
  unfold CMS.exportBytes
  rw [cmsFooter_pack, if_neg (by omega), if_neg (by omega), if_neg (by omega)]
  exact ⟨_, rfl⟩

/-- the loader rebuilds the receiver's class: the query mode is re-supplied -/
theorem C05_cms_roundtrip (mode : Mode) (c : CMS) (bytes : Bytes)
    (hlen : c.bins.length = c.w * c.d)
    (hbins : ∀ x ∈ c.bins, -2147483648 ≤ x ∧ x ≤ 2147483647)
    (h : c.exportBytes = .ok bytes) : CMS.load mode bytes = .ok { c with mode := mode } := by
  unfold CMS.exportBytes at h
  split at h
  · rename_i f hf
    injection h with h; subst h
    unfold CMS.load
    rw [cms_lastN_append _ _ _ (pack_length _ _ _ hf), unpack_pack _ _ _ hf]
    have hcl : (cellsBytes .i32 c.bins).length = 4 * (c.w * c.d) := by rw [cellsBytes_length, hlen]; rfl
    simp only [cmsCell_size, Int.toNat_natCast]
    rw [take_append_of_length _ _ _ hcl, hcl]
    rw [if_neg (by simp)]
    rw [bytesCells_cellsBytes _ _ _ (by omega)
      (by intro x hx; simpa [Field.lo, Field.hi, Gen.int32Min, Gen.int32Max] using hbins x hx)]
  · cases h

theorem C05_cms_roundtrip_same_mode (c : CMS) (bytes : Bytes)
    (hlen : c.bins.length = c.w * c.d)
    (hbins : ∀ x ∈ c.bins, -2147483648 ≤ x ∧ x ≤ 2147483647)
    (h : c.exportBytes = .ok bytes) : CMS.load c.mode bytes = .ok c :=
  C05_cms_roundtrip c.mode c bytes hlen hbins h

theorem C05_cms_stable (mode : Mode) (c : CMS) (bytes : Bytes)
    (hlen : c.bins.length = c.w * c.d)
    (hbins : ∀ x ∈ c.bins, -2147483648 ≤ x ∧ x ≤ 2147483647)
    (h : c.exportBytes = .ok bytes) :
    ∃ c', CMS.load mode bytes = .ok c' ∧ c'.exportBytes = .ok bytes :=
  ⟨_, C05_cms_roundtrip mode c bytes hlen hbins h, h⟩

theorem C05_cms_new_wf (w d : Nat) (mode : Mode) (hw : w < 2 ^ 32) (hd : d < 2 ^ 32) :
    CMSWF (CMS.new w d mode) := by
  refine ⟨by simp [CMS.new], ?_, hw, hd, by simp [CMS.new], by simp [CMS.new]⟩
  intro x hx
  simp only [CMS.new, List.mem_replicate] at hx
  omega

/-- `add_alt` / `remove_alt` (any hash list, any `num_els`) keep the array shape and the int32 range -/
theorem C05_cms_add_wf (c : CMS) (hs : List Nat) (n : Int)
    (hlen : c.bins.length = c.w * c.d) (hbins : ∀ x ∈ c.bins, -2147483648 ≤ x ∧ x ≤ 2147483647) :
    (c.addAlt hs n).1.bins.length = (c.addAlt hs n).1.w * (c.addAlt hs n).1.d ∧
      ∀ x ∈ (c.addAlt hs n).1.bins, -2147483648 ≤ x ∧ x ≤ 2147483647 := by
  obtain ⟨h1, h2, h3, h4⟩ := cms_addAlt_ok c hs n hbins
  exact ⟨by rw [h2, h3, h4, hlen], h1⟩

theorem C05_cms_remove_wf (c : CMS) (hs : List Nat) (n : Int)
    (hlen : c.bins.length = c.w * c.d) (hbins : ∀ x ∈ c.bins, -2147483648 ≤ x ∧ x ≤ 2147483647) :
    (c.removeAlt hs n).1.bins.length = (c.removeAlt hs n).1.w * (c.removeAlt hs n).1.d ∧
      ∀ x ∈ (c.removeAlt hs n).1.bins, -2147483648 ≤ x ∧ x ≤ 2147483647 := by
  obtain ⟨h1, h2, h3, h4⟩ := cms_removeAlt_ok c hs n hbins
  exact ⟨by rw [h2, h3, h4, hlen], h1⟩

/-! ## non-vacuity: concrete states, exported and reloaded (tests) -/

private def s23 : CMS := ⟨2, 3, [1, -2147483648, 0, 2147483647, -1, 5], -7, .mean⟩
example : CMS.load .mean (s23.exportBytes.toOption.getD []) = .ok s23 := by rfl

end PyProb.C05
