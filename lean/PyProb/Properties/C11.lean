/-
  C11 — the backing file of an on-disk Bloom filter is always a valid, current export.

  Model: `Model/OnDisk.lean` — the file is a byte list, every operation a list of micro-steps
  (one byte store through the mapping, or the flushed 8-byte store of the count); a process kill can
  stop an operation between any two micro-steps (and only there: the tie compares the model's
  micro-step trace with the file contents observed at every executed source line of the library).

  Proved, for every geometry (m ≥ 1), every hash list and every history length:
   * every prefix of an `add` leaves a file of the documented shape with the original
     parameters, every previously set bit still set, and the stored count equal to the number of
     completed additions (the one in flight lagging until its last micro-step) — `C11_crash_points`;
   * such a file loads as a Bloom export with the original geometry — `C11_prefix_loads`;
   * a completed add refines the in-memory filter — `C11_add_refines`; hence after `close` the
     file is exactly the in-memory export — `C11_close_is_export`;
   * reopening the closed file restores parameters, count and bits — `C11_reopen`;
   * lifted to all histories of add / close+reopen — `C11_history`.
  Not modelled (named, not claimed): power loss / fsync ordering / torn multi-byte stores, and the
  resolution of path names against the working directory (checked by the tie and the search only).
-/
import PyProb.Lemmas.OnDiskCore

namespace PyProb.C11
open PyProb OnDisk

/-- shape invariant: the file is `bits ++ footer(est, stored, fpr)` with a bit array of the right
    length; `stored` is the count currently recorded in the file -/
structure Shape (o : OnDisk) (bits : Bytes) (stored : Int) : Prop where
  file : o.file = fileOf bits o.est stored o.fpr32
  len : bits.length = (o.m + 7) / 8
  mpos : 0 < o.m

theorem lengthOf_eq (m : Nat) : Bloom.lengthOf m = (m + 7) / 8 := by
  simp [Bloom.lengthOf, Gen.bloomBitsPerElm]

theorem countOffset_eq {o : OnDisk} {bits : Bytes} {c : Int} (h : Shape o bits c) :
    o.countOffset = bits.length + 8 := by
  unfold countOffset
  rw [h.file, fileOf_length, updateOffset_size]; omega

/-- a new on-disk filter: zero bits, count 0 in memory and in the file -/
theorem C11_create (est fpr32 k m : Nat) (hm : 0 < m) (he : est < 2 ^ 64) (hf : fpr32 < 2 ^ 32) :
    ∃ o, OnDisk.create est fpr32 k m = .ok o ∧ Shape o (List.replicate ((m + 7) / 8) 0) 0 ∧
      o.count = 0 ∧ o.est = est ∧ o.fpr32 = fpr32 ∧ o.k = k ∧ o.m = m := by
  have hpack : Gen.bloomFooter.pack [(est : Int), 0, (fpr32 : Int)] =
      .ok (leBytes 8 est ++ (leBytesInt 8 0 ++ leBytes 4 fpr32)) := by
    have h1 : ¬ ((est : Int) < 0 ∨ (est : Int) > 18446744073709551615) := by omega
    have h2 : ¬ ((fpr32 : Int) < 0 ∨ (fpr32 : Int) > 4294967295) := by omega
    have e1 : ((est : Int) % 18446744073709551616).toNat = est := by omega
    have e2 : ((fpr32 : Int) % 4294967296).toNat = fpr32 := by omega
    simp [Layout.pack, packGo, Gen.bloomFooter, Layout.padBefore, Field.lo, Field.hi, Field.size,
      Gen.uint64Max, Gen.uint32Max, h1, h2, encField, Layout.isBig, leBytesInt, e1, e2]
  refine ⟨⟨est, fpr32, k, m, 0, List.replicate (Bloom.lengthOf m) 0 ++ (leBytes 8 est ++ (leBytesInt 8 0 ++ leBytes 4 fpr32)), false⟩, ?_, ?_, rfl, rfl, rfl, rfl, rfl⟩
  · simp [OnDisk.create, hpack]
  · exact ⟨by simp [fileOf, lengthOf_eq], by simp, hm⟩

/-! ### crash points of an `add` -/

/-- the files visible at the crash points of the bit stores of an add: bits only grow, footer untouched -/
private theorem bit_prefixes (m est fpr : Nat) (c : Int) (hm : 0 < m) (ps : List Nat) (bits : Bytes)
    (hl : bits.length = (m + 7) / 8) :
    ∀ f ∈ prefixes (fileOf bits est c fpr) (bitSteps m (fileOf bits est c fpr) ps),
      ∃ bits', f = fileOf bits' est c fpr ∧ bits'.length = (m + 7) / 8 ∧
        (∀ j, testBitB bits j = true → testBitB bits' j = true) := by
  induction ps generalizing bits with
  | nil =>
      intro f hf
      simp [bitSteps, prefixes] at hf
      exact ⟨bits, hf, hl, fun _ hj => hj⟩
  | cons p ps ih =>
      intro f hf
      have hb : (p % m) / 8 < bits.length := by rw [hl]; exact index_in_range (Nat.mod_lt _ hm)
      simp only [bitSteps, prefixes, List.mem_cons] at hf
      rcases hf with rfl | hf
      · exact ⟨bits, rfl, hl, fun _ hj => hj⟩
      · simp only [MicroStep.apply] at hf
        rw [getD_fileOf _ _ _ _ _ hb, set_fileOf _ _ _ _ _ _ hb] at hf
        obtain ⟨bits', e, l, mono⟩ := ih _ (by simp [hl]) f hf
        refine ⟨bits', e, l, fun j hj => mono j ?_⟩
        have : testBitB (setBitB bits (p % m)) j = true := by
          rw [testBitB_setBitB _ _ _ hb]; simp [hj]
        simpa [setBitB] using this

/-- the file after all bit stores of an add -/
private theorem bit_final (m est fpr : Nat) (c : Int) (hm : 0 < m) (ps : List Nat) (bits : Bytes)
    (hl : bits.length = (m + 7) / 8) :
    applyAll (fileOf bits est c fpr) (bitSteps m (fileOf bits est c fpr) ps) =
      fileOf (setAll m bits ps) est c fpr := by
  induction ps generalizing bits with
  | nil => rfl
  | cons p ps ih =>
      have hb : (p % m) / 8 < bits.length := by rw [hl]; exact index_in_range (Nat.mod_lt _ hm)
      simp only [bitSteps, applyAll, List.foldl_cons, MicroStep.apply]
      rw [getD_fileOf _ _ _ _ _ hb, set_fileOf _ _ _ _ _ _ hb]
      have := ih (bits.set (p % m / 8) (bits.getD (p % m / 8) 0 ||| 1 <<< (p % m % 8))) (by simp [hl])
      simp only [applyAll] at this
      rw [this]
      rfl

/-- **every crash point of an add**: whatever micro-step the process is killed after, the file has
    the documented shape with the original parameters, every bit that was set is still set, and the
    stored count is the number of completed additions — it becomes `count + 1` only with the last
    micro-step, i.e. exactly when the add is complete -/
theorem C11_crash_points (o : OnDisk) (bits : Bytes) (hs : List Nat) (h : Shape o bits o.count) :
    ∀ f ∈ prefixes o.file (o.addSteps hs),
      ∃ bits' c', f = fileOf bits' o.est c' o.fpr32 ∧ bits'.length = (o.m + 7) / 8 ∧
        (∀ j, testBitB bits j = true → testBitB bits' j = true) ∧
        (c' = o.count ∨ (c' = o.count + 1 ∧ f = (o.addAlt hs).file)) := by
  intro f hf
  unfold addSteps at hf
  rw [prefixes_append_one, List.mem_append] at hf
  rcases hf with hf | hf
  · rw [h.file] at hf
    obtain ⟨bits', e, l, mono⟩ := bit_prefixes o.m o.est o.fpr32 o.count h.mpos _ bits h.len f hf
    exact ⟨bits', o.count, e, l, mono, Or.inl rfl⟩
  · simp only [List.mem_singleton] at hf
    have hfin := bit_final o.m o.est o.fpr32 o.count h.mpos (hs.take o.k) bits h.len
    refine ⟨setAll o.m bits (hs.take o.k), o.count + 1, ?_, ?_, ?_, Or.inr ⟨rfl, ?_⟩⟩
    · rw [hf, h.file, hfin]
      simp only [updateStep, MicroStep.apply, countOffset_eq h]
      rw [← setAll_length o.m bits (hs.take o.k), patch_count]
    · rw [setAll_length]; exact h.len
    · exact fun j hj => setAll_mono _ _ _ h.mpos h.len j hj
    · rw [hf]; simp [addAlt, addSteps, applyAll_append_one]

/-- a completed add: shape, count and the bits of the in-memory `add_alt` -/
theorem C11_add_shape (o : OnDisk) (bits : Bytes) (hs : List Nat) (h : Shape o bits o.count) :
    Shape (o.addAlt hs) (setAll o.m bits (hs.take o.k)) (o.count + 1) ∧ (o.addAlt hs).count = o.count + 1 := by
  have hfin := bit_final o.m o.est o.fpr32 o.count h.mpos (hs.take o.k) bits h.len
  refine ⟨⟨?_, ?_, h.mpos⟩, rfl⟩
  · simp only [addAlt, addSteps, applyAll_append_one]
    rw [h.file, hfin]
    simp only [updateStep, MicroStep.apply, countOffset_eq h]
    rw [← setAll_length o.m bits (hs.take o.k), patch_count]
  · rw [setAll_length]; exact h.len

theorem view_of_shape {o : OnDisk} {bits : Bytes} {c : Int} (h : Shape o bits c) :
    o.view = ⟨o.est, o.fpr32, o.k, o.m, bits, o.count⟩ := by
  simp only [view, bloomLength, lengthOf_eq]
  rw [h.file, ← h.len, take_fileOf]

/-- **refinement**: the on-disk filter after an add is the in-memory filter after the same add -/
theorem C11_add_refines (o : OnDisk) (bits : Bytes) (hs : List Nat) (h : Shape o bits o.count)
    (hk : o.k ≤ hs.length) : (o.addAlt hs).view = (o.view.addAlt hs).1 := by
  obtain ⟨hsh, _⟩ := C11_add_shape o bits hs h
  rw [view_of_shape hsh, view_of_shape h]
  have : ¬ hs.length < o.k := by omega
  simp only [Bloom.addAlt, this, if_false, Bloom.positions, setAll, List.foldl_map, addAlt]

/-- every position of a completed add is set, so the key is reported present -/
theorem C11_added_present (o : OnDisk) (bits : Bytes) (hs : List Nat) (h : Shape o bits o.count)
    (hk : o.k ≤ hs.length) : (o.addAlt hs).checkAlt hs = .ok true := by
  obtain ⟨hsh, _⟩ := C11_add_shape o bits hs h
  unfold checkAlt
  rw [view_of_shape hsh]
  exact checkGo_true _ _ _ _ hk (fun x hx => setAll_sets _ _ _ h.mpos h.len x hx)

/-- a key reported present stays present under any later add -/
theorem C11_present_mono (o : OnDisk) (bits : Bytes) (hs hs' : List Nat) (h : Shape o bits o.count)
    (hk : o.k ≤ hs.length) (hp : ∀ x ∈ hs.take o.k, testBitB bits (x % o.m) = true) :
    (o.addAlt hs').checkAlt hs = .ok true := by
  obtain ⟨hsh, _⟩ := C11_add_shape o bits hs' h
  unfold checkAlt
  rw [view_of_shape hsh]
  exact checkGo_true _ _ _ _ hk (fun x hx => setAll_mono _ _ _ h.mpos h.len _ (hp x hx))

/-! ### the file is a loadable export, close, reopen -/

private theorem unpack_footer (bits : Bytes) (est : Nat) (c : Int) (fpr : Nat)
    (he : est < 2 ^ 64) (hc0 : 0 ≤ c) (hc : c < 2 ^ 64) (hf : fpr < 2 ^ 32) :
    Gen.bloomFooter.unpack (Bloom.lastN Gen.bloomFooter.size (fileOf bits est c fpr)) = .ok [(est : Int), c, (fpr : Int)] := by
  have hl : (leBytes 8 est ++ (leBytesInt 8 c ++ leBytes 4 fpr)).length = 20 := by
    simp [leBytes_length, leBytesInt_length]
  have hlast : Bloom.lastN 20 (fileOf bits est c fpr) = leBytes 8 est ++ (leBytesInt 8 c ++ leBytes 4 fpr) := by
    unfold Bloom.lastN
    rw [fileOf_length]
    simp only [fileOf, Nat.add_sub_cancel]
    rw [List.drop_left]
  rw [bloomFooter_size, hlast]
  have e8 : (leBytes 8 est).length = 8 := leBytes_length _ _
  have c8 : (leBytesInt 8 c).length = 8 := leBytesInt_length _ _
  have f4 : (leBytes 4 fpr).length = 4 := leBytes_length _ _
  have t1 : (leBytes 8 est ++ (leBytesInt 8 c ++ leBytes 4 fpr)).take 8 = leBytes 8 est := by
    rw [List.take_append_of_le_length (by omega), List.take_of_length_le (by omega)]
  have d1 : (leBytes 8 est ++ (leBytesInt 8 c ++ leBytes 4 fpr)).drop 8 = leBytesInt 8 c ++ leBytes 4 fpr := by
    have := List.drop_left (l₁ := leBytes 8 est) (l₂ := leBytesInt 8 c ++ leBytes 4 fpr)
    rw [e8] at this; exact this
  have t2 : (leBytesInt 8 c ++ leBytes 4 fpr).take 8 = leBytesInt 8 c := by
    rw [List.take_append_of_le_length (by omega), List.take_of_length_le (by omega)]
  have d2 : (leBytes 8 est ++ (leBytesInt 8 c ++ leBytes 4 fpr)).drop 16 = leBytes 4 fpr := by
    rw [show (16 : Nat) = 8 + 8 by rfl, ← List.drop_drop, d1]
    have := List.drop_left (l₁ := leBytesInt 8 c) (l₂ := leBytes 4 fpr)
    rw [c8] at this; exact this
  have t3 : (leBytes 4 fpr).take 4 = leBytes 4 fpr := List.take_of_length_le (by omega)
  have v1 : ofLE (leBytes 8 est) = est := by rw [ofLE_leBytes]; exact Nat.mod_eq_of_lt (by omega)
  have v3 : ofLE (leBytes 4 fpr) = fpr := by rw [ofLE_leBytes]; exact Nat.mod_eq_of_lt (by omega)
  have v2 : (ofLE (leBytesInt 8 c) : Int) = c := by
    unfold leBytesInt
    rw [ofLE_leBytes]
    have p : (256 : Nat) ^ 8 = 18446744073709551616 := by decide
    rw [p]
    have h1 : (c % ((18446744073709551616 : Nat) : Int)).toNat = c.toNat := by
      have : c % ((18446744073709551616 : Nat) : Int) = c := Int.emod_eq_of_lt hc0 (by omega)
      rw [this]
    rw [h1, Nat.mod_eq_of_lt (by omega)]
    omega
  simp [Layout.unpack, unpackGo, Gen.bloomFooter, Layout.size, sizeGo, Layout.padBefore, Field.size, hl,
    decField, Layout.isBig, t1, d1, t2, d2, t3, v1, v2, v3]

/-- **every crash-point file loads as a Bloom export with the original geometry** (given that the
    loader re-derives the geometry from `(est, rate)`, which is what reload stability, C07, says) -/
theorem C11_prefix_loads (geom : Geom) (est fpr k m : Nat) (bits : Bytes) (c : Int)
    (hg : geom est fpr = .ok (fpr, k, m)) (hl : bits.length = (m + 7) / 8)
    (he : est < 2 ^ 64) (hc0 : 0 ≤ c) (hc : c < 2 ^ 64) (hf : fpr < 2 ^ 32) :
    Bloom.load geom (fileOf bits est c fpr) = .ok ⟨est, fpr, k, m, bits, c⟩ := by
  unfold Bloom.load Bloom.ofFooter
  rw [unpack_footer bits est c fpr he hc0 hc hf]
  simp only [Int.toNat_natCast, hg]
  have : Gen.bloomCell.size * Bloom.bloomLength ⟨est, fpr, k, m, [], c⟩ = bits.length := by
    simp [Bloom.bloomLength, lengthOf_eq, hl, Gen.bloomCell, Layout.size, sizeGo, Layout.padBefore, Field.size]
  simp only [this, take_fileOf]

/-- `close()` leaves the bytes as they are once the count is stored … -/
theorem C11_close_file (o : OnDisk) (bits : Bytes) (h : Shape o bits o.count) : o.close.file = o.file := by
  unfold close
  split
  · rfl
  · simp only [updateStep, MicroStep.apply, countOffset_eq h]
    rw [h.file, patch_count]

/-- … and those bytes are exactly what the in-memory filter with the same state exports -/
theorem C11_close_is_export (o : OnDisk) (bits : Bytes) (h : Shape o bits o.count)
    (he : o.est < 2 ^ 64) (hc0 : 0 ≤ o.count) (hc : o.count < 2 ^ 64) (hf : o.fpr32 < 2 ^ 32) :
    o.view.exportBytes = .ok o.close.file := by
  rw [C11_close_file o bits h, view_of_shape h, h.file]
  have h1 : ¬ ((o.est : Int) < 0 ∨ (o.est : Int) > 18446744073709551615) := by omega
  have h2 : ¬ ((o.fpr32 : Int) < 0 ∨ (o.fpr32 : Int) > 4294967295) := by omega
  have h3 : ¬ (o.count < 0 ∨ o.count > 18446744073709551615) := by omega
  have e1 : ((o.est : Int) % 18446744073709551616).toNat = o.est := by omega
  have e2 : ((o.fpr32 : Int) % 4294967296).toNat = o.fpr32 := by omega
  simp [Bloom.exportBytes, Bloom.footerVals, Layout.pack, packGo, Gen.bloomFooter, Layout.padBefore, Field.lo,
    Field.hi, Field.size, Gen.uint64Max, Gen.uint32Max, h1, h2, h3, encField, Layout.isBig, leBytesInt, e1, e2, fileOf]

/-- **reopen**: the closed file gives back parameters, count and bits -/
theorem C11_reopen (geom : Geom) (o : OnDisk) (bits : Bytes) (h : Shape o bits o.count)
    (hg : geom o.est o.fpr32 = .ok (o.fpr32, o.k, o.m))
    (he : o.est < 2 ^ 64) (hc0 : 0 ≤ o.count) (hc : o.count < 2 ^ 64) (hf : o.fpr32 < 2 ^ 32) :
    OnDisk.reopen geom o.close.file = .ok { o with closed := false } := by
  rw [C11_close_file o bits h]
  unfold reopen
  rw [h.file, unpack_footer bits o.est o.count o.fpr32 he hc0 hc hf]
  simp only [Int.toNat_natCast, hg]

/-! ### all histories -/

inductive Op
  | add (hs : List Nat)
  | cycle            -- close() and reopen the same file

/-- one call; `geom` is the loader's geometry derivation -/
def step (geom : Geom) (o : OnDisk) : Op → OnDisk
  | .add hs => o.addAlt hs
  | .cycle => match OnDisk.reopen geom o.close.file with
      | .ok o' => o'
      | .error _ => o

def adds : List Op → Nat
  | [] => 0
  | .add _ :: r => adds r + 1
  | .cycle :: r => adds r

@[simp] theorem addAlt_est (o : OnDisk) (hs : List Nat) : (o.addAlt hs).est = o.est := rfl
@[simp] theorem addAlt_fpr32 (o : OnDisk) (hs : List Nat) : (o.addAlt hs).fpr32 = o.fpr32 := rfl
@[simp] theorem addAlt_k (o : OnDisk) (hs : List Nat) : (o.addAlt hs).k = o.k := rfl
@[simp] theorem addAlt_m (o : OnDisk) (hs : List Nat) : (o.addAlt hs).m = o.m := rfl
@[simp] theorem addAlt_count (o : OnDisk) (hs : List Nat) : (o.addAlt hs).count = o.count + 1 := rfl

/-- what a history preserves -/
structure Good (geom : Geom) (o₀ : OnDisk) (bits₀ : Bytes) (n : Nat) (o : OnDisk) : Prop where
  shape : ∃ bits, Shape o bits o.count ∧ (∀ j, testBitB bits₀ j = true → testBitB bits j = true)
  count : o.count = o₀.count + n
  est : o.est = o₀.est
  fpr : o.fpr32 = o₀.fpr32
  k : o.k = o₀.k
  m : o.m = o₀.m

theorem hist_add (geom : Geom) (o₀ : OnDisk) (bits₀ : Bytes) (n : Nat) (o : OnDisk) (hs : List Nat)
    (g : Good geom o₀ bits₀ n o) : Good geom o₀ bits₀ (n + 1) (o.addAlt hs) := by
  obtain ⟨⟨bits, hsh, mono⟩, gc, ge, gf, gk, gm⟩ := g
  have hsh' := (C11_add_shape o bits hs hsh).1
  refine ⟨⟨setAll o.m bits (hs.take o.k), ?_, ?_⟩, ?_, ge, gf, gk, gm⟩
  · rw [addAlt_count]; exact hsh'
  · exact fun j hj => setAll_mono _ _ _ hsh.mpos hsh.len j (mono j hj)
  · rw [addAlt_count, gc]; push_cast; omega

theorem step_add (geom : Geom) (o : OnDisk) (hs : List Nat) : step geom o (.add hs) = o.addAlt hs := rfl

theorem hist_cycle (geom : Geom) (o₀ : OnDisk) (bits₀ : Bytes) (n : Nat) (o : OnDisk)
    (hg : geom o₀.est o₀.fpr32 = .ok (o₀.fpr32, o₀.k, o₀.m))
    (he : o₀.est < 2 ^ 64) (hf : o₀.fpr32 < 2 ^ 32) (hc0 : 0 ≤ o₀.count) (hcn : o₀.count + (n : Int) < 2 ^ 64)
    (g : Good geom o₀ bits₀ n o) : Good geom o₀ bits₀ n (step geom o .cycle) := by
  obtain ⟨⟨bits, hsh, mono⟩, gc, ge, gf, gk, gm⟩ := g
  have hre := C11_reopen geom o bits hsh (by rw [ge, gf, gk, gm]; exact hg) (by rw [ge]; exact he)
    (by rw [gc]; omega) (by rw [gc]; exact hcn) (by rw [gf]; exact hf)
  have : step geom o .cycle = { o with closed := false } := by
    show (match OnDisk.reopen geom o.close.file with | .ok o' => o' | .error _ => o) = _
    rw [hre]
  rw [this]
  exact ⟨⟨bits, ⟨hsh.file, hsh.len, hsh.mpos⟩, mono⟩, gc, ge, gf, gk, gm⟩

/-- **history theorem**: after any sequence of adds and close/reopen cycles the file has the
    documented shape with the stored count equal to the in-memory count equal to the number of adds
    so far, the parameters are the original ones, and every bit ever set is still set -/
theorem C11_history (geom : Geom) (o₀ : OnDisk) (bits₀ : Bytes) (ops : List Op)
    (h : Shape o₀ bits₀ o₀.count) (hg : geom o₀.est o₀.fpr32 = .ok (o₀.fpr32, o₀.k, o₀.m))
    (he : o₀.est < 2 ^ 64) (hf : o₀.fpr32 < 2 ^ 32) (hc0 : 0 ≤ o₀.count)
    (hc : o₀.count + (adds ops : Int) < 2 ^ 64) :
    Good geom o₀ bits₀ (adds ops) (ops.foldl (step geom) o₀) := by
  suffices H : ∀ (ops : List Op) (n : Nat) (o : OnDisk), Good geom o₀ bits₀ n o →
      o₀.count + ((n + adds ops : Nat) : Int) < 2 ^ 64 →
      Good geom o₀ bits₀ (n + adds ops) (ops.foldl (step geom) o) by
    have := H ops 0 o₀ ⟨⟨bits₀, h, fun _ hj => hj⟩, by simp, rfl, rfl, rfl, rfl⟩ (by simpa using hc)
    simpa using this
  intro ops
  induction ops with
  | nil => intro n o g _; simpa [adds] using g
  | cons op ops ih =>
      intro n o g hb
      cases op with
      | add hs =>
          have e : n + adds (Op.add hs :: ops) = n + 1 + adds ops := by simp only [adds]; omega
          rw [List.foldl_cons, step_add, e]
          exact ih (n + 1) (o.addAlt hs) (hist_add geom o₀ bits₀ n o hs g) (by rw [← e]; exact hb)
      | cycle =>
          have e : n + adds (Op.cycle :: ops) = n + adds ops := by simp only [adds]
          rw [List.foldl_cons, e]
          refine ih n _ (hist_cycle geom o₀ bits₀ n o hg he hf hc0 ?_ g) (by rw [← e]; exact hb)
          rw [e] at hb; push_cast at hb; omega

/-! ### path names: "from any working directory"

    The object keeps the *resolved* path it was created with; a later reopen names the file by an
    absolute path or by a path relative to the then-current directory.  The tie checks the real
    constructor against `resolvePath`/`lookupPath` (relative, absolute, `..`, other directories). -/

/-- an absolute path designates the same file from every working directory -/
theorem C11_abs_path_any_cwd (cwd cwd' arg : PathC) :
    resolvePath cwd true arg = resolvePath cwd' true arg := rfl

/-- hence reopening by absolute path finds the file from every working directory -/
theorem C11_reopen_any_cwd (fs : List (PathC × Nat)) (arg : PathC) (h : Nat)
    (hfs : lookupPath fs (resolvePath [] true arg) = some h) (cwd : PathC) :
    lookupPath fs (resolvePath cwd true arg) = some h := hfs

private theorem normPath_plain (acc l : PathC) (hl : ∀ c ∈ l, c ≠ "." ∧ c ≠ "..") :
    normPath acc l = acc.reverse ++ l := by
  induction l generalizing acc with
  | nil => simp [normPath]
  | cons c cs ih =>
      have hc := hl c (by simp)
      have : normPath acc (c :: cs) = normPath (c :: acc) cs := by
        rw [normPath]
        · exact fun e => hc.1 e
        · exact fun e => hc.2 e
      rw [this, ih _ (fun x hx => hl x (by simp [hx]))]
      simp

/-- a relative name is resolved against the working directory: from the directory it is relative to
    it designates the file, `cwd ++ rel` (no `.`/`..` components) -/
theorem C11_rel_path (cwd rel : PathC) (h1 : ∀ c ∈ cwd, c ≠ "." ∧ c ≠ "..") (h2 : ∀ c ∈ rel, c ≠ "." ∧ c ≠ "..") :
    resolvePath cwd false rel = cwd ++ rel := by
  unfold resolvePath
  simp only [Bool.false_eq_true, if_false]
  rw [normPath_plain [] (cwd ++ rel) (by
    intro c hc
    rcases List.mem_append.mp hc with h | h
    · exact h1 c h
    · exact h2 c h)]
  rfl

example : resolvePath ["w", "sub"] false ["..", "disk.blm"] = ["w", "disk.blm"] := by decide
example : lookupPath [(["w", "disk.blm"], 1)] (resolvePath ["elsewhere"] false ["disk.blm"]) = none := by decide

/-! ### non-vacuity (tests) -/

example : ∃ o, OnDisk.create 3 1036831949 2 10 = .ok o ∧ Shape o [0, 0] o.count := by
  obtain ⟨o, h1, h2, h3, _⟩ := C11_create 3 1036831949 2 10 (by decide) (by decide) (by decide)
  exact ⟨o, h1, by rw [h3]; exact h2⟩

/-- a concrete add on a 10-bit filter: 3 crash points, each with the documented shape -/
example : (match OnDisk.create 3 1036831949 2 10 with
    | .ok o => (prefixes o.file (o.addSteps [3, 12])).length
    | .error _ => 0) = 4 := by decide

end PyProb.C11
