/-
  C04, third module — merging a quotient filter into itself changes nothing about the set.

  This documents a defect that was found and repaired in the Python code: the original
  `merge(self)` enumerated its own hashes lazily while the insertions could resize (and so rebuild)
  the very table being enumerated.  The model mirrors the REPAIRED code, in which `merge` is handed
  the finished list of hashes of the other filter; `Op.merge l` with `l` the listing that
  `get_hashes` returns for the filter itself is therefore exactly `f.merge(f)`.

  PROVED (`C04_merge_self`, a corollary of `C04_exact_set`, with no hypotheses beyond those of
  `C04_exact_set`): for every history from `QuotientFilter(q, auto)` in which no call raised, ending
  in the state `s`, if `get_hashes` returns `l` on `s` and the call `merge` with that list does not
  raise either, then in the resulting state `t`

    * `check_alt` answers membership in the set of the history, as before,
    * `get_hashes` is a duplicate-free listing of that same set,
    * `elements_added` is still the size of that set;

  moreover (`C04_merge_self_state`) `t` is the canonical table of the same set, possibly of a larger
  quotient size: with auto-resize on, the first re-insertion doubles an over-loaded table before it
  notices that the hash is already there.  So `t = s` is NOT claimed — the second example below is
  a self-merge that grows the table from 8 to 16 slots.

  NOT proved here: that the self-merge does not raise.  (It cannot diverge with the driver's budget —
  `C04_step_terminates` in `Properties/C04_termination.lean` — but at quotient size 31 an over-loaded
  table refuses to double, with `QuotientFilterError`.)
-/
import PyProb.Properties.C04

namespace PyProb.C04
open PyProb PyProb.Spec PyProb.QF

/-! ### helpers -/

/-- a history that did not raise, continued -/
theorem run_append (b : Nat) (ops₁ ops₂ : List Op) (s t : QF) (h : run b s ops₁ = .ok t) :
    run b s (ops₁ ++ ops₂) = run b t ops₂ := by
  induction ops₁ generalizing s with
  | nil => simp only [run] at h; cases h; rfl
  | cons op ops ih =>
      simp only [run, List.cons_append] at h ⊢
      cases hs : step b s op with
      | error e => rw [hs] at h; cases h
      | ok s' => rw [hs] at h; exact ih s' h

/-- adding hashes that are already in the set leaves the set as it is (the quotient size may grow) -/
theorem foldl_absAdd_of_mem (auto : Bool) (l : List Nat) (a : Abs) (hs : SortedN a.H)
    (hl : ∀ h ∈ l, h ∈ a.H) : (l.foldl (absAdd auto) a).H = a.H := by
  induction l generalizing a with
  | nil => rfl
  | cons h l ih =>
      have hh : h ∈ a.H := hl h (by simp)
      have e : (absAdd auto a h).H = a.H := insertBy_of_mem ltN_total h a.H hs hh
      rw [List.foldl_cons, ih (absAdd auto a h) (by rw [e]; exact hs)
        (fun x hx => by rw [e]; exact hl x (List.mem_cons_of_mem _ hx)), e]

/-- the set of a history followed by a merge of hashes it already holds -/
theorem absRun_merge_of_mem (auto : Bool) (a0 : Abs) (ops : List Op) (l : List Nat)
    (hs : SortedN (absRun auto a0 ops).H) (hl : ∀ h ∈ l, h ∈ (absRun auto a0 ops).H) :
    (absRun auto a0 (ops ++ [.merge l])).H = (absRun auto a0 ops).H := by
  simp only [absRun, List.foldl_append, List.foldl_cons, List.foldl_nil, absStep]
  exact foldl_absAdd_of_mem auto l _ hs hl

/-- the common part of the two theorems: the self-merge is one more call of a history in range, and
    the set of the longer history is the set of the shorter one -/
private theorem merge_self_aux (q : Int) (auto : Bool) (b : Nat) (ops : List Op)
    (hops : ∀ op ∈ ops, op.InRange) (s0 s t : QF) (l : List Nat)
    (hnew : QF.new q auto = .ok s0) (hrun : run b s0 ops = .ok s)
    (hl : getHashes s = .ok l) (hm : step b s (.merge l) = .ok t) :
    (∀ op ∈ ops ++ [Op.merge l], op.InRange) ∧ run b s0 (ops ++ [.merge l]) = .ok t ∧
    (absRun auto ⟨q.toNat, []⟩ (ops ++ [.merge l])).H = (absRun auto ⟨q.toNat, []⟩ ops).H := by
  have hI : Inv auto s (absRun auto ⟨q.toNat, []⟩ ops) :=
    C04_partial_inv C04_contained C04_hashes C04_B1_add C04_B2_remove q auto b ops hops s0 s hnew hrun
  obtain ⟨_, _, ⟨l0, hl0, hperm, _⟩, _⟩ := C04_exact_set q auto b ops hops s0 s hnew hrun
  rw [hl] at hl0
  cases hl0
  have hmem : ∀ h ∈ l, h ∈ (absRun auto ⟨q.toNat, []⟩ ops).H := fun h hh => hperm.mem_iff.1 hh
  refine ⟨?_, ?_, absRun_merge_of_mem auto _ ops l hI.sorted hmem⟩
  · intro op hop
    rcases List.mem_append.1 hop with hop | hop
    · exact hops op hop
    · simp only [List.mem_cons, List.not_mem_nil, or_false] at hop
      subst hop
      exact fun h hh => hI.range h (hmem h hh)
  · rw [run_append b ops [.merge l] s0 s hrun]
    simp only [run, hm]

/-! ### the corollary -/

/-- **merging a filter into itself changes nothing about the set**: after any history in which no
    call raised, `merge` with the filter's own hashes (as `get_hashes` enumerates them), if it does
    not raise, leaves every membership answer, the stored hashes and the element count as they were -/
theorem C04_merge_self (q : Int) (auto : Bool) (b : Nat) (ops : List Op)
    (hops : ∀ op ∈ ops, op.InRange) (s0 s t : QF) (l : List Nat)
    (hnew : QF.new q auto = .ok s0) (hrun : run b s0 ops = .ok s)
    (hl : getHashes s = .ok l)
    (hm : step b s (.merge l) = .ok t) :
    let a := absRun auto ⟨q.toNat, []⟩ ops
    (∀ h, h < 2 ^ 32 → checkAlt t h = .ok (decide (h ∈ a.H))) ∧
    (∃ l', getHashes t = .ok l' ∧ l'.Perm a.H ∧ l'.Nodup) ∧
    t.count = (a.H.length : Nat) := by
  intro a
  obtain ⟨hops', hrun', hH⟩ := merge_self_aux q auto b ops hops s0 s t l hnew hrun hl hm
  obtain ⟨_, hchk, hget, hcnt, _⟩ :=
    C04_exact_set q auto b (ops ++ [.merge l]) hops' s0 t hnew hrun'
  rw [hH] at hchk hget hcnt
  exact ⟨hchk, hget, hcnt⟩

/-- … and the complete state after the self-merge is again the canonical table of the same set; only
    the quotient size may be larger than before (an over-loaded table with auto-resize doubles) -/
theorem C04_merge_self_state (q : Int) (auto : Bool) (b : Nat) (ops : List Op)
    (hops : ∀ op ∈ ops, op.InRange) (s0 s t : QF) (l : List Nat)
    (hnew : QF.new q auto = .ok s0) (hrun : run b s0 ops = .ok s)
    (hl : getHashes s = .ok l)
    (hm : step b s (.merge l) = .ok t) :
    let a := absRun auto ⟨q.toNat, []⟩ ops
    ∃ q', a.q ≤ q' ∧ q' ≤ 31 ∧ a.H.length < 2 ^ q' ∧ t = layout q' auto (pairs q' a.H) := by
  intro a
  obtain ⟨hops', hrun', hH⟩ := merge_self_aux q auto b ops hops s0 s t l hnew hrun hl hm
  obtain ⟨heq, _, _, _, _, _, _, h31, hroom⟩ :=
    C04_exact_set q auto b (ops ++ [.merge l]) hops' s0 t hnew hrun'
  rw [hH] at heq hroom
  refine ⟨_, ?_, h31, hroom, heq⟩
  -- the quotient size never shrinks under `absAdd`
  have mono : ∀ (l : List Nat) (a : Abs), a.q ≤ (l.foldl (absAdd auto) a).q := by
    intro l
    induction l with
    | nil => intro a; exact Nat.le_refl _
    | cons h l ih =>
        intro a
        rw [List.foldl_cons]
        refine Nat.le_trans ?_ (ih _)
        simp only [absAdd]
        split <;> omega
  simp only [absRun, List.foldl_append, List.foldl_cons, List.foldl_nil, absStep]
  exact mono l _

/-! ### non-vacuity (TESTS by kernel evaluation, not proofs) -/

section examples
open QFBounded

/-- boolean test "the call returned this list", for kernel evaluation -/
private def okL (r : R (List Nat)) (l : List Nat) : Bool :=
  match r with
  | .ok x => x == l
  | .error _ => false

private theorem okL_iff (r : R (List Nat)) (l : List Nat) : okL r l = true ↔ r = .ok l := by
  cases r with
  | error e => simp [okL]
  | ok x => simp [okL]

/-- three hashes, two of them with the same quotient -/
private def ops3 : List Op := [.add (5 * 2 ^ 29 + 1), .add (2 * 2 ^ 29 + 7), .add (5 * 2 ^ 29)]

private def s3 : QF :=
  ⟨3, [0, 0, 7, 0, 0, 0, 1, 0],
      [false, false, true, false, false, true, false, false],
      [false, false, false, false, false, false, true, false],
      [false, false, false, false, false, false, true, false], 3, true⟩

private def l3 : List Nat := [2 * 2 ^ 29 + 7, 5 * 2 ^ 29, 5 * 2 ^ 29 + 1]

private theorem ops3_inRange : ∀ op ∈ ops3, op.InRange := by
  intro op hop
  simp only [ops3, List.mem_cons, List.not_mem_nil, or_false] at hop
  rcases hop with rfl | rfl | rfl <;> simp only [Op.InRange] <;> decide

/-- the premises of `C04_merge_self` are satisfiable: `QuotientFilter(3, auto_expand=True)`, three
    adds, then `merge` with its own hash list, which does not raise (and here changes nothing) -/
example : QF.new 3 true = .ok (QF.empty 3 true) := rfl
example : run 200 (QF.empty 3 true) ops3 = .ok s3 := (okEq_iff _ _).1 (by decide +kernel)
example : getHashes s3 = .ok l3 := (okL_iff _ _).1 (by decide +kernel)
example : step 200 s3 (.merge l3) = .ok s3 := (okEq_iff _ _).1 (by decide +kernel)

/-- the theorem instantiated with that history -/
example : (∀ h, h < 2 ^ 32 → checkAlt s3 h = .ok (decide (h ∈ (absRun true ⟨3, []⟩ ops3).H))) ∧
    (∃ l', getHashes s3 = .ok l' ∧ l'.Perm (absRun true ⟨3, []⟩ ops3).H ∧ l'.Nodup) ∧
    s3.count = ((absRun true ⟨3, []⟩ ops3).H.length : Nat) :=
  C04_merge_self 3 true 200 ops3 ops3_inRange (QF.empty 3 true) s3 s3 l3 rfl
    ((okEq_iff _ _).1 (by decide +kernel)) ((okL_iff _ _).1 (by decide +kernel))
    ((okEq_iff _ _).1 (by decide +kernel))

/-- the situation of the repaired defect: seven hashes over-load the 8-slot table, so the first
    re-insertion of the self-merge doubles the table while the filter's own hashes are being added -/
private def hs7 : List Nat := [0, 1, 2, 3, 4, 5, 6].map (fun i => i * 2 ^ 29 + i)

private def s7 : QF :=
  ⟨3, [0, 1, 2, 3, 4, 5, 6, 0],
      [true, true, true, true, true, true, true, false],
      List.replicate 8 false, List.replicate 8 false, 7, true⟩

private def t7 : QF :=
  ⟨4, [0, 0, 1, 0, 2, 0, 3, 0, 4, 0, 5, 0, 6, 0, 0, 0],
      [true, false, true, false, true, false, true, false, true, false, true, false, true, false,
        false, false],
      List.replicate 16 false, List.replicate 16 false, 7, true⟩

example : run 200 (QF.empty 3 true) (hs7.map Op.add) = .ok s7 := (okEq_iff _ _).1 (by decide +kernel)
example : s7.overLoaded = true := by decide +kernel
example : getHashes s7 = .ok hs7 := (okL_iff _ _).1 (by decide +kernel)
example : step 200 s7 (.merge hs7) = .ok t7 := (okEq_iff _ _).1 (by decide +kernel)
/-- the table has grown, the set has not -/
example : t7 ≠ s7 := by decide
/-- (enumerated from another starting point: a permutation, as the theorem says) -/
example : getHashes t7 = .ok (hs7.tail ++ [0]) := (okL_iff _ _).1 (by decide +kernel)
example : (hs7.tail ++ [0]).Perm hs7 := List.isPerm_iff.1 (by decide +kernel)
example : (absRun true ⟨3, []⟩ (hs7.map Op.add)).H = hs7 := by decide +kernel
example : (absRun true ⟨3, []⟩ (hs7.map Op.add ++ [.merge hs7])) = ⟨4, hs7⟩ := by decide +kernel

end examples

end PyProb.C04
