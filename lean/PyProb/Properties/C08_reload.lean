/-
  C08, second module — counting cuckoo counts across export+load (joining C08, C05, C15); statements in
  full in `Lemmas/CorollariesCcf.lean`.
-/
import PyProb.Lemmas.CorollariesCcf

namespace PyProb.C08
open PyProb

/-- history₁, export, load (template with the same fingerprint width), history₂ — every call
    returning normally, all oracles: `check` = outstanding additions over history₁ ++ history₂ -/
theorem C08_ccf_reload_history : type_of% @Corollaries.ccf_reload_history := @Corollaries.ccf_reload_history

theorem C08_ccf_reload_exact : type_of% @Corollaries.ccf_reload_exact := @Corollaries.ccf_reload_exact

end PyProb.C08
