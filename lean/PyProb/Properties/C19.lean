/-
  C19 — queries never change a structure; clear() returns it to its initial state.

  In the models a query is a function `State → Out`: it cannot change the state, so "queries are
  pure" has no content as a theorem about the model — on the Python code that half of the property
  is decided by the correspondence suites, which interleave every read-only call into their
  histories and compare the complete observation set afterwards.  What IS proved here:
   * `clear` of every structure equals the freshly constructed structure with the same parameters;
   * the read paths of the code that do write are mirrored with their write and shown to be no-ops:
     the on-disk filter's `export()`/`close()` rewrite the stored count with the value it already has.
-/
import PyProb.Model.Bitarray
import PyProb.Model.Bloom
import PyProb.Model.CMS
import PyProb.Model.OnDisk

namespace PyProb.C19
open PyProb

/-- Bitarray: `clear()` is the freshly constructed array of the same size -/
theorem C19_bitarray_clear (b : Bitarray) (h : b.bytes.length = (b.size + 7) / 8) (hs : 0 < b.size) :
    Bitarray.new b.size = .ok b.clear := by
  have h0 : b.size ≠ 0 := by omega
  simp [Bitarray.new, Bitarray.clear, h, h0]

/-- Bloom filter: `clear()` = `BloomFilter(est, fpr)` of the same geometry -/
theorem C19_bloom_clear (b : Bloom) (h : b.bits.length = Bloom.lengthOf b.m) :
    b.clear = Bloom.new b.est b.fpr32 b.k b.m := by
  simp [Bloom.clear, Bloom.new, h]

/-- counting Bloom filter -/
theorem C19_cbf_clear (c : CBF) (h : c.cells.length = c.m) :
    c.clear = CBF.new c.est c.fpr32 c.k c.m := by
  simp [CBF.clear, CBF.new, h]

/-- count-min sketch (any query mode) -/
theorem C19_cms_clear (c : CMS) (h : c.bins.length = c.w * c.d) :
    c.clear = CMS.new c.w c.d c.mode := by
  simp [CMS.clear, CMS.new, h]

/-- heavy hitters: the tracking table, its size and the cached minimum are reset too -/
theorem C19_hh_clear (x : HH) (h : x.cms.bins.length = x.cms.w * x.cms.d) (hm : x.cms.mode = .min) :
    x.clear = HH.new x.cms.w x.cms.d x.num := by
  simp [HH.clear, HH.new, C19_cms_clear x.cms h, hm]

/-- stream threshold: the table is reset too -/
theorem C19_st_clear (x : ST) (h : x.cms.bins.length = x.cms.w * x.cms.d) (hm : x.cms.mode = .min) :
    x.clear = ST.new x.cms.w x.cms.d x.threshold := by
  simp [ST.clear, ST.new, C19_cms_clear x.cms h, hm]

/-- after `clear` nothing is reported present (Bloom): every query answers as on a fresh filter,
    by `C19_bloom_clear`; in particular a non-empty probe is absent -/
theorem C19_bloom_clear_check (b : Bloom) (hs : List Nat) (h : b.bits.length = Bloom.lengthOf b.m) :
    b.clear.checkAlt hs = (Bloom.new b.est b.fpr32 b.k b.m).checkAlt hs := by
  rw [C19_bloom_clear b h]

/-! ### read paths that write: on-disk `export()` / `close()` -/

/-- stored-count invariant of the on-disk filter (established by `create`/`reopen`, kept by `addAlt`,
    see C11): the 8 bytes at the count offset hold the in-memory count -/
def CountStored (o : OnDisk) : Prop :=
  patch o.file o.countOffset (leBytesInt 8 o.count) = o.file

/-- `export()` rewrites the count with the value the file already holds: the file is unchanged -/
theorem C19_ondisk_export_noop (o : OnDisk) (h : CountStored o) :
    (o.exportBytes).1.file = o.file ∧ (o.exportBytes).2 = o.file := by
  unfold CountStored at h
  simp [OnDisk.exportBytes, OnDisk.updateStep, MicroStep.apply, h]

/-- `close()` likewise leaves the bytes of the file as they are -/
theorem C19_ondisk_close_noop (o : OnDisk) (h : CountStored o) : o.close.file = o.file := by
  unfold OnDisk.close
  split
  · rfl
  · unfold CountStored at h
    simp [OnDisk.updateStep, MicroStep.apply, h]

/-! ### non-vacuity -/

example : (Bloom.new 10 0 3 20).bits.length = Bloom.lengthOf 20 := by decide
example : ((Bloom.new 10 0 3 20).addAlt [5, 9, 17]).1.clear = Bloom.new 10 0 3 20 := by decide
example : ∃ o, OnDisk.create 3 1036831949 2 10 = .ok o ∧ CountStored o := by
  refine ⟨_, rfl, ?_⟩
  unfold CountStored
  decide

end PyProb.C19
