/-
  C20 — Bitarray behaves as a fixed-length vector of bits.
  Refinement of `Model.Bitarray` (utilities.py:86-192) to `List Bool`; for all sizes, all Int
  indices and values, all operation sequences.  Property theorems only.
-/
import PyProb.Lemmas.Bits

namespace PyProb.C20
open PyProb Bitarray

/-- representation invariant: `ceil(size/8)` bytes -/
def WF (b : Bitarray) : Prop := b.bytes.length = (b.size + 7) / 8

/-- abstraction: the list of `size` bits -/
abbrev abs (b : Bitarray) : List Bool := b.bits

theorem abs_length (b : Bitarray) : (abs b).length = b.size := by simp [abs, bits]

/-- constructor: sizes ≤ 0 are rejected, otherwise `size` zero bits -/
theorem C20_new_ok (size : Int) (h : 0 < size) :
    ∃ b, Bitarray.new size = .ok b ∧ WF b ∧ b.size = size.toNat ∧ abs b = List.replicate size.toNat false := by
  refine ⟨⟨size.toNat, List.replicate ((size.toNat + 7) / 8) 0⟩, ?_, ?_, rfl, ?_⟩
  · simp [Bitarray.new, Int.not_le.mpr h]
  · simp [WF]
  · apply List.ext_getElem <;> simp [abs, bits, testBitB_replicate_zero]

theorem C20_new_rejects (size : Int) (h : size ≤ 0) : Bitarray.new size = .error .valueError := by
  simp [Bitarray.new, h]

private theorem bits_set (b : Bitarray) (k : Nat) (hk : k < b.size) (hw : WF b) :
    ({ b with bytes := setBitB b.bytes k } : Bitarray).bits = b.bits.set k true := by
  have hb : k / 8 < b.bytes.length := by rw [hw]; exact index_in_range hk
  apply List.ext_getElem
  · simp [bits]
  · intro j h1 h2
    simp only [bits, List.getElem_map, List.getElem_range, List.getElem_set]
    rw [testBitB_setBitB _ _ _ hb]
    by_cases e : k = j
    · subst e; simp
    · have : ¬ j = k := fun x => e x.symm
      simp [e, this]

private theorem bits_clear (b : Bitarray) (k : Nat) (hk : k < b.size) (hw : WF b) :
    ({ b with bytes := clearBitB b.bytes k } : Bitarray).bits = b.bits.set k false := by
  have hb : k / 8 < b.bytes.length := by rw [hw]; exact index_in_range hk
  apply List.ext_getElem
  · simp [bits]
  · intro j h1 h2
    simp only [bits, List.getElem_map, List.getElem_range, List.getElem_set]
    rw [testBitB_clearBitB _ _ _ hb]
    by_cases e : k = j
    · subst e; simp
    · have : ¬ j = k := fun x => e x.symm
      simp [e, this]

/-- `set_bit(idx)` for an index in range: that position becomes 1, nothing else changes -/
theorem C20_setBit (b : Bitarray) (idx : Int) (hw : WF b) (h0 : 0 ≤ idx) (h1 : idx < b.size) :
    ∃ b', b.setBit idx = .ok b' ∧ WF b' ∧ b'.size = b.size ∧ abs b' = (abs b).set idx.toNat true := by
  have hk : idx.toNat < b.size := by omega
  refine ⟨{ b with bytes := setBitB b.bytes idx.toNat }, ?_, ?_, rfl, bits_set b _ hk hw⟩
  · simp [setBit, inRange, h0, h1]
  · simpa [WF, setBitB_length] using hw

/-- `clear_bit(idx)` for an index in range -/
theorem C20_clearBit (b : Bitarray) (idx : Int) (hw : WF b) (h0 : 0 ≤ idx) (h1 : idx < b.size) :
    ∃ b', b.clearBit idx = .ok b' ∧ WF b' ∧ b'.size = b.size ∧ abs b' = (abs b).set idx.toNat false := by
  have hk : idx.toNat < b.size := by omega
  refine ⟨{ b with bytes := clearBitB b.bytes idx.toNat }, ?_, ?_, rfl, bits_clear b _ hk hw⟩
  · simp [clearBit, inRange, h0, h1]
  · simpa [WF, clearBitB_length] using hw

/-- `b[idx] = val` for `val ∈ {0,1}` and an index in range -/
theorem C20_setItem (b : Bitarray) (idx val : Int) (hw : WF b) (h0 : 0 ≤ idx) (h1 : idx < b.size)
    (hv : val = 0 ∨ val = 1) :
    ∃ b', b.setItem idx val = .ok b' ∧ WF b' ∧ b'.size = b.size ∧
      abs b' = (abs b).set idx.toNat (decide (val = 1)) := by
  have hk : idx.toNat < b.size := by omega
  rcases hv with rfl | rfl
  · refine ⟨{ b with bytes := clearBitB b.bytes idx.toNat }, ?_, ?_, rfl, ?_⟩
    · simp [setItem, inRange, h0, h1]
    · simpa [WF, clearBitB_length] using hw
    · simpa using bits_clear b _ hk hw
  · refine ⟨{ b with bytes := setBitB b.bytes idx.toNat }, ?_, ?_, rfl, ?_⟩
    · simp [setItem, inRange, h0, h1]
    · simpa [WF, setBitB_length] using hw
    · simpa using bits_set b _ hk hw

/-- reads return the abstract bit -/
theorem C20_checkBit (b : Bitarray) (idx : Int) (h0 : 0 ≤ idx) (h1 : idx < b.size) :
    b.checkBit idx = .ok (if (abs b).getD idx.toNat false then 1 else 0) := by
  have hk : idx.toNat < b.size := by omega
  simp [checkBit, inRange, h0, h1, abs, bits, List.getD_eq_getElem?_getD, hk]

/-- every index outside `0..size-1` is rejected by every accessor (no new state is produced) -/
theorem C20_index_rejected (b : Bitarray) (idx : Int) (h : idx < 0 ∨ (b.size : Int) ≤ idx) :
    b.setBit idx = .error .indexError ∧ b.clearBit idx = .error .indexError ∧
    b.checkBit idx = .error .indexError ∧
    (∀ val, val = 0 ∨ val = 1 → b.setItem idx val = .error .indexError) := by
  have hr : b.inRange idx = false := by
    simp only [inRange, Bool.and_eq_false_iff, decide_eq_false_iff_not]; omega
  refine ⟨by simp [setBit, hr], by simp [clearBit, hr], by simp [checkBit, hr], ?_⟩
  rintro val (rfl | rfl) <;> simp [setItem, hr]

/-- every value other than 0/1 is rejected, whatever the index -/
theorem C20_value_rejected (b : Bitarray) (idx val : Int) (h : val ≠ 0 ∧ val ≠ 1) :
    b.setItem idx val = .error .valueError := by
  have : val < 0 ∨ val > 1 := by omega
  simp [setItem, this]

/-- `clear()` gives `size` zero bits -/
theorem C20_clear (b : Bitarray) (hw : WF b) :
    WF b.clear ∧ b.clear.size = b.size ∧ abs b.clear = List.replicate b.size false := by
  refine ⟨by simpa [WF, Bitarray.clear] using hw, rfl, ?_⟩
  apply List.ext_getElem <;> simp [abs, bits, Bitarray.clear, testBitB_replicate_zero]

/-- population count and string form agree with the list -/
theorem C20_popcount_string (b : Bitarray) :
    b.numBitsSet = (abs b).count true ∧
    b.asString = String.ofList ((abs b).map fun x => if x then '1' else '0') := ⟨rfl, rfl⟩

/-! ### all operation sequences -/

inductive Op
  | set (idx : Int) | clr (idx : Int) | put (idx val : Int) | clear

/-- one call on the model; a rejected call leaves the object as it was (what Python does) -/
def step (b : Bitarray) : Op → Bitarray
  | .set i => match b.setBit i with | .ok b' => b' | .error _ => b
  | .clr i => match b.clearBit i with | .ok b' => b' | .error _ => b
  | .put i v => match b.setItem i v with | .ok b' => b' | .error _ => b
  | .clear => b.clear

/-- the same call on a plain list of bits -/
def absStep (n : Nat) (l : List Bool) : Op → List Bool
  | .set i => if 0 ≤ i ∧ i < n then l.set i.toNat true else l
  | .clr i => if 0 ≤ i ∧ i < n then l.set i.toNat false else l
  | .put i v => if (v = 0 ∨ v = 1) ∧ 0 ≤ i ∧ i < n then l.set i.toNat (decide (v = 1)) else l
  | .clear => List.replicate n false

theorem C20_step (b : Bitarray) (op : Op) (hw : WF b) :
    WF (step b op) ∧ (step b op).size = b.size ∧ abs (step b op) = absStep b.size (abs b) op := by
  cases op with
  | set i =>
      by_cases h : 0 ≤ i ∧ i < b.size
      · obtain ⟨b', e, w, s, a⟩ := C20_setBit b i hw h.1 h.2
        simp [step, absStep, e, w, s, a, h]
      · have := (C20_index_rejected b i (by omega)).1
        simp [step, absStep, this, hw, h]
  | clr i =>
      by_cases h : 0 ≤ i ∧ i < b.size
      · obtain ⟨b', e, w, s, a⟩ := C20_clearBit b i hw h.1 h.2
        simp [step, absStep, e, w, s, a, h]
      · have := (C20_index_rejected b i (by omega)).2.1
        simp [step, absStep, this, hw, h]
  | put i v =>
      by_cases hv : v = 0 ∨ v = 1
      · by_cases h : 0 ≤ i ∧ i < b.size
        · obtain ⟨b', e, w, s, a⟩ := C20_setItem b i v hw h.1 h.2 hv
          simp [step, absStep, e, w, s, a, h, hv]
        · have := (C20_index_rejected b i (by omega)).2.2.2 v hv
          simp [step, absStep, this, hw, h]
      · have := C20_value_rejected b i v (by omega)
        simp [step, absStep, this, hw, hv]
  | clear =>
      obtain ⟨w, s, a⟩ := C20_clear b hw
      simp [step, absStep, w, s, a]

/-- refinement for every operation sequence: the Bitarray is the list of bits -/
theorem C20_run (b : Bitarray) (ops : List Op) (hw : WF b) :
    WF (ops.foldl step b) ∧ (ops.foldl step b).size = b.size ∧
    abs (ops.foldl step b) = ops.foldl (absStep b.size) (abs b) := by
  induction ops generalizing b with
  | nil => exact ⟨hw, rfl, rfl⟩
  | cons op ops ih =>
      obtain ⟨w, s, a⟩ := C20_step b op hw
      obtain ⟨w', s', a'⟩ := ih (step b op) w
      simp only [List.foldl_cons]
      refine ⟨w', by rw [s', s], ?_⟩
      rw [a', s, a]

/-- non-vacuity: a 10-bit array (not a multiple of 8) satisfies the hypotheses and the refinement
    is observable -/
example : ∃ b, Bitarray.new 10 = .ok b ∧ WF b ∧
    abs ([Op.set 3, Op.put 9 1, Op.put 10 1, Op.set (-1), Op.clr 3].foldl step b)
      = [false, false, false, false, false, false, false, false, false, true] := by
  refine ⟨⟨10, [0, 0]⟩, rfl, rfl, by decide⟩

end PyProb.C20
