/-
  C02 — Count-Min estimate is never below the true count nor above the total.

  Setting: any width `w > 0`, depth `d > 0`, any hash strategy `H : Key → Nat → List Nat` that
  supplies exactly `d` hashes, any history `ops` of `add key n` / `remove key n` that is
  `Legit` (every amount positive, every removal ≤ the key's current true count, at every prefix)
  and `Small` (the amounts added so far never exceed 2^31-1, at every prefix, so no clamp fires).
  `run mode ops` folds `CMS.addAlt` / `CMS.removeAlt` of the model from `CMS.new w d mode`.

  Proved (all sizes, all histories, all hash strategies, all keys):
  * `C02_bin_invariant` : geometry/mode unchanged, `total = Σ signed amounts`, and EVERY bin
    `i*w + j` holds `binSum ops i j` = Σ of the signed amounts of the operations whose key falls on
    column `j` in row `i` — for every query mode (the table does not depend on the mode).
  * `C02_bin_is_sum`, `C02_total_is_sum` : the same per key, as in DESIGN.md:
    `bins[i*w+j] = Σ_{key ∈ keysOf ops, pos i key = j} cnt ops key`, `total = Σ_{key} cnt ops key`.
  * `C02_lower`  : `check key = .ok v` with `cnt ops key ≤ v`            (min mode)
  * `C02_upper`  : `v ≤ total` and `total = Σ signed amounts`            (min mode)
  * `C02_exact_row`, `C02_exact` : if in some row (resp. in every row) no other key of the history
    shares `key`'s column then `v = cnt ops key`                        (min mode)
  * `C02_ret` : at every step of such a history the value returned by `add` / `remove` equals
    `check` of the same key in the resulting state — for all three query modes (including the
    cases where both raise, e.g. mean-min with width 1).
  * `C02_ret_state` : the same for any state with all bins in the int32 range (not only
    histories from `new`), all three modes, any hash list.
  Not proved here: anything about clamped states (see C16), mean / mean-min error bounds.
-/
import PyProb.Lemmas.CmsCore

namespace PyProb.C02
open PyProb CmsCore

/-! ### histories and their specification -/

inductive Op
  | add (key : Key) (n : Int)
  | remove (key : Key) (n : Int)

def Op.key : Op → Key
  | .add k _ => k
  | .remove k _ => k

/-- `+n` for an add, `-n` for a remove -/
def Op.signed : Op → Int
  | .add _ n => n
  | .remove _ n => -n

/-- the amount that goes into "elements added so far" -/
def Op.added : Op → Int
  | .add _ n => n
  | .remove _ _ => 0

/-- true count of `key`: Σ added − Σ removed -/
def cnt (ops : List Op) (key : Key) : Int :=
  (ops.map fun op => if op.key = key then op.signed else 0).sum

/-- Σ of all signed amounts -/
def totalOf (ops : List Op) : Int := (ops.map Op.signed).sum

/-- Σ of all amounts added (removals not subtracted) -/
def addedOf (ops : List Op) : Int := (ops.map Op.added).sum

/-- `op` is admissible after the history `pre` -/
def OpOK (pre : List Op) : Op → Prop
  | .add _ n => 0 < n
  | .remove key n => 0 < n ∧ n ≤ cnt pre key

/-- at every prefix: amounts positive, a removal never exceeds the key's current count -/
def Legit (ops : List Op) : Prop := ∀ i (h : i < ops.length), OpOK (ops.take i) ops[i]

/-- at every prefix: the amounts added so far fit in a cell -/
def Small (ops : List Op) : Prop := ∀ i, i ≤ ops.length → addedOf (ops.take i) ≤ Gen.int32Max

/-- the distinct keys of a history -/
def keysOf (ops : List Op) : List Key := dedup (ops.map Op.key)

section
variable (w d : Nat) (H : Key → Nat → List Nat)

/-- column of `key` in row `i` -/
def pos (i : Nat) (key : Key) : Nat := (H key d).getD i 0 % w

/-- Σ of the signed amounts that land on column `j` of row `i` -/
def binSum (ops : List Op) (i j : Nat) : Int :=
  (ops.map fun op => if pos w d H i op.key = j then op.signed else 0).sum

/-- one call of the model; the hashes are `H key d` -/
def stepOp (c : CMS) : Op → CMS × R Int
  | .add key n => c.addAlt (H key d) n
  | .remove key n => c.removeAlt (H key d) n

def run (mode : Mode) (ops : List Op) : CMS :=
  ops.foldl (fun c op => (stepOp d H c op).1) (CMS.new w d mode)

/-- the bin invariant: a statement about every bin of the table -/
def BinInv (mode : Mode) (ops : List Op) (c : CMS) : Prop :=
  c.w = w ∧ c.d = d ∧ c.mode = mode ∧ c.bins.length = w * d ∧ c.total = totalOf ops ∧
    ∀ i, i < d → ∀ j, j < w → c.bins[i * w + j]? = some (binSum w d H ops i j)

end

/-! ### private helpers about the specification -/

/-- Σ of the signed amounts of the operations whose key satisfies `p` -/
private def sumP (p : Key → Prop) [DecidablePred p] (ops : List Op) : Int :=
  (ops.map fun op => if p op.key then op.signed else 0).sum

private theorem cnt_eq (ops : List Op) (key : Key) : cnt ops key = sumP (fun k => k = key) ops := rfl

private theorem binSum_eq (w d : Nat) (H : Key → Nat → List Nat) (ops : List Op) (i j : Nat) :
    binSum w d H ops i j = sumP (fun k => pos w d H i k = j) ops := rfl

private theorem totalOf_eq (ops : List Op) : totalOf ops = sumP (fun _ => True) ops := by
  simp [totalOf, sumP]

private theorem sumP_snoc (p : Key → Prop) [DecidablePred p] (ops : List Op) (op : Op) :
    sumP p (ops ++ [op]) = sumP p ops + (if p op.key then op.signed else 0) := by
  simp [sumP, List.map_append, List.sum_append]

private theorem sumP_cons (p : Key → Prop) [DecidablePred p] (ops : List Op) (op : Op) :
    sumP p (op :: ops) = (if p op.key then op.signed else 0) + sumP p ops := by
  simp [sumP]

private theorem addedOf_snoc (ops : List Op) (op : Op) :
    addedOf (ops ++ [op]) = addedOf ops + op.added := by
  simp [addedOf, List.map_append, List.sum_append]

private theorem legit_snoc {ops : List Op} {op : Op} (h : Legit (ops ++ [op])) :
    Legit ops ∧ OpOK ops op := by
  constructor
  · intro i hi
    have := h i (by simp; omega)
    rw [List.take_append_of_le_length (by omega), List.getElem_append_left hi] at this
    exact this
  · have := h ops.length (by simp)
    simpa using this

private theorem legit_snoc_mk {ops : List Op} {op : Op} (h : Legit ops) (ho : OpOK ops op) :
    Legit (ops ++ [op]) := by
  intro i hi
  by_cases c : i < ops.length
  · rw [List.take_append_of_le_length (by omega), List.getElem_append_left c]
    exact h i c
  · have e : i = ops.length := by simp at hi; omega
    subst e
    simpa using ho

private theorem small_snoc {ops : List Op} {op : Op} (h : Small (ops ++ [op])) :
    Small ops ∧ addedOf (ops ++ [op]) ≤ Gen.int32Max := by
  constructor
  · intro i hi
    have := h i (by simp; omega)
    rw [List.take_append_of_le_length hi] at this
    exact this
  · have := h (ops ++ [op]).length (Nat.le_refl _)
    rw [List.take_length] at this
    exact this

private theorem small_snoc_mk {ops : List Op} {op : Op} (h : Small ops)
    (ho : addedOf (ops ++ [op]) ≤ Gen.int32Max) : Small (ops ++ [op]) := by
  intro i hi
  by_cases c : i ≤ ops.length
  · rw [List.take_append_of_le_length c]; exact h i c
  · have e : i = (ops ++ [op]).length := by simp at hi ⊢; omega
    rw [e, List.take_length]; exact ho

private theorem legit_amount {ops : List Op} (h : Legit ops) :
    ∀ op ∈ ops, op.signed ≤ op.added ∧ 0 ≤ op.added := by
  intro op hop
  obtain ⟨i, hi, e⟩ := List.mem_iff_getElem.1 hop
  have := h i hi
  rw [e] at this
  cases op with
  | add k n => simp only [OpOK] at this; simp only [Op.signed, Op.added]; omega
  | remove k n => simp only [OpOK] at this; simp only [Op.signed, Op.added]; omega

/-- a legit history never drives a true count below zero -/
private theorem cnt_nonneg : ∀ ops : List Op, Legit ops → ∀ key, 0 ≤ cnt ops key := by
  apply snoc_ind (P := fun ops => Legit ops → ∀ key, 0 ≤ cnt ops key)
  · intro _ key; simp [cnt]
  · intro ops op ih h key
    obtain ⟨h1, h2⟩ := legit_snoc h
    have := ih h1 key
    rw [cnt_eq, sumP_snoc, ← cnt_eq]
    cases op with
    | add k n =>
        simp only [OpOK] at h2
        simp only [Op.key, Op.signed]
        by_cases e : k = key <;> simp only [e, if_true, if_false] <;> omega
    | remove k n =>
        simp only [OpOK] at h2
        simp only [Op.key, Op.signed]
        by_cases e : k = key
        · subst e; simp only [if_true]; omega
        · simp only [e, if_false]; omega

/-- regrouping a filtered sum by key -/
private theorem sumP_by_key (p : Key → Prop) [DecidablePred p] (ks : List Key) (nd : ks.Nodup) :
    ∀ ops : List Op, (∀ op ∈ ops, op.key ∈ ks) →
      sumP p ops = (ks.map fun k => if p k then cnt ops k else 0).sum := by
  intro ops
  induction ops with
  | nil =>
      intro _
      have : (ks.map fun k => if p k then cnt [] k else 0).sum = 0 :=
        sum_map_zero _ _ (fun k _ => by simp [cnt])
      rw [this]; simp [sumP]
  | cons op t ih =>
      intro hc
      have hmem : op.key ∈ ks := hc op (by simp)
      have hf : ∀ k, (if p k then cnt (op :: t) k else 0) =
          (if op.key = k then (if p k then op.signed else 0) else 0) +
            (if p k then cnt t k else 0) := by
        intro k
        rw [cnt_eq, sumP_cons, ← cnt_eq]
        by_cases h1 : p k <;> by_cases h2 : op.key = k <;> simp [h1, h2]
      rw [List.map_congr_left (fun k _ => hf k), sum_map_add,
        sum_map_ite_eq ks op.key (fun k => if p k then op.signed else 0) nd hmem,
        ← ih (fun o ho => hc o (by simp [ho])), sumP_cons]

private theorem keysOf_cover (ops : List Op) : ∀ op ∈ ops, op.key ∈ keysOf ops := by
  intro op hop
  rw [keysOf, mem_dedup]
  exact List.mem_map.2 ⟨op, hop, rfl⟩

private theorem sumP_nonneg (p : Key → Prop) [DecidablePred p] (ops : List Op) (h : Legit ops) :
    0 ≤ sumP p ops := by
  rw [sumP_by_key p (keysOf ops) (nodup_dedup _) ops (keysOf_cover ops)]
  apply sum_map_nonneg
  intro k _
  have := cnt_nonneg ops h k
  split <;> omega

private theorem sumP_split (p : Key → Prop) [DecidablePred p] (ops : List Op) :
    totalOf ops = sumP p ops + sumP (fun k => ¬ p k) ops := by
  rw [totalOf, sumP, sumP, ← sum_map_add]
  congr 1
  apply List.map_congr_left
  intro op _
  by_cases h : p op.key <;> simp [h]

private theorem sumP_le_total (p : Key → Prop) [DecidablePred p] (ops : List Op) (h : Legit ops) :
    sumP p ops ≤ totalOf ops := by
  have := sumP_split p ops
  have := sumP_nonneg (fun k => ¬ p k) ops h
  omega

private theorem total_le_added (ops : List Op) (h : Legit ops) : totalOf ops ≤ addedOf ops :=
  sum_map_le _ _ _ (fun op hop => (legit_amount h op hop).1)

/-- the column of `key` carries at least `cnt key`; the rest is what the colliding keys carry -/
private theorem binSum_split (w d : Nat) (H : Key → Nat → List Nat) (ops : List Op) (i : Nat)
    (key : Key) :
    binSum w d H ops i (pos w d H i key) =
      cnt ops key + sumP (fun k => pos w d H i k = pos w d H i key ∧ k ≠ key) ops := by
  rw [binSum, cnt, sumP, ← sum_map_add]
  congr 1
  apply List.map_congr_left
  intro op _
  by_cases h : op.key = key
  · simp [h]
  · simp [h]

/-! ### private helpers about the model state -/

section
variable {w d : Nat} {H : Key → Nat → List Nat}

private theorem getD_eq_getElem' (l : List Nat) (i : Nat) (h : i < l.length) :
    l.getD i 0 = l[i] := by
  rw [List.getD_eq_getElem?_getD, List.getElem?_eq_getElem h, Option.getD_some]

private theorem cell_lt {i j : Nat} (hi : i < d) (hj : j < w) : i * w + j < w * d := by
  have h2 : (i + 1) * w ≤ d * w := Nat.mul_le_mul_right _ (by omega)
  rw [Nat.mul_comm w d]
  rw [Nat.add_mul] at h2
  omega

/-- every bin of a reachable state lies in `[0, total]` -/
private theorem bins_range {mode : Mode} {ops : List Op} {c : CMS} (hI : BinInv w d H mode ops c)
    (hw : 0 < w) (hL : Legit ops) (x : Nat) :
    0 ≤ c.bins.getD x 0 ∧ c.bins.getD x 0 ≤ totalOf ops := by
  obtain ⟨_, _, _, hlen, _, hb⟩ := hI
  have htot : 0 ≤ totalOf ops := by rw [totalOf_eq]; exact sumP_nonneg _ ops hL
  rw [List.getD_eq_getElem?_getD]
  by_cases hx : x < w * d
  · have h1 : x / w < d := by
      rw [Nat.div_lt_iff_lt_mul hw, Nat.mul_comm]; exact hx
    have h2 : x % w < w := Nat.mod_lt _ hw
    have h3 : x / w * w + x % w = x := by
      rw [Nat.mul_comm]; exact Nat.div_add_mod x w
    have := hb (x / w) h1 (x % w) h2
    rw [h3] at this
    rw [this, binSum_eq, Option.getD_some]
    exact ⟨sumP_nonneg _ ops hL, sumP_le_total _ ops hL⟩
  · have : c.bins[x]? = none := by rw [List.getElem?_eq_none]; omega
    rw [this]; exact ⟨Int.le_refl _, htot⟩

/-- which cells the hashes of `key` touch -/
private theorem mem_idx {c : CMS} (hcw : c.w = w) (hH : ∀ key, (H key d).length = d) (key : Key)
    {i j : Nat} (hi : i < d) (hj : j < w) :
    i * w + j ∈ c.binIdx (H key d) ↔ pos w d H i key = j := by
  have hw : 0 < w := by omega
  rw [mem_binIdx, hcw]
  constructor
  · rintro ⟨i', h', e⟩
    have hm : (H key d)[i'] % w < w := Nat.mod_lt _ hw
    have := row_col_inj hj hm (by omega : j + i * w = (H key d)[i'] % w + i' * w)
    obtain ⟨e1, e2⟩ := this
    subst e1
    rw [pos, getD_eq_getElem' _ _ h']; exact e2.symm
  · intro e
    have h' : i < (H key d).length := by rw [hH]; exact hi
    refine ⟨i, h', ?_⟩
    rw [pos, getD_eq_getElem' _ _ h'] at e
    omega

private theorem idx_cell {c : CMS} (hcw : c.w = w) (hw : 0 < w)
    (hH : ∀ key, (H key d).length = d) (key : Key) (x : Nat) (hx : x ∈ c.binIdx (H key d)) :
    ∃ i, i < d ∧ x = i * w + pos w d H i key ∧ pos w d H i key < w := by
  rw [mem_binIdx, hcw] at hx
  obtain ⟨i, h', e⟩ := hx
  have hi : i < d := by rw [← hH key]; exact h'
  refine ⟨i, hi, ?_, ?_⟩
  · rw [pos, getD_eq_getElem' _ _ h']; omega
  · exact Nat.mod_lt _ hw


/-- what a touched cell holds: the column sum of `key`'s row, which is at least `cnt key` -/
private theorem touched_cell {mode : Mode} {ops : List Op} {c : CMS}
    (hI : BinInv w d H mode ops c) (hw : 0 < w) (hH : ∀ key, (H key d).length = d)
    (hL : Legit ops) (key : Key) (x : Nat) (hx : x ∈ c.binIdx (H key d)) :
    cnt ops key ≤ c.bins.getD x 0 ∧
      ∃ i, i < d ∧ c.bins.getD x 0 = binSum w d H ops i (pos w d H i key) := by
  obtain ⟨hcw, _, _, _, _, hb⟩ := hI
  obtain ⟨i, hi, e, hp⟩ := idx_cell hcw hw hH key x hx
  have hv : c.bins.getD x 0 = binSum w d H ops i (pos w d H i key) := by
    rw [List.getD_eq_getElem?_getD, e, hb i hi _ hp, Option.getD_some]
  refine ⟨?_, i, hi, hv⟩
  rw [hv, binSum_split]
  have := sumP_nonneg (fun k => pos w d H i k = pos w d H i key ∧ k ≠ key) ops hL
  omega

/-- bins after bumping the cells of `key` by `δ`, when no clamp fires on the touched cells -/
private theorem bump_bins {mode : Mode} {ops : List Op} {c : CMS}
    (hI : BinInv w d H mode ops c) (hH : ∀ key, (H key d).length = d) (key : Key) (δ : Int)
    (hfit : ∀ x ∈ c.binIdx (H key d),
      Gen.int32Min ≤ c.bins.getD x 0 + δ ∧ c.bins.getD x 0 + δ ≤ Gen.int32Max) :
    ∀ i, i < d → ∀ j, j < w → (bumpBins c (H key d) δ)[i * w + j]? =
      some (binSum w d H ops i j + (if pos w d H i key = j then δ else 0)) := by
  intro i hi j hj
  obtain ⟨hcw, _, _, hlen, _, hb⟩ := hI
  have hlt := cell_lt hi hj
  rw [bumpBins_getElem? c _ δ _ (by rw [hlen]; exact hlt)]
  have hold : c.bins.getD (i * w + j) 0 = binSum w d H ops i j := by
    rw [List.getD_eq_getElem?_getD, hb i hi j hj, Option.getD_some]
  by_cases hm : pos w d H i key = j
  · have hmem := (mem_idx hcw hH key hi hj).2 hm
    have := hfit _ hmem
    rw [if_pos hmem, if_pos hm, clamp32_id _ this.1 this.2, hold]
  · have hmem : ¬ (i * w + j ∈ c.binIdx (H key d)) := fun h => hm ((mem_idx hcw hH key hi hj).1 h)
    rw [if_neg hmem, if_neg hm, hold, Int.add_zero]

private theorem totalOf_snoc (ops : List Op) (op : Op) :
    totalOf (ops ++ [op]) = totalOf ops + op.signed := by
  simp [totalOf, List.map_append, List.sum_append]

private theorem binSum_snoc (ops : List Op) (op : Op) (i j : Nat) :
    binSum w d H (ops ++ [op]) i j =
      binSum w d H ops i j + (if pos w d H i op.key = j then op.signed else 0) := by
  rw [binSum_eq, sumP_snoc, ← binSum_eq]

/-- one step of a legit, small history: the invariant is kept and the returned value is `check` -/
private theorem step_inv {mode : Mode} {ops : List Op} {c : CMS} {op : Op}
    (hI : BinInv w d H mode ops c) (hw : 0 < w) (hH : ∀ key, (H key d).length = d)
    (hL : Legit (ops ++ [op])) (hS : addedOf (ops ++ [op]) ≤ Gen.int32Max) :
    BinInv w d H mode (ops ++ [op]) (stepOp d H c op).1 ∧
      (stepOp d H c op).2 = (stepOp d H c op).1.checkAlt (H op.key d) := by
  obtain ⟨hL0, hok⟩ := legit_snoc hL
  have hrange := bins_range hI hw hL0
  have htot' : 0 ≤ totalOf (ops ++ [op]) := by rw [totalOf_eq]; exact sumP_nonneg _ _ hL
  have hta' := total_le_added _ hL
  have hta := total_le_added _ hL0
  have hts := totalOf_snoc ops op
  have has := addedOf_snoc ops op
  have hI' := hI
  obtain ⟨hcw, hcd, hmode, hlen, htotal, hb⟩ := hI
  cases op with
  | add key n =>
      simp only [OpOK] at hok
      simp only [Op.signed] at hts
      simp only [Op.added] at has
      have hany := binIdx_any_false c (H key d) (by rw [hcw]; exact hw)
        (by rw [hH, hcd]; exact Nat.le_refl _) (by rw [hlen, hcw, hcd])
      have hlo : ∀ x ∈ c.binIdx (H key d), Gen.int32Min ≤ c.bins.getD x 0 + n := by
        intro x _; have := (hrange x).1; simp only [Gen.int32Min]; omega
      have hfit : ∀ x ∈ c.binIdx (H key d),
          Gen.int32Min ≤ c.bins.getD x 0 + n ∧ c.bins.getD x 0 + n ≤ Gen.int32Max := by
        intro x hx
        refine ⟨hlo x hx, ?_⟩
        have := (hrange x).2; omega
      simp only [stepOp, Op.key]
      rw [addAlt_eq c _ n hany hlo]
      refine ⟨⟨hcw, hcd, hmode, by simp only [bumpBins_length]; exact hlen, ?_, ?_⟩,
        (checkAlt_bump c _ n _ hany).symm⟩
      · simp only [Gen.int32Max] at hS
        simp only [htotal, Gen.int64Max]; omega
      · intro i hi j hj
        rw [bump_bins hI' hH key n hfit i hi j hj, binSum_snoc]
        rfl
  | remove key n =>
      simp only [OpOK] at hok
      simp only [Op.signed] at hts
      simp only [Op.added] at has
      have hany := binIdx_any_false c (H key d) (by rw [hcw]; exact hw)
        (by rw [hH, hcd]; exact Nat.le_refl _) (by rw [hlen, hcw, hcd])
      have hhi : ∀ x ∈ c.binIdx (H key d), c.bins.getD x 0 - n ≤ Gen.int32Max := by
        intro x _; have := (hrange x).2; omega
      have hfit : ∀ x ∈ c.binIdx (H key d),
          Gen.int32Min ≤ c.bins.getD x 0 + -n ∧ c.bins.getD x 0 + -n ≤ Gen.int32Max := by
        intro x hx
        have h1 := (touched_cell hI' hw hH hL0 key x hx).1
        have h2 := hhi x hx
        simp only [Gen.int32Min]; simp only [Gen.int32Max] at h2 ⊢
        omega
      simp only [stepOp, Op.key]
      rw [removeAlt_eq c _ n hany hhi]
      refine ⟨⟨hcw, hcd, hmode, by simp only [bumpBins_length]; exact hlen, ?_, ?_⟩,
        (checkAlt_bump c _ (-n) _ hany).symm⟩
      · simp only [htotal, Gen.int64Min]; omega
      · intro i hi j hj
        rw [bump_bins hI' hH key (-n) hfit i hi j hj, binSum_snoc]
        rfl

private theorem run_snoc (mode : Mode) (ops : List Op) (op : Op) :
    run w d H mode (ops ++ [op]) = (stepOp d H (run w d H mode ops) op).1 := by
  simp [run, List.foldl_append]

end

/-! ### the property theorems -/

section
variable {w d : Nat} {H : Key → Nat → List Nat}

/-- the bin invariant: after every legit, small history, in every query mode, every bin is the
    sum of the signed amounts that were hashed onto it, and the total is the sum of all of them -/
theorem C02_bin_invariant (hw : 0 < w) (hH : ∀ key, (H key d).length = d) (mode : Mode) :
    ∀ ops : List Op, Legit ops → Small ops → BinInv w d H mode ops (run w d H mode ops) := by
  apply snoc_ind (P := fun ops => Legit ops → Small ops → BinInv w d H mode ops (run w d H mode ops))
  · intro _ _
    refine ⟨rfl, rfl, rfl, by simp [run, CMS.new], by simp [run, CMS.new, totalOf], ?_⟩
    intro i hi j hj
    have := cell_lt hi hj
    simp [run, CMS.new, binSum, this]
  · intro ops op ih hL hS
    obtain ⟨hS0, hS1⟩ := small_snoc hS
    rw [run_snoc]
    exact (step_inv (ih (legit_snoc hL).1 hS0) hw hH hL hS1).1

/-- `cms_bin_is_sum` of DESIGN.md: every bin is the sum of the true counts of the distinct keys
    of the history that fall on it -/
theorem C02_bin_is_sum (hw : 0 < w) (hH : ∀ key, (H key d).length = d) (mode : Mode)
    (ops : List Op) (hL : Legit ops) (hS : Small ops) (i j : Nat) (hi : i < d) (hj : j < w) :
    (run w d H mode ops).bins[i * w + j]? =
      some ((keysOf ops).map fun key => if pos w d H i key = j then cnt ops key else 0).sum := by
  rw [(C02_bin_invariant hw hH mode ops hL hS).2.2.2.2.2 i hi j hj, binSum_eq,
    sumP_by_key _ (keysOf ops) (nodup_dedup _) ops (keysOf_cover ops)]

/-- the element total is the sum of the true counts of the distinct keys -/
theorem C02_total_is_sum (hw : 0 < w) (hH : ∀ key, (H key d).length = d) (mode : Mode)
    (ops : List Op) (hL : Legit ops) (hS : Small ops) :
    (run w d H mode ops).total = ((keysOf ops).map (cnt ops)).sum ∧
      (run w d H mode ops).total = totalOf ops := by
  have h := (C02_bin_invariant hw hH mode ops hL hS).2.2.2.2.1
  refine ⟨?_, h⟩
  rw [h, totalOf_eq, sumP_by_key _ (keysOf ops) (nodup_dedup _) ops (keysOf_cover ops)]
  simp

/-- `keysOf` lists every key of the history exactly once -/
theorem C02_keysOf (ops : List Op) :
    (keysOf ops).Nodup ∧ ∀ key, key ∈ keysOf ops ↔ ∃ op ∈ ops, op.key = key := by
  refine ⟨nodup_dedup _, fun key => ?_⟩
  rw [keysOf, mem_dedup, List.mem_map]

private theorem check_core {ops : List Op} {c : CMS} (hI : BinInv w d H .min ops c) (hw : 0 < w)
    (hd : 0 < d) (hH : ∀ key, (H key d).length = d) (hL : Legit ops) (key : Key) :
    ∃ v, c.checkAlt (H key d) = .ok v ∧ cnt ops key ≤ v ∧
      (∃ i, i < d ∧ v = binSum w d H ops i (pos w d H i key)) ∧
      ∀ i, i < d → v ≤ binSum w d H ops i (pos w d H i key) := by
  have hI' := hI
  obtain ⟨hcw, hcd, hmode, hlen, _, hb⟩ := hI
  have hany := binIdx_any_false c (H key d) (by rw [hcw]; exact hw)
    (by rw [hH, hcd]; exact Nat.le_refl _) (by rw [hlen, hcw, hcd])
  have hne : (c.binIdx (H key d)).map (fun x => c.bins.getD x 0) ≠ [] := by
    intro e
    have := congrArg List.length e
    simp [binIdx_length, hH] at this; omega
  obtain ⟨v, hv, hmem, hmin⟩ := query_min c c.total _ hmode hne
  refine ⟨v, by simp only [CMS.checkAlt, hany, Bool.false_eq_true, if_false]; exact hv, ?_, ?_, ?_⟩
  · obtain ⟨x, hx, e⟩ := List.mem_map.1 hmem
    rw [← e]; exact (touched_cell hI' hw hH hL key x hx).1
  · obtain ⟨x, hx, e⟩ := List.mem_map.1 hmem
    obtain ⟨i, hi, e2⟩ := (touched_cell hI' hw hH hL key x hx).2
    exact ⟨i, hi, by rw [← e, e2]⟩
  · intro i hi
    have hp : pos w d H i key < w := Nat.mod_lt _ hw
    have hx := (mem_idx hcw hH key hi hp).2 rfl
    have := hmin _ (List.mem_map.2 ⟨_, hx, rfl⟩)
    rw [List.getD_eq_getElem?_getD, hb i hi _ hp, Option.getD_some] at this
    exact this

/-- the estimate is never below the true count -/
theorem C02_lower (hw : 0 < w) (hd : 0 < d) (hH : ∀ key, (H key d).length = d) (ops : List Op)
    (hL : Legit ops) (hS : Small ops) (key : Key) :
    ∃ v, (run w d H .min ops).checkAlt (H key d) = .ok v ∧ cnt ops key ≤ v := by
  obtain ⟨v, h1, h2, _⟩ := check_core (C02_bin_invariant hw hH .min ops hL hS) hw hd hH hL key
  exact ⟨v, h1, h2⟩

/-- the estimate is never above the element total, which is the sum of all signed amounts -/
theorem C02_upper (hw : 0 < w) (hd : 0 < d) (hH : ∀ key, (H key d).length = d) (ops : List Op)
    (hL : Legit ops) (hS : Small ops) (key : Key) :
    ∃ v, (run w d H .min ops).checkAlt (H key d) = .ok v ∧ v ≤ (run w d H .min ops).total ∧
      (run w d H .min ops).total = totalOf ops := by
  have hI := C02_bin_invariant hw hH .min ops hL hS
  obtain ⟨v, h1, _, ⟨i, _, e⟩, _⟩ := check_core hI hw hd hH hL key
  refine ⟨v, h1, ?_, hI.2.2.2.2.1⟩
  rw [hI.2.2.2.2.1, e, binSum_eq]
  exact sumP_le_total _ ops hL

/-- one collision-free row is enough for an exact estimate -/
theorem C02_exact_row (hw : 0 < w) (hd : 0 < d) (hH : ∀ key, (H key d).length = d)
    (ops : List Op) (hL : Legit ops) (hS : Small ops) (key : Key)
    (hfree : ∃ i, i < d ∧ ∀ op ∈ ops, op.key ≠ key → pos w d H i op.key ≠ pos w d H i key) :
    (run w d H .min ops).checkAlt (H key d) = .ok (cnt ops key) := by
  obtain ⟨v, h1, h2, _, h4⟩ := check_core (C02_bin_invariant hw hH .min ops hL hS) hw hd hH hL key
  obtain ⟨i, hi, hf⟩ := hfree
  have h5 := h4 i hi
  rw [binSum_split] at h5
  have hz : sumP (fun k => pos w d H i k = pos w d H i key ∧ k ≠ key) ops = 0 := by
    apply sum_map_zero
    intro op hop
    by_cases e : op.key = key
    · simp [e]
    · simp [hf op hop e]
  rw [h1]
  congr 1
  omega

/-- a key that shares no counter with any other key of the history is estimated exactly -/
theorem C02_exact (hw : 0 < w) (hd : 0 < d) (hH : ∀ key, (H key d).length = d)
    (ops : List Op) (hL : Legit ops) (hS : Small ops) (key : Key)
    (hfree : ∀ i, i < d → ∀ op ∈ ops, op.key ≠ key → pos w d H i op.key ≠ pos w d H i key) :
    (run w d H .min ops).checkAlt (H key d) = .ok (cnt ops key) :=
  C02_exact_row hw hd hH ops hL hS key ⟨0, hd, hfree 0 hd⟩

/-- at every step of a legit, small history, in each of the three query modes, the value returned
    by `add` / `remove` is what `check` reports for that key in the resulting state -/
theorem C02_ret (hw : 0 < w) (hH : ∀ key, (H key d).length = d) (mode : Mode) (ops : List Op)
    (op : Op) (hL : Legit (ops ++ [op])) (hS : Small (ops ++ [op])) :
    (stepOp d H (run w d H mode ops) op).2 =
      (run w d H mode (ops ++ [op])).checkAlt (H op.key d) := by
  obtain ⟨hS0, hS1⟩ := small_snoc hS
  rw [run_snoc]
  exact (step_inv (C02_bin_invariant hw hH mode ops (legit_snoc hL).1 hS0) hw hH hL hS1).2

/-- the same for an arbitrary state whose bins are int32 values (any mode, any hash list, any
    geometry): unless the store loop raises, `add_alt` / `remove_alt` return `check_alt` of the
    new state -/
theorem C02_ret_state (c : CMS) (hs : List Nat) (n : Int) (hn : 0 ≤ n)
    (hb : ∀ v ∈ c.bins, Gen.int32Min ≤ v ∧ v ≤ Gen.int32Max) :
    (c.addAlt hs n).2 = (c.addAlt hs n).1.checkAlt hs ∧
      (c.removeAlt hs n).2 = (c.removeAlt hs n).1.checkAlt hs := by
  have hg : ∀ x, Gen.int32Min ≤ c.bins.getD x 0 ∧ c.bins.getD x 0 ≤ Gen.int32Max := by
    intro x
    rw [List.getD_eq_getElem?_getD]
    cases e : c.bins[x]? with
    | none => simp [Gen.int32Min, Gen.int32Max]
    | some v => exact hb v (List.mem_of_getElem? e)
  constructor
  · exact addAlt_ret c hs n (fun x _ => by have := (hg x).1; omega)
  · exact removeAlt_ret c hs n (fun x _ => by have := (hg x).2; omega)

end

/-! ### non-vacuity: a concrete colliding history (tests, not theorems) -/

/-- toy strategy: hash `i` of a key is `(Σ code points) * (i+1)` -/
def exH : Key → Nat → List Nat := fun key n => (List.range n).map fun i => key.units.sum * (i + 1)

def kA : Key := ⟨true, [0]⟩
def kB : Key := ⟨true, [1]⟩
def kC : Key := ⟨true, [2]⟩

/-- width 2, depth 2: in row 1 all three keys collide, in row 0 `kA` and `kC` collide -/
example : (pos 2 2 exH 0 kA, pos 2 2 exH 0 kB, pos 2 2 exH 0 kC) = (0, 1, 0) ∧
    (pos 2 2 exH 1 kA, pos 2 2 exH 1 kB, pos 2 2 exH 1 kC) = (0, 0, 0) := by decide

def exOps : List Op := [.add kA 3, .add kC 5, .remove kA 1, .add kB 4, .remove kC 5]

private theorem exH_len : ∀ key, (exH key 2).length = 2 := by intro key; simp [exH]

private theorem exOps_legit : Legit exOps := by
  have h0 : Legit [] := by intro i h; simp at h
  have h1 : Legit [.add kA 3] := legit_snoc_mk h0 (by show (0 : Int) < 3; decide)
  have h2 : Legit [.add kA 3, .add kC 5] := legit_snoc_mk h1 (by show (0 : Int) < 5; decide)
  have h3 : Legit [.add kA 3, .add kC 5, .remove kA 1] :=
    legit_snoc_mk h2 (by show (0 : Int) < 1 ∧ (1 : Int) ≤ cnt [.add kA 3, .add kC 5] kA; decide)
  have h4 : Legit [.add kA 3, .add kC 5, .remove kA 1, .add kB 4] :=
    legit_snoc_mk h3 (by show (0 : Int) < 4; decide)
  exact legit_snoc_mk h4 (by
    show (0 : Int) < 5 ∧ (5 : Int) ≤ cnt [.add kA 3, .add kC 5, .remove kA 1, .add kB 4] kC
    decide)

private theorem exOps_small : Small exOps := by
  have h0 : Small [] := by
    intro i h
    have : i = 0 := by simpa using h
    subst this; decide
  have h1 : Small [.add kA 3] := small_snoc_mk h0 (by decide)
  have h2 : Small [.add kA 3, .add kC 5] := small_snoc_mk h1 (by decide)
  have h3 : Small [.add kA 3, .add kC 5, .remove kA 1] := small_snoc_mk h2 (by decide)
  have h4 : Small [.add kA 3, .add kC 5, .remove kA 1, .add kB 4] := small_snoc_mk h3 (by decide)
  exact small_snoc_mk h4 (by decide)

/-- the hypotheses of the theorems are satisfiable by a history with collisions and removals -/
example : Legit exOps ∧ Small exOps ∧ (∀ key, (exH key 2).length = 2) :=
  ⟨exOps_legit, exOps_small, exH_len⟩

example : (cnt exOps kA, cnt exOps kB, cnt exOps kC, totalOf exOps) = (2, 4, 0, 6) := by decide

/-- the model's table after the history: the bins are the column sums -/
example : (run 2 2 exH .min exOps).bins = [2, 4, 6, 0] ∧ (run 2 2 exH .min exOps).total = 6 := by
  decide

/-- `kA` (colliding in both rows): `2 ≤ estimate ≤ 6` -/
example : ∃ v, (run 2 2 exH .min exOps).checkAlt (exH kA 2) = .ok v ∧ cnt exOps kA ≤ v :=
  C02_lower (by decide) (by decide) exH_len exOps exOps_legit exOps_small kA

example : ∃ v, (run 2 2 exH .min exOps).checkAlt (exH kA 2) = .ok v ∧
    v ≤ (run 2 2 exH .min exOps).total ∧ (run 2 2 exH .min exOps).total = totalOf exOps :=
  C02_upper (by decide) (by decide) exH_len exOps exOps_legit exOps_small kA

/-- `kB` is alone in row 0 (but not in row 1): estimated exactly -/
example : (run 2 2 exH .min exOps).checkAlt (exH kB 2) = .ok (cnt exOps kB) :=
  C02_exact_row (by decide) (by decide) exH_len exOps exOps_legit exOps_small kB
    ⟨0, by decide, by decide⟩

/-- the value returned by the last removal is `check kC` afterwards, in mean-min mode too -/
example : (stepOp 2 exH (run 2 2 exH .meanMin (exOps.take 4)) (.remove kC 5)).2 =
    (run 2 2 exH .meanMin exOps).checkAlt (exH kC 2) :=
  C02_ret (by decide) exH_len .meanMin (exOps.take 4) (.remove kC 5) exOps_legit exOps_small

end PyProb.C02
