/-
  C05 — export followed by load reproduces the structure: Bloom family (Bloom filter, counting
  Bloom filter, expanding / rotating Bloom filters).  The overview of the whole property, with the
  hypotheses and what they mean, is in `Properties/C05.lean`; the count-min part is in
  `Properties/C05_cms.lean` and the cuckoo part in `Properties/C05_cuckoo.lean`.
-/
import PyProb.Lemmas.FormatsBloom
import PyProb.Lemmas.WFOpsBloom

namespace PyProb.C05
open PyProb

/-! ## well-formedness predicates -/

/-- "reloading re-derives the same geometry" -/
def GeomStable (geom : Geom) (est fpr32 k m : Nat) : Prop := geom est fpr32 = .ok (fpr32, k, m)

structure BloomWF (b : Bloom) : Prop where
  len : b.bits.length = Bloom.lengthOf b.m
  bytes : ∀ x ∈ b.bits, x < 256
  est : b.est < 2 ^ 64
  fpr : b.fpr32 < 2 ^ 32
  cnt0 : 0 ≤ b.count
  cnt1 : b.count < 2 ^ 64

structure CBFWF (c : CBF) : Prop where
  len : c.cells.length = c.m
  cells : ∀ x ∈ c.cells, 0 ≤ x ∧ x ≤ 4294967295
  est : c.est < 2 ^ 64
  fpr : c.fpr32 < 2 ^ 32
  cnt0 : 0 ≤ c.count
  cnt1 : c.count < 2 ^ 64

/-- every sub-filter has the shared parameters and a full-size bit array -/
def SubsOK (e : Expanding) : Prop :=
  ∀ b ∈ e.blooms, b.est = e.est ∧ b.fpr32 = e.fpr32 ∧ b.k = e.k ∧ b.m = e.m ∧
    b.bits.length = Bloom.lengthOf e.m

instance (e : Expanding) : Decidable (SubsOK e) := by unfold SubsOK; infer_instance

structure ExpandingWF (e : Expanding) : Prop where
  nonempty : e.blooms ≠ []
  subs : SubsOK e
  counts : ∀ b ∈ e.blooms, 0 ≤ b.count ∧ b.count < 2 ^ 64
  size : e.blooms.length < 2 ^ 64
  est : e.est < 2 ^ 64
  fpr : e.fpr32 < 2 ^ 32
  added0 : 0 ≤ e.added
  added1 : e.added < 2 ^ 64

/-! ## Bloom filter -/

theorem C05_bloom_export_ok (b : Bloom) (wf : BloomWF b) : ∃ bytes, b.exportBytes = .ok bytes := by
  have h1 := wf.est; have h2 := wf.fpr; have h3 := wf.cnt0; have h4 := wf.cnt1
  unfold Bloom.exportBytes Bloom.footerVals
  rw [bloomFooter_pack, if_neg (by omega), if_neg (by omega), if_neg (by omega)]
  exact ⟨_, rfl⟩

/-- binary channel (`export`/`bytes()` then `frombytes`/`_load`) -/
theorem C05_bloom_roundtrip (geom : Geom) (b : Bloom) (bytes : Bytes)
    (hlen : b.bits.length = Bloom.lengthOf b.m)
    (hg : GeomStable geom b.est b.fpr32 b.k b.m)
    (h : b.exportBytes = .ok bytes) : Bloom.load geom bytes = .ok b := by
  unfold Bloom.exportBytes at h
  split at h
  · rename_i f hf
    injection h with h; subst h
    unfold Bloom.load
    rw [lastN_append _ _ _ (pack_length _ _ _ hf), ofFooter_pack geom _ f _ _ _ _ _ _ hf hg]
    simp only [Bloom.bloomLength, bloomCell_size, Nat.one_mul]
    rw [take_append_of_length _ _ _ hlen]
  · cases h

/-- a second export of the reloaded filter gives exactly the same bytes -/
theorem C05_bloom_stable (geom : Geom) (b : Bloom) (bytes : Bytes)
    (hlen : b.bits.length = Bloom.lengthOf b.m)
    (hg : GeomStable geom b.est b.fpr32 b.k b.m)
    (h : b.exportBytes = .ok bytes) :
    ∃ b', Bloom.load geom bytes = .ok b' ∧ b'.exportBytes = .ok bytes :=
  ⟨b, C05_bloom_roundtrip geom b bytes hlen hg h, h⟩

/-- hex channel (`export_hex` then `_load_hex`) -/
theorem C05_bloom_hex_roundtrip (geom : Geom) (b : Bloom) (hex : List Char)
    (hlen : b.bits.length = Bloom.lengthOf b.m)
    (hbytes : ∀ x ∈ b.bits, x < 256)
    (hg : GeomStable geom b.est b.fpr32 b.k b.m)
    (h : b.exportHex = .ok hex) : Bloom.loadHex geom hex = .ok b := by
  unfold Bloom.exportHex at h
  split at h
  · rename_i f hf
    injection h with h; subst h
    have hfl : f.length = 20 := by rw [pack_length _ _ _ hf, bloomFooterHex_size]
    have htake : b.bits.take b.bloomLength = b.bits := List.take_of_length_le (by simp [Bloom.bloomLength, hlen])
    unfold Bloom.loadHex
    simp only [bloomFooterHex_size, htake]
    rw [lastN_append _ _ _ (by rw [hexlify_length, hfl])]
    rw [List.length_append, hexlify_length f, hfl, Nat.add_sub_cancel, List.take_left]
    rw [unhexlify_hexlify _ (pack_lt _ _ _ hf), unhexlify_hexlify _ hbytes]
    simp only [ofFooter_pack geom _ f _ _ _ _ _ _ hf hg]
  · cases h

/-- the hex text is the hex of the binary export's cell prefix, and decodes to it -/
theorem C05_bloom_hex_same_payload (b : Bloom) (hex : List Char) (bytes : Bytes)
    (hlen : b.bits.length = Bloom.lengthOf b.m)
    (hh : b.exportHex = .ok hex) (hb : b.exportBytes = .ok bytes) :
    hex.take (2 * b.bloomLength) = hexlify (bytes.take b.bloomLength) ∧
    ((∀ x ∈ b.bits, x < 256) → unhexlify (hex.take (2 * b.bloomLength)) = some (bytes.take b.bloomLength)) := by
  unfold Bloom.exportHex at hh
  unfold Bloom.exportBytes at hb
  split at hh
  · split at hb
    · injection hh with hh; injection hb with hb; subst hh; subst hb
      have hl : b.bits.length = b.bloomLength := hlen
      have htake : b.bits.take b.bloomLength = b.bits := List.take_of_length_le (by omega)
      rw [htake, take_append_of_length _ _ _ (by rw [hexlify_length, hl]), take_append_of_length _ _ _ hl]
      exact ⟨rfl, fun hx => unhexlify_hexlify _ hx⟩
    · cases hb
  · cases hh

/-- both channels carry the same footer values, in the byte order of their layout -/
theorem C05_bloom_hex_same_footer (b : Bloom) (hex : List Char) (bytes : Bytes)
    (hh : b.exportHex = .ok hex) (hb : b.exportBytes = .ok bytes) :
    (unhexlify (Bloom.lastN (2 * Gen.bloomFooterHex.size) hex)).map Gen.bloomFooterHex.unpack
      = some (Gen.bloomFooter.unpack (Bloom.lastN Gen.bloomFooter.size bytes)) := by
  unfold Bloom.exportHex at hh
  unfold Bloom.exportBytes at hb
  split at hh
  · rename_i fh hfh
    split at hb
    · rename_i fb hfb
      injection hh with hh; injection hb with hb; subst hh; subst hb
      have hfl : fh.length = 20 := by rw [pack_length _ _ _ hfh, bloomFooterHex_size]
      rw [lastN_append _ _ _ (pack_length _ _ _ hfb), bloomFooterHex_size,
        lastN_append _ _ _ (by rw [hexlify_length, hfl]), unhexlify_hexlify _ (pack_lt _ _ _ hfh)]
      simp only [Option.map_some, unpack_pack _ _ _ hfh, unpack_pack _ _ _ hfb]
    · cases hb
  · cases hh

/-! ### reachable Bloom states are well formed -/

theorem C05_bloom_new_wf (est fpr32 k m : Nat) (he : est < 2 ^ 64) (hf : fpr32 < 2 ^ 32) :
    BloomWF (Bloom.new est fpr32 k m) := by
  refine ⟨by simp [Bloom.new], ?_, he, hf, by simp [Bloom.new], by simp [Bloom.new]⟩
  intro x hx
  simp only [Bloom.new, List.mem_replicate] at hx
  omega

private theorem setBitB_lt (bs : Bytes) (k : Nat) (h : ∀ x ∈ bs, x < 256) : ∀ x ∈ setBitB bs k, x < 256 := by
  intro x hx
  unfold setBitB at hx
  rcases List.mem_or_eq_of_mem_set hx with hx | rfl
  · exact h x hx
  · have h1 : bs.getD (k / 8) 0 < 2 ^ 8 := by
      rw [List.getD_eq_getElem?_getD]
      cases hq : bs[k / 8]? with
      | none => simp
      | some v => simpa using h v (List.mem_of_getElem? hq)
    have h2 : 1 <<< (k % 8) < 2 ^ 8 := by
      rw [Nat.one_shiftLeft]; exact Nat.pow_lt_pow_right (by decide) (Nat.mod_lt _ (by decide))
    exact Nat.or_lt_two_pow h1 h2

private theorem foldl_setBitB_inv (ps : List Nat) (bs : Bytes) (n : Nat)
    (hl : bs.length = n) (h : ∀ x ∈ bs, x < 256) :
    (ps.foldl setBitB bs).length = n ∧ ∀ x ∈ ps.foldl setBitB bs, x < 256 := by
  induction ps generalizing bs with
  | nil => exact ⟨hl, h⟩
  | cons p ps ih =>
      simp only [List.foldl_cons]
      exact ih _ (by simp [setBitB, hl]) (setBitB_lt _ _ h)

/-- `add_alt` keeps the array shape and the byte range; the counter stays below 2^64 as long as
    fewer than 2^64 elements were added (beyond that the real `export` raises `struct.error`) -/
theorem C05_bloom_add_wf (b : Bloom) (hs : List Nat) (wf : BloomWF b) (hc : b.count + 1 < 2 ^ 64) :
    BloomWF (b.addAlt hs).1 := by
  have hinv := foldl_setBitB_inv (b.positions hs) b.bits _ wf.len wf.bytes
  have h0 := wf.cnt0; have h1 := wf.cnt1
  unfold Bloom.addAlt
  simp only
  split
  · exact ⟨hinv.1, hinv.2, wf.est, wf.fpr, wf.cnt0, wf.cnt1⟩
  · exact ⟨hinv.1, hinv.2, wf.est, wf.fpr, by simp only; omega, hc⟩

/-! ## counting Bloom filter -/

theorem C05_cbf_export_ok (c : CBF) (wf : CBFWF c) : ∃ bytes, c.exportBytes = .ok bytes := by
  have h1 := wf.est; have h2 := wf.fpr; have h3 := wf.cnt0; have h4 := wf.cnt1
  unfold CBF.exportBytes CBF.footerVals
  rw [bloomFooter_pack, if_neg (by omega), if_neg (by omega), if_neg (by omega)]
  exact ⟨_, rfl⟩

private theorem u32_range {cells : List Int} (h : ∀ x ∈ cells, 0 ≤ x ∧ x ≤ 4294967295) :
    ∀ c ∈ cells, Field.u32.lo ≤ c ∧ c ≤ Field.u32.hi := by
  intro c hc; simpa [Field.lo, Field.hi, Gen.uint32Max] using h c hc

theorem C05_cbf_roundtrip (geom : Geom) (c : CBF) (bytes : Bytes)
    (hlen : c.cells.length = c.m)
    (hcells : ∀ x ∈ c.cells, 0 ≤ x ∧ x ≤ 4294967295)
    (hg : GeomStable geom c.est c.fpr32 c.k c.m)
    (h : c.exportBytes = .ok bytes) : CBF.load geom bytes = .ok c := by
  unfold CBF.exportBytes at h
  split at h
  · rename_i f hf
    injection h with h; subst h
    unfold CBF.load
    rw [lastN_append _ _ _ (pack_length _ _ _ hf), ofFooter_pack geom _ f _ _ _ _ _ _ hf hg]
    simp only [cbfCell_size]
    rw [take_append_of_length _ _ _ (by rw [cellsBytes_length, hlen]; rfl)]
    rw [bytesCells_cellsBytes _ _ _ hlen.symm (u32_range hcells)]
  · cases h

theorem C05_cbf_stable (geom : Geom) (c : CBF) (bytes : Bytes)
    (hlen : c.cells.length = c.m)
    (hcells : ∀ x ∈ c.cells, 0 ≤ x ∧ x ≤ 4294967295)
    (hg : GeomStable geom c.est c.fpr32 c.k c.m)
    (h : c.exportBytes = .ok bytes) :
    ∃ c', CBF.load geom bytes = .ok c' ∧ c'.exportBytes = .ok bytes :=
  ⟨c, C05_cbf_roundtrip geom c bytes hlen hcells hg h, h⟩

theorem C05_cbf_hex_roundtrip (geom : Geom) (c : CBF) (hex : List Char)
    (hlen : c.cells.length = c.m)
    (hcells : ∀ x ∈ c.cells, 0 ≤ x ∧ x ≤ 4294967295)
    (hg : GeomStable geom c.est c.fpr32 c.k c.m)
    (h : c.exportHex = .ok hex) : CBF.loadHex geom hex = .ok c := by
  unfold CBF.exportHex at h
  split at h
  · rename_i f hf
    injection h with h; subst h
    have hfl : f.length = 20 := by rw [pack_length _ _ _ hf, bloomFooterHex_size]
    unfold CBF.loadHex
    simp only [bloomFooterHex_size]
    rw [lastN_append _ _ _ (by rw [hexlify_length, hfl])]
    rw [List.length_append, hexlify_length f, hfl, Nat.add_sub_cancel, List.take_left]
    rw [unhexlify_hexlify _ (pack_lt _ _ _ hf), unhexlify_hexlify _ (cellsBytes_lt _ _)]
    simp only [ofFooter_pack geom _ f _ _ _ _ _ _ hf hg, cbfCell_size, cellsBytes_length, Field.size]
    rw [if_neg (by simp)]
    rw [bytesCells_cellsBytes _ _ _ (by omega) (u32_range hcells)]
  · cases h

/-- the hex text is the hex of the binary export's cell prefix -/
theorem C05_cbf_hex_same_payload (c : CBF) (hex : List Char) (bytes : Bytes)
    (hh : c.exportHex = .ok hex) (hb : c.exportBytes = .ok bytes) :
    hex.take (2 * (4 * c.cells.length)) = hexlify (bytes.take (4 * c.cells.length)) ∧
    unhexlify (hex.take (2 * (4 * c.cells.length))) = some (bytes.take (4 * c.cells.length)) := by
  unfold CBF.exportHex at hh
  unfold CBF.exportBytes at hb
  split at hh
  · split at hb
    · injection hh with hh; injection hb with hb; subst hh; subst hb
      have hl : (cellsBytes .u32 c.cells).length = 4 * c.cells.length := by rw [cellsBytes_length]; rfl
      rw [take_append_of_length _ _ _ (by rw [hexlify_length, hl]), take_append_of_length _ _ _ hl]
      exact ⟨rfl, unhexlify_hexlify _ (cellsBytes_lt _ _)⟩
    · cases hb
  · cases hh

theorem C05_cbf_new_wf (est fpr32 k m : Nat) (he : est < 2 ^ 64) (hf : fpr32 < 2 ^ 32) :
    CBFWF (CBF.new est fpr32 k m) := by
  refine ⟨by simp [CBF.new], ?_, he, hf, by simp [CBF.new], by simp [CBF.new]⟩
  intro x hx
  simp only [CBF.new, List.mem_replicate] at hx
  omega

/-- `add_alt` (any hash list, any `num_els`) keeps the array shape and the cell range -/
theorem C05_cbf_add_wf (c : CBF) (hs : List Nat) (n : Int)
    (hlen : c.cells.length = c.m) (hcells : ∀ x ∈ c.cells, 0 ≤ x ∧ x ≤ 4294967295) :
    (c.addAlt hs n).1.cells.length = (c.addAlt hs n).1.m ∧
      ∀ x ∈ (c.addAlt hs n).1.cells, 0 ≤ x ∧ x ≤ 4294967295 := by
  obtain ⟨h1, h2, h3⟩ := cbf_addAlt_ok c hs n hcells
  exact ⟨by rw [h2, h3, hlen], h1⟩

/-- `remove_alt` with a non-negative `num_els` keeps the array shape and the cell range -/
theorem C05_cbf_remove_wf (c : CBF) (hs : List Nat) (n : Int) (hn : 0 ≤ n)
    (hlen : c.cells.length = c.m) (hcells : ∀ x ∈ c.cells, 0 ≤ x ∧ x ≤ 4294967295) :
    (c.removeAlt hs n).1.cells.length = (c.removeAlt hs n).1.m ∧
      ∀ x ∈ (c.removeAlt hs n).1.cells, 0 ≤ x ∧ x ≤ 4294967295 := by
  obtain ⟨h1, h2, h3⟩ := cbf_removeAlt_ok c hs n hn hcells
  exact ⟨by rw [h2, h3, hlen], h1⟩

/-! ## expanding and rotating Bloom filters -/

private theorem go_ok (blooms : List Bloom) (h : ∀ b ∈ blooms, 0 ≤ b.count ∧ b.count < 2 ^ 64) :
    ∃ body, Expanding.exportBytes.go blooms = .ok body := by
  induction blooms with
  | nil => exact ⟨_, rfl⟩
  | cons b bs ih =>
      obtain ⟨rest, hrest⟩ := ih (fun x hx => h x (List.mem_cons_of_mem _ hx))
      have hb := h b (by simp)
      simp only [Expanding.exportBytes.go, expCount_pack, hrest]
      rw [if_neg (by omega)]
      exact ⟨_, rfl⟩

theorem C05_expanding_export_ok (e : Expanding) (wf : ExpandingWF e) : ∃ bytes, e.exportBytes = .ok bytes := by
  obtain ⟨body, hbody⟩ := go_ok e.blooms wf.counts
  have h1 := wf.size; have h2 := wf.est; have h3 := wf.fpr; have h4 := wf.added0; have h5 := wf.added1
  unfold Expanding.exportBytes
  rw [hbody, expFooter_pack, if_neg (by omega), if_neg (by omega), if_neg (by omega), if_neg (by omega)]
  exact ⟨_, rfl⟩

theorem C05_expanding_roundtrip (geom : Geom) (e : Expanding) (bytes : Bytes)
    (hne : e.blooms ≠ [])
    (hsubs : SubsOK e)
    (hg : GeomStable geom e.est e.fpr32 e.k e.m)
    (h : e.exportBytes = .ok bytes) : Expanding.load geom bytes = .ok e := by
  unfold Expanding.exportBytes at h
  split at h
  · rename_i body f hbody hf
    injection h with h; subst h
    unfold Expanding.load
    rw [lastN_append _ _ _ (pack_length _ _ _ hf), unpack_pack _ _ _ hf]
    have hlen : 0 < e.blooms.length := List.length_pos_iff.mpr hne
    have hsz : ((e.blooms.length : Int) == 0) = false := by
      simp only [beq_eq_false_iff_ne, ne_eq]; omega
    simp only [hsz, Bool.false_eq_true, if_false, Int.toNat_natCast]
    have hg' : geom (e.est : Int) e.fpr32 = .ok (e.fpr32, e.k, e.m) := hg
    rw [hg']
    simp only [bloomCell_size, Nat.one_mul]
    have hp := parseBlooms_go (Bloom.new e.est e.fpr32 e.k e.m) (Bloom.lengthOf e.m) e.blooms body f
      (by intro b hb; simpa [Bloom.new] using hsubs b hb) hbody
    have : (Bloom.new e.est e.fpr32 e.k e.m).bloomLength = Bloom.lengthOf e.m := rfl
    rw [this, hp]
  · cases h
  · cases h

theorem C05_expanding_stable (geom : Geom) (e : Expanding) (bytes : Bytes)
    (hne : e.blooms ≠ []) (hsubs : SubsOK e)
    (hg : GeomStable geom e.est e.fpr32 e.k e.m)
    (h : e.exportBytes = .ok bytes) :
    ∃ e', Expanding.load geom bytes = .ok e' ∧ e'.exportBytes = .ok bytes :=
  ⟨e, C05_expanding_roundtrip geom e bytes hne hsubs hg h, h⟩

/-- the rotating filter shares the format; its queue limit is re-supplied by the caller -/
def Rotating.load (geom : Geom) (q : Int) (file : Bytes) : R Rotating :=
  match Expanding.load geom file with
  | .ok e => .ok { e with q := q }
  | .error x => .error x

theorem C05_rotating_roundtrip (geom : Geom) (r : Rotating) (bytes : Bytes)
    (hne : r.blooms ≠ []) (hsubs : SubsOK r.toExpanding)
    (hg : GeomStable geom r.est r.fpr32 r.k r.m)
    (h : r.toExpanding.exportBytes = .ok bytes) : Rotating.load geom r.q bytes = .ok r := by
  unfold Rotating.load
  rw [C05_expanding_roundtrip geom r.toExpanding bytes hne hsubs hg h]

theorem C05_expanding_new_wf (est fpr32 k m : Nat) (he : est < 2 ^ 64) (hf : fpr32 < 2 ^ 32) :
    ExpandingWF (Expanding.new est fpr32 k m) := by
  refine ⟨by simp [Expanding.new], ?_, ?_, by simp [Expanding.new], he, hf, by simp [Expanding.new],
    by simp [Expanding.new]⟩
  · intro b hb
    simp only [Expanding.new, List.mem_singleton] at hb
    subst hb; simp [Bloom.new, Expanding.new]
  · intro b hb
    simp only [Expanding.new, List.mem_singleton] at hb
    subst hb; simp [Bloom.new]

/-- growth (`push`, and the growth step of `add_alt`) keeps the sub-filters uniform -/
theorem C05_expanding_push_subs (e : Expanding) (h : SubsOK e) : SubsOK e.push := by
  intro b hb
  simp only [Expanding.push, List.mem_append, List.mem_singleton] at hb
  rcases hb with hb | hb
  · exact h b hb
  · rw [hb]; simp [Expanding.fresh, Bloom.new, Expanding.push]

/-- `add_alt` (growth included) keeps the sub-filters uniform and the list non-empty -/
theorem C05_expanding_add_wf (e : Expanding) (hs : List Nat) (force : Bool)
    (hne : e.blooms ≠ []) (hsubs : SubsOK e) :
    (e.addAlt hs force).1.blooms ≠ [] ∧ SubsOK (e.addAlt hs force).1 :=
  let h := expanding_addAlt_ok e hs force hsubs hne
  ⟨h.2, h.1⟩

/-- rotating filter: `add_alt` (rotation included), `push` and `pop` keep the sub-filters uniform,
    the queue non-empty and the queue limit -/
theorem C05_rotating_add_wf (r : Rotating) (hs : List Nat) (force : Bool)
    (hne : r.blooms ≠ []) (hsubs : SubsOK r.toExpanding) :
    (r.addAlt hs force).1.blooms ≠ [] ∧ SubsOK (r.addAlt hs force).1.toExpanding ∧ (r.addAlt hs force).1.q = r.q :=
  let h := rotating_addAlt_ok r hs force hsubs hne
  ⟨h.2.1, h.1, h.2.2⟩

theorem C05_rotating_push_wf (r : Rotating) (hne : r.blooms ≠ []) (hsubs : SubsOK r.toExpanding) :
    r.push.blooms ≠ [] ∧ SubsOK r.push.toExpanding ∧ r.push.q = r.q := by
  obtain ⟨h1, h2, g1, g2, g3, g4, g5⟩ := rotate_ok r true hsubs hne
  refine ⟨h2, ?_, g5⟩
  intro b hb
  have := h1 b hb
  unfold Rotating.push
  rw [g1, g2, g3, g4]
  exact this

theorem C05_rotating_pop_wf (r r' : Rotating) (hsubs : SubsOK r.toExpanding) (hne : r.blooms ≠ [])
    (hp : r.pop = .ok r') :
    r'.blooms ≠ [] ∧ SubsOK r'.toExpanding ∧ r'.q = r.q := by
  unfold Rotating.pop at hp
  split at hp
  · cases hp
  · rename_i hlen
    injection hp with hp; subst hp
    refine ⟨?_, fun b hb => hsubs b (List.mem_of_mem_drop hb), rfl⟩
    simp only [ne_eq, List.drop_eq_nil_iff, Nat.not_le]
    have : r.blooms.length ≠ 1 := by simpa using hlen
    have : 0 < r.blooms.length := List.length_pos_iff.mpr hne
    omega

/-! ## non-vacuity: concrete states, exported and reloaded (tests) -/

/-- a geometry function for the examples: est 10, some rate pattern ↦ k = 3, m = 13 -/
private def g13 : Geom := fun _ f => .ok (f, 3, 13)

private def b13 : Bloom := ⟨10, 1028443341, 3, 13, [0x25, 0x11], 2⟩
example : BloomWF b13 := ⟨rfl, by decide, by decide, by decide, by decide, by decide⟩
example : Bloom.load g13 (b13.exportBytes.toOption.getD []) = .ok b13 := by rfl
example : ∃ bytes, b13.exportBytes = .ok bytes ∧ bytes.length = 22 ∧ Bloom.load g13 bytes = .ok b13 := by
  obtain ⟨bytes, h⟩ := C05_bloom_export_ok b13 ⟨rfl, by decide, by decide, by decide, by decide, by decide⟩
  refine ⟨bytes, h, ?_, C05_bloom_roundtrip g13 b13 bytes rfl rfl h⟩
  have : b13.exportBytes = .ok (b13.exportBytes.toOption.getD []) := by rfl
  rw [this] at h; injection h with h; rw [← h]; decide
example : Bloom.loadHex g13 (b13.exportHex.toOption.getD []) = .ok b13 := by rfl

private def c5 : CBF := ⟨10, 1028443341, 3, 5, [0, 7, 4294967295, 1, 0], 8⟩
example : CBF.load (fun _ f => .ok (f, 3, 5)) (c5.exportBytes.toOption.getD []) = .ok c5 := by rfl
example : CBF.loadHex (fun _ f => .ok (f, 3, 5)) (c5.exportHex.toOption.getD []) = .ok c5 := by rfl

private def e2 : Expanding :=
  ⟨10, 1028443341, 3, 13, [⟨10, 1028443341, 3, 13, [0xff, 0x1f], 10⟩, ⟨10, 1028443341, 3, 13, [1, 0], 1⟩], 11⟩
example : e2.blooms ≠ [] ∧ SubsOK e2 := ⟨by decide, by decide⟩
example : Expanding.load g13 (e2.exportBytes.toOption.getD []) = .ok e2 := by rfl

end PyProb.C05
